// Package relang analyses constant regular expressions (extracted from the
// repository's sources) with regexp/syntax: capture-group sub-expressions and
// their finite languages.
package relang

import (
	"fmt"
	"regexp/syntax"
	"sort"
	"strings"
	"unicode"
)

// Wild marks "any character" in an enumerated language.
const Wild = "�"

// Group returns the sub-expression of capture group n.
func Group(pattern string, n int) (*syntax.Regexp, error) {
	re, err := syntax.Parse(pattern, syntax.Perl)
	if err != nil {
		return nil, err
	}
	var find func(r *syntax.Regexp) *syntax.Regexp
	find = func(r *syntax.Regexp) *syntax.Regexp {
		if r.Op == syntax.OpCapture && r.Cap == n {
			return r.Sub[0]
		}
		for _, s := range r.Sub {
			if f := find(s); f != nil {
				return f
			}
		}
		return nil
	}
	g := find(re)
	if g == nil {
		return nil, fmt.Errorf("pattern has no capture group %d", n)
	}
	return g, nil
}

// NumGroups returns the number of capture groups.
func NumGroups(pattern string) (int, error) {
	re, err := syntax.Parse(pattern, syntax.Perl)
	if err != nil {
		return 0, err
	}
	return re.MaxCap(), nil
}

// Language enumerates the strings of a star-free expression, lower-cased, with
// Wild standing for a wildcard or a large character class. ok is false when the
// language is infinite or larger than limit.
func Language(r *syntax.Regexp, limit int) (set []string, ok bool) {
	l, ok := lang(r, limit)
	if !ok {
		return nil, false
	}
	m := map[string]bool{}
	for _, s := range l {
		m[strings.ToLower(s)] = true
	}
	for s := range m {
		set = append(set, s)
	}
	sort.Strings(set)
	return set, true
}

func lang(r *syntax.Regexp, limit int) ([]string, bool) {
	switch r.Op {
	case syntax.OpEmptyMatch, syntax.OpBeginText, syntax.OpEndText, syntax.OpBeginLine, syntax.OpEndLine:
		return []string{""}, true
	case syntax.OpLiteral:
		return []string{string(r.Rune)}, true
	case syntax.OpAnyChar, syntax.OpAnyCharNotNL:
		return []string{Wild}, true
	case syntax.OpCharClass:
		// expand small classes (case folding produces [Aa]); else wildcard
		var rs []rune
		n := 0
		for i := 0; i+1 < len(r.Rune); i += 2 {
			n += int(r.Rune[i+1]-r.Rune[i]) + 1
			if n > 8 {
				return []string{Wild}, true
			}
			for c := r.Rune[i]; c <= r.Rune[i+1]; c++ {
				rs = append(rs, c)
			}
		}
		seen := map[rune]bool{}
		var out []string
		for _, c := range rs {
			lc := unicode.ToLower(c)
			// fold exotic case variants (e.g. Kelvin sign) onto ASCII where they fold
			if f := unicode.SimpleFold(c); f < 128 && c >= 128 {
				lc = unicode.ToLower(f)
			}
			if c == 0x17f { // long s folds with s/S
				lc = 's'
			}
			if c == 0x212a {
				lc = 'k'
			}
			if !seen[lc] {
				seen[lc] = true
				out = append(out, string(lc))
			}
		}
		return out, true
	case syntax.OpCapture:
		return lang(r.Sub[0], limit)
	case syntax.OpConcat:
		cur := []string{""}
		for _, s := range r.Sub {
			l, ok := lang(s, limit)
			if !ok {
				return nil, false
			}
			var nxt []string
			for _, a := range cur {
				for _, b := range l {
					nxt = append(nxt, a+b)
					if len(nxt) > limit {
						return nil, false
					}
				}
			}
			cur = nxt
		}
		return cur, true
	case syntax.OpAlternate:
		var out []string
		for _, s := range r.Sub {
			l, ok := lang(s, limit)
			if !ok {
				return nil, false
			}
			out = append(out, l...)
			if len(out) > limit {
				return nil, false
			}
		}
		return out, true
	case syntax.OpQuest:
		l, ok := lang(r.Sub[0], limit)
		if !ok {
			return nil, false
		}
		return append([]string{""}, l...), true
	}
	return nil, false
}

// IsRepeatOfClass reports whether r is X+ / X* / X{n,} (min repetitions
// returned) of a character class, and returns the class as a predicate.
func IsRepeatOfClass(r *syntax.Regexp) (min int, unbounded bool, in func(rune) bool, ok bool) {
	for r.Op == syntax.OpCapture {
		r = r.Sub[0]
	}
	var sub *syntax.Regexp
	switch r.Op {
	case syntax.OpPlus:
		min, unbounded, sub = 1, true, r.Sub[0]
	case syntax.OpStar:
		min, unbounded, sub = 0, true, r.Sub[0]
	case syntax.OpRepeat:
		min, unbounded, sub = r.Min, r.Max < 0, r.Sub[0]
	case syntax.OpCharClass, syntax.OpLiteral, syntax.OpAnyChar, syntax.OpAnyCharNotNL:
		min, unbounded, sub = 1, false, r
	default:
		return 0, false, nil, false
	}
	cl := ClassOf(sub)
	if cl == nil {
		return 0, false, nil, false
	}
	return min, unbounded, cl, true
}

// ClassOf returns the membership predicate of a single-character expression.
func ClassOf(r *syntax.Regexp) func(rune) bool {
	for r.Op == syntax.OpCapture {
		r = r.Sub[0]
	}
	switch r.Op {
	case syntax.OpCharClass:
		rs := append([]rune{}, r.Rune...)
		return func(c rune) bool {
			for i := 0; i+1 < len(rs); i += 2 {
				if c >= rs[i] && c <= rs[i+1] {
					return true
				}
			}
			return false
		}
	case syntax.OpLiteral:
		if len(r.Rune) == 1 {
			l := r.Rune[0]
			fold := r.Flags&syntax.FoldCase != 0
			return func(c rune) bool {
				return c == l || (fold && unicode.ToLower(c) == unicode.ToLower(l))
			}
		}
	case syntax.OpAnyChar:
		return func(rune) bool { return true }
	case syntax.OpAnyCharNotNL:
		return func(c rune) bool { return c != '\n' }
	}
	return nil
}

// FixedAffixes returns the lengths (in bytes) of the literal prefix and the
// literal suffix of a sub-expression that is a concatenation
// literal* variable+ literal*, and whether it has that shape (a variable part
// is anything that is not a plain literal). Case-folded literals do not count
// as fixed.
func FixedAffixes(r *syntax.Regexp) (prefix, suffix int, ok bool) {
	for r.Op == syntax.OpCapture && len(r.Sub) == 1 {
		r = r.Sub[0]
	}
	items := []*syntax.Regexp{r}
	if r.Op == syntax.OpConcat {
		items = r.Sub
	}
	isLit := func(x *syntax.Regexp) bool { return x.Op == syntax.OpLiteral && x.Flags&syntax.FoldCase == 0 }
	i := 0
	for i < len(items) && isLit(items[i]) {
		prefix += len(string(items[i].Rune))
		i++
	}
	j := len(items)
	for j > i && isLit(items[j-1]) {
		suffix += len(string(items[j-1].Rune))
		j--
	}
	if i >= j {
		return prefix, suffix, false // nothing variable in between
	}
	return prefix, suffix, true
}

// MinLen returns the length in bytes of the shortest string the expression matches.
func MinLen(r *syntax.Regexp) int {
	switch r.Op {
	case syntax.OpLiteral:
		return len(string(r.Rune))
	case syntax.OpCharClass, syntax.OpAnyChar, syntax.OpAnyCharNotNL:
		return 1
	case syntax.OpCapture:
		return MinLen(r.Sub[0])
	case syntax.OpConcat:
		n := 0
		for _, s := range r.Sub {
			n += MinLen(s)
		}
		return n
	case syntax.OpAlternate:
		m := -1
		for _, s := range r.Sub {
			if l := MinLen(s); m < 0 || l < m {
				m = l
			}
		}
		if m < 0 {
			return 0
		}
		return m
	case syntax.OpPlus:
		return MinLen(r.Sub[0])
	case syntax.OpRepeat:
		return r.Min * MinLen(r.Sub[0])
	}
	return 0 // star, quest, empty matches, anchors
}

// MinLenOf parses the pattern and returns MinLen.
func MinLenOf(pattern string) (int, error) {
	re, err := syntax.Parse(pattern, syntax.Perl)
	if err != nil {
		return 0, err
	}
	return MinLen(re), nil
}
