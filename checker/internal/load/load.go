// Package load type-checks /repo's current working tree, builds its SSA form
// and exposes helpers shared by every engine.
package load

import (
	"fmt"
	"go/token"
	"go/types"
	"os"
	"path/filepath"
	"sort"
	"strings"

	"golang.org/x/tools/go/callgraph"
	"golang.org/x/tools/go/callgraph/cha"
	"golang.org/x/tools/go/callgraph/vta"
	"golang.org/x/tools/go/packages"
	"golang.org/x/tools/go/ssa"
	"golang.org/x/tools/go/ssa/ssautil"
)

// Module is the import path prefix of the repository under analysis.
const Module = "github.com/elliotchance/gedcom/v39"

// Package path helpers.
const (
	PkgRoot = Module
	PkgUtil = Module + "/util"
	PkgCore = Module + "/html/core"
	PkgHTML = Module + "/html"
	PkgQ    = Module + "/q"
	PkgCmd  = Module + "/cmd/gedcom"
)

// Fatal aborts the run with exit status 2: "could not analyse" is never "holds".
func Fatal(format string, args ...interface{}) {
	fmt.Fprintf(os.Stdout, "ANALYSIS-ERROR "+format+"\n", args...)
	os.Exit(2)
}

// Prog is the loaded, type-checked and SSA-built repository.
type Prog struct {
	Dir     string
	Fset    *token.FileSet
	Pkgs    []*packages.Package
	ByPath  map[string]*packages.Package
	SSA     *ssa.Program
	SSAPkg  map[string]*ssa.Package
	All     map[*ssa.Function]bool // every function of the program (incl. deps)
	Repo    []*ssa.Function        // repository functions with bodies, sorted by position
	repoSet map[*ssa.Function]bool

	vta *callgraph.Graph
	cha *callgraph.Graph
}

// RepoDir returns the tree to analyse: $GEDCOM_REPO (self-tests on scratch
// copies) or /repo.
func RepoDir() string {
	if d := os.Getenv("GEDCOM_REPO"); d != "" {
		return d
	}
	return "/repo"
}

// Load loads all packages of the repository (no tests: the properties are about
// the shipped code) with full syntax and builds SSA.
func Load(needSSA bool) *Prog {
	dir := RepoDir()
	os.Unsetenv("GOWORK")
	env := append(os.Environ(), "GOFLAGS=-mod=mod", "GOPROXY=off", "GOSUMDB=off", "GOWORK=off")
	if os.Getenv("GOTOOLCHAIN") == "" {
		env = append(env, "GOTOOLCHAIN=local")
	}
	for _, kv := range []string{"GEDCHECK_GOOS", "GEDCHECK_GOARCH"} {
		if v := os.Getenv(kv); v != "" {
			env = append(env, strings.TrimPrefix(kv, "GEDCHECK_")+"="+v)
		}
	}
	cfg := &packages.Config{Mode: packages.LoadAllSyntax, Dir: dir, Env: env}
	pkgs, err := packages.Load(cfg, "./...")
	if err != nil {
		Fatal("packages.Load: %v", err)
	}
	p := &Prog{Dir: dir, Pkgs: pkgs, ByPath: map[string]*packages.Package{}, SSAPkg: map[string]*ssa.Package{}}
	n := 0
	for _, pk := range pkgs {
		if len(pk.Errors) > 0 {
			Fatal("package %s has errors: %v", pk.PkgPath, pk.Errors[0])
		}
		if pk.Types == nil || pk.TypesInfo == nil {
			Fatal("package %s not type-checked", pk.PkgPath)
		}
		p.ByPath[pk.PkgPath] = pk
		p.Fset = pk.Fset
		n++
	}
	if n == 0 {
		Fatal("no packages loaded from %s", dir)
	}
	for _, want := range []string{PkgRoot, PkgUtil, PkgCore, PkgHTML, PkgQ, PkgCmd} {
		if p.ByPath[want] == nil {
			Fatal("expected package %s not found in %s", want, dir)
		}
	}
	if !needSSA {
		return p
	}
	prog, spkgs := ssautil.AllPackages(pkgs, ssa.InstantiateGenerics)
	prog.Build()
	p.SSA = prog
	for i, sp := range spkgs {
		if sp == nil {
			Fatal("no SSA for %s", pkgs[i].PkgPath)
		}
		p.SSAPkg[pkgs[i].PkgPath] = sp
	}
	p.All = ssautil.AllFunctions(prog)
	p.repoSet = map[*ssa.Function]bool{}
	for fn := range p.All {
		if fn.Blocks == nil {
			continue
		}
		if p.IsRepoFunc(fn) {
			p.Repo = append(p.Repo, fn)
			p.repoSet[fn] = true
		}
	}
	sort.Slice(p.Repo, func(i, j int) bool {
		a, b := p.Repo[i], p.Repo[j]
		pa, pb := p.Fset.Position(a.Pos()), p.Fset.Position(b.Pos())
		if pa.Filename != pb.Filename {
			return pa.Filename < pb.Filename
		}
		if pa.Offset != pb.Offset {
			return pa.Offset < pb.Offset
		}
		return a.String() < b.String()
	})
	if len(p.Repo) < 500 {
		Fatal("only %d repository functions found; analysis collapsed", len(p.Repo))
	}
	return p
}

// IsRepoPkgPath reports whether path is a package of the repository.
func IsRepoPkgPath(path string) bool {
	return path == Module || strings.HasPrefix(path, Module+"/")
}

// IsRepoFunc reports whether fn belongs to the repository (including synthetic
// wrappers of repository methods and anonymous functions).
func (p *Prog) IsRepoFunc(fn *ssa.Function) bool {
	if fn == nil {
		return false
	}
	if fn.Pkg != nil {
		return IsRepoPkgPath(fn.Pkg.Pkg.Path())
	}
	if par := fn.Parent(); par != nil {
		return p.IsRepoFunc(par)
	}
	if o := fn.Object(); o != nil && o.Pkg() != nil {
		return IsRepoPkgPath(o.Pkg().Path())
	}
	if fn.Signature != nil && fn.Signature.Recv() != nil {
		if named := NamedOf(fn.Signature.Recv().Type()); named != nil && named.Obj().Pkg() != nil {
			return IsRepoPkgPath(named.Obj().Pkg().Path())
		}
	}
	return false
}

// InRepo is IsRepoFunc && has a body.
func (p *Prog) InRepo(fn *ssa.Function) bool { return p.repoSet[fn] }

// NamedOf strips pointers and returns the named type, if any.
func NamedOf(t types.Type) *types.Named {
	for {
		switch tt := t.(type) {
		case *types.Pointer:
			t = tt.Elem()
			continue
		case *types.Named:
			return tt
		case *types.Alias:
			t = types.Unalias(tt)
			continue
		}
		return nil
	}
}

// VTA returns the VTA call graph (built on demand).
func (p *Prog) VTA() *callgraph.Graph {
	if p.vta == nil {
		p.vta = vta.CallGraph(p.All, p.CHA())
	}
	return p.vta
}

// CHA returns the CHA call graph (built on demand).
func (p *Prog) CHA() *callgraph.Graph {
	if p.cha == nil {
		p.cha = cha.CallGraph(p.SSA)
	}
	return p.cha
}

// Pos renders a position relative to the repository root.
func (p *Prog) Pos(pos token.Pos) string {
	if !pos.IsValid() {
		return "-"
	}
	ps := p.Fset.Position(pos)
	rel, err := filepath.Rel(p.Dir, ps.Filename)
	if err != nil || strings.HasPrefix(rel, "..") {
		rel = ps.Filename
	}
	return fmt.Sprintf("%s:%d:%d", rel, ps.Line, ps.Column)
}

// RelFile returns the file of pos relative to the repository root.
func (p *Prog) RelFile(pos token.Pos) string {
	s := p.Pos(pos)
	if i := strings.Index(s, ":"); i >= 0 {
		return s[:i]
	}
	return s
}

// Func finds a package-level function "pkgpath.Name" or method
// "pkgpath.(*T).Name" / "pkgpath.(T).Name"; nil when absent.
func (p *Prog) Func(pkgPath, name string) *ssa.Function {
	sp := p.SSAPkg[pkgPath]
	if sp == nil {
		return nil
	}
	return sp.Func(name)
}

// Method finds method name on type T (pointer receiver set) of pkgPath.
func (p *Prog) Method(pkgPath, typeName, name string) *ssa.Function {
	sp := p.SSAPkg[pkgPath]
	if sp == nil {
		return nil
	}
	t := sp.Type(typeName)
	if t == nil {
		return nil
	}
	T := t.Type()
	for _, recv := range []types.Type{T, types.NewPointer(T)} {
		ms := p.SSA.MethodSets.MethodSet(recv)
		for i := 0; i < ms.Len(); i++ {
			if ms.At(i).Obj().Name() == name {
				return p.SSA.MethodValue(ms.At(i))
			}
		}
	}
	return nil
}

// MustFunc resolves an anchor function or aborts the run.
func (p *Prog) MustFunc(pkgPath, name string) *ssa.Function {
	f := p.Func(pkgPath, name)
	if f == nil || f.Blocks == nil {
		Fatal("anchor function %s.%s not found", pkgPath, name)
	}
	return f
}

// MustMethod resolves an anchor method or aborts the run.
func (p *Prog) MustMethod(pkgPath, typeName, name string) *ssa.Function {
	f := p.Method(pkgPath, typeName, name)
	if f == nil {
		Fatal("anchor method %s.%s.%s not found", pkgPath, typeName, name)
	}
	return f
}

// FuncName gives a stable, readable name of a function: pkg-relative, with
// anonymous functions named parent$N.
func FuncName(fn *ssa.Function) string {
	if fn == nil {
		return "<nil>"
	}
	s := fn.String()
	s = strings.ReplaceAll(s, Module+"/", "")
	s = strings.ReplaceAll(s, Module, "gedcom")
	return s
}

// Global returns the package-level variable pkgPath.name (nil if absent).
func (p *Prog) Global(pkgPath, name string) *ssa.Global {
	sp := p.SSAPkg[pkgPath]
	if sp == nil {
		return nil
	}
	return sp.Var(name)
}
