package absint

import (
	"fmt"
	"regexp"
	"strings"

	"golang.org/x/tools/go/ssa"
)

// Regexp is a compiled-regexp value whose pattern is a folded constant.
type Regexp struct{ Pattern string }

// StringLib models pure standard-library string functions on constants
// (constant folding). It returns ok=false for anything else.
func StringLib(call *ssa.CallCommon, callee *ssa.Function, args []Value) (Value, bool) {
	if callee == nil || callee.Pkg == nil {
		return nil, false
	}
	str := func(i int) (string, bool) {
		if i >= len(args) {
			return "", false
		}
		s, ok := args[i].(string)
		return s, ok
	}
	name := callee.Pkg.Pkg.Path() + "." + callee.Name()
	if callee.Signature.Recv() != nil {
		return nil, false
	}
	bad := func(why string) (Value, bool) { return Unknown{Why: name + ": " + why}, true }
	switch name {
	case "strings.ToLower", "strings.ToUpper", "strings.TrimSpace", "strings.Title", "regexp.QuoteMeta":
		s, ok := str(0)
		if !ok {
			return bad("non-constant argument")
		}
		switch callee.Name() {
		case "ToLower":
			return strings.ToLower(s), true
		case "ToUpper":
			return strings.ToUpper(s), true
		case "TrimSpace":
			return strings.TrimSpace(s), true
		case "Title":
			return strings.Title(s), true
		default:
			return regexp.QuoteMeta(s), true
		}
	case "strings.Split":
		s, ok := str(0)
		sep, ok2 := str(1)
		if !ok || !ok2 {
			return bad("non-constant argument")
		}
		sl := &Slice{}
		for _, p := range strings.Split(s, sep) {
			sl.E = append(sl.E, &Cell{V: p})
		}
		return sl, true
	case "strings.Join":
		sl, ok := args[0].(*Slice)
		sep, ok2 := str(1)
		if !ok || !ok2 {
			return bad("non-constant argument")
		}
		parts := []string{}
		for _, c := range sl.E {
			ps, ok := c.V.(string)
			if !ok {
				return bad("non-constant element")
			}
			parts = append(parts, ps)
		}
		return strings.Join(parts, sep), true
	case "strings.Replace", "strings.ReplaceAll":
		s, ok := str(0)
		a, ok2 := str(1)
		b, ok3 := str(2)
		if !ok || !ok2 || !ok3 {
			return bad("non-constant argument")
		}
		n := int64(-1)
		if callee.Name() == "Replace" {
			nn, ok := args[3].(int64)
			if !ok {
				return bad("non-constant count")
			}
			n = nn
		}
		return strings.Replace(s, a, b, int(n)), true
	case "strings.HasPrefix", "strings.HasSuffix", "strings.Contains":
		s, ok := str(0)
		a, ok2 := str(1)
		if !ok || !ok2 {
			return bad("non-constant argument")
		}
		switch callee.Name() {
		case "HasPrefix":
			return strings.HasPrefix(s, a), true
		case "HasSuffix":
			return strings.HasSuffix(s, a), true
		default:
			return strings.Contains(s, a), true
		}
	case "fmt.Sprintf":
		f, ok := str(0)
		if !ok {
			return bad("non-constant format")
		}
		var va []interface{}
		if len(args) > 1 {
			sl, ok := args[1].(*Slice)
			if !ok {
				if u, isU := args[1].(Unknown); isU && strings.Contains(u.Why, "nil") {
					sl = &Slice{}
				} else {
					return bad("non-constant arguments")
				}
			}
			for _, c := range sl.E {
				switch c.V.(type) {
				case string, int64, float64, bool:
					va = append(va, c.V)
				default:
					return bad(fmt.Sprintf("argument %v is not a constant", c.V))
				}
			}
		}
		return fmt.Sprintf(f, va...), true
	case "regexp.MustCompile", "regexp.Compile":
		s, ok := str(0)
		if !ok {
			return bad("non-constant pattern")
		}
		return &Regexp{Pattern: s}, true
	}
	return nil, false
}

// FoldGlobalRegexp resolves the constant pattern of a package-level
// `var x = regexp.MustCompile(<foldable>)`.
func FoldGlobalRegexp(g *ssa.Global) (string, error) {
	v, err := GlobalInit(g)
	if err != nil {
		return "", err
	}
	m := &Machine{Prim: StringLib}
	r, err := m.Fold(v)
	if err != nil {
		return "", err
	}
	re, ok := r.(*Regexp)
	if !ok {
		return "", errf("%s is not initialised by a regexp with constant pattern", g.Name())
	}
	return re.Pattern, nil
}

// Buf models a *bytes.Buffer / *strings.Builder as a string accumulator.
type Buf struct{ S string }

// BufferLib models bytes.Buffer / strings.Builder construction and writes.
func BufferLib(call *ssa.CallCommon, callee *ssa.Function, args []Value) (Value, bool) {
	if callee == nil || callee.Pkg == nil {
		return nil, false
	}
	pkg := callee.Pkg.Pkg.Path()
	if pkg == "fmt" && (callee.Name() == "Fprintf" || callee.Name() == "Fprint") && len(args) >= 2 {
		b, ok := args[0].(*Buf)
		if !ok {
			return nil, false
		}
		var va []interface{}
		rest := args[1:]
		format := ""
		if callee.Name() == "Fprintf" {
			f, ok := args[1].(string)
			if !ok {
				return Unknown{Why: "Fprintf with a format outside the model"}, true
			}
			format = f
			rest = args[2:]
		}
		if len(rest) > 0 {
			if sl, ok := rest[0].(*Slice); ok {
				for _, c := range sl.E {
					switch c.V.(type) {
					case string, int64, float64, bool:
						va = append(va, c.V)
					default:
						return Unknown{Why: "Fprintf argument outside the model"}, true
					}
				}
			}
		}
		var s string
		if callee.Name() == "Fprintf" {
			s = fmt.Sprintf(format, va...)
		} else {
			s = fmt.Sprint(va...)
		}
		b.S += s
		return Tuple{int64(len(s)), Nil{}}, true
	}
	if pkg != "bytes" && pkg != "strings" {
		return nil, false
	}
	if callee.Signature.Recv() == nil {
		switch pkg + "." + callee.Name() {
		case "bytes.NewBufferString":
			if s, ok := args[0].(string); ok {
				return &Buf{S: s}, true
			}
			return Unknown{Why: "NewBufferString of non-constant"}, true
		}
		return nil, false
	}
	b, ok := args[0].(*Buf)
	if !ok {
		return nil, false
	}
	switch callee.Name() {
	case "WriteString":
		s, ok := args[1].(string)
		if !ok {
			return Unknown{Why: "WriteString of a value outside the model"}, true
		}
		b.S += s
		return Tuple{int64(len(s)), Nil{}}, true
	case "WriteByte":
		c, ok := args[1].(int64)
		if !ok {
			return Unknown{Why: "WriteByte of a value outside the model"}, true
		}
		b.S += string(rune(c))
		return Nil{}, true
	case "WriteRune":
		c, ok := args[1].(int64)
		if !ok {
			return Unknown{Why: "WriteRune of a value outside the model"}, true
		}
		b.S += string(rune(c))
		return Tuple{int64(1), Nil{}}, true
	case "String":
		return b.S, true
	case "Len":
		return int64(len(b.S)), true
	}
	return Unknown{Why: "buffer method " + callee.Name() + " not modelled"}, true
}

// Chain combines primitive models; the first that answers wins.
func Chain(prims ...func(*ssa.CallCommon, *ssa.Function, []Value) (Value, bool)) func(*ssa.CallCommon, *ssa.Function, []Value) (Value, bool) {
	return func(c *ssa.CallCommon, f *ssa.Function, a []Value) (Value, bool) {
		for _, p := range prims {
			if v, ok := p(c, f, a); ok {
				return v, true
			}
		}
		return nil, false
	}
}
