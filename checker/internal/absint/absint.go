// Package absint is a small abstract evaluator for loop-light SSA functions
// over finite abstract domains. It is used by the table/model rules (E5) to
// turn a function such as the date-range letter cascade into a decision table
// over a finite model without executing repository code: values the model does
// not define are Unknown and make the rule undecided.
package absint

import (
	"fmt"
	"go/constant"
	"go/token"
	"go/types"

	"golang.org/x/tools/go/ssa"
)

// Value is an abstract value: bool, string, int64, float64, *Struct, *Ptr,
// Map, Opaque (model-defined), or Unknown.
type Value interface{}

type Unknown struct{ Why string }

// Struct is a struct value (fields by index).
type Struct struct{ F []Value }

// Cell is an addressable location.
type Cell struct{ V Value }

// Ptr points at a cell, optionally at a field path inside a struct held there.
type Ptr struct {
	C    *Cell
	Path []int
}

// Map is an extracted constant map.
type Map struct {
	M    map[string]Value
	Zero Value
}

// Slice is a slice (or array) of addressable cells.
type Slice struct{ E []*Cell }

// Nil is the nil pointer/interface/slice.
type Nil struct{}

// Tuple is a multi-value result.
type Tuple []Value

// Machine evaluates SSA.
type Machine struct {
	// Prim models a call; ok=false lets the machine evaluate the callee body.
	Prim func(call *ssa.CallCommon, callee *ssa.Function, args []Value) (Value, bool)
	// Global gives the value of a package variable.
	Global   func(g *ssa.Global) (Value, bool)
	MaxSteps int
	steps    int
	Depth    int
}

type Err struct{ Msg string }

func (e *Err) Error() string { return e.Msg }

func errf(format string, a ...interface{}) error { return &Err{fmt.Sprintf(format, a...)} }

// Call evaluates fn on args.
func (m *Machine) Call(fn *ssa.Function, args []Value) (Value, error) {
	if m.MaxSteps == 0 {
		m.MaxSteps = 200000
	}
	if fn.Blocks == nil {
		return nil, errf("no body for %s", fn)
	}
	m.Depth++
	defer func() { m.Depth-- }()
	if m.Depth > 40 {
		return nil, errf("call depth exceeded at %s", fn)
	}
	env := map[ssa.Value]Value{}
	for i, p := range fn.Params {
		if i < len(args) {
			env[p] = args[i]
		} else {
			env[p] = Unknown{"missing arg"}
		}
	}
	var prev *ssa.BasicBlock
	b := fn.Blocks[0]
	for {
		var next *ssa.BasicBlock
		for _, ins := range b.Instrs {
			m.steps++
			if m.steps > m.MaxSteps {
				return nil, errf("step limit in %s", fn)
			}
			switch in := ins.(type) {
			case *ssa.Phi:
				idx := -1
				for i, p := range b.Preds {
					if p == prev {
						idx = i
					}
				}
				if idx < 0 {
					return nil, errf("phi without predecessor in %s", fn)
				}
				v, err := m.val(env, in.Edges[idx])
				if err != nil {
					return nil, err
				}
				env[in] = v
			case *ssa.If:
				c, err := m.val(env, in.Cond)
				if err != nil {
					return nil, err
				}
				cb, ok := c.(bool)
				if !ok {
					return nil, errf("branch on non-boolean abstract value %v (%s) in %s", c, in.Cond, fn)
				}
				if cb {
					next = b.Succs[0]
				} else {
					next = b.Succs[1]
				}
			case *ssa.Jump:
				next = b.Succs[0]
			case *ssa.Return:
				if len(in.Results) == 0 {
					return nil, nil
				}
				if len(in.Results) == 1 {
					return m.val(env, in.Results[0])
				}
				t := Tuple{}
				for _, r := range in.Results {
					v, err := m.val(env, r)
					if err != nil {
						return nil, err
					}
					t = append(t, v)
				}
				return t, nil
			case *ssa.Panic:
				return nil, errf("panic reached in %s", fn)
			case *ssa.Store:
				a, err := m.val(env, in.Addr)
				if err != nil {
					return nil, err
				}
				v, err := m.val(env, in.Val)
				if err != nil {
					return nil, err
				}
				p, ok := a.(*Ptr)
				if !ok {
					return nil, errf("store through non-pointer %v in %s", a, fn)
				}
				if err := store(p, v); err != nil {
					return nil, err
				}
			case *ssa.DebugRef:
			case *ssa.Defer, *ssa.RunDefers:
				if _, ok := ins.(*ssa.Defer); ok {
					return nil, errf("defer not modelled in %s", fn)
				}
			case ssa.Value:
				v, err := m.instr(env, in)
				if err != nil {
					return nil, err
				}
				env[in] = v
			default:
				return nil, errf("instruction %T not modelled in %s", ins, fn)
			}
		}
		if next == nil {
			return nil, errf("fell off block %d of %s", b.Index, fn)
		}
		prev, b = b, next
	}
}

func store(p *Ptr, v Value) error {
	if len(p.Path) == 0 {
		p.C.V = v
		return nil
	}
	cur, ok := p.C.V.(*Struct)
	if !ok {
		return errf("field store into non-struct")
	}
	// copy-on-write is not needed: struct values are copied on load.
	for _, i := range p.Path[:len(p.Path)-1] {
		s, ok := cur.F[i].(*Struct)
		if !ok {
			return errf("field path into non-struct")
		}
		cur = s
	}
	cur.F[p.Path[len(p.Path)-1]] = v
	return nil
}

func copyVal(v Value) Value {
	if s, ok := v.(*Struct); ok {
		n := &Struct{F: make([]Value, len(s.F))}
		for i, f := range s.F {
			n.F[i] = copyVal(f)
		}
		return n
	}
	return v
}

func load(p *Ptr) (Value, error) {
	v := p.C.V
	for _, i := range p.Path {
		s, ok := v.(*Struct)
		if !ok {
			return nil, errf("field load from non-struct %v", v)
		}
		if i >= len(s.F) {
			return nil, errf("field index out of model")
		}
		v = s.F[i]
	}
	return copyVal(v), nil
}

// ConstValue converts an SSA constant.
func ConstValue(c *ssa.Const) Value {
	if c.Value == nil {
		// zero value
		switch t := c.Type().Underlying().(type) {
		case *types.Basic:
			switch {
			case t.Info()&types.IsBoolean != 0:
				return false
			case t.Info()&types.IsString != 0:
				return ""
			case t.Info()&types.IsInteger != 0:
				return int64(0)
			case t.Info()&types.IsFloat != 0:
				return float64(0)
			}
		}
		switch c.Type().Underlying().(type) {
		case *types.Pointer, *types.Interface, *types.Slice, *types.Map, *types.Signature, *types.Chan:
			return Nil{}
		}
		return Unknown{"nil/zero constant of type " + c.Type().String()}
	}
	switch c.Value.Kind() {
	case constant.Bool:
		return constant.BoolVal(c.Value)
	case constant.String:
		return constant.StringVal(c.Value)
	case constant.Int:
		if i, ok := constant.Int64Val(c.Value); ok {
			if b, okb := c.Type().Underlying().(*types.Basic); okb && b.Info()&types.IsFloat != 0 {
				return float64(i)
			}
			return i
		}
	case constant.Float:
		f, _ := constant.Float64Val(c.Value)
		return f
	}
	return Unknown{"constant " + c.String()}
}

func (m *Machine) val(env map[ssa.Value]Value, v ssa.Value) (Value, error) {
	switch x := v.(type) {
	case *ssa.Const:
		return ConstValue(x), nil
	case *ssa.Global:
		return &Ptr{C: &Cell{V: globalMarker{x}}}, nil
	case *ssa.Function:
		return Unknown{"function value"}, nil
	}
	if r, ok := env[v]; ok {
		return r, nil
	}
	return nil, errf("value %s (%T) not available", v.Name(), v)
}

type globalMarker struct{ g *ssa.Global }

func (m *Machine) instr(env map[ssa.Value]Value, in ssa.Value) (Value, error) {
	switch x := in.(type) {
	case *ssa.Alloc:
		return &Ptr{C: &Cell{V: zeroOf(x.Type().(*types.Pointer).Elem())}}, nil
	case *ssa.FieldAddr:
		b, err := m.val(env, x.X)
		if err != nil {
			return nil, err
		}
		p, ok := b.(*Ptr)
		if !ok {
			return nil, errf("FieldAddr on %v", b)
		}
		return &Ptr{C: p.C, Path: append(append([]int{}, p.Path...), x.Field)}, nil
	case *ssa.IndexAddr:
		b, err := m.val(env, x.X)
		if err != nil {
			return nil, err
		}
		iv, err := m.val(env, x.Index)
		if err != nil {
			return nil, err
		}
		i, ok := iv.(int64)
		if !ok {
			return nil, errf("IndexAddr with non-constant index")
		}
		var sl *Slice
		switch bb := b.(type) {
		case *Slice:
			sl = bb
		case *Ptr:
			v, err := load(bb)
			if err != nil {
				return nil, err
			}
			sl, _ = v.(*Slice)
		}
		if sl == nil {
			return nil, errf("IndexAddr on %v", b)
		}
		if i < 0 || int(i) >= len(sl.E) {
			return nil, errf("index %d out of range in model (len %d)", i, len(sl.E))
		}
		return &Ptr{C: sl.E[i]}, nil
	case *ssa.Index:
		b, err := m.val(env, x.X)
		if err != nil {
			return nil, err
		}
		iv, err := m.val(env, x.Index)
		if err != nil {
			return nil, err
		}
		i, ok := iv.(int64)
		if !ok {
			return nil, errf("Index with non-constant index")
		}
		switch bb := b.(type) {
		case *Slice:
			if i < 0 || int(i) >= len(bb.E) {
				return nil, errf("index out of range in model")
			}
			return copyVal(bb.E[i].V), nil
		case string:
			if i < 0 || int(i) >= len(bb) {
				return nil, errf("string index out of range in model")
			}
			return int64(bb[i]), nil
		}
		return nil, errf("Index on %v", b)
	case *ssa.Slice:
		b, err := m.val(env, x.X)
		if err != nil {
			return nil, err
		}
		lo, hi := int64(0), int64(-1)
		if x.Low != nil {
			v, err := m.val(env, x.Low)
			if err != nil {
				return nil, err
			}
			l, ok := v.(int64)
			if !ok {
				return nil, errf("slice low not constant")
			}
			lo = l
		}
		if x.High != nil {
			v, err := m.val(env, x.High)
			if err != nil {
				return nil, err
			}
			h, ok := v.(int64)
			if !ok {
				return nil, errf("slice high not constant")
			}
			hi = h
		}
		switch bb := b.(type) {
		case *Ptr:
			v, err := load(bb)
			if err != nil {
				return nil, err
			}
			sl, ok := v.(*Slice)
			if !ok {
				return nil, errf("slice of %v", v)
			}
			if hi < 0 {
				hi = int64(len(sl.E))
			}
			if lo < 0 || hi > int64(len(sl.E)) || lo > hi {
				return nil, errf("slice bounds out of range in model")
			}
			return &Slice{E: sl.E[lo:hi]}, nil
		case *Slice:
			if hi < 0 {
				hi = int64(len(bb.E))
			}
			if lo < 0 || hi > int64(len(bb.E)) || lo > hi {
				return nil, errf("slice bounds out of range in model")
			}
			return &Slice{E: bb.E[lo:hi]}, nil
		case string:
			if hi < 0 {
				hi = int64(len(bb))
			}
			if lo < 0 || hi > int64(len(bb)) || lo > hi {
				return nil, errf("string slice bounds out of range in model")
			}
			return bb[lo:hi], nil
		}
		return nil, errf("Slice of %v", b)
	case *ssa.Field:
		b, err := m.val(env, x.X)
		if err != nil {
			return nil, err
		}
		s, ok := b.(*Struct)
		if !ok {
			return nil, errf("Field on %v", b)
		}
		return copyVal(s.F[x.Field]), nil
	case *ssa.UnOp:
		a, err := m.val(env, x.X)
		if err != nil {
			return nil, err
		}
		switch x.Op {
		case token.MUL:
			p, ok := a.(*Ptr)
			if !ok {
				return nil, errf("load through %v", a)
			}
			if gm, ok := p.C.V.(globalMarker); ok && len(p.Path) == 0 {
				if m.Global != nil {
					if v, ok := m.Global(gm.g); ok {
						return v, nil
					}
				}
				return nil, errf("global %s not modelled", gm.g.Name())
			}
			return load(p)
		case token.NOT:
			if b, ok := a.(bool); ok {
				return !b, nil
			}
		case token.SUB:
			switch n := a.(type) {
			case int64:
				return -n, nil
			case float64:
				return -n, nil
			}
		}
		return nil, errf("unary %s on %v", x.Op, a)
	case *ssa.BinOp:
		a, err := m.val(env, x.X)
		if err != nil {
			return nil, err
		}
		b, err := m.val(env, x.Y)
		if err != nil {
			return nil, err
		}
		return binop(x.Op, a, b)
	case *ssa.Lookup:
		mv, err := m.val(env, x.X)
		if err != nil {
			return nil, err
		}
		k, err := m.val(env, x.Index)
		if err != nil {
			return nil, err
		}
		mm, ok := mv.(*Map)
		ks, ok2 := k.(string)
		if !ok || !ok2 {
			return nil, errf("lookup %v[%v]", mv, k)
		}
		r, found := mm.M[ks]
		if !found {
			r = mm.Zero
		}
		if x.CommaOk {
			return Tuple{r, found}, nil
		}
		return r, nil
	case *ssa.Extract:
		t, err := m.val(env, x.Tuple)
		if err != nil {
			return nil, err
		}
		tt, ok := t.(Tuple)
		if !ok || x.Index >= len(tt) {
			return nil, errf("extract from %v", t)
		}
		return tt[x.Index], nil
	case *ssa.ChangeType:
		return m.val(env, x.X)
	case *ssa.Convert:
		a, err := m.val(env, x.X)
		if err != nil {
			return nil, err
		}
		bt, _ := x.Type().Underlying().(*types.Basic)
		if bt != nil && bt.Info()&types.IsFloat != 0 {
			if i, ok := a.(int64); ok {
				return float64(i), nil
			}
		}
		if bt != nil && bt.Info()&types.IsInteger != 0 {
			if f, ok := a.(float64); ok {
				return int64(f), nil
			}
		}
		return a, nil
	case *ssa.Call:
		args := []Value{}
		for _, a := range x.Call.Args {
			v, err := m.val(env, a)
			if err != nil {
				return nil, err
			}
			args = append(args, v)
		}
		if bi, ok := x.Call.Value.(*ssa.Builtin); ok {
			switch bi.Name() {
			case "len":
				switch a := args[0].(type) {
				case string:
					return int64(len(a)), nil
				case *Slice:
					return int64(len(a.E)), nil
				case *Map:
					return int64(len(a.M)), nil
				}
			}
			return nil, errf("builtin %s on %v not modelled", bi.Name(), args)
		}
		callee := x.Call.StaticCallee()
		if m.Prim != nil {
			if v, ok := m.Prim(&x.Call, callee, args); ok {
				if u, isU := v.(Unknown); isU {
					return nil, errf("call %s: %s", x.Call.Value, u.Why)
				}
				return v, nil
			}
		}
		if callee == nil {
			return nil, errf("dynamic call %s not modelled", x.Call.Value)
		}
		return m.Call(callee, args)
	case *ssa.MakeInterface:
		return m.val(env, x.X)
	}
	return nil, errf("instruction %T (%s) not modelled", in, in)
}

func zeroOf(t types.Type) Value {
	switch u := t.Underlying().(type) {
	case *types.Struct:
		s := &Struct{F: make([]Value, u.NumFields())}
		for i := range s.F {
			s.F[i] = zeroOf(u.Field(i).Type())
		}
		return s
	case *types.Array:
		sl := &Slice{}
		for i := int64(0); i < u.Len() && i < 64; i++ {
			sl.E = append(sl.E, &Cell{V: zeroOf(u.Elem())})
		}
		return sl
	case *types.Basic:
		switch {
		case u.Info()&types.IsBoolean != 0:
			return false
		case u.Info()&types.IsString != 0:
			return ""
		case u.Info()&types.IsInteger != 0:
			return int64(0)
		case u.Info()&types.IsFloat != 0:
			return float64(0)
		}
	}
	return Unknown{"zero of " + t.String()}
}

func binop(op token.Token, a, b Value) (Value, error) {
	if op == token.EQL || op == token.NEQ {
		_, an := a.(Nil)
		_, bn := b.(Nil)
		pa, ap := a.(*Ptr)
		pb, bp := b.(*Ptr)
		var eq, known bool
		switch {
		case an && bn:
			eq, known = true, true
		case (an && bp) || (bn && ap):
			eq, known = false, true
		case ap && bp:
			eq, known = pa.C == pb.C && len(pa.Path) == len(pb.Path), true
		case an || bn:
			// nil against an opaque non-nil model value
			if _, isU := a.(Unknown); !isU {
				if _, isU := b.(Unknown); !isU {
					eq, known = false, true
				}
			}
		}
		if known {
			return eq == (op == token.EQL), nil
		}
	}
	switch x := a.(type) {
	case string:
		y, ok := b.(string)
		if !ok {
			break
		}
		switch op {
		case token.ADD:
			return x + y, nil
		case token.EQL:
			return x == y, nil
		case token.NEQ:
			return x != y, nil
		case token.LSS:
			return x < y, nil
		case token.GTR:
			return x > y, nil
		case token.LEQ:
			return x <= y, nil
		case token.GEQ:
			return x >= y, nil
		}
	case bool:
		y, ok := b.(bool)
		if !ok {
			break
		}
		switch op {
		case token.EQL:
			return x == y, nil
		case token.NEQ:
			return x != y, nil
		case token.AND, token.LAND:
			return x && y, nil
		case token.OR, token.LOR:
			return x || y, nil
		}
	case int64:
		y, ok := b.(int64)
		if !ok {
			break
		}
		switch op {
		case token.ADD:
			return x + y, nil
		case token.SUB:
			return x - y, nil
		case token.MUL:
			return x * y, nil
		case token.EQL:
			return x == y, nil
		case token.NEQ:
			return x != y, nil
		case token.LSS:
			return x < y, nil
		case token.GTR:
			return x > y, nil
		case token.LEQ:
			return x <= y, nil
		case token.GEQ:
			return x >= y, nil
		}
	case float64:
		y, ok := b.(float64)
		if !ok {
			break
		}
		switch op {
		case token.ADD:
			return x + y, nil
		case token.SUB:
			return x - y, nil
		case token.MUL:
			return x * y, nil
		case token.QUO:
			return x / y, nil
		case token.EQL:
			return x == y, nil
		case token.NEQ:
			return x != y, nil
		case token.LSS:
			return x < y, nil
		case token.GTR:
			return x > y, nil
		case token.LEQ:
			return x <= y, nil
		case token.GEQ:
			return x >= y, nil
		}
	}
	return nil, errf("binop %s on %v, %v", op, a, b)
}

// NewSliceOf builds a slice value from elements.
func NewSliceOf(vs ...Value) *Slice {
	s := &Slice{}
	for _, v := range vs {
		s.E = append(s.E, &Cell{V: v})
	}
	return s
}

// Fold evaluates an SSA value that is defined by straight-line code (constants,
// calls, varargs arrays) on demand, e.g. the initialiser stored into a package
// variable by the package init function.
func (m *Machine) Fold(v ssa.Value) (Value, error) {
	m.Depth++
	defer func() { m.Depth-- }()
	if m.Depth > 60 {
		return nil, errf("fold depth exceeded")
	}
	switch x := v.(type) {
	case *ssa.Const:
		return ConstValue(x), nil
	case *ssa.Call:
		args := []Value{}
		for _, a := range x.Call.Args {
			av, err := m.Fold(a)
			if err != nil {
				return nil, err
			}
			args = append(args, av)
		}
		callee := x.Call.StaticCallee()
		if m.Prim != nil {
			if r, ok := m.Prim(&x.Call, callee, args); ok {
				if u, isU := r.(Unknown); isU {
					return nil, errf("call %s: %s", x.Call.Value, u.Why)
				}
				return r, nil
			}
		}
		if callee == nil || callee.Blocks == nil {
			return nil, errf("call %s not foldable", x.Call.Value)
		}
		return m.Call(callee, args)
	case *ssa.Slice:
		// varargs: slice of a local array filled by stores
		al, ok := x.X.(*ssa.Alloc)
		if !ok {
			return nil, errf("slice of %T not foldable", x.X)
		}
		arr, ok := al.Type().(*types.Pointer).Elem().Underlying().(*types.Array)
		if !ok {
			return nil, errf("slice of non-array alloc")
		}
		sl := &Slice{}
		for i := int64(0); i < arr.Len(); i++ {
			sl.E = append(sl.E, &Cell{V: Unknown{"unset varargs element"}})
		}
		for _, ref := range *al.Referrers() {
			ia, ok := ref.(*ssa.IndexAddr)
			if !ok {
				continue
			}
			ic, ok := ia.Index.(*ssa.Const)
			if !ok {
				return nil, errf("varargs array indexed by non-constant")
			}
			idx, _ := constant.Int64Val(ic.Value)
			for _, r2 := range *ia.Referrers() {
				if st, ok := r2.(*ssa.Store); ok && st.Addr == ia {
					ev, err := m.Fold(st.Val)
					if err != nil {
						return nil, err
					}
					sl.E[idx].V = ev
				}
			}
		}
		return sl, nil
	case *ssa.MakeInterface:
		return m.Fold(x.X)
	case *ssa.ChangeType:
		return m.Fold(x.X)
	case *ssa.Convert:
		return m.Fold(x.X)
	case *ssa.BinOp:
		a, err := m.Fold(x.X)
		if err != nil {
			return nil, err
		}
		b, err := m.Fold(x.Y)
		if err != nil {
			return nil, err
		}
		return binop(x.Op, a, b)
	case *ssa.UnOp:
		if x.Op == token.MUL {
			if g, ok := x.X.(*ssa.Global); ok {
				if m.Global != nil {
					if r, ok := m.Global(g); ok {
						return r, nil
					}
				}
				return nil, errf("global %s not foldable", g.Name())
			}
		}
	}
	return nil, errf("value %s (%T) not foldable", v, v)
}

// GlobalInit finds the value stored into g by its package's init function
// (exactly one store) and returns it.
func GlobalInit(g *ssa.Global) (ssa.Value, error) {
	init := g.Pkg.Func("init")
	if init == nil {
		return nil, errf("no init function")
	}
	var val ssa.Value
	n := 0
	for _, b := range init.Blocks {
		for _, ins := range b.Instrs {
			if st, ok := ins.(*ssa.Store); ok && st.Addr == g {
				val = st.Val
				n++
			}
		}
	}
	if n != 1 {
		return nil, errf("%d initialising stores to %s", n, g.Name())
	}
	return val, nil
}
