// Package absint is a small abstract evaluator for loop-light SSA functions
// over finite abstract domains. It is used by the table/model rules (E5) to
// turn a function such as the date-range letter cascade into a decision table
// over a finite model without executing repository code: values the model does
// not define are Unknown and make the rule undecided.
package absint

import (
	"fmt"
	"go/constant"
	"go/token"
	"go/types"

	"golang.org/x/tools/go/ssa"
)

// Value is an abstract value: bool, string, int64, float64, *Struct, *Ptr,
// Map, Opaque (model-defined), or Unknown.
type Value interface{}

type Unknown struct{ Why string }

// Struct is a struct value (fields by index).
type Struct struct{ F []Value }

// Cell is an addressable location.
type Cell struct{ V Value }

// Ptr points at a cell, optionally at a field path inside a struct held there.
type Ptr struct {
	C    *Cell
	Path []int
}

// Map is an extracted constant map.
type Map struct {
	M    map[string]Value
	Zero Value
}

// Tuple is a multi-value result.
type Tuple []Value

// Machine evaluates SSA.
type Machine struct {
	// Prim models a call; ok=false lets the machine evaluate the callee body.
	Prim func(call *ssa.CallCommon, callee *ssa.Function, args []Value) (Value, bool)
	// Global gives the value of a package variable.
	Global   func(g *ssa.Global) (Value, bool)
	MaxSteps int
	steps    int
	Depth    int
}

type Err struct{ Msg string }

func (e *Err) Error() string { return e.Msg }

func errf(format string, a ...interface{}) error { return &Err{fmt.Sprintf(format, a...)} }

// Call evaluates fn on args.
func (m *Machine) Call(fn *ssa.Function, args []Value) (Value, error) {
	if m.MaxSteps == 0 {
		m.MaxSteps = 200000
	}
	if fn.Blocks == nil {
		return nil, errf("no body for %s", fn)
	}
	m.Depth++
	defer func() { m.Depth-- }()
	if m.Depth > 40 {
		return nil, errf("call depth exceeded at %s", fn)
	}
	env := map[ssa.Value]Value{}
	for i, p := range fn.Params {
		if i < len(args) {
			env[p] = args[i]
		} else {
			env[p] = Unknown{"missing arg"}
		}
	}
	var prev *ssa.BasicBlock
	b := fn.Blocks[0]
	for {
		var next *ssa.BasicBlock
		for _, ins := range b.Instrs {
			m.steps++
			if m.steps > m.MaxSteps {
				return nil, errf("step limit in %s", fn)
			}
			switch in := ins.(type) {
			case *ssa.Phi:
				idx := -1
				for i, p := range b.Preds {
					if p == prev {
						idx = i
					}
				}
				if idx < 0 {
					return nil, errf("phi without predecessor in %s", fn)
				}
				v, err := m.val(env, in.Edges[idx])
				if err != nil {
					return nil, err
				}
				env[in] = v
			case *ssa.If:
				c, err := m.val(env, in.Cond)
				if err != nil {
					return nil, err
				}
				cb, ok := c.(bool)
				if !ok {
					return nil, errf("branch on non-boolean abstract value %v (%s) in %s", c, in.Cond, fn)
				}
				if cb {
					next = b.Succs[0]
				} else {
					next = b.Succs[1]
				}
			case *ssa.Jump:
				next = b.Succs[0]
			case *ssa.Return:
				if len(in.Results) == 0 {
					return nil, nil
				}
				if len(in.Results) == 1 {
					return m.val(env, in.Results[0])
				}
				t := Tuple{}
				for _, r := range in.Results {
					v, err := m.val(env, r)
					if err != nil {
						return nil, err
					}
					t = append(t, v)
				}
				return t, nil
			case *ssa.Panic:
				return nil, errf("panic reached in %s", fn)
			case *ssa.Store:
				a, err := m.val(env, in.Addr)
				if err != nil {
					return nil, err
				}
				v, err := m.val(env, in.Val)
				if err != nil {
					return nil, err
				}
				p, ok := a.(*Ptr)
				if !ok {
					return nil, errf("store through non-pointer %v in %s", a, fn)
				}
				if err := store(p, v); err != nil {
					return nil, err
				}
			case *ssa.DebugRef:
			case *ssa.Defer, *ssa.RunDefers:
				if _, ok := ins.(*ssa.Defer); ok {
					return nil, errf("defer not modelled in %s", fn)
				}
			case ssa.Value:
				v, err := m.instr(env, in)
				if err != nil {
					return nil, err
				}
				env[in] = v
			default:
				return nil, errf("instruction %T not modelled in %s", ins, fn)
			}
		}
		if next == nil {
			return nil, errf("fell off block %d of %s", b.Index, fn)
		}
		prev, b = b, next
	}
}

func store(p *Ptr, v Value) error {
	if len(p.Path) == 0 {
		p.C.V = v
		return nil
	}
	cur, ok := p.C.V.(*Struct)
	if !ok {
		return errf("field store into non-struct")
	}
	// copy-on-write is not needed: struct values are copied on load.
	for _, i := range p.Path[:len(p.Path)-1] {
		s, ok := cur.F[i].(*Struct)
		if !ok {
			return errf("field path into non-struct")
		}
		cur = s
	}
	cur.F[p.Path[len(p.Path)-1]] = v
	return nil
}

func copyVal(v Value) Value {
	if s, ok := v.(*Struct); ok {
		n := &Struct{F: make([]Value, len(s.F))}
		for i, f := range s.F {
			n.F[i] = copyVal(f)
		}
		return n
	}
	return v
}

func load(p *Ptr) (Value, error) {
	v := p.C.V
	for _, i := range p.Path {
		s, ok := v.(*Struct)
		if !ok {
			return nil, errf("field load from non-struct %v", v)
		}
		if i >= len(s.F) {
			return nil, errf("field index out of model")
		}
		v = s.F[i]
	}
	return copyVal(v), nil
}

// ConstValue converts an SSA constant.
func ConstValue(c *ssa.Const) Value {
	if c.Value == nil {
		// zero value
		switch t := c.Type().Underlying().(type) {
		case *types.Basic:
			switch {
			case t.Info()&types.IsBoolean != 0:
				return false
			case t.Info()&types.IsString != 0:
				return ""
			case t.Info()&types.IsInteger != 0:
				return int64(0)
			case t.Info()&types.IsFloat != 0:
				return float64(0)
			}
		}
		return Unknown{"nil/zero constant of type " + c.Type().String()}
	}
	switch c.Value.Kind() {
	case constant.Bool:
		return constant.BoolVal(c.Value)
	case constant.String:
		return constant.StringVal(c.Value)
	case constant.Int:
		if i, ok := constant.Int64Val(c.Value); ok {
			if b, okb := c.Type().Underlying().(*types.Basic); okb && b.Info()&types.IsFloat != 0 {
				return float64(i)
			}
			return i
		}
	case constant.Float:
		f, _ := constant.Float64Val(c.Value)
		return f
	}
	return Unknown{"constant " + c.String()}
}

func (m *Machine) val(env map[ssa.Value]Value, v ssa.Value) (Value, error) {
	switch x := v.(type) {
	case *ssa.Const:
		return ConstValue(x), nil
	case *ssa.Global:
		return &Ptr{C: &Cell{V: globalMarker{x}}}, nil
	case *ssa.Function:
		return Unknown{"function value"}, nil
	}
	if r, ok := env[v]; ok {
		return r, nil
	}
	return nil, errf("value %s (%T) not available", v.Name(), v)
}

type globalMarker struct{ g *ssa.Global }

func (m *Machine) instr(env map[ssa.Value]Value, in ssa.Value) (Value, error) {
	switch x := in.(type) {
	case *ssa.Alloc:
		return &Ptr{C: &Cell{V: zeroOf(x.Type().(*types.Pointer).Elem())}}, nil
	case *ssa.FieldAddr:
		b, err := m.val(env, x.X)
		if err != nil {
			return nil, err
		}
		p, ok := b.(*Ptr)
		if !ok {
			return nil, errf("FieldAddr on %v", b)
		}
		return &Ptr{C: p.C, Path: append(append([]int{}, p.Path...), x.Field)}, nil
	case *ssa.Field:
		b, err := m.val(env, x.X)
		if err != nil {
			return nil, err
		}
		s, ok := b.(*Struct)
		if !ok {
			return nil, errf("Field on %v", b)
		}
		return copyVal(s.F[x.Field]), nil
	case *ssa.UnOp:
		a, err := m.val(env, x.X)
		if err != nil {
			return nil, err
		}
		switch x.Op {
		case token.MUL:
			p, ok := a.(*Ptr)
			if !ok {
				return nil, errf("load through %v", a)
			}
			if gm, ok := p.C.V.(globalMarker); ok && len(p.Path) == 0 {
				if m.Global != nil {
					if v, ok := m.Global(gm.g); ok {
						return v, nil
					}
				}
				return nil, errf("global %s not modelled", gm.g.Name())
			}
			return load(p)
		case token.NOT:
			if b, ok := a.(bool); ok {
				return !b, nil
			}
		case token.SUB:
			switch n := a.(type) {
			case int64:
				return -n, nil
			case float64:
				return -n, nil
			}
		}
		return nil, errf("unary %s on %v", x.Op, a)
	case *ssa.BinOp:
		a, err := m.val(env, x.X)
		if err != nil {
			return nil, err
		}
		b, err := m.val(env, x.Y)
		if err != nil {
			return nil, err
		}
		return binop(x.Op, a, b)
	case *ssa.Lookup:
		mv, err := m.val(env, x.X)
		if err != nil {
			return nil, err
		}
		k, err := m.val(env, x.Index)
		if err != nil {
			return nil, err
		}
		mm, ok := mv.(*Map)
		ks, ok2 := k.(string)
		if !ok || !ok2 {
			return nil, errf("lookup %v[%v]", mv, k)
		}
		r, found := mm.M[ks]
		if !found {
			r = mm.Zero
		}
		if x.CommaOk {
			return Tuple{r, found}, nil
		}
		return r, nil
	case *ssa.Extract:
		t, err := m.val(env, x.Tuple)
		if err != nil {
			return nil, err
		}
		tt, ok := t.(Tuple)
		if !ok || x.Index >= len(tt) {
			return nil, errf("extract from %v", t)
		}
		return tt[x.Index], nil
	case *ssa.ChangeType:
		return m.val(env, x.X)
	case *ssa.Convert:
		a, err := m.val(env, x.X)
		if err != nil {
			return nil, err
		}
		bt, _ := x.Type().Underlying().(*types.Basic)
		if bt != nil && bt.Info()&types.IsFloat != 0 {
			if i, ok := a.(int64); ok {
				return float64(i), nil
			}
		}
		if bt != nil && bt.Info()&types.IsInteger != 0 {
			if f, ok := a.(float64); ok {
				return int64(f), nil
			}
		}
		return a, nil
	case *ssa.Call:
		args := []Value{}
		for _, a := range x.Call.Args {
			v, err := m.val(env, a)
			if err != nil {
				return nil, err
			}
			args = append(args, v)
		}
		callee := x.Call.StaticCallee()
		if m.Prim != nil {
			if v, ok := m.Prim(&x.Call, callee, args); ok {
				if u, isU := v.(Unknown); isU {
					return nil, errf("call %s: %s", x.Call.Value, u.Why)
				}
				return v, nil
			}
		}
		if callee == nil {
			return nil, errf("dynamic call %s not modelled", x.Call.Value)
		}
		return m.Call(callee, args)
	case *ssa.MakeInterface:
		return m.val(env, x.X)
	}
	return nil, errf("instruction %T (%s) not modelled", in, in)
}

func zeroOf(t types.Type) Value {
	switch u := t.Underlying().(type) {
	case *types.Struct:
		s := &Struct{F: make([]Value, u.NumFields())}
		for i := range s.F {
			s.F[i] = zeroOf(u.Field(i).Type())
		}
		return s
	case *types.Basic:
		switch {
		case u.Info()&types.IsBoolean != 0:
			return false
		case u.Info()&types.IsString != 0:
			return ""
		case u.Info()&types.IsInteger != 0:
			return int64(0)
		case u.Info()&types.IsFloat != 0:
			return float64(0)
		}
	}
	return Unknown{"zero of " + t.String()}
}

func binop(op token.Token, a, b Value) (Value, error) {
	switch x := a.(type) {
	case string:
		y, ok := b.(string)
		if !ok {
			break
		}
		switch op {
		case token.ADD:
			return x + y, nil
		case token.EQL:
			return x == y, nil
		case token.NEQ:
			return x != y, nil
		case token.LSS:
			return x < y, nil
		case token.GTR:
			return x > y, nil
		case token.LEQ:
			return x <= y, nil
		case token.GEQ:
			return x >= y, nil
		}
	case bool:
		y, ok := b.(bool)
		if !ok {
			break
		}
		switch op {
		case token.EQL:
			return x == y, nil
		case token.NEQ:
			return x != y, nil
		case token.AND, token.LAND:
			return x && y, nil
		case token.OR, token.LOR:
			return x || y, nil
		}
	case int64:
		y, ok := b.(int64)
		if !ok {
			break
		}
		switch op {
		case token.ADD:
			return x + y, nil
		case token.SUB:
			return x - y, nil
		case token.MUL:
			return x * y, nil
		case token.EQL:
			return x == y, nil
		case token.NEQ:
			return x != y, nil
		case token.LSS:
			return x < y, nil
		case token.GTR:
			return x > y, nil
		case token.LEQ:
			return x <= y, nil
		case token.GEQ:
			return x >= y, nil
		}
	case float64:
		y, ok := b.(float64)
		if !ok {
			break
		}
		switch op {
		case token.ADD:
			return x + y, nil
		case token.SUB:
			return x - y, nil
		case token.MUL:
			return x * y, nil
		case token.QUO:
			return x / y, nil
		case token.EQL:
			return x == y, nil
		case token.NEQ:
			return x != y, nil
		case token.LSS:
			return x < y, nil
		case token.GTR:
			return x > y, nil
		case token.LEQ:
			return x <= y, nil
		case token.GEQ:
			return x >= y, nil
		}
	}
	return nil, errf("binop %s on %v, %v", op, a, b)
}
