// Package e2 is the taint / value-origin analysis (DESIGN.md 3, E2): a
// summary-based, field-based analysis of text-carrying values.
//
// Every function gets a summary in terms of atoms - its parameters (P_i), heap
// cells (struct fields, package variables, local variable cells) and marked
// origins (sources) - describing what its results, the cells it writes and the
// sinks it reaches depend on without passing a sanitizer. Summaries are
// instantiated per call site (a parameter atom is replaced by the argument's
// dependencies), so a helper called with a clean argument stays clean even
// when another caller passes file text. Cells are global (field-based).
package e2

import (
	"fmt"
	"go/token"
	"go/types"
	"sort"
	"strings"

	"gedverif/internal/cg"
	"gedverif/internal/load"

	"golang.org/x/tools/go/ssa"
)

// Atom kinds: "P<i>" parameter, "C:<cell>" cell, "S:<origin>" marked origin.
type Deps map[string]bool

func (d Deps) add(a string) bool {
	if d[a] {
		return false
	}
	d[a] = true
	return true
}

func (d Deps) addAll(o Deps) bool {
	ch := false
	for a := range o {
		if !d[a] {
			d[a] = true
			ch = true
		}
	}
	return ch
}

func (d Deps) hasParam() bool {
	for a := range d {
		if a[0] == 'P' {
			return true
		}
	}
	return false
}

func (d Deps) sorted() []string {
	var out []string
	for a := range d {
		out = append(out, a)
	}
	sort.Strings(out)
	return out
}

// Effect is a cell write or a sink use with its dependencies and the chain of
// call sites through which it was lifted.
type Effect struct {
	Kind  string // "write" | "sink"
	Cell  string // for writes
	Instr ssa.Instruction
	Fn    *ssa.Function // function containing Instr
	Deps  Deps
	Via   []ssa.CallInstruction // call sites (outermost last) through which the effect was lifted
	Arg   string                // description of the sink argument
}

func (e *Effect) key() string {
	var sb strings.Builder
	fmt.Fprintf(&sb, "%s|%s|%p", e.Kind, e.Cell, e.Instr)
	for _, v := range e.Via {
		fmt.Fprintf(&sb, "|%p", v)
	}
	return sb.String()
}

// Summary of one function.
type Summary struct {
	Res  []Deps
	Open map[string]*Effect // effects whose deps still contain parameter atoms of this function
}

// Config parametrises an analysis run.
type Config struct {
	// SourceCell reports whether a cell is a marked origin (returns its label).
	SourceCell func(cell string) (string, bool)
	// Sanitizer: the call's results are clean.
	Sanitizer func(site ssa.CallInstruction, callee *ssa.Function) bool
	// SinkArg: the call is a sink; returns the indices of the arguments written.
	SinkArg func(site ssa.CallInstruction, callee *ssa.Function, inScope bool) []int
	// OriginCall: the call's result is a marked origin (value-origin mode).
	OriginCall func(site ssa.CallInstruction, callee *ssa.Function) (string, bool)
	// SinkScope: functions in which sink calls count.
	SinkScope map[*ssa.Function]bool
}

// Analysis holds the results.
type Analysis struct {
	P           *load.Prog
	G           *cg.Graph
	Cfg         Config
	Sum         map[*ssa.Function]*Summary
	Closed      map[string]*Effect // effects without parameter atoms (decided where they became closed)
	alias       map[string]string  // cell union-find (closure variables)
	dep         map[*ssa.Function]map[ssa.Value]Deps
	extra       map[*ssa.Function]map[ssa.Value]Deps
	tup         map[fnKey]Deps
	esc         map[*ssa.Alloc]bool
	invokeSink  func(site ssa.CallInstruction, inScope bool) []int
	Taint       map[string]string   // tainted cell -> why (one write site)
	Raw         map[string]bool     // cells from which a sink is reached raw
	cellOrigins map[string][]string // tainted cell -> marked origins that reach it
	RawWhy      map[string]string   // raw cell -> the effect through which it reaches a sink
	Prim        map[string]bool     // transparent cells (locals, closure variables, call-back parameters) that hold a marked origin directly
	funcs       []*ssa.Function
}

// Carrier: the type can hold text.
func Carrier(t types.Type) bool {
	return carrier(t, 0)
}

func carrier(t types.Type, depth int) bool {
	if depth > 6 {
		return false
	}
	switch u := t.Underlying().(type) {
	case *types.Basic:
		switch u.Kind() {
		case types.String, types.UntypedString, types.Uint8, types.Int32, types.UntypedRune:
			return true
		}
		return false
	case *types.Slice:
		return carrier(u.Elem(), depth+1)
	case *types.Array:
		return carrier(u.Elem(), depth+1)
	case *types.Map:
		return carrier(u.Key(), depth+1) || carrier(u.Elem(), depth+1)
	case *types.Chan:
		return carrier(u.Elem(), depth+1)
	case *types.Struct:
		for i := 0; i < u.NumFields(); i++ {
			if carrier(u.Field(i).Type(), depth+1) {
				return true
			}
		}
		return false
	case *types.Interface:
		return true
	case *types.Pointer:
		// pointers to library structs are opaque carriers (bytes.Buffer, strings.Builder, ...); pointers to repository structs are not
		if n := load.NamedOf(u.Elem()); n != nil && n.Obj().Pkg() != nil {
			if load.IsRepoPkgPath(n.Obj().Pkg().Path()) {
				return false
			}
			return true
		}
		return carrier(u.Elem(), depth+1)
	case *types.Tuple:
		return true
	case *types.Signature:
		return false
	}
	return false
}

func cellOfField(fa *ssa.FieldAddr) string {
	t := fa.X.Type().Underlying().(*types.Pointer).Elem()
	st := t.Underlying().(*types.Struct)
	name := t.String()
	name = strings.ReplaceAll(name, load.Module+"/", "")
	name = strings.ReplaceAll(name, load.Module, "gedcom")
	return name + "." + st.Field(fa.Field).Name()
}

func (a *Analysis) find(c string) string {
	for {
		p, ok := a.alias[c]
		if !ok || p == c {
			return c
		}
		c = p
	}
}

func (a *Analysis) union(x, y string) {
	x, y = a.find(x), a.find(y)
	if x != y {
		a.alias[y] = x
	}
}

// New runs the analysis over all repository functions.
func New(p *load.Prog, g *cg.Graph, cfg Config) *Analysis {
	return NewWithInvokeSink(p, g, cfg, nil)
}

// NewWithInvokeSink additionally treats interface method calls (io.Writer.Write)
// as sinks: invokeSink returns the written argument indices.
func NewWithInvokeSink(p *load.Prog, g *cg.Graph, cfg Config, invokeSink func(site ssa.CallInstruction, inScope bool) []int) *Analysis {
	a := &Analysis{invokeSink: invokeSink, P: p, G: g, Cfg: cfg, Sum: map[*ssa.Function]*Summary{}, Closed: map[string]*Effect{}, alias: map[string]string{},
		dep: map[*ssa.Function]map[ssa.Value]Deps{}, extra: map[*ssa.Function]map[ssa.Value]Deps{}, Taint: map[string]string{}, Raw: map[string]bool{}, Prim: map[string]bool{}, RawWhy: map[string]string{}, esc: map[*ssa.Alloc]bool{}, tup: map[fnKey]Deps{}}
	for _, fn := range p.Repo {
		a.funcs = append(a.funcs, fn)
		a.Sum[fn] = &Summary{Open: map[string]*Effect{}}
		a.dep[fn] = map[ssa.Value]Deps{}
		a.extra[fn] = map[ssa.Value]Deps{}
	}
	// closure variables: the captured cell and the free variable are one cell
	for _, fn := range p.Repo {
		for _, b := range fn.Blocks {
			for _, ins := range b.Instrs {
				if mc, ok := ins.(*ssa.MakeClosure); ok {
					cf := mc.Fn.(*ssa.Function)
					for i, bind := range mc.Bindings {
						a.union(a.cellOfAddr(bind), fmt.Sprintf("fv:%p", cf.FreeVars[i]))
					}
				}
			}
		}
	}
	// summaries to fixpoint
	for iter := 0; iter < 60; iter++ {
		changed := false
		for _, fn := range a.funcs {
			if a.analyse(fn) {
				changed = true
			}
		}
		if !changed {
			break
		}
	}
	a.solveCells()
	return a
}

// cellOfAddr names the cell an address value denotes ("" if it is not a
// simple variable cell).
func (a *Analysis) cellOfAddr(v ssa.Value) string {
	switch x := v.(type) {
	case *ssa.Alloc:
		if !a.escapes(x) {
			return "" // handled as a value of its function (keeps parameter atoms symbolic per call site)
		}
		return fmt.Sprintf("local:%p", x)
	case *ssa.FreeVar:
		return fmt.Sprintf("fv:%p", x)
	case *ssa.Global:
		return "var " + x.Pkg.Pkg.Name() + "." + x.Name()
	case *ssa.FieldAddr:
		return cellOfField(x)
	case *ssa.IndexAddr:
		return a.cellOfAddr(x.X)
	}
	return ""
}

func (a *Analysis) depOf(fn *ssa.Function, v ssa.Value) Deps {
	switch x := v.(type) {
	case *ssa.Const, *ssa.Function, *ssa.Builtin:
		return nil
	case *ssa.Global:
		return Deps{"C:" + a.find(a.cellOfAddr(x)): true}
	case *ssa.Parameter:
		if !Carrier(x.Type()) {
			return nil
		}
		for i, p := range fn.Params {
			if p == x {
				// a function used as a library call-back also receives its parameters through a synthetic cell
				return Deps{fmt.Sprintf("P%d", i): true, fmt.Sprintf("C:cbparam:%p#%d", fn, i): true}
			}
		}
	case *ssa.FreeVar:
		return Deps{"C:" + a.find(a.cellOfAddr(x)): true}
	}
	d := a.dep[fn][v]
	if e := a.extra[fn][v]; e != nil {
		if d == nil {
			return e
		}
		m := Deps{}
		m.addAll(d)
		m.addAll(e)
		return m
	}
	return d
}

func (a *Analysis) setDep(fn *ssa.Function, v ssa.Value, d Deps) bool {
	if len(d) == 0 {
		return false
	}
	if _, isRange := v.(*ssa.Range); !isRange && !Carrier(v.Type()) {
		// (the iterator of a map/string range has an opaque type; it carries what the ranged value carries)
		return false
	}
	cur := a.dep[fn][v]
	if cur == nil {
		cur = Deps{}
		a.dep[fn][v] = cur
	}
	return cur.addAll(d)
}

// cellAtom returns the dependency of reading a cell: a marked origin if the
// cell is a source, the cell atom otherwise.
func (a *Analysis) cellAtom(cell string) Deps {
	cell = a.find(cell)
	if a.Cfg.SourceCell != nil {
		if label, ok := a.Cfg.SourceCell(cell); ok {
			return Deps{"S:" + label: true}
		}
	}
	return Deps{"C:" + cell: true}
}

func (a *Analysis) addEffect(fn *ssa.Function, e *Effect) bool {
	if len(e.Deps) == 0 {
		return false
	}
	if e.Deps.hasParam() {
		ch := false
		// the part that does not depend on this function's callers is decided here
		rest := Deps{}
		for at := range e.Deps {
			if at[0] != 'P' {
				rest.add(at)
			}
		}
		if len(rest) > 0 {
			ce := &Effect{Kind: e.Kind, Cell: e.Cell, Instr: e.Instr, Fn: e.Fn, Deps: rest, Via: e.Via, Arg: e.Arg}
			if a.addEffect(fn, ce) {
				ch = true
			}
		}
		s := a.Sum[fn]
		k := e.key()
		if cur, ok := s.Open[k]; ok {
			if cur.Deps.addAll(e.Deps) {
				ch = true
			}
			return ch
		}
		if len(s.Open) > 4000 {
			return ch
		}
		s.Open[k] = e
		return true
	}
	k := e.key()
	if cur, ok := a.Closed[k]; ok {
		return cur.Deps.addAll(e.Deps)
	}
	a.Closed[k] = e
	return true
}

func (a *Analysis) callees(fn *ssa.Function, site ssa.CallInstruction) []*ssa.Function {
	cc := site.Common()
	if !cc.IsInvoke() {
		if cal := cc.StaticCallee(); cal != nil {
			return []*ssa.Function{cal}
		}
	}
	var out []*ssa.Function
	seen := map[*ssa.Function]bool{}
	for _, e := range a.G.Out(cg.Target{Fn: fn}) {
		if e.Site == site && !seen[e.Callee.Fn] && (e.Kind == "invoke" || e.Kind == "dynamic" || e.Kind == "param" || e.Kind == "static") {
			seen[e.Callee.Fn] = true
			out = append(out, e.Callee.Fn)
		}
	}
	return out
}

// analyse recomputes fn's value dependencies and summary; reports change.
func (a *Analysis) analyse(fn *ssa.Function) bool {
	changed := false
	sum := a.Sum[fn]
	for pass := 0; pass < 10; pass++ {
		local := false
		for _, b := range fn.Blocks {
			for _, ins := range b.Instrs {
				if a.transfer(fn, ins) {
					local = true
				}
			}
		}
		if local {
			changed = true
		} else {
			break
		}
	}
	// results
	for _, b := range fn.Blocks {
		ret, ok := b.Instrs[len(b.Instrs)-1].(*ssa.Return)
		if !ok {
			continue
		}
		for i, r := range ret.Results {
			for len(sum.Res) <= i {
				sum.Res = append(sum.Res, Deps{})
			}
			if Carrier(r.Type()) {
				if sum.Res[i].addAll(a.depOf(fn, r)) {
					changed = true
				}
			}
		}
	}
	return changed
}

func (a *Analysis) transfer(fn *ssa.Function, ins ssa.Instruction) bool {
	switch x := ins.(type) {
	case *ssa.Alloc:
		return false
	case *ssa.UnOp:
		if x.Op == token.MUL {
			if !Carrier(x.Type()) {
				return false
			}
			switch ad := x.X.(type) {
			case *ssa.FieldAddr:
				return a.setDep(fn, x, a.cellAtom(cellOfField(ad)))
			case *ssa.IndexAddr:
				// element of a slice/array value, or of a local array cell
				d := Deps{}
				d.addAll(a.depOf(fn, ad.X))
				d.addAll(a.depOf(fn, baseAlloc(ad.X)))
				if c := a.cellOfAddr(ad.X); c != "" {
					d.addAll(a.cellAtom(c))
				}
				return a.setDep(fn, x, d)
			default:
				if c := a.cellOfAddr(x.X); c != "" {
					return a.setDep(fn, x, a.cellAtom(c))
				}
				return a.setDep(fn, x, a.depOf(fn, baseAlloc(x.X)))
			}
		}
		if x.Op == token.ARROW {
			return a.setDep(fn, x, a.depOf(fn, x.X))
		}
		return a.setDep(fn, x, a.depOf(fn, x.X))
	case *ssa.Store:
		if !Carrier(x.Val.Type()) {
			return false
		}
		d := a.depOf(fn, x.Val)
		if len(d) == 0 {
			return false
		}
		ch := false
		switch ad := x.Addr.(type) {
		case *ssa.IndexAddr:
			// element store: into the container value and, if it is a variable cell, into that cell
			if a.addExtra(fn, ad.X, d) {
				ch = true
			}
			if c := a.cellOfAddr(ad.X); c != "" {
				if a.addEffect(fn, &Effect{Kind: "write", Cell: a.find(c), Instr: x, Fn: fn, Deps: copyDeps(d)}) {
					ch = true
				}
			} else if ld, ok := ad.X.(*ssa.UnOp); ok {
				// element store into a slice loaded from a cell writes that cell (slices alias)
				if c := a.cellOfAddr(ld.X); c != "" {
					if a.addEffect(fn, &Effect{Kind: "write", Cell: a.find(c), Instr: x, Fn: fn, Deps: copyDeps(d)}) {
						ch = true
					}
				}
			}
		default:
			if c := a.cellOfAddr(x.Addr); c != "" {
				if a.addEffect(fn, &Effect{Kind: "write", Cell: a.find(c), Instr: x, Fn: fn, Deps: copyDeps(d)}) {
					ch = true
				}
			} else {
				// store through a pointer value (e.g. *p = v with p a parameter) or into a non-escaping local: the pointee is part of the value
				if a.addExtra(fn, baseAlloc(x.Addr), d) {
					ch = true
				}
			}
		}
		return ch
	case *ssa.Phi:
		ch := false
		for _, e := range x.Edges {
			if a.setDep(fn, x, a.depOf(fn, e)) {
				ch = true
			}
		}
		return ch
	case *ssa.BinOp:
		ch := a.setDep(fn, x, a.depOf(fn, x.X))
		if a.setDep(fn, x, a.depOf(fn, x.Y)) {
			ch = true
		}
		return ch
	case *ssa.ChangeType:
		return a.setDep(fn, x, a.depOf(fn, x.X))
	case *ssa.ChangeInterface:
		return a.setDep(fn, x, a.depOf(fn, x.X))
	case *ssa.Convert:
		return a.setDep(fn, x, a.depOf(fn, x.X))
	case *ssa.MakeInterface:
		ch := a.setDep(fn, x, a.depOf(fn, x.X))
		// a repository value with a String/Error method formats as what that method returns
		if a.setDep(fn, x, a.stringerDeps(x.X.Type())) {
			ch = true
		}
		return ch
	case *ssa.TypeAssert:
		return a.setDep(fn, x, a.depOf(fn, x.X))
	case *ssa.Extract:
		if c, ok := x.Tuple.(*ssa.Call); ok {
			if t := a.tupleDeps(fn, c); x.Index < len(t) {
				return a.setDep(fn, x, t[x.Index])
			}
			return false
		}
		return a.setDep(fn, x, a.depOf(fn, x.Tuple))
	case *ssa.Slice:
		d := Deps{}
		d.addAll(a.depOf(fn, x.X))
		d.addAll(a.depOf(fn, baseAlloc(x.X)))
		if c := a.cellOfAddr(x.X); c != "" {
			d.addAll(a.cellAtom(c))
		}
		return a.setDep(fn, x, d)
	case *ssa.Field:
		return a.setDep(fn, x, a.depOf(fn, x.X))
	case *ssa.Index:
		return a.setDep(fn, x, a.depOf(fn, x.X))
	case *ssa.Lookup:
		return a.setDep(fn, x, a.depOf(fn, x.X))
	case *ssa.MapUpdate:
		d := Deps{}
		if Carrier(x.Key.Type()) {
			d.addAll(a.depOf(fn, x.Key))
		}
		if Carrier(x.Value.Type()) {
			d.addAll(a.depOf(fn, x.Value))
		}
		ch := a.addExtra(fn, x.Map, d)
		if ld, ok := x.Map.(*ssa.UnOp); ok {
			if c := a.cellOfAddr(ld.X); c != "" && len(d) > 0 {
				if a.addEffect(fn, &Effect{Kind: "write", Cell: a.find(c), Instr: x, Fn: fn, Deps: copyDeps(d)}) {
					ch = true
				}
			}
		}
		return ch
	case *ssa.Send:
		return a.addExtra(fn, x.Chan, a.depOf(fn, x.X))
	case *ssa.Range:
		return a.setDep(fn, x, a.depOf(fn, x.X))
	case *ssa.Next:
		return a.setDep(fn, x, a.depOf(fn, x.Iter))
	case *ssa.MakeClosure:
		return false
	case ssa.CallInstruction:
		return a.call(fn, x)
	}
	return false
}

func copyDeps(d Deps) Deps {
	m := Deps{}
	m.addAll(d)
	return m
}

func (a *Analysis) addExtra(fn *ssa.Function, v ssa.Value, d Deps) bool {
	if len(d) == 0 {
		return false
	}
	cur := a.extra[fn][v]
	if cur == nil {
		cur = Deps{}
		a.extra[fn][v] = cur
	}
	return cur.addAll(d)
}

// stringerDeps: what String()/Error() of a repository type returns.
func (a *Analysis) stringerDeps(t types.Type) Deps {
	var types_ []types.Type
	if _, isIface := t.Underlying().(*types.Interface); isIface {
		return nil // interface-typed operands were wrapped where they were made
	}
	types_ = append(types_, t)
	out := Deps{}
	for _, T := range types_ {
		ms := a.P.SSA.MethodSets.MethodSet(T)
		for i := 0; i < ms.Len(); i++ {
			n := ms.At(i).Obj().Name()
			if n != "String" && n != "Error" {
				continue
			}
			f := a.P.SSA.MethodValue(ms.At(i))
			if f == nil {
				continue
			}
			if s := a.Sum[realFunc(f)]; s != nil && len(s.Res) > 0 {
				for at := range s.Res[0] {
					if at[0] != 'P' {
						out.add(at)
					}
				}
			}
		}
	}
	return out
}

// realFunc looks through a promoted-method wrapper.
func realFunc(f *ssa.Function) *ssa.Function { return f }

func (a *Analysis) tupleDeps(fn *ssa.Function, c *ssa.Call) []Deps {
	n := c.Type().(*types.Tuple).Len()
	out := make([]Deps, n)
	for i := 0; i < n; i++ {
		k := tupleKey{c, i}
		out[i] = a.tup[fnKey{fn, k}]
	}
	return out
}

type tupleKey struct {
	c *ssa.Call
	i int
}
type fnKey struct {
	fn *ssa.Function
	k  tupleKey
}

func (a *Analysis) subst(fn *ssa.Function, site ssa.CallInstruction, callee *ssa.Function, d Deps) Deps {
	cc := site.Common()
	out := Deps{}
	for at := range d {
		if at[0] != 'P' {
			out.add(at)
			continue
		}
		var idx int
		fmt.Sscanf(at[1:], "%d", &idx)
		var arg ssa.Value
		if cc.IsInvoke() {
			if idx == 0 {
				arg = cc.Value
			} else if idx-1 < len(cc.Args) {
				arg = cc.Args[idx-1]
			}
		} else if idx < len(cc.Args) {
			arg = cc.Args[idx]
		}
		if arg != nil {
			out.addAll(a.depOf(fn, arg))
		}
	}
	return out
}

func (a *Analysis) call(fn *ssa.Function, site ssa.CallInstruction) bool {
	cc := site.Common()
	val, _ := site.(ssa.Value)
	ch := false
	setRes := func(i int, d Deps) {
		if val == nil || len(d) == 0 {
			return
		}
		if tup, ok := val.Type().(*types.Tuple); ok {
			if i < tup.Len() && Carrier(tup.At(i).Type()) {
				k := fnKey{fn, tupleKey{val.(*ssa.Call), i}}
				cur := a.tup[k]
				if cur == nil {
					cur = Deps{}
					a.tup[k] = cur
				}
				if cur.addAll(d) {
					ch = true
				}
			}
			return
		}
		if i == 0 && a.setDep(fn, val, d) {
			ch = true
		}
	}
	if a.invokeSink != nil && cc.IsInvoke() {
		for _, idx := range a.invokeSink(site, a.Cfg.SinkScope == nil || a.Cfg.SinkScope[fn]) {
			if idx < len(cc.Args) {
				if d := a.depOf(fn, cc.Args[idx]); len(d) > 0 {
					if a.addEffect(fn, &Effect{Kind: "sink", Instr: site, Fn: fn, Deps: copyDeps(d), Arg: fmt.Sprintf("argument %d of %s", idx, cc.Method.Name())}) {
						ch = true
					}
				}
			}
		}
	}
	if bi, ok := cc.Value.(*ssa.Builtin); ok {
		switch bi.Name() {
		case "append":
			d := Deps{}
			for _, arg := range cc.Args {
				d.addAll(a.depOf(fn, arg))
			}
			setRes(0, d)
		case "copy":
			if a.addExtra(fn, cc.Args[0], a.depOf(fn, cc.Args[1])) {
				ch = true
			}
			if c := a.cellOfAddr(sliceBase(cc.Args[0])); c != "" {
				if a.addEffect(fn, &Effect{Kind: "write", Cell: a.find(c), Instr: site, Fn: fn, Deps: copyDeps(a.depOf(fn, cc.Args[1]))}) {
					ch = true
				}
			}
		}
		return ch
	}
	for _, cal := range a.callees(fn, site) {
		if cal == nil {
			continue
		}
		inRepo := a.Sum[cal] != nil
		if a.Cfg.OriginCall != nil {
			if label, ok := a.Cfg.OriginCall(site, cal); ok {
				setRes(0, Deps{"S:" + label: true})
				continue
			}
		}
		// sinks
		if a.Cfg.SinkArg != nil {
			for _, idx := range a.Cfg.SinkArg(site, cal, a.Cfg.SinkScope == nil || a.Cfg.SinkScope[fn]) {
				var arg ssa.Value
				if idx < len(cc.Args) {
					arg = cc.Args[idx]
				}
				if arg == nil {
					continue
				}
				d := a.depOf(fn, arg)
				if len(d) > 0 {
					if a.addEffect(fn, &Effect{Kind: "sink", Instr: site, Fn: fn, Deps: copyDeps(d), Arg: fmt.Sprintf("argument %d of %s", idx, calleeName(cal))}) {
						ch = true
					}
				}
			}
		}
		if a.Cfg.Sanitizer != nil && a.Cfg.Sanitizer(site, cal) {
			continue
		}
		if inRepo {
			s := a.Sum[cal]
			for i, rd := range s.Res {
				setRes(i, a.subst(fn, site, cal, rd))
			}
			for _, e := range s.Open {
				nd := a.subst(fn, site, cal, e.Deps)
				if len(nd) == 0 {
					continue
				}
				if len(e.Via) > 12 {
					continue
				}
				ne := &Effect{Kind: e.Kind, Cell: e.Cell, Instr: e.Instr, Fn: e.Fn, Deps: nd, Via: append(append([]ssa.CallInstruction{}, e.Via...), site), Arg: e.Arg}
				if a.addEffect(fn, ne) {
					ch = true
				}
			}
			continue
		}
		// library: results and pointer-like receivers depend on every carrier argument
		d := Deps{}
		for _, arg := range cc.Args {
			if Carrier(arg.Type()) {
				d.addAll(a.depOf(fn, arg))
				if _, isPtr := arg.Type().Underlying().(*types.Pointer); isPtr {
					if c := a.cellOfAddr(arg); c != "" {
						d.addAll(a.cellAtom(c))
					}
				}
			}
		}
		if cc.IsInvoke() && Carrier(cc.Value.Type()) {
			d.addAll(a.depOf(fn, cc.Value))
		}
		if val != nil {
			if tup, ok := val.Type().(*types.Tuple); ok {
				for i := 0; i < tup.Len(); i++ {
					setRes(i, d)
				}
			} else {
				setRes(0, d)
			}
		}
		// a library method mutates what its pointer receiver / first pointer argument refers to
		if len(d) > 0 && len(cc.Args) > 0 && cal.Signature.Recv() != nil {
			recv := cc.Args[0]
			if _, isPtr := recv.Type().Underlying().(*types.Pointer); isPtr && mutatingLibraryMethod(cal) {
				if a.addExtra(fn, recv, d) {
					ch = true
				}
				if c := a.cellOfAddr(recv); c != "" {
					if a.addEffect(fn, &Effect{Kind: "write", Cell: a.find(c), Instr: site, Fn: fn, Deps: copyDeps(d)}) {
						ch = true
					}
				} else if ld, ok := recv.(*ssa.UnOp); ok {
					if c := a.cellOfAddr(ld.X); c != "" {
						if a.addEffect(fn, &Effect{Kind: "write", Cell: a.find(c), Instr: site, Fn: fn, Deps: copyDeps(d)}) {
							ch = true
						}
					}
				}
			}
		}
		// call-backs: function-typed arguments receive the other arguments' data
		for _, arg := range cc.Args {
			if _, isSig := arg.Type().Underlying().(*types.Signature); !isSig {
				continue
			}
			var cb *ssa.Function
			switch y := arg.(type) {
			case *ssa.MakeClosure:
				cb = y.Fn.(*ssa.Function)
			case *ssa.Function:
				cb = y
			}
			if cb == nil || a.Sum[cb] == nil || len(d) == 0 {
				continue
			}
			// parameters of the call-back are fed through a synthetic cell
			for i, p := range cb.Params {
				if Carrier(p.Type()) {
					cell := fmt.Sprintf("cbparam:%p#%d", cb, i)
					if a.addEffect(fn, &Effect{Kind: "write", Cell: cell, Instr: site, Fn: fn, Deps: copyDeps(d)}) {
						ch = true
					}
				}
			}
		}
	}
	return ch
}

func mutatingLibraryMethod(f *ssa.Function) bool {
	switch f.Name() {
	case "Write", "WriteString", "WriteByte", "WriteRune", "Store", "LoadOrStore", "Set", "Add", "Push", "Insert", "Append", "Encode", "Printf", "Print", "Println":
		return true
	}
	return strings.HasPrefix(f.Name(), "Write") || strings.HasPrefix(f.Name(), "Set")
}

func sliceBase(v ssa.Value) ssa.Value {
	if s, ok := v.(*ssa.Slice); ok {
		return s.X
	}
	return v
}

func calleeName(f *ssa.Function) string {
	if f.Pkg != nil {
		return f.Pkg.Pkg.Name() + "." + f.Name()
	}
	return f.Name()
}

// solveCells computes the tainted cells (forward) and the raw cells (backward)
// from the closed effects.
func (a *Analysis) solveCells() {
	// call-back parameter cells: a call-back reads its parameters from the synthetic cell
	for ch := true; ch; {
		ch = false
		for _, e := range a.Closed {
			if e.Kind != "write" {
				continue
			}
			if _, ok := a.Taint[e.Cell]; ok {
				continue
			}
			for at := range e.Deps {
				why := ""
				if at[0] == 'S' {
					why = "marked origin " + at[2:]
				} else if at[0] == 'C' {
					if _, ok := a.Taint[at[2:]]; ok {
						why = "cell " + at[2:]
					}
				}
				if why != "" {
					a.Taint[e.Cell] = why + " stored at " + a.P.Pos(e.Instr.Pos()) + " in " + load.FuncName(e.Fn)
					ch = true
					break
				}
			}
		}
	}
	// origins per cell
	a.cellOrigins = map[string][]string{}
	has := map[string]map[string]bool{}
	for ch := true; ch; {
		ch = false
		for _, e := range a.Closed {
			if e.Kind != "write" {
				continue
			}
			m := has[e.Cell]
			if m == nil {
				m = map[string]bool{}
				has[e.Cell] = m
			}
			for at := range e.Deps {
				if at[0] == 'S' && !m[at[2:]] {
					m[at[2:]] = true
					ch = true
				}
				if at[0] == 'C' {
					for o := range has[at[2:]] {
						if !m[o] {
							m[o] = true
							ch = true
						}
					}
				}
			}
		}
	}
	for c, m := range has {
		for o := range m {
			a.cellOrigins[c] = append(a.cellOrigins[c], o)
		}
		sort.Strings(a.cellOrigins[c])
	}
	for ch := true; ch; {
		ch = false
		for _, e := range a.Closed {
			if e.Kind != "write" || !Transparent(e.Cell) || a.Prim[e.Cell] {
				continue
			}
			if a.Primary(e.Deps) {
				a.Prim[e.Cell] = true
				ch = true
			}
		}
	}
	for ch := true; ch; {
		ch = false
		for _, e := range a.Closed {
			isRawTarget := e.Kind == "sink" || (e.Kind == "write" && a.Raw[e.Cell])
			if !isRawTarget {
				continue
			}
			for at := range e.Deps {
				if at[0] == 'C' && !a.Raw[at[2:]] {
					a.Raw[at[2:]] = true
					if e.Kind == "sink" {
						a.RawWhy[at[2:]] = "read by the sink (" + e.Arg + ") at " + a.P.Pos(e.Instr.Pos()) + " in " + load.FuncName(e.Fn)
					} else {
						a.RawWhy[at[2:]] = "stored into " + e.Cell + " at " + a.P.Pos(e.Instr.Pos()) + " in " + load.FuncName(e.Fn)
					}
					ch = true
				}
			}
		}
	}
}

// Transparent: a cell that is an implementation detail of value flow (local
// variable, captured variable, call-back parameter), not a component field.
func Transparent(cell string) bool {
	if strings.HasPrefix(cell, "local:") || strings.HasPrefix(cell, "fv:") || strings.HasPrefix(cell, "cbparam:") {
		return true
	}
	// containers and nodes of the library package (StringSet, node fields, ...) are data, not page components: a
	// finding is reported where their content enters a component of html, html/core or q
	return strings.HasPrefix(cell, "gedcom.") || strings.HasPrefix(cell, "var gedcom.") || strings.HasPrefix(cell, "[]gedcom.") || strings.HasPrefix(cell, "*gedcom.")
}

// Primary reports whether d holds a marked origin directly or through
// transparent cells only (i.e. not merely through a tainted component field,
// whose tainting store is a finding of its own).
func (a *Analysis) Primary(d Deps) bool {
	for at := range d {
		if at[0] == 'S' {
			return true
		}
		if at[0] == 'C' && a.Prim[at[2:]] {
			return true
		}
	}
	return false
}

// TaintedDeps returns the atoms of d that are marked origins or tainted cells.
func (a *Analysis) TaintedDeps(d Deps) []string {
	var out []string
	for _, at := range d.sorted() {
		switch at[0] {
		case 'S':
			out = append(out, "origin "+at[2:])
		case 'C':
			if why, ok := a.Taint[at[2:]]; ok {
				out = append(out, "cell "+at[2:]+" ("+why+")")
			}
		}
	}
	return out
}

// RawParam reports whether parameter i of fn reaches a sink (or a raw cell)
// without a sanitizer.
func (a *Analysis) RawParam(fn *ssa.Function, i int) bool {
	s := a.Sum[fn]
	if s == nil {
		return false
	}
	at := fmt.Sprintf("P%d", i)
	for _, e := range s.Open {
		if e.Deps[at] && (e.Kind == "sink" || a.Raw[e.Cell]) {
			return true
		}
	}
	return false
}

// RawChain explains how a cell reaches a sink.
func (a *Analysis) RawChain(cell string) []string {
	var out []string
	seen := map[string]bool{}
	for cell != "" && !seen[cell] && len(out) < 12 {
		seen[cell] = true
		why, ok := a.RawWhy[cell]
		if !ok {
			break
		}
		out = append(out, cell+" is "+why)
		next := ""
		if i := strings.Index(why, "stored into "); i == 0 {
			rest := why[len("stored into "):]
			if j := strings.Index(rest, " at "); j > 0 {
				next = rest[:j]
			}
		}
		cell = next
	}
	return out
}

// escapes: the local variable cell is visible outside its function's own
// loads and stores (captured by a closure, its address passed to a call,
// stored somewhere or returned).
func (a *Analysis) escapes(al *ssa.Alloc) bool {
	if r, ok := a.esc[al]; ok {
		return r
	}
	res := false
	var visit func(v ssa.Value, depth int)
	visit = func(v ssa.Value, depth int) {
		if res || depth > 3 || v.Referrers() == nil {
			return
		}
		for _, ref := range *v.Referrers() {
			switch x := ref.(type) {
			case *ssa.Store:
				if x.Val == v {
					res = true // the address itself is stored
				}
			case *ssa.UnOp, *ssa.DebugRef:
			case *ssa.IndexAddr:
				visit(x, depth+1)
			case *ssa.FieldAddr:
				visit(x, depth+1)
			case *ssa.Slice:
				// a slice of a local array is a value; its later uses are value uses
			default:
				res = true
			}
		}
	}
	visit(al, 0)
	a.esc[al] = res
	return res
}

// baseAlloc strips field/index addressing down to the variable it addresses.
func baseAlloc(v ssa.Value) ssa.Value {
	for i := 0; i < 6; i++ {
		switch x := v.(type) {
		case *ssa.IndexAddr:
			v = x.X
		case *ssa.FieldAddr:
			if _, isAlloc := x.X.(*ssa.Alloc); isAlloc {
				v = x.X
			} else {
				return v
			}
		default:
			return v
		}
	}
	return v
}

// Origins returns the marked origins that d holds directly or through tainted
// cells (transitively).
func (a *Analysis) Origins(d Deps) []string {
	out := map[string]bool{}
	seen := map[string]bool{}
	var visit func(at string)
	visit = func(at string) {
		if seen[at] {
			return
		}
		seen[at] = true
		switch at[0] {
		case 'S':
			out[at[2:]] = true
		case 'C':
			for _, o := range a.cellOrigins[at[2:]] {
				out[o] = true
			}
		}
	}
	for at := range d {
		visit(at)
	}
	var res []string
	for o := range out {
		res = append(res, o)
	}
	sort.Strings(res)
	return res
}
