// Package e4 is the node-state effect and provenance analysis (DESIGN.md 3,
// E4): a top-down, context-sensitive (per abstract argument), flow-insensitive
// abstract interpretation of SSA over abstract objects:
//
//	R_i   everything reachable from parameter i of the query's root function
//	S_k   an allocation site (new, make, composite literal, local variable cell)
//	G_g   a package-level variable
//	F_fn  a function value / closure
//	U     unknown
//
// with a global (per query) abstract heap: contents of each object, split into
// the structural class (SimpleNode.children, Document.nodes, elements of
// node-typed slices) and the rest. It records every store to a state field
// (structural or cache) together with the abstract objects written and the
// call stack, and the abstract value of the root's results.
package e4

import (
	"fmt"
	"go/constant"
	"go/token"
	"go/types"
	"math/bits"
	"os"
	"sort"
	"strconv"
	"strings"

	"gedverif/internal/cg"
	"gedverif/internal/load"

	"golang.org/x/tools/go/ssa"
)

// Obj is an abstract object.
type Obj struct {
	Kind string // "R", "S", "G", "F", "U"
	Idx  int    // parameter index for R
	Site ssa.Instruction
	Glob *ssa.Global
	Fn   *ssa.Function
	Bind ssa.Instruction // MakeClosure for F
	Ctx  string          // allocation context (empty inside recursion)
	id   int
	Cont bool // a container (slice/array/map/channel backing store) as opposed to a struct or variable cell
	// OutGo: allocated (at least once) outside any concurrent region; InGoAlloc: allocated inside one
	OutGo, InGoAlloc bool
}

// ObjSet is a set of abstract objects (a bit set over the objects' serial
// numbers; nil is the empty set).
type ObjSet = *objSet

type objSet struct {
	w []uint64
}

var objTable []*Obj // serial number -> object (one analysis process; numbers are never reused)

func newSet() ObjSet { return &objSet{} }

func single(o *Obj) ObjSet {
	s := &objSet{}
	s.add(o)
	return s
}

func (s *objSet) add(o *Obj) bool {
	i := o.id
	for len(s.w) <= i/64 {
		s.w = append(s.w, 0)
	}
	if s.w[i/64]&(1<<uint(i%64)) != 0 {
		return false
	}
	s.w[i/64] |= 1 << uint(i%64)
	return true
}

// Add inserts an object (exported for the property drivers).
func (s *objSet) Add(o *Obj) { s.add(o) }

func (s *objSet) has(o *Obj) bool {
	if s == nil {
		return false
	}
	i := o.id
	return i/64 < len(s.w) && s.w[i/64]&(1<<uint(i%64)) != 0
}

func (s *objSet) addAll(t *objSet) bool {
	if t == nil {
		return false
	}
	ch := false
	for len(s.w) < len(t.w) {
		s.w = append(s.w, 0)
	}
	for i, x := range t.w {
		if n := s.w[i] | x; n != s.w[i] {
			s.w[i] = n
			ch = true
		}
	}
	return ch
}

// List returns the members.
func (s *objSet) List() []*Obj {
	if s == nil {
		return nil
	}
	var out []*Obj
	for i, x := range s.w {
		for x != 0 {
			b := bits.TrailingZeros64(x)
			out = append(out, objTable[i*64+b])
			x &^= 1 << uint(b)
		}
	}
	return out
}

// Len returns the number of members.
func (s *objSet) Len() int {
	if s == nil {
		return 0
	}
	n := 0
	for _, x := range s.w {
		n += bits.OnesCount64(x)
	}
	return n
}

func (s *objSet) key() string {
	if s == nil {
		return ""
	}
	var sb strings.Builder
	n := len(s.w)
	for n > 0 && s.w[n-1] == 0 {
		n--
	}
	for _, x := range s.w[:n] {
		sb.WriteString(strconv.FormatUint(x, 36))
		sb.WriteByte('.')
	}
	return sb.String()
}

// Has reports whether the set holds an object of the kind.
func (s *objSet) Has(kind string) bool {
	for _, o := range s.List() {
		if o.Kind == kind {
			return true
		}
	}
	return false
}

// Write is a recorded store to a state field.
type Write struct {
	Field  string // e.g. "SimpleNode.children", "Document.nodes", "elements of Nodes", "var nodeCache"
	Class  string // "structural" | "cache" | "global" | "captured"
	Instr  ssa.Instruction
	Fn     *ssa.Function
	Target ObjSet
	Stack  []string
	InGo   bool
	Locked bool
	Multi  bool   // inside a worker-pool body (several instances run at once)
	Var    string // captured variable name for class "captured"
}

// Analysis is one query.
type Analysis struct {
	P       *load.Prog
	G       *cg.Graph
	Root    *ssa.Function
	objs    map[string]*Obj
	Heap    map[*Obj]map[string]ObjSet // contents per field key ("Owner.field", "[]" elements, "*" cell/unknown)
	follow  map[string]bool            // field keys that belong to the node tree (structural + embedded structs + elements)
	fv      map[ssa.Value]ObjSet
	env     map[*Obj]map[ssa.Value]ObjSet // captured variables of closure objects
	active  map[*ssa.Function]int
	factory map[*ssa.Function]bool
	memo    map[string]*result
	Writes  map[string]*Write
	stack   []string
	inGo    int
	inPool  int
	Budget  int
	steps   int
	Over    bool
	// Returns of the root.
	RootRet []ObjSet
	changed bool
	// Concurrent: when set, calls of util.WorkerPool's argument and go statements mark the region
	MarkGo bool
	// Watch: "Owner.field" names whose stores are recorded with the stored value's objects.
	Watch   map[string]bool
	Watched map[string]*Watched
	// Bools: constant values of the root's bool parameters (1 true, 2 false).
	curBools []int8
	// FreshFuncs lets a query declare functions whose result is a fresh object (their body is still analysed).
	Unknowns []string
}

type result struct {
	rets []ObjSet
	busy bool
}

// Watched is a recorded store to a watched field.
type Watched struct {
	Field string
	Instr ssa.Instruction
	Fn    *ssa.Function
	Val   ObjSet
	Addr  ObjSet
	Stack []string
}

// New prepares a query rooted at fn.
func New(p *load.Prog, g *cg.Graph, fn *ssa.Function) *Analysis {
	return &Analysis{P: p, G: g, Root: fn, objs: map[string]*Obj{}, Heap: map[*Obj]map[string]ObjSet{}, follow: map[string]bool{"[]": true, "SimpleNode.children": true, "Document.nodes": true}, fv: map[ssa.Value]ObjSet{}, env: map[*Obj]map[ssa.Value]ObjSet{}, active: map[*ssa.Function]int{}, factory: map[*ssa.Function]bool{},
		memo: map[string]*result{}, Writes: map[string]*Write{}, Budget: 400000}
}

func (a *Analysis) obj(kind string, idx int, site ssa.Instruction, g *ssa.Global, fn *ssa.Function) *Obj {
	return a.objCtx(kind, idx, site, g, fn, "")
}

func (a *Analysis) objCtx(kind string, idx int, site ssa.Instruction, g *ssa.Global, fn *ssa.Function, ctx string) *Obj {
	k := fmt.Sprintf("%s|%d|%p|%p|%p|%s", kind, idx, site, g, fn, ctx)
	if o, ok := a.objs[k]; ok {
		return o
	}
	o := &Obj{Kind: kind, Idx: idx, Site: site, Glob: g, Fn: fn, Ctx: ctx, id: len(objTable)}
	objTable = append(objTable, o)
	a.objs[k] = o
	return o
}

// R returns the region object of root parameter i.
func (a *Analysis) R(i int) *Obj { return a.obj("R", i, nil, nil, nil) }

func (a *Analysis) unknown() *Obj { return a.obj("U", 0, nil, nil, nil) }

// contents returns what a load of field key from o may yield ("" = any field).
func (a *Analysis) contents(o *Obj, key string) ObjSet {
	out := newSet()
	switch o.Kind {
	case "R", "U":
		out.add(o)
	}
	if o.Kind == "R" {
		// A parameter region is closed: whatever is loaded from it is "part of the region". Objects stored into it
		// are not returned by later loads (they would be reported as the region itself), which keeps the regions of
		// different parameters apart; a store into the region is recorded as a write where it matters.
		return out
	}
	h := a.Heap[o]
	if key == "[]" && o.Kind == "S" && !o.Cont {
		return out // a struct or variable cell has no elements
	}
	if key == "" || o.Kind == "U" || o.Kind == "G" {
		for _, s := range h {
			out.addAll(s)
		}
		return out
	}
	out.addAll(h[key])
	out.addAll(h["*"])
	return out
}

func (a *Analysis) storeInto(o *Obj, key string, v ObjSet) {
	if v.Len() == 0 {
		return
	}
	if key == "" {
		key = "*"
	}
	if key == "[]" && o.Kind == "S" && !o.Cont {
		return // element store into something that is not a container (imprecise value sets mix both)
	}
	if a.Heap[o] == nil {
		a.Heap[o] = map[string]ObjSet{}
	}
	if a.Heap[o][key] == nil {
		a.Heap[o][key] = newSet()
	}
	if a.Heap[o][key].addAll(v) {
		a.changed = true
		if os.Getenv("GEDCHECK_TRACE") != "" && o.Kind == "S" && a.follow[key] && v.Has("R") {
			fmt.Fprintf(os.Stderr, "TRACE store of region into %s .%s  stack: %s\n", a.Describe(o), key, strings.Join(a.stack, " > "))
		}
	}
}

// nodeish: the type is (or contains by slice/pointer) a node or document type
// of the root package.
func nodeish(t types.Type) bool {
	switch tt := t.(type) {
	case *types.Slice:
		return nodeish(tt.Elem())
	case *types.Array:
		return nodeish(tt.Elem())
	}
	if n := load.NamedOf(t); n != nil && n.Obj().Pkg() != nil && n.Obj().Pkg().Path() == load.PkgRoot {
		name := n.Obj().Name()
		if name == "Node" || strings.HasSuffix(name, "Node") || strings.HasSuffix(name, "Nodes") || name == "Document" || name == "simpleDocumentNode" {
			return true
		}
		if sl, ok := n.Underlying().(*types.Slice); ok {
			return nodeish(sl.Elem())
		}
	}
	return false
}

// FieldClass classifies a struct field: "structural", "cache" or "".
func FieldClass(owner *types.Named, field string) string {
	if owner == nil || owner.Obj().Pkg() == nil || owner.Obj().Pkg().Path() != load.PkgRoot {
		return ""
	}
	switch owner.Obj().Name() + "." + field {
	case "SimpleNode.children", "SimpleNode.tag", "SimpleNode.value", "SimpleNode.pointer", "Document.nodes", "Document.HasBOM", "Document.MaxLivingAge",
		"simpleDocumentNode.document", "SimpleDocumentNode.document": // the back-reference: which document a record resolves its pointers in
		return "structural"
	case "Document.pointerCache", "Document.families",
		"IndividualNode.cachedFamilies", "IndividualNode.cachedSpouses", "IndividualNode.families", "IndividualNode.spouses", "IndividualNode.cachedUniqueIDs",
		"FamilyNode.cachedHusband", "FamilyNode.cachedWife", "FamilyNode.husband", "FamilyNode.wife",
		"DateNode.alreadyParsed", "DateNode.parsedDateRange":
		return "cache"
	}
	return ""
}

func fieldOf(fa *ssa.FieldAddr) (*types.Named, string) {
	t := fa.X.Type().Underlying().(*types.Pointer).Elem()
	st := t.Underlying().(*types.Struct)
	var named *types.Named
	for {
		switch tt := t.(type) {
		case *types.Named:
			named = tt
		case *types.Alias:
			t = types.Unalias(tt)
			continue
		}
		break
	}
	return named, st.Field(fa.Field).Name()
}

// Run analyses the root with the given abstract arguments (nil = R_i for every
// pointer-like parameter) to a fixpoint.
func (a *Analysis) Run(args []ObjSet) {
	if args == nil {
		for i := range a.Root.Params {
			args = append(args, single(a.R(i)))
		}
	}
	if a.Watched == nil {
		a.Watched = map[string]*Watched{}
	}
	for iter := 0; iter < 40; iter++ {
		a.changed = false
		for _, r := range a.memo {
			r.busy = false
		}
		visited := map[string]bool{}
		a.RootRet = a.call(a.Root, args, nil, visited)
		if !a.changed || a.Over {
			break
		}
	}
}

func ctxKey(fn *ssa.Function, args []ObjSet, bools []int8, clo *Obj) string {
	var sb strings.Builder
	sb.WriteString(fn.String())
	if clo != nil {
		sb.WriteString(fmt.Sprintf("@%p", clo))
	}
	for _, s := range args {
		sb.WriteString("|")
		sb.WriteString(s.key())
	}
	sb.WriteString("#")
	for _, b := range bools {
		sb.WriteByte('0' + byte(b))
	}
	return sb.String()
}

func (a *Analysis) call(fn *ssa.Function, args []ObjSet, bools []int8, visited map[string]bool) []ObjSet {
	return a.callClo(fn, nil, args, bools, visited)
}

func (a *Analysis) callClo(fn *ssa.Function, clo *Obj, args []ObjSet, bools []int8, visited map[string]bool) []ObjSet {
	return a.callSite(fn, clo, nil, args, bools, visited)
}

// isFactory: a small function that returns an object it allocates (or the
// result of another factory): its allocation sites are split by the call site
// of the factory (one level of heap cloning), so that e.g. the throw-away
// documents made by NewDocument() in different places are different objects.
func (a *Analysis) isFactory(fn *ssa.Function) bool {
	if r, ok := a.factory[fn]; ok {
		return r
	}
	a.factory[fn] = false
	n := 0
	for _, b := range fn.Blocks {
		n += len(b.Instrs)
	}
	if n > 80 || fn.Signature.Results().Len() == 0 {
		return false
	}
	res := false
	var fresh func(v ssa.Value, depth int) bool
	fresh = func(v ssa.Value, depth int) bool {
		if depth > 4 {
			return false
		}
		switch x := v.(type) {
		case *ssa.Alloc:
			return x.Parent() == fn
		case *ssa.Call:
			cal := x.Call.StaticCallee()
			return cal != nil && cal != fn && cal.Blocks != nil && a.P.IsRepoFunc(cal) && a.isFactory(cal)
		case *ssa.Phi:
			for _, e := range x.Edges {
				if !fresh(e, depth+1) {
					if k, ok := e.(*ssa.Const); ok && k.Value == nil {
						continue
					}
					return false
				}
			}
			return true
		case *ssa.MakeInterface:
			return fresh(x.X, depth+1)
		case *ssa.ChangeType:
			return fresh(x.X, depth+1)
		}
		return false
	}
	for _, b := range fn.Blocks {
		if ret, ok := b.Instrs[len(b.Instrs)-1].(*ssa.Return); ok && len(ret.Results) > 0 {
			if fresh(ret.Results[0], 0) {
				res = true
			} else if k, isK := ret.Results[0].(*ssa.Const); !isK || k.Value != nil {
				a.factory[fn] = false
				return false
			}
		}
	}
	a.factory[fn] = res
	return res
}

func (a *Analysis) callSite(fn *ssa.Function, clo *Obj, site ssa.Instruction, args []ObjSet, bools []int8, visited map[string]bool) []ObjSet {
	if fn.Blocks == nil {
		return nil
	}
	key := ctxKey(fn, args, bools, clo)
	siteCtx := ""
	if site != nil && a.isFactory(fn) {
		siteCtx = fmt.Sprintf("%p", site)
		key += "@" + siteCtx
	}
	r := a.memo[key]
	if r == nil {
		r = &result{}
		a.memo[key] = r
		a.changed = true
	}
	if visited[key] || r.busy {
		return r.rets
	}
	visited[key] = true
	r.busy = true
	a.stack = append(a.stack, load.FuncName(fn))
	// Allocation sites are not split by context: a context-sensitive heap was
	// tried and is intractable here (the contexts multiply through the
	// recursive copy/merge functions).
	allocCtx := siteCtx
	if allocCtx == "" {
		// two variants of every allocation site: calls whose arguments are made of fresh objects only, and the rest;
		// this keeps the temporary containers of helpers (Families(), NodesWithTag, ...) that are applied to a
		// throw-away document apart from those applied to the state under analysis
		fresh, any := true, false
		for _, s := range args {
			for _, o := range s.List() {
				any = true
				if o.Kind != "S" && o.Kind != "F" {
					fresh = false
				}
			}
		}
		if fresh && any {
			allocCtx = "fresh"
		}
	}
	a.active[fn]++
	rets := a.analyse(fn, clo, allocCtx, args, bools, visited)
	a.active[fn]--
	a.stack = a.stack[:len(a.stack)-1]
	r.busy = false
	// merge
	for i, s := range rets {
		for len(r.rets) <= i {
			r.rets = append(r.rets, newSet())
		}
		if r.rets[i].addAll(s) {
			a.changed = true
		}
	}
	return r.rets
}

func hashString(s string) uint64 {
	var h uint64 = 1469598103934665603
	for i := 0; i < len(s); i++ {
		h ^= uint64(s[i])
		h *= 1099511628211
	}
	return h
}

type frame struct {
	ctx   string
	fn    *ssa.Function
	vals  map[ssa.Value]ObjSet
	tup   map[ssa.Value][]ObjSet
	bools map[ssa.Value]int8
	live  map[*ssa.BasicBlock]bool
}

// boolConst evaluates a condition built from bool parameters with a known
// constant value (1 true, 2 false, 0 unknown).
func (f *frame) boolConst(v ssa.Value) int8 {
	switch x := v.(type) {
	case *ssa.Const:
		if x.Value != nil && x.Value.Kind() == constant.Bool {
			if x.Value.String() == "true" {
				return 1
			}
			return 2
		}
	case *ssa.Parameter:
		return f.bools[x]
	case *ssa.UnOp:
		if x.Op == token.NOT {
			switch f.boolConst(x.X) {
			case 1:
				return 2
			case 2:
				return 1
			}
		}
	}
	return 0
}

func (f *frame) computeLive() {
	f.live = map[*ssa.BasicBlock]bool{}
	var walk func(b *ssa.BasicBlock)
	walk = func(b *ssa.BasicBlock) {
		if f.live[b] {
			return
		}
		f.live[b] = true
		if iff, ok := b.Instrs[len(b.Instrs)-1].(*ssa.If); ok {
			switch f.boolConst(iff.Cond) {
			case 1:
				walk(b.Succs[0])
				return
			case 2:
				walk(b.Succs[1])
				return
			}
		}
		for _, s := range b.Succs {
			walk(s)
		}
	}
	walk(f.fn.Blocks[0])
	if f.fn.Recover != nil {
		walk(f.fn.Recover)
	}
}

func (a *Analysis) analyse(fn *ssa.Function, clo *Obj, allocCtx string, args []ObjSet, bools []int8, visited map[string]bool) []ObjSet {
	f := &frame{ctx: allocCtx, fn: fn, vals: map[ssa.Value]ObjSet{}, tup: map[ssa.Value][]ObjSet{}, bools: map[ssa.Value]int8{}}
	for i, p := range fn.Params {
		if i < len(bools) {
			f.bools[p] = bools[i]
		}
	}
	f.computeLive()
	for i, p := range fn.Params {
		if i < len(args) && args[i] != nil {
			f.vals[p] = args[i]
		} else {
			f.vals[p] = newSet()
		}
	}
	for _, v := range fn.FreeVars {
		var s ObjSet
		if clo != nil && a.env[clo] != nil {
			s = a.env[clo][v]
		} else {
			s = a.fv[v]
		}
		if s == nil {
			s = newSet()
		}
		f.vals[v] = s
	}
	var rets []ObjSet
	// local fixpoint (phis, loops)
	for pass := 0; pass < 12; pass++ {
		localChanged := false
		for _, b := range fn.Blocks {
			if !f.live[b] {
				continue
			}
			for _, ins := range b.Instrs {
				a.steps++
				if a.steps%20000 == 0 && os.Getenv("GEDCHECK_DEBUG") != "" {
					mx := 0
					for _, h := range a.Heap {
						for _, cs := range h {
							if cs.Len() > mx {
								mx = cs.Len()
							}
						}
					}
					fmt.Fprintf(os.Stderr, "e4: steps=%d contexts=%d objects=%d maxset=%d depth=%d\n", a.steps, len(a.memo), len(a.objs), mx, len(a.stack))
					cnt := map[string]int{}
					for _, o := range a.objs {
						k := o.Kind
						if o.Site != nil {
							k += " " + a.P.Pos(o.Site.Pos()) + " " + o.Ctx
						}
						if o.Kind == "F" {
							k = "F " + o.Fn.String()
						}
						cnt[k]++
					}
					for k, n := range cnt {
						if n > 20 {
							fmt.Fprintf(os.Stderr, "   %d x %s\n", n, k)
						}
					}
				}
				if a.steps > a.Budget {
					a.Over = true
					return rets
				}
				if a.transfer(f, ins, visited, &rets) {
					localChanged = true
				}
			}
		}
		if !localChanged {
			break
		}
	}
	return rets
}

func (a *Analysis) val(f *frame, v ssa.Value) ObjSet {
	switch x := v.(type) {
	case *ssa.Const:
		return newSet()
	case *ssa.Global:
		return single(a.obj("G", 0, nil, x, nil))
	case *ssa.Function:
		return single(a.obj("F", 0, nil, nil, x))
	case *ssa.Builtin:
		return newSet()
	}
	if s, ok := f.vals[v]; ok {
		return s
	}
	return newSet()
}

func (a *Analysis) set(f *frame, v ssa.Value, s ObjSet) bool {
	if !pointerLike(v.Type()) {
		return false // strings, numbers, bools and pointer-free structs reference no object
	}
	cur := f.vals[v]
	if cur == nil {
		cur = newSet()
		f.vals[v] = cur
	}
	return cur.addAll(s)
}

func pointerLike(t types.Type) bool {
	switch u := t.Underlying().(type) {
	case *types.Basic:
		return u.Kind() == types.UnsafePointer
	case *types.Struct:
		for i := 0; i < u.NumFields(); i++ {
			if pointerLike(u.Field(i).Type()) {
				return true
			}
		}
		return false
	case *types.Array:
		return pointerLike(u.Elem())
	case *types.Tuple:
		return true
	}
	return true
}

// addrInfo describes an address expression: the objects addressed and the
// field class.
func (a *Analysis) addr(f *frame, addr ssa.Value) (objs ObjSet, key string, field string, class string, precise bool) {
	switch x := addr.(type) {
	case *ssa.FieldAddr:
		owner, name := fieldOf(x)
		cl := FieldClass(owner, name)
		fld := name
		if owner != nil {
			fld = owner.Obj().Name() + "." + name
		}
		st := x.X.Type().Underlying().(*types.Pointer).Elem().Underlying().(*types.Struct)
		if st.Field(x.Field).Embedded() {
			a.follow[fld] = true
		}
		return a.val(f, x.X), fld, fld, cl, true
	case *ssa.IndexAddr:
		base := a.val(f, x.X)
		el := x.X.Type().Underlying()
		if p, ok := el.(*types.Pointer); ok {
			el = p.Elem().Underlying()
		}
		var et types.Type
		switch tt := el.(type) {
		case *types.Slice:
			et = tt.Elem()
		case *types.Array:
			et = tt.Elem()
		}
		isNode := et != nil && nodeish(et)
		cl := ""
		if isNode {
			cl = "structural"
		}
		return base, "[]", "elements of " + typeName(x.X.Type()), cl, true
	}
	return a.val(f, addr), "*", "", "", false
}

func typeName(t types.Type) string {
	s := t.String()
	s = strings.ReplaceAll(s, load.Module+"/", "")
	s = strings.ReplaceAll(s, load.Module, "gedcom")
	return s
}

func (a *Analysis) recordWrite(f *frame, ins ssa.Instruction, field, class string, target ObjSet) {
	interesting := newSet()
	for _, o := range target.List() {
		if o.Kind == "R" || o.Kind == "G" || o.Kind == "U" {
			interesting.add(o)
		}
	}
	if interesting.Len() == 0 {
		return
	}
	k := fmt.Sprintf("%p|%s", ins, field)
	w := a.Writes[k]
	if w == nil {
		w = &Write{Field: field, Class: class, Instr: ins, Fn: f.fn, Target: newSet(), Stack: append([]string{}, a.stack...), InGo: a.inGo > 0, Locked: lockedAt(ins)}
		a.Writes[k] = w
		a.changed = true
	}
	if w.Target.addAll(interesting) {
		a.changed = true
	}
	if a.inGo > 0 {
		w.InGo = true
	}
	if a.inPool > 0 {
		w.Multi = true
	}
}

func (a *Analysis) transfer(f *frame, ins ssa.Instruction, visited map[string]bool, rets *[]ObjSet) bool {
	switch x := ins.(type) {
	case *ssa.Alloc:
		o := a.objCtx("S", 0, x, nil, nil, f.ctx)
		if a.inGo > 0 {
			o.InGoAlloc = true
		} else {
			o.OutGo = true
		}
		if _, isArr := x.Type().Underlying().(*types.Pointer).Elem().Underlying().(*types.Array); isArr {
			o.Cont = true
		}
		return a.set(f, x, single(o))
	case *ssa.MakeSlice, *ssa.MakeMap, *ssa.MakeChan:
		o := a.objCtx("S", 0, x, nil, nil, f.ctx)
		o.Cont = true
		return a.set(f, x.(ssa.Value), single(o))
	case *ssa.MakeClosure:
		fn := x.Fn.(*ssa.Function)
		co := a.objCtx("F", 0, x, nil, fn, f.ctx)
		if a.env[co] == nil {
			a.env[co] = map[ssa.Value]ObjSet{}
		}
		for i, b := range x.Bindings {
			fvv := fn.FreeVars[i]
			if a.fv[fvv] == nil {
				a.fv[fvv] = newSet()
			}
			if a.fv[fvv].addAll(a.val(f, b)) {
				a.changed = true
			}
			if a.env[co][fvv] == nil {
				a.env[co][fvv] = newSet()
			}
			if a.env[co][fvv].addAll(a.val(f, b)) {
				a.changed = true
			}
		}
		return a.set(f, x, single(co))
	case *ssa.FieldAddr:
		return a.set(f, x, a.val(f, x.X))
	case *ssa.IndexAddr:
		return a.set(f, x, a.val(f, x.X))
	case *ssa.UnOp:
		if x.Op == token.MUL {
			objs, key, _, _, precise := a.addr(f, x.X)
			out := newSet()
			for _, o := range objs.List() {
				if o.Kind == "F" {
					continue
				}
				if _, isStruct := x.Type().Underlying().(*types.Struct); isStruct && !precise {
					out.addAll(a.contents(o, "")) // whole-struct load gathers every field
				} else if precise {
					out.addAll(a.contents(o, key))
				} else {
					out.addAll(a.contents(o, "*"))
				}
			}
			if !pointerLike(x.Type()) {
				return false
			}
			return a.set(f, x, out)
		}
		if x.Op == token.ARROW {
			out := newSet()
			for _, o := range a.val(f, x.X).List() {
				out.addAll(a.contents(o, ""))
			}
			if x.CommaOk {
				f.tup[x] = []ObjSet{out, newSet()}
				return a.set(f, x, out)
			}
			return a.set(f, x, out)
		}
		return false
	case *ssa.Store:
		objs, key, field, class, _ := a.addr(f, x.Addr)
		v := a.val(f, x.Val)
		for _, o := range objs.List() {
			if o.Kind == "F" {
				continue
			}
			a.storeInto(o, key, v)
		}
		if a.Watch[field] {
			k := fmt.Sprintf("%p", x)
			w := a.Watched[k]
			if w == nil {
				w = &Watched{Field: field, Instr: x, Fn: f.fn, Val: newSet(), Addr: newSet(), Stack: append([]string{}, a.stack...)}
				a.Watched[k] = w
			}
			w.Val.addAll(v)
			w.Addr.addAll(objs)
		}
		if class == "" && a.MarkGo && a.inGo > 0 && field != "" {
			a.recordWrite(f, x, field, "heap", objs)
		}
		if fvv, ok := x.Addr.(*ssa.FreeVar); ok && a.MarkGo && a.inGo > 0 {
			shared := newSet()
			for _, o := range objs.List() {
				if o.Kind == "S" && o.OutGo {
					shared.add(a.unknown()) // recorded through the generic path below with a synthetic target
				}
			}
			if shared.Len() > 0 {
				k := fmt.Sprintf("%p|captured", x)
				if a.Writes[k] == nil {
					a.Writes[k] = &Write{Field: "captured variable " + fvv.Name(), Class: "captured", Instr: x, Fn: f.fn, Target: shared, Stack: append([]string{}, a.stack...),
						InGo: true, Locked: lockedAt(x), Multi: a.inPool > 0, Var: fvv.Name()}
					a.changed = true
				}
			}
		}
		if class != "" {
			a.recordWrite(f, x, field, class, objs)
		} else if g, ok := x.Addr.(*ssa.Global); ok {
			a.recordWrite(f, x, "var "+g.Name(), "global", single(a.obj("G", 0, nil, g, nil)))
		} else if fvv, ok := x.Addr.(*ssa.FreeVar); ok {
			_ = fvv
		}
		return false
	case *ssa.Phi:
		ch := false
		for i, e := range x.Edges {
			if !f.live[x.Block().Preds[i]] {
				continue
			}
			if a.set(f, x, a.val(f, e)) {
				ch = true
			}
		}
		return ch
	case *ssa.ChangeType:
		return a.set(f, x, a.val(f, x.X))
	case *ssa.ChangeInterface:
		return a.set(f, x, a.val(f, x.X))
	case *ssa.MakeInterface:
		return a.set(f, x, a.val(f, x.X))
	case *ssa.Convert:
		return a.set(f, x, a.val(f, x.X))
	case *ssa.SliceToArrayPointer:
		return a.set(f, x, a.val(f, x.X))
	case *ssa.TypeAssert:
		s := a.val(f, x.X)
		if x.CommaOk {
			f.tup[x] = []ObjSet{s, newSet()}
		}
		return a.set(f, x, s)
	case *ssa.Extract:
		if t, ok := f.tup[x.Tuple]; ok && x.Index < len(t) {
			return a.set(f, x, t[x.Index])
		}
		return a.set(f, x, a.val(f, x.Tuple))
	case *ssa.Slice:
		return a.set(f, x, a.val(f, x.X))
	case *ssa.Field:
		return a.set(f, x, a.val(f, x.X))
	case *ssa.Index:
		out := newSet()
		for _, o := range a.val(f, x.X).List() {
			out.addAll(a.contents(o, ""))
		}
		out.addAll(a.val(f, x.X))
		return a.set(f, x, out)
	case *ssa.Lookup:
		out := newSet()
		for _, o := range a.val(f, x.X).List() {
			out.addAll(a.contents(o, ""))
		}
		if x.CommaOk {
			f.tup[x] = []ObjSet{out, newSet()}
		}
		return a.set(f, x, out)
	case *ssa.MapUpdate:
		for _, o := range a.val(f, x.Map).List() {
			a.storeInto(o, "[]", a.val(f, x.Key))
			a.storeInto(o, "[]", a.val(f, x.Value))
		}
		return false
	case *ssa.Send:
		for _, o := range a.val(f, x.Chan).List() {
			a.storeInto(o, "[]", a.val(f, x.X))
		}
		return false
	case *ssa.Range:
		return a.set(f, x, a.val(f, x.X))
	case *ssa.Next:
		out := newSet()
		for _, o := range a.val(f, x.Iter).List() {
			out.addAll(a.contents(o, ""))
		}
		f.tup[x] = []ObjSet{newSet(), out, out}
		return a.set(f, x, out)
	case *ssa.Select:
		out := newSet()
		for _, st := range x.States {
			if st.Dir == types.RecvOnly {
				for _, o := range a.val(f, st.Chan).List() {
					out.addAll(a.contents(o, ""))
				}
			} else {
				for _, o := range a.val(f, st.Chan).List() {
					a.storeInto(o, "[]", a.val(f, st.Send))
				}
			}
		}
		return a.set(f, x, out)
	case *ssa.Return:
		for i, r := range x.Results {
			for len(*rets) <= i {
				*rets = append(*rets, newSet())
			}
			(*rets)[i].addAll(a.val(f, r))
		}
		return false
	case *ssa.Call:
		res := a.doCall(f, x, x.Common(), false, visited)
		ch := false
		if len(res) == 1 {
			ch = a.set(f, x, res[0])
		} else if len(res) > 1 {
			old := f.tup[x]
			merged := make([]ObjSet, len(res))
			all := newSet()
			for i := range res {
				merged[i] = newSet()
				if i < len(old) {
					merged[i].addAll(old[i])
				}
				if merged[i].addAll(res[i]) {
					ch = true
				}
				all.addAll(merged[i])
			}
			f.tup[x] = merged
			if a.set(f, x, all) {
				ch = true
			}
		}
		return ch
	case *ssa.Go:
		a.inGo++
		a.doCall(f, x, x.Common(), true, visited)
		a.inGo--
		return false
	case *ssa.Defer:
		a.doCall(f, x, x.Common(), false, visited)
		return false
	}
	return false
}

func (a *Analysis) doCall(f *frame, site ssa.CallInstruction, cc *ssa.CallCommon, isGo bool, visited map[string]bool) []ObjSet {
	var args []ObjSet
	var bools []int8
	for _, arg := range cc.Args {
		args = append(args, a.val(f, arg))
		bools = append(bools, f.boolConst(arg))
	}
	// builtins
	if bi, ok := cc.Value.(*ssa.Builtin); ok {
		return a.builtin(f, site, bi, cc, args)
	}
	var callees []*ssa.Function
	closOf := map[*ssa.Function][]*Obj{}
	if cc.IsInvoke() {
		recv := a.val(f, cc.Value)
		args = append([]ObjSet{recv}, args...)
		bools = append([]int8{0}, bools...)
		callees = a.invokeCallees(site)
	} else if cal := cc.StaticCallee(); cal != nil {
		callees = []*ssa.Function{cal}
		if _, ok := cc.Value.(*ssa.MakeClosure); ok {
			for _, o := range a.val(f, cc.Value).List() {
				if o.Kind == "F" && o.Fn == cal {
					closOf[cal] = append(closOf[cal], o)
				}
			}
		}
	} else {
		// dynamic call: function tokens in the abstract value, else VTA
		seenFn := map[*ssa.Function]bool{}
		for _, o := range a.val(f, cc.Value).List() {
			if o.Kind == "F" {
				if !seenFn[o.Fn] {
					seenFn[o.Fn] = true
					callees = append(callees, o.Fn)
				}
				if o.Site != nil {
					closOf[o.Fn] = append(closOf[o.Fn], o)
				}
			}
		}
		if len(callees) == 0 {
			callees = a.invokeCallees(site)
		}
		sort.Slice(callees, func(i, j int) bool { return callees[i].String() < callees[j].String() })
	}
	var out []ObjSet
	merge := func(r []ObjSet) {
		for i, s := range r {
			for len(out) <= i {
				out = append(out, newSet())
			}
			out[i].addAll(s)
		}
	}
	nres := 0
	if sig, ok := cc.Value.Type().Underlying().(*types.Signature); ok {
		nres = sig.Results().Len()
	} else if cc.IsInvoke() {
		nres = cc.Method.Type().(*types.Signature).Results().Len()
	}
	for _, cal := range callees {
		if cal == nil {
			continue
		}
		if a.P.IsRepoFunc(cal) && cal.Blocks != nil {
			// worker pool: its function argument runs concurrently
			conc := a.MarkGo && cal.Pkg != nil && cal.Pkg.Pkg.Path() == load.PkgUtil && cal.Name() == "WorkerPool"
			if conc {
				a.inGo++
				a.inPool++
			}
			site2 := ""
			if site.Pos().IsValid() {
				site2 = " @" + a.P.Pos(site.Pos())
			}
			a.stack[len(a.stack)-1] += site2
			var r []ObjSet
			if cs := closOf[cal]; len(cs) > 0 {
				for _, co := range cs {
					rr := a.callClo(cal, co, args, bools, visited)
					for i, s := range rr {
						for len(r) <= i {
							r = append(r, newSet())
						}
						r[i].addAll(s)
					}
				}
			} else {
				r = a.callSite(cal, nil, site, args, bools, visited)
			}
			a.stack[len(a.stack)-1] = strings.TrimSuffix(a.stack[len(a.stack)-1], site2)
			if conc {
				a.inGo--
				a.inPool--
			}
			merge(r)
			continue
		}
		merge(a.library(f, site, cal, cc, args, nres, visited))
	}
	if len(callees) == 0 && nres > 0 {
		u := single(a.unknown())
		for i := 0; i < nres; i++ {
			merge([]ObjSet{u})
		}
		a.Unknowns = append(a.Unknowns, "unresolved call at "+a.P.Pos(site.Pos()))
	}
	for len(out) < nres {
		out = append(out, newSet())
	}
	return out
}

func (a *Analysis) invokeCallees(site ssa.CallInstruction) []*ssa.Function {
	var out []*ssa.Function
	seen := map[*ssa.Function]bool{}
	for _, e := range a.G.Out(cg.Target{Fn: site.Parent()}) {
		if e.Site == site && (e.Kind == "invoke" || e.Kind == "dynamic" || e.Kind == "param" || e.Kind == "static") && !seen[e.Callee.Fn] {
			seen[e.Callee.Fn] = true
			out = append(out, e.Callee.Fn)
		}
	}
	sort.Slice(out, func(i, j int) bool { return out[i].String() < out[j].String() })
	return out
}

func (a *Analysis) builtin(f *frame, site ssa.CallInstruction, bi *ssa.Builtin, cc *ssa.CallCommon, args []ObjSet) []ObjSet {
	switch bi.Name() {
	case "append":
		// result aliases the first argument's array or is a fresh array; model: a site per append plus the old objects
		out := newSet()
		out.addAll(args[0])
		s := a.objCtx("S", 0, site, nil, nil, f.ctx)
		s.Cont = true
		out.add(s)
		el := cc.Args[0].Type().Underlying().(*types.Slice).Elem()
		structural := nodeish(el)
		var add ObjSet = newSet()
		if len(args) > 1 {
			for _, o := range args[1].List() {
				add.addAll(a.contents(o, "[]")) // elements of the appended slice
			}
		}
		for _, o := range args[0].List() {
			add.addAll(a.contents(o, "[]"))
		}
		for _, o := range out.List() {
			a.storeInto(o, "[]", add)
		}
		// in-place idiom: append(x[:i], ...) overwrites elements of x's array that x's other holders can see
		if structural {
			for _, sl := range reslices(cc.Args[0], 0, map[ssa.Value]bool{}) {
				a.recordWrite(f, site, "elements of "+typeName(sl.X.Type())+" (in-place append)", "structural", a.val(f, sl.X))
			}
		}
		return []ObjSet{out}
	case "copy":
		for _, o := range args[0].List() {
			for _, s := range args[1].List() {
				a.storeInto(o, "[]", a.contents(s, "[]"))
			}
		}
		if sl := cc.Args[0].Type().Underlying().(*types.Slice); nodeish(sl.Elem()) {
			a.recordWrite(f, site, "elements of "+typeName(cc.Args[0].Type())+" (copy)", "structural", args[0])
		}
		return []ObjSet{newSet()}
	case "delete", "close", "panic", "print", "println", "len", "cap", "recover", "min", "max", "clear":
		return []ObjSet{newSet()}
	case "new":
		return []ObjSet{single(a.objCtx("S", 0, site, nil, nil, f.ctx))}
	}
	return []ObjSet{newSet()}
}

// library models a call that leaves the repository.
func (a *Analysis) library(f *frame, site ssa.CallInstruction, cal *ssa.Function, cc *ssa.CallCommon, args []ObjSet, nres int, visited map[string]bool) []ObjSet {
	name := ""
	if cal.Pkg != nil {
		name = cal.Pkg.Pkg.Path() + "." + cal.Name()
	}
	all := newSet()
	for _, s := range args {
		all.addAll(s)
	}
	recvName := ""
	if cal.Signature.Recv() != nil {
		if n := load.NamedOf(cal.Signature.Recv().Type()); n != nil {
			recvName = n.Obj().Pkg().Path() + "." + n.Obj().Name()
		}
	}
	out := make([]ObjSet, nres)
	for i := range out {
		out[i] = newSet()
	}
	// function-typed arguments are called back with the other arguments' contents
	callBack := func(with ObjSet) {
		for i, arg := range cc.Args {
			if _, isSig := arg.Type().Underlying().(*types.Signature); !isSig {
				continue
			}
			for _, o := range args[i].List() {
				if o.Kind != "F" || o.Fn.Blocks == nil {
					continue
				}
				cbArgs := make([]ObjSet, len(o.Fn.Params))
				for j := range cbArgs {
					cbArgs[j] = with
				}
				if o.Site != nil {
					a.callClo(o.Fn, o, cbArgs, nil, visited)
				} else {
					a.call(o.Fn, cbArgs, nil, visited)
				}
			}
		}
	}
	switch {
	case recvName == "sync.Map":
		switch cal.Name() {
		case "Store", "LoadOrStore", "Swap":
			for _, o := range args[0].List() {
				for _, s := range args[1:] {
					a.storeInto(o, "[]", s)
				}
			}
			if len(out) > 0 {
				for _, o := range args[0].List() {
					out[0].addAll(a.contents(o, ""))
				}
			}
			a.recordSyncMapWrite(f, site, cc, args[0])
		case "Load", "LoadAndDelete":
			for _, o := range args[0].List() {
				if o.Kind == "G" {
					// a package-level cache (nodeCache): assumed to return only what the computation it caches would
					// return for the same key (cache coherence is C13's clause); otherwise the one global map would
					// connect the trees of all parameters
					continue
				}
				out[0].addAll(a.contents(o, ""))
			}
		case "Range":
			with := newSet()
			for _, o := range args[0].List() {
				with.addAll(a.contents(o, ""))
			}
			callBack(with)
		case "Delete":
			a.recordSyncMapWrite(f, site, cc, args[0])
		}
		return out
	case name == "sort.Slice" || name == "sort.SliceStable" || name == "sort.Sort" || name == "sort.Stable":
		with := newSet()
		callBack(with)
		if nodeishArg(cc.Args[0]) {
			a.recordWrite(f, site, "elements of "+typeName(su(cc.Args[0]).Type())+" (sorted in place)", "structural", args[0])
		}
		if name == "sort.Sort" || name == "sort.Stable" {
			// Len/Less/Swap of the argument
			for _, e := range a.G.Out(cg.Target{Fn: site.Parent()}) {
				if e.Site == site && e.Kind == "sort" {
					a.call(e.Callee.Fn, []ObjSet{args[0], newSet(), newSet()}, nil, visited)
				}
			}
		}
		return out
	case strings.HasPrefix(name, "fmt.") || strings.HasPrefix(name, "log."):
		// String/Error methods of the arguments
		for _, e := range a.G.Out(cg.Target{Fn: site.Parent()}) {
			if e.Site == site && e.Kind == "fmt" {
				a.call(e.Callee.Fn, []ObjSet{all}, nil, visited)
			}
		}
		return out
	case strings.HasPrefix(name, "encoding/json."):
		for _, e := range a.G.Out(cg.Target{Fn: site.Parent()}) {
			if e.Site == site && e.Kind == "json" {
				a.call(e.Callee.Fn, []ObjSet{all}, nil, visited)
			}
		}
		return out
	case strings.HasPrefix(name, "reflect.") || recvName == "reflect.Value" || recvName == "reflect.rtype":
		fresh := func() *Obj {
			o := a.objCtx("S", 0, site, nil, nil, f.ctx)
			o.Cont = true
			return o
		}
		switch cal.Name() {
		case "MakeSlice", "MakeMap", "New", "Zero":
			if len(out) > 0 {
				out[0].add(fresh())
			}
		case "Append", "AppendSlice":
			n := fresh()
			out[0].add(n)
			out[0].addAll(args[0])
			add := newSet()
			for _, o := range args[0].List() {
				add.addAll(a.contents(o, "[]"))
			}
			for _, s := range args[1:] {
				add.addAll(s)
				for _, o := range s.List() {
					add.addAll(a.contents(o, "[]"))
				}
			}
			for _, o := range out[0].List() {
				a.storeInto(o, "[]", add)
			}
		case "Index", "Elem", "MapIndex", "MapKeys", "Field", "FieldByName", "Slice":
			// the element(s); the container stays in the set so that Set() on the result reaches it
			for i := range out {
				out[i].addAll(args[0])
				for _, o := range args[0].List() {
					out[i].addAll(a.contents(o, ""))
				}
			}
		case "Set", "SetMapIndex":
			for _, o := range args[0].List() {
				for _, s := range args[1:] {
					a.storeInto(o, "[]", s)
				}
			}
		case "Call":
			for i := range out {
				out[i].add(a.unknown())
			}
		default:
			// ValueOf, Interface, Type, Kind, Len, ...: identity on the objects
			for i := range out {
				out[i].addAll(all)
			}
		}
		return out
	}
	callBack(all)
	// default: results may alias any pointer-like argument
	for i := range out {
		out[i].addAll(all)
	}
	return out
}

func su(v ssa.Value) ssa.Value {
	for {
		switch x := v.(type) {
		case *ssa.MakeInterface:
			v = x.X
		case *ssa.ChangeType:
			v = x.X
		default:
			return v
		}
	}
}

func nodeishArg(v ssa.Value) bool { return nodeish(su(v).Type()) }

func (a *Analysis) recordSyncMapWrite(f *frame, site ssa.CallInstruction, cc *ssa.CallCommon, target ObjSet) {
	// identify the map: a field (pointerCache) or a global (nodeCache)
	field := "sync.Map"
	class := "cache"
	switch x := cc.Args[0].(type) {
	case *ssa.FieldAddr:
		owner, name := fieldOf(x)
		if owner != nil {
			field = owner.Obj().Name() + "." + name
		}
		target = a.val(f, x.X)
	case *ssa.UnOp:
		if g, ok := x.X.(*ssa.Global); ok {
			field = "var " + g.Name()
			target = single(a.obj("G", 0, nil, g, nil))
		} else if fa, ok := x.X.(*ssa.FieldAddr); ok {
			owner, name := fieldOf(fa)
			if owner != nil {
				field = owner.Obj().Name() + "." + name
			}
			target = a.val(f, fa.X)
		}
	}
	a.recordWrite(f, site, field+" (sync.Map)", class, target)
}

// SortedWrites lists the recorded writes in a stable order.
func (a *Analysis) SortedWrites() []*Write {
	var out []*Write
	for _, w := range a.Writes {
		out = append(out, w)
	}
	sort.Slice(out, func(i, j int) bool {
		pi, pj := a.P.Pos(out[i].Instr.Pos()), a.P.Pos(out[j].Instr.Pos())
		if pi != pj {
			return pi < pj
		}
		return out[i].Field < out[j].Field
	})
	return out
}

// TreeContents lists, per followed field key, what o holds (for witnesses).
func (a *Analysis) TreeContents(o *Obj) ObjSet {
	out := newSet()
	for key, cs := range a.Heap[o] {
		if a.follow[key] {
			out.addAll(cs)
		}
	}
	return out
}

// Closure computes the objects reachable from the set through structural
// contents (children-class), i.e. the node tree below the objects.
func (a *Analysis) StructClosure(s ObjSet) ObjSet {
	out := newSet()
	var work []*Obj
	for _, o := range s.List() {
		if out.add(o) {
			work = append(work, o)
		}
	}
	for len(work) > 0 {
		o := work[len(work)-1]
		work = work[:len(work)-1]
		for key, cs := range a.Heap[o] {
			if !a.follow[key] {
				continue
			}
			for _, c := range cs.List() {
				if out.add(c) {
					work = append(work, c)
				}
			}
		}
	}
	return out
}

// Describe renders an object for reports.
func (a *Analysis) Describe(o *Obj) string {
	switch o.Kind {
	case "R":
		if o.Idx < len(a.Root.Params) {
			return "state reachable from parameter '" + a.Root.Params[o.Idx].Name() + "' of " + load.FuncName(a.Root)
		}
		return fmt.Sprintf("parameter #%d", o.Idx)
	case "S":
		return "object allocated at " + a.P.Pos(o.Site.Pos())
	case "G":
		return "package variable " + o.Glob.Name()
	case "F":
		return "function " + load.FuncName(o.Fn)
	}
	return "unknown object"
}

// Contexts returns the number of analysed contexts.
func (a *Analysis) Contexts() int { return len(a.memo) }

// FuncObj returns the abstract value of a function constant.
func (a *Analysis) FuncObj(fn *ssa.Function) ObjSet {
	return single(a.obj("F", 0, nil, nil, fn))
}

// DumpHeap renders the abstract heap (development aid).
func (a *Analysis) DumpHeap(onlyKind string) string {
	var lines []string
	for o, h := range a.Heap {
		if onlyKind != "" && o.Kind != onlyKind {
			continue
		}
		for k, cs := range h {
			var ts []string
			for _, c := range cs.List() {
				ts = append(ts, a.Describe(c))
			}
			sort.Strings(ts)
			lines = append(lines, a.Describe(o)+" ."+k+" = {"+strings.Join(ts, "; ")+"}")
		}
	}
	sort.Strings(lines)
	return strings.Join(lines, "\n")
}

// NewSet returns an empty set; Single a one-element set.
func NewSet() ObjSet       { return newSet() }
func Single(o *Obj) ObjSet { return single(o) }

// PathToNonFresh returns a chain (object --field--> object ...) from the set
// to the first object that is not an allocation site, through followed fields.
func (a *Analysis) PathToNonFresh(s ObjSet) []string {
	type step struct {
		from *Obj
		key  string
	}
	prev := map[*Obj]step{}
	seen := map[*Obj]bool{}
	var queue []*Obj
	for _, o := range s.List() {
		seen[o] = true
		queue = append(queue, o)
	}
	for len(queue) > 0 {
		o := queue[0]
		queue = queue[1:]
		if o.Kind != "S" && o.Kind != "F" {
			var rev []string
			cur := o
			for {
				st, ok := prev[cur]
				if !ok {
					rev = append(rev, a.Describe(cur))
					break
				}
				rev = append(rev, "--"+st.key+"--> "+a.Describe(cur))
				cur = st.from
			}
			for i, j := 0, len(rev)-1; i < j; i, j = i+1, j-1 {
				rev[i], rev[j] = rev[j], rev[i]
			}
			return rev
		}
		var keys []string
		for k := range a.Heap[o] {
			keys = append(keys, k)
		}
		sort.Strings(keys)
		for _, k := range keys {
			if !a.follow[k] {
				continue
			}
			for _, c := range a.Heap[o][k].List() {
				if !seen[c] {
					seen[c] = true
					prev[c] = step{o, k}
					queue = append(queue, c)
				}
			}
		}
	}
	return nil
}

// reslices finds the x[:i] expressions (with an upper bound) that v may be,
// looking through phis: appending to such a value overwrites elements of x's
// backing array that other holders of x can see.
func reslices(v ssa.Value, depth int, seen map[ssa.Value]bool) []*ssa.Slice {
	if depth > 6 || seen[v] {
		return nil
	}
	seen[v] = true
	switch x := v.(type) {
	case *ssa.Slice:
		if x.High != nil {
			return []*ssa.Slice{x}
		}
		return reslices(x.X, depth+1, seen)
	case *ssa.Phi:
		var out []*ssa.Slice
		for _, e := range x.Edges {
			out = append(out, reslices(e, depth+1, seen)...)
		}
		return out
	case *ssa.Call:
		// result of a previous append on such a value
		if bi, ok := x.Call.Value.(*ssa.Builtin); ok && bi.Name() == "append" {
			return reslices(x.Call.Args[0], depth+1, seen)
		}
	case *ssa.ChangeType:
		return reslices(x.X, depth+1, seen)
	}
	return nil
}

// lockedAt: the instruction sits between a Lock and an Unlock of a mutex in
// its function (Lock earlier in a dominating position, Unlock later in the
// same block or deferred).
func lockedAt(ins ssa.Instruction) bool {
	fn := ins.Parent()
	if fn == nil {
		return false
	}
	isMutexCall := func(i ssa.Instruction, name string) bool {
		c, ok := i.(ssa.CallInstruction)
		if !ok {
			return false
		}
		cal := c.Common().StaticCallee()
		if cal == nil || cal.Pkg == nil || cal.Pkg.Pkg.Path() != "sync" || cal.Name() != name {
			return false
		}
		return true
	}
	lockBefore, unlockAfter := false, false
	for _, b := range fn.Blocks {
		for _, i := range b.Instrs {
			if isMutexCall(i, "Lock") || isMutexCall(i, "RLock") {
				if b == ins.Block() {
					if before(b, i, ins) {
						lockBefore = true
					}
				} else if b.Dominates(ins.Block()) {
					lockBefore = true
				}
			}
			if isMutexCall(i, "Unlock") || isMutexCall(i, "RUnlock") {
				if _, isDefer := i.(*ssa.Defer); isDefer {
					unlockAfter = true
				} else if b == ins.Block() && before(b, ins, i) {
					unlockAfter = true
				} else if ins.Block().Dominates(b) && b != ins.Block() {
					unlockAfter = true
				}
			}
		}
	}
	return lockBefore && unlockAfter
}

func before(b *ssa.BasicBlock, x, y ssa.Instruction) bool {
	ix, iy := -1, -1
	for i, ins := range b.Instrs {
		if ins == x {
			ix = i
		}
		if ins == y {
			iy = i
		}
	}
	return ix >= 0 && iy >= 0 && ix < iy
}

// LockedAt exports the lock-bracket test.
func LockedAt(ins ssa.Instruction) bool { return lockedAt(ins) }
