// Package cg is the library-opaque, function-parameter-sensitive call graph
// used by every reachability question (DESIGN.md 2.1).
//
// Edges: static calls between repository functions; interface invokes and
// dynamic calls resolved with VTA (or CHA in the thorough tier) restricted to
// repository callees; calls of function-typed parameters / captured variables
// resolved through the binding of the call path being traversed (one context
// per distinct binding); and modelled library call-backs: function-typed
// arguments of library calls, fmt/log -> String/Error/Format/GoString of the
// argument types, sort.Sort -> Len/Less/Swap, encoding/json -> MarshalJSON,
// reflect method calls in q.AccessorExpr -> exported zero-argument methods.
package cg

import (
	"fmt"
	"go/types"
	"sort"
	"strings"

	"gedverif/internal/load"

	"golang.org/x/tools/go/callgraph"
	"golang.org/x/tools/go/ssa"
)

// Target is a function together with the bindings of its function-typed
// parameters and free variables (nil = unknown, resolved by VTA).
type Target struct {
	Fn  *ssa.Function
	Ctx *Ctx
}

// Ctx binds function-typed parameters and free variables to targets.
type Ctx struct {
	B   map[ssa.Value][]Target
	key string
}

func (c *Ctx) Key() string {
	if c == nil {
		return ""
	}
	return c.key
}

func newCtx(b map[ssa.Value][]Target, depth int) *Ctx {
	if len(b) == 0 {
		return nil
	}
	var parts []string
	for v, ts := range b {
		var names []string
		for _, t := range ts {
			n := t.Fn.String()
			if depth < 2 && t.Ctx != nil {
				n += "{" + t.Ctx.key + "}"
			}
			names = append(names, n)
		}
		sort.Strings(names)
		parts = append(parts, v.Name()+"="+strings.Join(names, ","))
	}
	sort.Strings(parts)
	return &Ctx{B: b, key: strings.Join(parts, ";")}
}

// Edge is one resolved call edge.
type Edge struct {
	Site   ssa.CallInstruction // nil for synthetic edges without a site
	Callee Target
	Kind   string // static | invoke | dynamic | param | callback | fmt | sort | json | reflect
	Go     bool   // the callee runs in a new goroutine (go statement)
	Defer  bool
}

// Graph resolves edges on demand.
type Graph struct {
	P      *load.Prog
	UseCHA bool

	base       *callgraph.Graph
	fieldFuncs map[string][]ssa.Value // struct field -> function values stored
	callers    map[*ssa.Function][]ssa.CallInstruction
	addrTaken  map[*ssa.Function]bool
	reflectSet []*ssa.Function
	stringers  []*ssa.Function
	cache      map[string][]Edge
	// ExtraCallbacks lets a property add modelled edges for a call site.
	ReflectRoots []types.Type
}

// New builds the graph helper.
func New(p *load.Prog, useCHA bool) *Graph {
	g := &Graph{P: p, UseCHA: useCHA, fieldFuncs: map[string][]ssa.Value{}, callers: map[*ssa.Function][]ssa.CallInstruction{},
		addrTaken: map[*ssa.Function]bool{}, cache: map[string][]Edge{}}
	if useCHA {
		g.base = p.CHA()
	} else {
		g.base = p.VTA()
	}
	for _, fn := range p.Repo {
		for _, b := range fn.Blocks {
			for _, ins := range b.Instrs {
				switch x := ins.(type) {
				case *ssa.Store:
					if fa, ok := x.Addr.(*ssa.FieldAddr); ok {
						if _, isSig := x.Val.Type().Underlying().(*types.Signature); isSig {
							k := fieldKey(fa)
							g.fieldFuncs[k] = append(g.fieldFuncs[k], x.Val)
						}
					}
				case ssa.CallInstruction:
					if cal := x.Common().StaticCallee(); cal != nil {
						g.callers[cal] = append(g.callers[cal], x)
					}
				}
				// address-taken functions: any operand that is a *ssa.Function / MakeClosure not in call position
				var ops []*ssa.Value
				for _, op := range ins.Operands(ops) {
					if op == nil || *op == nil {
						continue
					}
					var f *ssa.Function
					switch y := (*op).(type) {
					case *ssa.Function:
						f = y
					case *ssa.MakeClosure:
						f = y.Fn.(*ssa.Function)
					}
					if f == nil {
						continue
					}
					if ci, ok := ins.(ssa.CallInstruction); ok && ci.Common().Value == *op {
						continue
					}
					g.addrTaken[f] = true
				}
			}
		}
	}
	return g
}

func fieldKey(fa *ssa.FieldAddr) string {
	st := fa.X.Type().Underlying().(*types.Pointer).Elem()
	return fmt.Sprintf("%s.%d", st.String(), fa.Field)
}

func (g *Graph) isRepo(fn *ssa.Function) bool {
	return fn != nil && g.P.IsRepoFunc(fn) && fn.Blocks != nil
}

// ResolveFunc resolves a function-typed value to targets. ok=false means the
// value could not be resolved structurally.
func (g *Graph) ResolveFunc(v ssa.Value, in *ssa.Function, ctx *Ctx, depth int) (out []Target, ok bool) {
	if depth > 6 {
		return nil, false
	}
	switch x := v.(type) {
	case *ssa.Function:
		return []Target{{Fn: x}}, true
	case *ssa.MakeClosure:
		fn := x.Fn.(*ssa.Function)
		b := map[ssa.Value][]Target{}
		for i, bind := range x.Bindings {
			if _, isSig := bind.Type().Underlying().(*types.Signature); isSig {
				if ts, ok := g.ResolveFunc(bind, in, ctx, depth+1); ok {
					b[fn.FreeVars[i]] = ts
				}
			}
		}
		// nested closures inherit the creator's context for variables they capture transitively
		return []Target{{Fn: fn, Ctx: newCtx(b, depth)}}, true
	case *ssa.Parameter, *ssa.FreeVar:
		if ctx != nil {
			if ts, ok := ctx.B[v]; ok {
				return ts, true
			}
		}
		return nil, false
	case *ssa.Phi:
		all := true
		for _, e := range x.Edges {
			ts, ok := g.ResolveFunc(e, in, ctx, depth+1)
			if !ok {
				all = false
			}
			out = append(out, ts...)
		}
		return out, all
	case *ssa.ChangeType:
		return g.ResolveFunc(x.X, in, ctx, depth+1)
	case *ssa.Const:
		return nil, true // nil function
	case *ssa.Call:
		// result of a function that returns closures
		cal := x.Call.StaticCallee()
		if cal == nil || !g.isRepo(cal) {
			return nil, false
		}
		all := true
		for _, b := range cal.Blocks {
			ret, isRet := b.Instrs[len(b.Instrs)-1].(*ssa.Return)
			if !isRet {
				continue
			}
			for _, r := range ret.Results {
				if _, isSig := r.Type().Underlying().(*types.Signature); !isSig {
					continue
				}
				ts, ok := g.ResolveFunc(r, cal, nil, depth+1)
				if !ok {
					all = false
				}
				out = append(out, ts...)
			}
		}
		return out, all && len(out) > 0
	case *ssa.UnOp:
		// load of a struct field holding a function: field-based
		if fa, ok := x.X.(*ssa.FieldAddr); ok {
			vals := g.fieldFuncs[fieldKey(fa)]
			if len(vals) == 0 {
				return nil, false
			}
			all := true
			for _, sv := range vals {
				var owner *ssa.Function
				if ins, ok := sv.(ssa.Instruction); ok {
					owner = ins.Parent()
				}
				ts, ok := g.ResolveFunc(sv, owner, nil, depth+1)
				if !ok {
					all = false
				}
				out = append(out, ts...)
			}
			return out, all
		}
	}
	return nil, false
}

func (g *Graph) baseCallees(site ssa.CallInstruction) []*ssa.Function {
	fn := site.Parent()
	n := g.base.Nodes[fn]
	if n == nil {
		return nil
	}
	var out []*ssa.Function
	seen := map[*ssa.Function]bool{}
	for _, e := range n.Out {
		if e.Site == site && !seen[e.Callee.Func] {
			seen[e.Callee.Func] = true
			out = append(out, e.Callee.Func)
		}
	}
	sort.Slice(out, func(i, j int) bool { return out[i].String() < out[j].String() })
	return out
}

// Out returns the resolved out-edges of a target.
func (g *Graph) Out(t Target) []Edge {
	key := t.Fn.String() + "|" + t.Ctx.Key()
	if e, ok := g.cache[key]; ok {
		return e
	}
	var edges []Edge
	fn := t.Fn
	for _, b := range fn.Blocks {
		for _, ins := range b.Instrs {
			if mc, ok := ins.(*ssa.MakeClosure); ok {
				_ = mc
			}
			site, ok := ins.(ssa.CallInstruction)
			if !ok {
				continue
			}
			_, isGo := ins.(*ssa.Go)
			_, isDefer := ins.(*ssa.Defer)
			add := func(tg Target, kind string) {
				if tg.Fn == nil {
					return
				}
				edges = append(edges, Edge{Site: site, Callee: tg, Kind: kind, Go: isGo, Defer: isDefer})
			}
			cc := site.Common()
			// bind function-typed arguments for a repository callee
			bindArgs := func(callee *ssa.Function) *Ctx {
				bm := map[ssa.Value][]Target{}
				args := cc.Args
				params := callee.Params
				for i, prm := range params {
					if i >= len(args) {
						break
					}
					if _, isSig := prm.Type().Underlying().(*types.Signature); !isSig {
						continue
					}
					if ts, ok := g.ResolveFunc(args[i], fn, t.Ctx, 0); ok {
						bm[prm] = ts
					}
				}
				return newCtx(bm, 0)
			}
			switch {
			case cc.IsInvoke():
				for _, cal := range g.baseCallees(site) {
					if g.isRepo(cal) {
						add(Target{Fn: cal, Ctx: bindArgsFor(g, cal, cc, fn, t.Ctx)}, "invoke")
					}
				}
			default:
				if cal := cc.StaticCallee(); cal != nil {
					if mc, ok := cc.Value.(*ssa.MakeClosure); ok {
						ts, _ := g.ResolveFunc(mc, fn, t.Ctx, 0)
						for _, tg := range ts {
							tg.Ctx = mergeCtx(tg.Ctx, bindArgs(tg.Fn))
							add(tg, "static")
						}
					} else if g.isRepo(cal) {
						add(Target{Fn: cal, Ctx: bindArgs(cal)}, "static")
					} else {
						g.libraryEdges(site, cal, fn, t.Ctx, add)
					}
					continue
				}
				if _, isBuiltin := cc.Value.(*ssa.Builtin); isBuiltin {
					continue
				}
				// dynamic call of a function value
				if ts, ok := g.ResolveFunc(cc.Value, fn, t.Ctx, 0); ok {
					for _, tg := range ts {
						if g.isRepo(tg.Fn) {
							tg.Ctx = mergeCtx(tg.Ctx, bindArgsFor(g, tg.Fn, cc, fn, t.Ctx))
							add(tg, "param")
						}
					}
				} else {
					for _, cal := range g.baseCallees(site) {
						if g.isRepo(cal) {
							add(Target{Fn: cal}, "dynamic")
						}
					}
				}
			}
		}
	}
	g.cache[key] = edges
	return edges
}

func bindArgsFor(g *Graph, callee *ssa.Function, cc *ssa.CallCommon, in *ssa.Function, ctx *Ctx) *Ctx {
	bm := map[ssa.Value][]Target{}
	params := callee.Params
	args := cc.Args
	off := 0
	if cc.IsInvoke() {
		off = 1 // receiver is params[0]
	}
	for i, a := range args {
		pi := i + off
		if pi >= len(params) {
			break
		}
		if _, isSig := params[pi].Type().Underlying().(*types.Signature); !isSig {
			continue
		}
		if ts, ok := g.ResolveFunc(a, in, ctx, 0); ok {
			bm[params[pi]] = ts
		}
	}
	return newCtx(bm, 0)
}

func mergeCtx(a, b *Ctx) *Ctx {
	if a == nil {
		return b
	}
	if b == nil {
		return a
	}
	m := map[ssa.Value][]Target{}
	for k, v := range a.B {
		m[k] = v
	}
	for k, v := range b.B {
		m[k] = v
	}
	return newCtx(m, 0)
}

var printFamily = map[string]bool{
	"fmt.Sprintf": true, "fmt.Sprint": true, "fmt.Sprintln": true, "fmt.Printf": true, "fmt.Print": true, "fmt.Println": true,
	"fmt.Fprintf": true, "fmt.Fprint": true, "fmt.Fprintln": true, "fmt.Errorf": true,
	"log.Printf": true, "log.Print": true, "log.Println": true, "log.Fatalf": true, "log.Fatal": true, "log.Fatalln": true, "log.Panicf": true, "log.Panic": true,
}

func (g *Graph) libraryEdges(site ssa.CallInstruction, cal *ssa.Function, in *ssa.Function, ctx *Ctx, add func(Target, string)) {
	cc := site.Common()
	name := ""
	if cal.Pkg != nil {
		name = cal.Pkg.Pkg.Path() + "." + cal.Name()
	}
	// function-typed arguments are called back
	for _, a := range cc.Args {
		if _, isSig := a.Type().Underlying().(*types.Signature); isSig {
			if ts, ok := g.ResolveFunc(a, in, ctx, 0); ok {
				for _, tg := range ts {
					if g.isRepo(tg.Fn) {
						add(tg, "callback")
					}
				}
			} else {
				// unknown function value: every address-taken repository function of that signature
				for f := range g.addrTaken {
					if g.isRepo(f) && types.Identical(f.Signature, a.Type().Underlying()) {
						add(Target{Fn: f}, "callback")
					}
				}
			}
		}
	}
	switch {
	case printFamily[name]:
		for _, a := range cc.Args {
			for _, T := range g.DynTypes(a, in, 0) {
				for _, m := range []string{"String", "Error", "Format", "GoString"} {
					if f := g.methodOf(T, m); f != nil {
						add(Target{Fn: f}, "fmt")
					}
				}
			}
		}
	case name == "sort.Sort" || name == "sort.Stable" || name == "sort.Reverse":
		for _, T := range g.DynTypes(cc.Args[0], in, 0) {
			for _, m := range []string{"Len", "Less", "Swap"} {
				if f := g.methodOf(T, m); f != nil {
					add(Target{Fn: f}, "sort")
				}
			}
		}
	case strings.HasPrefix(name, "encoding/json.Marshal") || (cal.Signature.Recv() != nil && cal.Pkg != nil && cal.Pkg.Pkg.Path() == "encoding/json" && cal.Name() == "Encode"):
		for _, f := range g.marshalers() {
			add(Target{Fn: f}, "json")
		}
	case name == "flag.Var":
		for _, T := range g.DynTypes(cc.Args[0], in, 0) {
			for _, m := range []string{"Set", "String"} {
				if f := g.methodOf(T, m); f != nil {
					add(Target{Fn: f}, "callback")
				}
			}
		}
	case cal.Pkg != nil && cal.Pkg.Pkg.Path() == "reflect" && (cal.Name() == "Call" || cal.Name() == "MethodByName"):
		if cal.Name() == "Call" {
			for _, f := range g.ReflectTargets() {
				add(Target{Fn: f}, "reflect")
			}
		}
	case strings.HasPrefix(name, "text/template.") || strings.HasPrefix(name, "html/template."):
	}
}

func (g *Graph) methodOf(T types.Type, name string) *ssa.Function {
	ms := g.P.SSA.MethodSets.MethodSet(T)
	for i := 0; i < ms.Len(); i++ {
		if ms.At(i).Obj().Name() == name {
			f := g.P.SSA.MethodValue(ms.At(i))
			if f != nil && g.P.IsRepoFunc(f) {
				return f
			}
		}
	}
	return nil
}

var marshalCache []*ssa.Function

func (g *Graph) marshalers() []*ssa.Function {
	if marshalCache != nil {
		return marshalCache
	}
	seen := map[*ssa.Function]bool{}
	for _, T := range g.repoTypes() {
		for _, recv := range []types.Type{T, types.NewPointer(T)} {
			if f := g.methodOf(recv, "MarshalJSON"); f != nil && !seen[f] {
				seen[f] = true
				marshalCache = append(marshalCache, f)
			}
		}
	}
	sort.Slice(marshalCache, func(i, j int) bool { return marshalCache[i].String() < marshalCache[j].String() })
	return marshalCache
}

func (g *Graph) repoTypes() []types.Type {
	var out []types.Type
	for _, pk := range g.P.Pkgs {
		sc := pk.Types.Scope()
		for _, n := range sc.Names() {
			if tn, ok := sc.Lookup(n).(*types.TypeName); ok && !tn.IsAlias() {
				if _, isIface := tn.Type().Underlying().(*types.Interface); !isIface {
					out = append(out, tn.Type())
				}
			}
		}
	}
	return out
}

// DynTypes over-approximates the concrete types an interface-typed (or
// []interface{}) value can hold at this point: MakeInterface operands, phi
// edges, varargs arrays, one to three levels of callers for parameters, and as
// a last resort every repository type implementing the static interface.
func (g *Graph) DynTypes(v ssa.Value, in *ssa.Function, depth int) []types.Type {
	seen := map[string]types.Type{}
	g.dynTypes(v, in, depth, seen, map[ssa.Value]bool{})
	var out []types.Type
	var keys []string
	for k := range seen {
		keys = append(keys, k)
	}
	sort.Strings(keys)
	for _, k := range keys {
		out = append(out, seen[k])
	}
	return out
}

func (g *Graph) dynTypes(v ssa.Value, in *ssa.Function, depth int, acc map[string]types.Type, visiting map[ssa.Value]bool) {
	if visiting[v] {
		return
	}
	visiting[v] = true
	addT := func(T types.Type) { acc[T.String()] = T }
	fallback := func(T types.Type) {
		iface, _ := T.Underlying().(*types.Interface)
		if iface == nil {
			if sl, ok := T.Underlying().(*types.Slice); ok {
				iface, _ = sl.Elem().Underlying().(*types.Interface)
			}
		}
		if iface == nil {
			addT(T)
			return
		}
		for _, rt := range g.repoTypes() {
			for _, recv := range []types.Type{rt, types.NewPointer(rt)} {
				if types.Implements(recv, iface) {
					// only types with a formatting/sort method matter to callers; keep all, callers filter by method
					addT(recv)
				}
			}
		}
	}
	if depth > 4 {
		fallback(v.Type())
		return
	}
	switch x := v.(type) {
	case *ssa.MakeInterface:
		addT(x.X.Type())
	case *ssa.ChangeInterface:
		g.dynTypes(x.X, in, depth, acc, visiting)
	case *ssa.ChangeType:
		g.dynTypes(x.X, in, depth, acc, visiting)
	case *ssa.Phi:
		for _, e := range x.Edges {
			g.dynTypes(e, in, depth, acc, visiting)
		}
	case *ssa.Const:
	case *ssa.Slice:
		// varargs array
		if al, ok := x.X.(*ssa.Alloc); ok {
			for _, ref := range *al.Referrers() {
				if ia, ok := ref.(*ssa.IndexAddr); ok {
					for _, r2 := range *ia.Referrers() {
						if st, ok := r2.(*ssa.Store); ok && st.Addr == ia {
							g.dynTypes(st.Val, in, depth, acc, visiting)
						}
					}
				}
			}
			return
		}
		g.dynTypes(x.X, in, depth, acc, visiting)
	case *ssa.Parameter:
		fn := x.Parent()
		idx := -1
		for i, p := range fn.Params {
			if p == x {
				idx = i
			}
		}
		callers := g.callers[fn]
		if idx < 0 || len(callers) == 0 || g.addrTaken[fn] || fn.Signature.Recv() != nil && len(callers) == 0 {
			fallback(x.Type())
			return
		}
		for _, c := range callers {
			args := c.Common().Args
			if idx < len(args) {
				g.dynTypes(args[idx], c.Parent(), depth+1, acc, visiting)
			}
		}
	case *ssa.UnOp:
		// element of a slice parameter etc.: resolve the container
		if ia, ok := x.X.(*ssa.IndexAddr); ok {
			g.dynTypes(ia.X, in, depth, acc, visiting)
			return
		}
		fallback(x.Type())
	case *ssa.Call:
		if bi, ok := x.Call.Value.(*ssa.Builtin); ok && bi.Name() == "recover" {
			// a recovered value is whatever some panic(...) in the repository was given (or a runtime error of the library)
			for _, fn := range g.P.Repo {
				for _, b := range fn.Blocks {
					for _, ins := range b.Instrs {
						if pn, ok := ins.(*ssa.Panic); ok {
							g.dynTypes(pn.X, fn, depth+1, acc, visiting)
						}
					}
				}
			}
			return
		}
		if cal := x.Call.StaticCallee(); cal != nil && g.isRepo(cal) {
			for _, b := range cal.Blocks {
				if ret, ok := b.Instrs[len(b.Instrs)-1].(*ssa.Return); ok {
					for _, r := range ret.Results {
						if types.Identical(r.Type(), x.Type()) {
							g.dynTypes(r, cal, depth+1, acc, visiting)
						}
					}
				}
			}
			return
		}
		fallback(x.Type())
	case *ssa.Extract:
		fallback(x.Type())
	default:
		if _, isIface := v.Type().Underlying().(*types.Interface); isIface {
			fallback(v.Type())
		} else if sl, ok := v.Type().Underlying().(*types.Slice); ok {
			if _, isIface := sl.Elem().Underlying().(*types.Interface); isIface {
				fallback(v.Type())
			} else {
				addT(v.Type())
			}
		} else {
			addT(v.Type())
		}
	}
}

// ReflectTargets: exported zero-argument methods (and the functions they are
// promoted from) of every type reachable through exported zero-argument
// methods, fields, slices and maps from *gedcom.Document - the accessor
// surface of the query language.
func (g *Graph) ReflectTargets() []*ssa.Function {
	if g.reflectSet != nil {
		return g.reflectSet
	}
	doc := g.P.ByPath[load.PkgRoot].Types.Scope().Lookup("Document")
	if doc == nil {
		return nil
	}
	seenT := map[string]bool{}
	seenF := map[*ssa.Function]bool{}
	var work []types.Type
	push := func(T types.Type) {
		for {
			switch tt := T.(type) {
			case *types.Slice:
				T = tt.Elem()
				continue
			case *types.Array:
				T = tt.Elem()
				continue
			case *types.Map:
				work = append(work, tt.Key())
				T = tt.Elem()
				continue
			}
			break
		}
		if seenT[T.String()] {
			return
		}
		seenT[T.String()] = true
		work = append(work, T)
	}
	push(types.NewPointer(doc.Type()))
	for _, extra := range g.ReflectRoots {
		push(extra)
	}
	// interface results: every repository implementer
	for len(work) > 0 {
		T := work[len(work)-1]
		work = work[:len(work)-1]
		if iface, ok := T.Underlying().(*types.Interface); ok {
			for _, rt := range g.repoTypes() {
				for _, recv := range []types.Type{rt, types.NewPointer(rt)} {
					if types.Implements(recv, iface) {
						push(recv)
					}
				}
			}
			continue
		}
		named := load.NamedOf(T)
		if named == nil || named.Obj().Pkg() == nil || !load.IsRepoPkgPath(named.Obj().Pkg().Path()) {
			continue
		}
		recvs := []types.Type{T}
		if _, isPtr := T.(*types.Pointer); !isPtr {
			recvs = append(recvs, types.NewPointer(T))
		}
		for _, recv := range recvs {
			ms := g.P.SSA.MethodSets.MethodSet(recv)
			for i := 0; i < ms.Len(); i++ {
				m := ms.At(i)
				if !m.Obj().Exported() {
					continue
				}
				sig := m.Type().(*types.Signature)
				if sig.Params().Len() != 0 {
					continue
				}
				f := g.P.SSA.MethodValue(m)
				if f == nil || !g.P.IsRepoFunc(f) {
					continue
				}
				if !seenF[f] {
					seenF[f] = true
					g.reflectSet = append(g.reflectSet, f)
				}
				for j := 0; j < sig.Results().Len(); j++ {
					push(sig.Results().At(j).Type())
				}
			}
		}
		if st, ok := named.Underlying().(*types.Struct); ok {
			for i := 0; i < st.NumFields(); i++ {
				if st.Field(i).Exported() {
					push(st.Field(i).Type())
				}
			}
		}
	}
	sort.Slice(g.reflectSet, func(i, j int) bool { return g.reflectSet[i].String() < g.reflectSet[j].String() })
	return g.reflectSet
}

// Reach is the result of a reachability traversal.
type Reach struct {
	G      *Graph
	Nodes  map[string]Target
	parent map[string]parentInfo
	Funcs  map[*ssa.Function]bool
	// first node key per function (for witness paths)
	first map[*ssa.Function]string
	// InGo marks functions that (also) run inside a goroutine started on the path
	Order []string
}

type parentInfo struct {
	from string
	edge Edge
}

// Options steer a traversal.
type Options struct {
	// Barrier stops the traversal from entering a function.
	Barrier func(fn *ssa.Function) bool
	// SkipEdge filters edges.
	SkipEdge func(from Target, e Edge) bool
}

func nodeKey(t Target) string { return t.Fn.String() + "|" + t.Ctx.Key() }

// ReachFrom traverses from the entry functions.
func (g *Graph) ReachFrom(entries []Target, opt Options) *Reach {
	r := &Reach{G: g, Nodes: map[string]Target{}, parent: map[string]parentInfo{}, Funcs: map[*ssa.Function]bool{}, first: map[*ssa.Function]string{}}
	var queue []Target
	for _, e := range entries {
		k := nodeKey(e)
		if _, ok := r.Nodes[k]; ok {
			continue
		}
		r.Nodes[k] = e
		r.Order = append(r.Order, k)
		r.Funcs[e.Fn] = true
		if _, ok := r.first[e.Fn]; !ok {
			r.first[e.Fn] = k
		}
		queue = append(queue, e)
	}
	for len(queue) > 0 {
		t := queue[0]
		queue = queue[1:]
		for _, e := range g.Out(t) {
			if opt.Barrier != nil && opt.Barrier(e.Callee.Fn) {
				continue
			}
			if opt.SkipEdge != nil && opt.SkipEdge(t, e) {
				continue
			}
			k := nodeKey(e.Callee)
			if _, ok := r.Nodes[k]; ok {
				continue
			}
			r.Nodes[k] = e.Callee
			r.Order = append(r.Order, k)
			r.parent[k] = parentInfo{from: nodeKey(t), edge: e}
			r.Funcs[e.Callee.Fn] = true
			if _, ok := r.first[e.Callee.Fn]; !ok {
				r.first[e.Callee.Fn] = k
			}
			queue = append(queue, e.Callee)
		}
	}
	return r
}

// Path returns the call chain (entry first) that first reached fn.
func (r *Reach) Path(fn *ssa.Function) []string {
	k, ok := r.first[fn]
	if !ok {
		return nil
	}
	var rev []string
	for {
		t := r.Nodes[k]
		pi, has := r.parent[k]
		if !has {
			rev = append(rev, load.FuncName(t.Fn))
			break
		}
		site := ""
		if pi.edge.Site != nil {
			site = " (called at " + r.G.P.Pos(pi.edge.Site.Pos()) + ", " + pi.edge.Kind + ")"
		}
		rev = append(rev, load.FuncName(t.Fn)+site)
		k = pi.from
	}
	for i, j := 0, len(rev)-1; i < j; i, j = i+1, j-1 {
		rev[i], rev[j] = rev[j], rev[i]
	}
	return rev
}

// Targets lists the contexts in which fn was reached.
func (r *Reach) Targets(fn *ssa.Function) []Target {
	var out []Target
	for _, k := range r.Order {
		if t := r.Nodes[k]; t.Fn == fn {
			out = append(out, t)
		}
	}
	return out
}
