// Package oblig is the obligation model shared by all rules: every rule
// enumerates its instances (obligations) on every run; each ends discharged,
// as a listed known finding, as a violation, or undecided.
package oblig

import (
	"encoding/json"
	"fmt"
	"os"
	"path/filepath"
	"sort"
	"strings"
	"time"
)

type State string

const (
	Discharged State = "discharged"
	Known      State = "known-finding"
	Violation  State = "violation"
	Undecided  State = "undecided"
)

// Ob is one obligation.
type Ob struct {
	Rule    string   `json:"rule"`
	Key     string   `json:"key"`
	Pos     string   `json:"pos,omitempty"`
	What    string   `json:"what"`
	State   State    `json:"state"`
	Reason  string   `json:"reason,omitempty"`
	Witness []string `json:"witness,omitempty"`
}

// Run collects the obligations of one property check.
type Run struct {
	Prop        string
	Tier        string
	Level       string
	Start       time.Time
	Obs         []*Ob
	Explanation string
	NotDecided  string
	Assumptions []string
	Extra       map[string]interface{}
	Floors      map[string]int
	RuleText    map[string]string
	keys        map[string]int
	notes       []string
}

func NewRun(prop, tier string) *Run {
	return &Run{Prop: prop, Tier: tier, Level: "other", Start: time.Now(),
		Extra: map[string]interface{}{}, Floors: map[string]int{}, RuleText: map[string]string{},
		keys: map[string]int{}}
}

// Rule registers a rule with its text and the floor (minimum number of
// obligations it must enumerate; fewer means the analysis collapsed).
func (r *Run) Rule(id, text string, floor int) {
	r.RuleText[id] = text
	r.Floors[id] = floor
}

// Add registers an obligation. Keys are made unique per rule by an ordinal.
func (r *Run) Add(rule, key, pos, what string) *Ob {
	k := rule + "|" + key
	r.keys[k]++
	if n := r.keys[k]; n > 1 {
		key = fmt.Sprintf("%s #%d", key, n)
	}
	o := &Ob{Rule: rule, Key: key, Pos: pos, What: what, State: Undecided}
	r.Obs = append(r.Obs, o)
	return o
}

func (o *Ob) OK(reason string) *Ob {
	o.State = Discharged
	o.Reason = reason
	return o
}

func (o *Ob) Fail(reason string, witness ...string) *Ob {
	o.State = Violation
	o.Reason = reason
	o.Witness = witness
	return o
}

func (o *Ob) Unknown(reason string) *Ob {
	o.State = Undecided
	o.Reason = reason
	return o
}

// Check is a convenience: discharged when cond holds, violation otherwise.
func (r *Run) Check(rule, key, pos, what string, cond bool, okReason, failReason string, witness ...string) *Ob {
	o := r.Add(rule, key, pos, what)
	if cond {
		return o.OK(okReason)
	}
	return o.Fail(failReason, witness...)
}

// Note adds a free-text note to the evidence.
func (r *Run) Note(format string, a ...interface{}) {
	r.notes = append(r.notes, fmt.Sprintf(format, a...))
}

// VerifDir locates /verif: $VERIF_DIR, else the parent of the executable's
// directory when that holds properties.jsonl, else the working directory.
func VerifDir() string {
	if d := os.Getenv("VERIF_DIR"); d != "" {
		return d
	}
	if exe, err := os.Executable(); err == nil {
		d := filepath.Dir(filepath.Dir(exe))
		if _, err := os.Stat(filepath.Join(d, "properties.jsonl")); err == nil {
			return d
		}
	}
	if _, err := os.Stat("/verif/properties.jsonl"); err == nil {
		return "/verif"
	}
	wd, _ := os.Getwd()
	return wd
}

type knownFile struct {
	Findings []struct {
		Property string `json:"property"`
		Rule     string `json:"rule"`
		Key      string `json:"key"`
		What     string `json:"what"`
	} `json:"findings"`
	Fixed []struct {
		Property string `json:"property"`
		Commit   string `json:"commit"`
		What     string `json:"what"`
	} `json:"fixed"`
}

func loadKnown() knownFile {
	var kf knownFile
	b, err := os.ReadFile(filepath.Join(VerifDir(), "known_findings.json"))
	if err != nil {
		return kf
	}
	if err := json.Unmarshal(b, &kf); err != nil {
		fmt.Printf("ANALYSIS-ERROR known_findings.json: %v\n", err)
		os.Exit(2)
	}
	return kf
}

// Finish matches violations against the committed known-findings file, writes
// replay files and the evidence file, prints the verdict lines and exits.
func (r *Run) Finish() {
	vd := VerifDir()
	kf := loadKnown()
	known := map[string]string{}
	for _, f := range kf.Findings {
		if f.Property == r.Prop {
			known[f.Rule+"|"+f.Key] = f.What
		}
	}
	sort.SliceStable(r.Obs, func(i, j int) bool {
		if r.Obs[i].Rule != r.Obs[j].Rule {
			return r.Obs[i].Rule < r.Obs[j].Rule
		}
		return false
	})
	matched := map[string]bool{}
	var viol, und, kn []*Ob
	perRule := map[string]int{}
	perRuleDis := map[string]int{}
	for _, o := range r.Obs {
		perRule[o.Rule]++
		if o.State == Violation {
			if _, ok := known[o.Rule+"|"+o.Key]; ok && os.Getenv("GEDCHECK_IGNORE_KNOWN") == "" {
				o.State = Known
				matched[o.Rule+"|"+o.Key] = true
			}
		}
		switch o.State {
		case Violation:
			viol = append(viol, o)
		case Undecided:
			und = append(und, o)
		case Known:
			kn = append(kn, o)
		case Discharged:
			perRuleDis[o.Rule]++
		}
	}
	collapsed := []string{}
	for rule, floor := range r.Floors {
		if perRule[rule] < floor {
			collapsed = append(collapsed, fmt.Sprintf("%s enumerated %d obligations, floor %d", rule, perRule[rule], floor))
		}
	}
	sort.Strings(collapsed)

	// replay files
	replayDir := filepath.Join(vd, "replay")
	if d := os.Getenv("VERIF_REPLAY_DIR"); d != "" {
		replayDir = d // self-tests on scratch copies keep their replay files with the copy
	}
	os.MkdirAll(replayDir, 0o755)
	old, _ := filepath.Glob(filepath.Join(replayDir, r.Prop+"-*.json"))
	for _, f := range old {
		os.Remove(f)
	}
	for _, o := range kn {
		fmt.Printf("KNOWN-FINDING: property=%s rule=%s key=%q at %s: %s\n", r.Prop, o.Rule, o.Key, o.Pos, o.Reason)
	}
	for i, o := range viol {
		path := filepath.Join(replayDir, fmt.Sprintf("%s-%d.json", r.Prop, i+1))
		b, _ := json.MarshalIndent(map[string]interface{}{
			"property": r.Prop, "rule": o.Rule, "rule_text": r.RuleText[o.Rule], "key": o.Key, "pos": o.Pos,
			"what": o.What, "reason": o.Reason, "witness": o.Witness,
			"replay": fmt.Sprintf("%s/bin/gedcheck -prop %s -tier %s -only %q", vd, r.Prop, r.Tier, o.Rule+"|"+o.Key),
		}, "", " ")
		os.WriteFile(path, b, 0o644)
		fmt.Printf("VIOLATION property=%s replay=%s\n", r.Prop, path)
		fmt.Printf("  rule=%s key=%q at %s\n  %s\n  %s\n", o.Rule, o.Key, o.Pos, o.What, o.Reason)
		for _, w := range o.Witness {
			fmt.Printf("    %s\n", w)
		}
	}
	if os.Getenv("GEDCHECK_DUMP") != "" {
		for _, o := range r.Obs {
			fmt.Printf("OB %s %q at %s: state=%d %s\n", o.Rule, o.Key, o.Pos, o.State, o.Reason)
		}
	}
	for _, o := range und {
		fmt.Printf("UNDECIDED property=%s rule=%s key=%q at %s: %s\n", r.Prop, o.Rule, o.Key, o.Pos, o.Reason)
	}
	for _, c := range collapsed {
		fmt.Printf("ANALYSIS-COLLAPSED property=%s %s\n", r.Prop, c)
	}
	stale := []string{}
	for k, what := range known {
		if !matched[k] {
			stale = append(stale, k+": "+what)
		}
	}
	sort.Strings(stale)
	for _, s := range stale {
		fmt.Printf("note: listed known finding no longer fires: %s\n", s)
	}

	// evidence
	samples := []interface{}{}
	seenRule := map[string]int{}
	for _, o := range r.Obs {
		if seenRule[o.Rule] < 3 && len(samples) < 24 {
			seenRule[o.Rule]++
			samples = append(samples, o)
		}
	}
	rules := []string{}
	for id := range r.RuleText {
		rules = append(rules, id)
	}
	sort.Strings(rules)
	sites := map[string]interface{}{}
	for _, id := range rules {
		sites[id] = map[string]interface{}{"text": r.RuleText[id], "obligations": perRule[id], "discharged": perRuleDis[id], "floor": r.Floors[id]}
	}
	explanation := r.Explanation
	if r.NotDecided != "" {
		explanation += " NOT DECIDED: " + r.NotDecided
	}
	cov := map[string]interface{}{
		"explanation":   explanation,
		"obligations":   len(r.Obs),
		"discharged":    len(r.Obs) - len(viol) - len(und) - len(kn),
		"known_finding": len(kn),
		"undecided":     len(und),
		"rules":         sites,
		"samples":       samples,
		"rule":          "one obligation per rule instance enumerated from /repo's current source (call site, store, table row, path, model case); keyed by rule+construct",
		"checker_cmd":   fmt.Sprintf("bin/gedcheck -prop %s -tier %s", r.Prop, r.Tier),
		"repo_dir":      os.Getenv("GEDCOM_REPO"),
	}
	for k, v := range r.Extra {
		cov[k] = v
	}
	if len(r.notes) > 0 {
		cov["notes"] = r.notes
	}
	knl := []string{}
	for _, o := range kn {
		knl = append(knl, o.Rule+" "+o.Key)
	}
	cov["known_findings"] = knl
	vl := []interface{}{}
	for _, o := range viol {
		vl = append(vl, o)
	}
	cov["violation_list"] = vl
	seed := 0
	fmt.Sscanf(os.Getenv("VERIF_SEED"), "%d", &seed)
	ev := map[string]interface{}{
		"property_id": r.Prop,
		"tier":        r.Tier,
		"seed":        seed,
		"level":       r.Level,
		"coverage":    cov,
		"assumptions": r.Assumptions,
		"wall_s":      time.Since(r.Start).Seconds(),
		"violations":  len(viol),
	}
	if r.Assumptions == nil {
		ev["assumptions"] = []string{}
	}
	evDir := filepath.Join(vd, "evidence")
	os.MkdirAll(evDir, 0o755)
	b, err := json.MarshalIndent(ev, "", " ")
	if err != nil {
		fmt.Printf("ANALYSIS-ERROR evidence marshal: %v\n", err)
		os.Exit(2)
	}
	if os.Getenv("GEDCHECK_NO_EVIDENCE") == "" {
		if err := os.WriteFile(filepath.Join(evDir, r.Prop+".json"), b, 0o644); err != nil {
			fmt.Printf("ANALYSIS-ERROR evidence write: %v\n", err)
			os.Exit(2)
		}
	}
	fmt.Printf("%s %s: %d obligations, %d discharged, %d known findings, %d violations, %d undecided (%.1fs)\n",
		r.Prop, r.Tier, len(r.Obs), len(r.Obs)-len(viol)-len(und)-len(kn), len(kn), len(viol), len(und), time.Since(r.Start).Seconds())
	for _, id := range rules {
		fmt.Printf("  %-7s %3d/%-3d %s\n", id, perRuleDis[id], perRule[id], firstLine(r.RuleText[id]))
	}
	switch {
	case len(viol) > 0:
		os.Exit(1)
	case len(und) > 0 || len(collapsed) > 0:
		os.Exit(2)
	}
	os.Exit(0)
}

func firstLine(s string) string {
	if i := strings.Index(s, "\n"); i >= 0 {
		s = s[:i]
	}
	if len(s) > 110 {
		s = s[:107] + "..."
	}
	return s
}
