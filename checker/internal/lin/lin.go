// Package lin decides bounds obligations (0 <= i < len(x), 0 <= lo <= hi <=
// len(x)) from the branch conditions that dominate a site. Integer SSA values
// are decomposed into small linear terms over atoms (parameters, call results,
// phis, len(x)); the facts that hold on every path to the site (dominating
// branch edges, one level of phi case-splitting, len >= 0, non-negativity
// summaries) and the goal are then decided by exhaustive enumeration of the
// atoms over a small integer window (small-model argument for constraints with
// constants of magnitude <= 2; machine-integer wrap-around is ignored).
package lin

import (
	"go/token"
	"go/types"

	"golang.org/x/tools/go/ssa"
)

// NonNeg tells whether an atom is known non-negative (interprocedural summary).
type NonNeg func(v ssa.Value) bool

type pred struct {
	op   token.Token // EQL NEQ LSS LEQ GTR GEQ
	x, y ssa.Value
	neg  bool
	// xLen / yLen: the operand stands for len(x) / len(y)
	xLen, yLen bool
}

type prover struct {
	nonneg NonNeg
	atoms  []ssa.Value
	idx    map[ssa.Value]int
	lenOf  map[ssa.Value]int // len(x) atoms keyed by x
	nLen   int
	isLen  []bool
	nn     []bool
	bad    bool
}

func isInt(v ssa.Value) bool {
	b, ok := v.Type().Underlying().(*types.Basic)
	return ok && b.Info()&types.IsInteger != 0
}

// canon maps loads of a captured variable that this function never stores to
// onto the variable itself, so that two loads denote the same atom.
func canon(v ssa.Value) ssa.Value {
	if ld, ok := v.(*ssa.UnOp); ok && ld.Op == token.MUL {
		if fv, ok := ld.X.(*ssa.FreeVar); ok {
			for _, ref := range *fv.Referrers() {
				if st, ok := ref.(*ssa.Store); ok && st.Addr == ssa.Value(fv) {
					return v
				}
				if _, ok := ref.(*ssa.MakeClosure); ok {
					return v
				}
			}
			return fv
		}
	}
	return v
}

func (p *prover) atom(v ssa.Value, isLen bool) int {
	v = canon(v)
	if i, ok := p.idx[v]; ok && !isLen {
		return i
	}
	if isLen {
		if i, ok := p.lenOf[v]; ok {
			return i
		}
	}
	i := len(p.atoms)
	p.atoms = append(p.atoms, v)
	p.isLen = append(p.isLen, isLen)
	nn := isLen
	if !isLen && p.nonneg != nil && p.nonneg(v) {
		nn = true
	}
	if !isLen && countsUp(v) {
		nn = true
	}
	p.nn = append(p.nn, nn)
	if isLen {
		p.lenOf[v] = i
	} else {
		p.idx[v] = i
	}
	return i
}

// eval evaluates an integer SSA value under an assignment of atoms.
func (p *prover) eval(v ssa.Value, a []int, depth int) int {
	if depth > 8 {
		return a[p.atom(v, false)]
	}
	switch x := v.(type) {
	case *ssa.Const:
		if x.Value == nil {
			return 0
		}
		if i, ok := constInt(x); ok {
			return i
		}
		p.bad = true
		return 0
	case *ssa.BinOp:
		if isInt(x.X) && isInt(x.Y) {
			switch x.Op {
			case token.ADD:
				return p.eval(x.X, a, depth+1) + p.eval(x.Y, a, depth+1)
			case token.SUB:
				return p.eval(x.X, a, depth+1) - p.eval(x.Y, a, depth+1)
			case token.MUL:
				if _, ok := x.Y.(*ssa.Const); ok {
					return p.eval(x.X, a, depth+1) * p.eval(x.Y, a, depth+1)
				}
			}
		}
	case *ssa.Convert:
		if isInt(x.X) {
			return p.eval(x.X, a, depth+1)
		}
	case *ssa.ChangeType:
		if isInt(x.X) {
			return p.eval(x.X, a, depth+1)
		}
	case *ssa.Call:
		if bi, ok := x.Call.Value.(*ssa.Builtin); ok && bi.Name() == "len" {
			return p.evalLen(x.Call.Args[0], a, depth+1)
		}
	}
	return a[p.atom(v, false)]
}

// evalLen evaluates len(x).
func (p *prover) evalLen(x ssa.Value, a []int, depth int) int {
	switch s := x.(type) {
	case *ssa.Slice:
		if depth <= 8 {
			lo := 0
			if s.Low != nil {
				lo = p.eval(s.Low, a, depth+1)
			}
			if s.High != nil {
				return p.eval(s.High, a, depth+1) - lo
			}
			// length of the operand minus lo
			if pt, isPtr := s.X.Type().Underlying().(*types.Pointer); !isPtr {
				return p.evalLen(s.X, a, depth+1) - lo
			} else if at, isArr := pt.Elem().Underlying().(*types.Array); isArr {
				return int(at.Len()) - lo // slice of a whole array (composite literal)
			}
		}
	case *ssa.ChangeType:
		return p.evalLen(s.X, a, depth+1)
	case *ssa.Const:
		if s.Value == nil {
			return 0
		}
	}
	return a[p.atom(x, true)]
}

func constInt(c *ssa.Const) (int, bool) {
	if c.Value == nil {
		return 0, true
	}
	s := c.Value.ExactString()
	n, neg := 0, false
	for i, ch := range s {
		if i == 0 && ch == '-' {
			neg = true
			continue
		}
		if ch < '0' || ch > '9' || n > 1<<40 {
			return 0, false
		}
		n = n*10 + int(ch-'0')
	}
	if neg {
		n = -n
	}
	return n, true
}

func (p *prover) holds(pr pred, a []int) bool {
	var r bool
	// len(x) == 0 style comparisons are covered through eval of the len call
	var x, y int
	if pr.xLen {
		x = p.evalLen(pr.x, a, 0)
	} else {
		x = p.eval(pr.x, a, 0)
	}
	if pr.yLen {
		y = p.evalLen(pr.y, a, 0)
	} else {
		y = p.eval(pr.y, a, 0)
	}
	switch pr.op {
	case token.EQL:
		r = x == y
	case token.NEQ:
		r = x != y
	case token.LSS:
		r = x < y
	case token.LEQ:
		r = x <= y
	case token.GTR:
		r = x > y
	case token.GEQ:
		r = x >= y
	}
	return r != pr.neg
}

// condPred converts a branch condition to a predicate (ok=false if it is not
// an integer comparison).
func condPred(cond ssa.Value, neg bool) (pred, bool) {
	switch c := cond.(type) {
	case *ssa.BinOp:
		switch c.Op {
		case token.EQL, token.NEQ, token.LSS, token.LEQ, token.GTR, token.GEQ:
			if isInt(c.X) && isInt(c.Y) {
				return pred{op: c.Op, x: c.X, y: c.Y, neg: neg}, true
			}
		}
	case *ssa.UnOp:
		if c.Op == token.NOT {
			return condPred(c.X, !neg)
		}
	}
	return pred{}, false
}

// domFacts lists the integer comparisons that hold whenever block b is
// entered: for every dominating branch one of whose successors dominates b
// (and is entered only from that branch) or whose other successor cannot reach b.
func domFacts(b *ssa.BasicBlock) []pred {
	var out []pred
	fn := b.Parent()
	reach := map[*ssa.BasicBlock]map[*ssa.BasicBlock]bool{}
	reachable := func(from *ssa.BasicBlock) map[*ssa.BasicBlock]bool {
		if m, ok := reach[from]; ok {
			return m
		}
		m := map[*ssa.BasicBlock]bool{}
		var walk func(x *ssa.BasicBlock)
		walk = func(x *ssa.BasicBlock) {
			if m[x] {
				return
			}
			m[x] = true
			for _, s := range x.Succs {
				walk(s)
			}
		}
		walk(from)
		reach[from] = m
		return m
	}
	for _, d := range fn.Blocks {
		if len(d.Instrs) == 0 {
			continue
		}
		iff, ok := d.Instrs[len(d.Instrs)-1].(*ssa.If)
		if !ok || !d.Dominates(b) || d == b {
			continue
		}
		t, f := d.Succs[0], d.Succs[1]
		if t == f {
			continue
		}
		// which side are we on?
		onTrue := (len(t.Preds) == 1 && t.Dominates(b)) || !reachableAvoiding(f, b, d, reachable)
		onFalse := (len(f.Preds) == 1 && f.Dominates(b)) || !reachableAvoiding(t, b, d, reachable)
		if onTrue == onFalse {
			continue
		}
		if pr, ok := condPred(iff.Cond, onFalse); ok {
			out = append(out, pr)
		}
	}
	return out
}

// reachableAvoiding: can b be reached from `from` without passing through the
// branch block d again (loops back through d re-evaluate the condition).
func reachableAvoiding(from, b, d *ssa.BasicBlock, _ func(*ssa.BasicBlock) map[*ssa.BasicBlock]bool) bool {
	seen := map[*ssa.BasicBlock]bool{}
	var walk func(x *ssa.BasicBlock) bool
	walk = func(x *ssa.BasicBlock) bool {
		if x == b {
			return true
		}
		if seen[x] || x == d {
			return false
		}
		seen[x] = true
		for _, s := range x.Succs {
			if walk(s) {
				return true
			}
		}
		return false
	}
	return walk(from)
}

// edgeFacts: facts on the edge pred -> blk.
func edgeFacts(pr *ssa.BasicBlock, blk *ssa.BasicBlock) []pred {
	out := domFacts(pr)
	if len(pr.Instrs) > 0 {
		if iff, ok := pr.Instrs[len(pr.Instrs)-1].(*ssa.If); ok && pr.Succs[0] != pr.Succs[1] {
			if p, ok := condPred(iff.Cond, pr.Succs[1] == blk); ok {
				out = append(out, p)
			}
		}
	}
	return out
}

// Goal is a conjunction of comparisons to prove at an instruction.
type Goal struct {
	Op   token.Token
	X, Y ssa.Value // Y may be nil with YLen set: compare against len(YLen)
	YLen ssa.Value
	YCap bool
}

// Prove decides whether all goals hold at instruction ins. It returns the
// number of atoms and assignments examined.
func Prove(ins ssa.Instruction, goals []goalT, nonneg NonNeg) (ok bool, atoms, cases int) {
	blk := ins.Block()
	p := &prover{nonneg: nonneg, idx: map[ssa.Value]int{}, lenOf: map[ssa.Value]int{}}
	facts := domFacts(blk)
	// phi case splits: int phis in dominating blocks (incl. the site's block) that occur in goals
	type split struct {
		phi   *ssa.Phi
		cases [][]pred // per edge: facts
	}
	var splits []split
	seenPhi := map[*ssa.Phi]bool{}
	var findPhis func(v ssa.Value, depth int)
	findPhis = func(v ssa.Value, depth int) {
		if v == nil || depth > 6 {
			return
		}
		switch x := v.(type) {
		case *ssa.Phi:
			if isInt(x) && !seenPhi[x] && x.Block().Dominates(blk) && x.Comment != "rangeindex" {
				// do not split loop-carried phis (an edge from a block dominated by the phi's block)
				loop := false
				for _, pb := range x.Block().Preds {
					if x.Block().Dominates(pb) {
						loop = true
					}
				}
				if !loop {
					seenPhi[x] = true
					sp := split{phi: x}
					for i, pb := range x.Block().Preds {
						fs := edgeFacts(pb, x.Block())
						fs = append(fs, pred{op: token.EQL, x: x, y: x.Edges[i]})
						sp.cases = append(sp.cases, fs)
					}
					splits = append(splits, sp)
				}
			}
		case *ssa.BinOp:
			findPhis(x.X, depth+1)
			findPhis(x.Y, depth+1)
		case *ssa.Slice:
			findPhis(x.Low, depth+1)
			findPhis(x.High, depth+1)
		case *ssa.Call:
			if bi, ok := x.Call.Value.(*ssa.Builtin); ok && bi.Name() == "len" {
				findPhis(x.Call.Args[0], depth+1)
			}
		case *ssa.Convert:
			findPhis(x.X, depth+1)
		}
	}
	for _, g := range goals {
		findPhis(g.x, 0)
		findPhis(g.y, 0)
		findPhis(g.ylen, 0)
		// a slice that is one of several alternatives (parts, or a literal when parts has the wrong length)
		if ph, ok := g.ylen.(*ssa.Phi); ok && !seenPhi[ph] && ph.Block().Dominates(blk) {
			loop := false
			for _, pb := range ph.Block().Preds {
				if ph.Block().Dominates(pb) {
					loop = true
				}
			}
			if !loop {
				seenPhi[ph] = true
				sp := split{phi: ph}
				for i, pb := range ph.Block().Preds {
					fs := edgeFacts(pb, ph.Block())
					fs = append(fs, pred{op: token.EQL, x: ph, y: ph.Edges[i], xLen: true, yLen: true})
					sp.cases = append(sp.cases, fs)
				}
				splits = append(splits, sp)
			}
		}
	}
	if len(splits) > 2 {
		splits = splits[:2]
	}
	// discover atoms by a dry evaluation
	dry := make([]int, 64)
	touch := func(pr pred) {
		if pr.xLen {
			p.evalLen(pr.x, dry, 0)
		} else {
			p.eval(pr.x, dry, 0)
		}
		if pr.yLen {
			p.evalLen(pr.y, dry, 0)
		} else {
			p.eval(pr.y, dry, 0)
		}
	}
	for _, f := range facts {
		touch(f)
	}
	for _, sp := range splits {
		for _, cs := range sp.cases {
			for _, f := range cs {
				touch(f)
			}
		}
	}
	for _, g := range goals {
		p.eval(g.x, dry, 0)
		if g.y != nil {
			p.eval(g.y, dry, 0)
		}
		if g.ylen != nil {
			p.evalLen(g.ylen, dry, 0)
		}
	}
	// The enumeration window is small: a fact that involves a constant outside it could not be satisfied by any
	// assignment and would make every goal hold vacuously. Facts with constants beyond maxConst are dropped (fewer facts is sound); a goal
	// with such a constant cannot be decided here.
	var kept []pred
	for _, f := range facts {
		if !bigConst(f.x, 0) && !bigConst(f.y, 0) {
			kept = append(kept, f)
		}
	}
	facts = kept
	for i := range splits {
		for j, cs := range splits[i].cases {
			var k2 []pred
			for _, f := range cs {
				if !bigConst(f.x, 0) && !bigConst(f.y, 0) {
					k2 = append(k2, f)
				}
			}
			splits[i].cases[j] = k2
		}
	}
	for _, g := range goals {
		if bigConst(g.x, 0) || (g.y != nil && bigConst(g.y, 0)) {
			return false, len(p.atoms), 0
		}
	}
	n := len(p.atoms)
	if n > 6 || p.bad {
		return false, n, 0
	}
	// window: [-3, 7] for constants of magnitude <= 2; for larger constants (up to maxConst) it grows to
	// (n+1)*K+1 so that a counter-example of the (difference-like) constraints, if one exists, fits in it
	lo, hi := -3, 7
	K := 0
	for _, f := range facts {
		K = maxInt(K, maxConstOf(f.x, 0), maxConstOf(f.y, 0))
	}
	for _, sp := range splits {
		for _, cs := range sp.cases {
			for _, f := range cs {
				K = maxInt(K, maxConstOf(f.x, 0), maxConstOf(f.y, 0))
			}
		}
	}
	for _, g := range goals {
		K = maxInt(K, maxConstOf(g.x, 0), maxConstOf(g.y, 0))
	}
	if K > 2 {
		lo, hi = -(K + 1), (n+1)*K+1
		size := 1
		for i := 0; i < n; i++ {
			size *= hi - lo + 1
			if size > 3000000 {
				return false, n, 0 // too many assignments: not decided here
			}
		}
	}
	a := make([]int, 64)
	var rec func(i int) bool
	rec = func(i int) bool {
		if i == n {
			cases++
			for _, f := range facts {
				if !p.holds(f, a) {
					return true // assignment excluded by the facts
				}
			}
			for _, sp := range splits {
				any := false
				for _, cs := range sp.cases {
					all := true
					for _, f := range cs {
						if !p.holds(f, a) {
							all = false
							break
						}
					}
					if all {
						any = true
						break
					}
				}
				if !any {
					return true
				}
			}
			for _, g := range goals {
				x := p.eval(g.x, a, 0)
				var y int
				if g.ylen != nil {
					y = p.evalLen(g.ylen, a, 0)
				} else {
					y = p.eval(g.y, a, 0)
				}
				okk := false
				switch g.op {
				case token.LSS:
					okk = x < y
				case token.LEQ:
					okk = x <= y
				case token.GEQ:
					okk = x >= y
				}
				if !okk {
					return false
				}
			}
			return true
		}
		start := lo
		if p.nn[i] {
			start = 0
		}
		for v := start; v <= hi; v++ {
			a[i] = v
			if !rec(i + 1) {
				return false
			}
		}
		return true
	}
	if len(p.atoms) != n {
		return false, n, 0
	}
	ok = rec(0)
	if len(p.atoms) != n { // new atoms discovered late: be conservative
		return false, len(p.atoms), cases
	}
	return ok, n, cases
}

type goalT struct {
	op   token.Token
	x, y ssa.Value
	ylen ssa.Value
}

var zero = ssa.NewConst(nil, types.Typ[types.Int])

// InBounds proves the bounds obligation of an Index/IndexAddr/Slice instruction.
func InBounds(ins ssa.Instruction, nonneg NonNeg) (ok bool, atoms, cases int) {
	zc := zero
	switch x := ins.(type) {
	case *ssa.IndexAddr:
		if _, isPtr := x.X.Type().Underlying().(*types.Pointer); isPtr {
			return false, 0, 0
		}
		return Prove(ins, []goalT{{op: token.GEQ, x: x.Index, y: zc}, {op: token.LSS, x: x.Index, ylen: x.X}}, nonneg)
	case *ssa.Index:
		if _, isArr := x.X.Type().Underlying().(*types.Array); isArr {
			return false, 0, 0
		}
		return Prove(ins, []goalT{{op: token.GEQ, x: x.Index, y: zc}, {op: token.LSS, x: x.Index, ylen: x.X}}, nonneg)
	case *ssa.Slice:
		if _, isPtr := x.X.Type().Underlying().(*types.Pointer); isPtr {
			return false, 0, 0
		}
		var gs []goalT
		lo := ssa.Value(zc)
		if x.Low != nil {
			lo = x.Low
			gs = append(gs, goalT{op: token.GEQ, x: x.Low, y: zc})
		}
		if x.High != nil {
			gs = append(gs, goalT{op: token.LEQ, x: lo, y: x.High}, goalT{op: token.LEQ, x: x.High, ylen: x.X})
		} else {
			gs = append(gs, goalT{op: token.LEQ, x: lo, ylen: x.X})
		}
		if x.Max != nil {
			return false, 0, 0
		}
		return Prove(ins, gs, nonneg)
	}
	return false, 0, 0
}

// Debug prints the facts used for a site (development aid).
func Debug(ins ssa.Instruction, nonneg NonNeg) string {
	blk := ins.Block()
	s := ""
	for _, f := range domFacts(blk) {
		s += "  fact: " + f.x.String() + " " + f.op.String() + " " + f.y.String()
		if f.neg {
			s += " [negated]"
		}
		s += "\n"
	}
	ok, a, c := InBounds(ins, nonneg)
	s += "  => " + map[bool]string{true: "proved", false: "not proved"}[ok]
	_ = a
	_ = c
	return s
}

// ProveGoals is Prove for callers outside the package: each goal is X op Y
// (Y nil with YLen set compares against len(YLen)).
func ProveGoals(ins ssa.Instruction, goals []Goal, nonneg NonNeg) bool {
	var gs []goalT
	for _, g := range goals {
		gs = append(gs, goalT{op: g.Op, x: g.X, y: g.Y, ylen: g.YLen})
	}
	ok, _, _ := Prove(ins, gs, nonneg)
	return ok
}

// Zero is the integer constant 0 for goals.
var Zero ssa.Value = zero

// bigConst: the expression contains an integer constant of magnitude > maxConst.
func bigConst(v ssa.Value, depth int) bool {
	if v == nil || depth > 6 {
		return false
	}
	switch x := v.(type) {
	case *ssa.Const:
		if k, ok := constInt(x); ok {
			return k > maxConst || k < -maxConst
		}
		return false
	case *ssa.BinOp:
		return bigConst(x.X, depth+1) || bigConst(x.Y, depth+1)
	case *ssa.Convert:
		return bigConst(x.X, depth+1)
	case *ssa.ChangeType:
		return bigConst(x.X, depth+1)
	}
	return false
}

// countsUp: a loop counter that starts at a non-negative constant and is only
// ever increased by non-negative constants (i := 0; ...; i++, possibly through
// several phis) is non-negative - by induction over the loop: every phi is
// assumed non-negative while its edges are checked (machine-integer wrap-around
// is ignored, as everywhere in this package).
func countsUp(v ssa.Value) bool {
	if _, ok := v.(*ssa.Phi); !ok {
		return false
	}
	assume := map[ssa.Value]bool{}
	var nn func(x ssa.Value, d int) bool
	nn = func(x ssa.Value, d int) bool {
		if d > 8 {
			return false
		}
		if assume[x] {
			return true
		}
		switch y := x.(type) {
		case *ssa.Const:
			c, ok := constInt(y)
			return ok && c >= 0
		case *ssa.Phi:
			if !isInt(y) {
				return false
			}
			assume[y] = true
			for _, e := range y.Edges {
				if !nn(e, d+1) {
					delete(assume, y)
					return false
				}
			}
			return true
		case *ssa.BinOp:
			if y.Op == token.ADD {
				return nn(y.X, d+1) && nn(y.Y, d+1)
			}
		}
		return false
	}
	return nn(v, 0)
}

// maxConst: integer constants of larger magnitude are outside what the enumeration handles.
const maxConst = 16

func maxInt(a int, bs ...int) int {
	for _, b := range bs {
		if b > a {
			a = b
		}
	}
	return a
}

// maxConstOf: the largest magnitude of an integer constant in the expression.
func maxConstOf(v ssa.Value, depth int) int {
	if v == nil || depth > 6 {
		return 0
	}
	switch x := v.(type) {
	case *ssa.Const:
		if k, ok := constInt(x); ok {
			if k < 0 {
				k = -k
			}
			return k
		}
	case *ssa.BinOp:
		return maxInt(maxConstOf(x.X, depth+1), maxConstOf(x.Y, depth+1))
	case *ssa.Convert:
		return maxConstOf(x.X, depth+1)
	case *ssa.ChangeType:
		return maxConstOf(x.X, depth+1)
	case *ssa.Slice:
		m := 0
		if pt, ok := x.X.Type().Underlying().(*types.Pointer); ok {
			if at, ok := pt.Elem().Underlying().(*types.Array); ok {
				m = int(at.Len())
			}
		}
		return maxInt(m, maxConstOf(x.Low, depth+1), maxConstOf(x.High, depth+1))
	}
	return 0
}
