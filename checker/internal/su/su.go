// Package su holds small SSA utilities shared by the rules.
package su

import (
	"go/constant"
	"go/token"
	"go/types"

	"golang.org/x/tools/go/ssa"
)

// GlobalLoaded returns g when v is `*g` for a package variable g.
func GlobalLoaded(v ssa.Value) *ssa.Global {
	if u, ok := v.(*ssa.UnOp); ok && u.Op == token.MUL {
		if g, ok := u.X.(*ssa.Global); ok {
			return g
		}
	}
	return nil
}

// Calls lists the call instructions (call, go, defer) of fn in block order.
func Calls(fn *ssa.Function) []ssa.CallInstruction {
	var out []ssa.CallInstruction
	for _, b := range fn.Blocks {
		for _, ins := range b.Instrs {
			if c, ok := ins.(ssa.CallInstruction); ok {
				out = append(out, c)
			}
		}
	}
	return out
}

// CallsTo lists plain calls in fn whose static callee is callee.
func CallsTo(fn, callee *ssa.Function) []*ssa.Call {
	var out []*ssa.Call
	for _, b := range fn.Blocks {
		for _, ins := range b.Instrs {
			if c, ok := ins.(*ssa.Call); ok && c.Call.StaticCallee() == callee {
				out = append(out, c)
			}
		}
	}
	return out
}

func indexIn(b *ssa.BasicBlock, ins ssa.Instruction) int {
	for i, x := range b.Instrs {
		if x == ins {
			return i
		}
	}
	return -1
}

// Dominates reports whether instruction a dominates instruction b (a executes
// before b on every path from the entry to b).
func Dominates(a, b ssa.Instruction) bool {
	ba, bb := a.Block(), b.Block()
	if ba == bb {
		return indexIn(ba, a) < indexIn(bb, b)
	}
	return ba.Dominates(bb)
}

// ConstInt returns the integer value of a constant.
func ConstInt(v ssa.Value) (int64, bool) {
	c, ok := v.(*ssa.Const)
	if !ok {
		return 0, false
	}
	if c.Value == nil {
		// zero value of an integer type
		if b, isB := c.Type().Underlying().(*types.Basic); isB && b.Info()&types.IsInteger != 0 {
			return 0, true
		}
		return 0, false
	}
	if c.Value.Kind() != constant.Int {
		return 0, false
	}
	return constant.Int64Val(c.Value)
}

// ConstString returns the string value of a constant.
func ConstString(v ssa.Value) (string, bool) {
	c, ok := v.(*ssa.Const)
	if !ok || c.Value == nil || c.Value.Kind() != constant.String {
		return "", false
	}
	return constant.StringVal(c.Value), true
}

// ElemOf: v is `*(&base[k])` with constant k; returns base and k.
func ElemOf(v ssa.Value) (base ssa.Value, k int64, ok bool) {
	u, isU := v.(*ssa.UnOp)
	if !isU || u.Op != token.MUL {
		return nil, 0, false
	}
	ia, isIA := u.X.(*ssa.IndexAddr)
	if !isIA {
		return nil, 0, false
	}
	k, ok = ConstInt(ia.Index)
	return ia.X, k, ok
}

// Strip removes value-preserving wrappers (ChangeType, MakeInterface,
// ChangeInterface, Convert between string kinds is NOT stripped).
func Strip(v ssa.Value) ssa.Value {
	for {
		switch x := v.(type) {
		case *ssa.ChangeType:
			v = x.X
		case *ssa.MakeInterface:
			v = x.X
		case *ssa.ChangeInterface:
			v = x.X
		default:
			return v
		}
	}
}

// FieldName returns the name of the field addressed by fa.
func FieldName(fa *ssa.FieldAddr) string {
	st := fa.X.Type().Underlying().(*types.Pointer).Elem().Underlying().(*types.Struct)
	return st.Field(fa.Field).Name()
}

// FieldOwner returns the named struct type that declares the field addressed.
func FieldOwner(fa *ssa.FieldAddr) *types.Named {
	t := fa.X.Type().Underlying().(*types.Pointer).Elem()
	for {
		switch tt := t.(type) {
		case *types.Named:
			return tt
		case *types.Alias:
			t = types.Unalias(tt)
		default:
			return nil
		}
	}
}

// IsPkgFunc reports whether fn is the package-level function pkg.name or the
// method (recv).name of package pkg.
func IsPkgFunc(fn *ssa.Function, pkg, name string) bool {
	return fn != nil && fn.Pkg != nil && fn.Pkg.Pkg.Path() == pkg && fn.Name() == name
}

// CalleeIs reports whether the call's static callee is pkg.name (function or method).
func CalleeIs(c *ssa.CallCommon, pkg, name string) bool {
	return IsPkgFunc(c.StaticCallee(), pkg, name)
}

// ReachableBlocks returns the blocks reachable from b (inclusive).
func ReachableBlocks(b *ssa.BasicBlock) map[*ssa.BasicBlock]bool {
	seen := map[*ssa.BasicBlock]bool{}
	var walk func(*ssa.BasicBlock)
	walk = func(x *ssa.BasicBlock) {
		if seen[x] {
			return
		}
		seen[x] = true
		for _, s := range x.Succs {
			walk(s)
		}
	}
	walk(b)
	return seen
}

// ReachableBlocksAvoiding reports whether target is reachable from `from`
// without passing through block avoid (loops back through avoid re-test).
func ReachableBlocksAvoiding(from, target, avoid *ssa.BasicBlock) bool {
	seen := map[*ssa.BasicBlock]bool{}
	var walk func(b *ssa.BasicBlock) bool
	walk = func(b *ssa.BasicBlock) bool {
		if b == target {
			return true
		}
		if seen[b] || b == avoid {
			return false
		}
		seen[b] = true
		for _, s := range b.Succs {
			if walk(s) {
				return true
			}
		}
		return false
	}
	return walk(from)
}
