// Package e1 enumerates may-panic constructs (DESIGN.md 3, E1) and decides
// which are reachable from a set of entry points outside any recover.
package e1

import (
	"bufio"
	"bytes"
	"fmt"
	"go/token"
	"go/types"
	"os"
	"os/exec"
	"path/filepath"
	"regexp"
	"sort"
	"strconv"
	"strings"

	"gedverif/internal/cg"
	"gedverif/internal/load"

	"golang.org/x/tools/go/ssa"
)

// Site is one may-panic construct.
type Site struct {
	Class  string // P1 explicit panic, P2 type assertion, P3 unproven bounds check, P4 library precondition
	Fn     *ssa.Function
	Instr  ssa.Instruction
	Pos    token.Pos
	Shape  string
	Detail string
}

// BCE runs the compiler's prove pass on the current tree (it compiles, it does
// not execute) and returns the positions whose bounds check was NOT eliminated.
func BCE(p *load.Prog) (map[string]string, error) {
	cmd := exec.Command("go", "build", "-gcflags="+load.Module+"/...=-d=ssa/check_bce/debug=1", "./...")
	cmd.Dir = p.Dir
	env := os.Environ()
	env = append(env, "GOFLAGS=-mod=mod", "GOPROXY=off", "GOSUMDB=off", "GOWORK=off")
	for _, kv := range []string{"GEDCHECK_GOOS", "GEDCHECK_GOARCH"} {
		if v := os.Getenv(kv); v != "" {
			env = append(env, strings.TrimPrefix(kv, "GEDCHECK_")+"="+v)
		}
	}
	cmd.Env = env
	var out bytes.Buffer
	cmd.Stdout = &out
	cmd.Stderr = &out
	runErr := cmd.Run()
	re := regexp.MustCompile(`^(.+\.go):(\d+):(\d+): Found (Is\w+)`)
	res := map[string]string{}
	sc := bufio.NewScanner(&out)
	sc.Buffer(make([]byte, 1<<20), 1<<20)
	other := []string{}
	for sc.Scan() {
		line := sc.Text()
		if m := re.FindStringSubmatch(line); m != nil {
			f := filepath.Clean(m[1])
			res[fmt.Sprintf("%s:%s:%s", f, m[2], m[3])] = m[4]
			continue
		}
		if !strings.HasPrefix(line, "#") && strings.TrimSpace(line) != "" {
			other = append(other, line)
		}
	}
	if runErr != nil {
		return nil, fmt.Errorf("go build failed: %v: %s", runErr, strings.Join(other, " | "))
	}
	return res, nil
}

func typeStr(t types.Type) string {
	s := t.String()
	s = strings.ReplaceAll(s, load.Module+"/", "")
	s = strings.ReplaceAll(s, load.Module, "gedcom")
	return s
}

// reflectPanicky lists reflect functions/methods with a panicking precondition.
var reflectPanicky = map[string]bool{
	"IsNil": true, "Len": true, "Index": true, "Slice": true, "Elem": true, "Set": true, "Call": true, "Field": true,
	"FieldByName": true, "MapKeys": true, "MapIndex": true, "NumField": true, "Method": true, "Interface": false,
	"Int": true, "Float": true, "Uint": true, "Bool": true, "SetInt": true, "SetString": true, "NumMethod": false,
	"MakeSlice": true, "SliceOf": true, "Append": true, "AppendSlice": true, "Zero": true, "New": true, "MakeMap": true,
	"In": true, "Out": true, "NumIn": true, "NumOut": true, "Key": true, "MapRange": true, "Cap": true, "String": false, "MethodByName": false,
}

// Enumerate lists the may-panic constructs of every repository function.
func Enumerate(p *load.Prog, bce map[string]string) (map[*ssa.Function][]*Site, int) {
	sites := map[*ssa.Function][]*Site{}
	matched := map[string]bool{}
	for _, fn := range p.Repo {
		if fn.Synthetic != "" {
			continue
		}
		for _, b := range fn.Blocks {
			for _, ins := range b.Instrs {
				add := func(class, shape, detail string) {
					sites[fn] = append(sites[fn], &Site{Class: class, Fn: fn, Instr: ins, Pos: ins.Pos(), Shape: shape, Detail: detail})
				}
				switch x := ins.(type) {
				case *ssa.Panic:
					add("P1", "panic", "explicit panic("+x.X.Name()+")")
				case *ssa.TypeAssert:
					if !x.CommaOk {
						add("P2", "assert "+typeStr(x.X.Type())+" to "+typeStr(x.AssertedType), "single-result type assertion")
					}
				case *ssa.Index, *ssa.IndexAddr, *ssa.Slice:
					pos := p.Fset.Position(ins.Pos())
					rel, _ := filepath.Rel(p.Dir, pos.Filename)
					k := fmt.Sprintf("%s:%d:%d", rel, pos.Line, pos.Column)
					kind, ok := bce[k]
					if !ok {
						continue
					}
					matched[k] = true
					shape := ""
					switch y := x.(type) {
					case *ssa.Index:
						shape = "index " + typeStr(y.X.Type()) + constSuffix(y.Index)
					case *ssa.IndexAddr:
						shape = "index " + typeStr(y.X.Type()) + constSuffix(y.Index)
					case *ssa.Slice:
						shape = "slice " + typeStr(y.X.Type())
					}
					add("P3", shape, "bounds check not proved by the compiler ("+kind+")")
				case ssa.CallInstruction:
					cal := x.Common().StaticCallee()
					if cal == nil || cal.Pkg == nil {
						continue
					}
					switch cal.Pkg.Pkg.Path() {
					case "reflect":
						if reflectPanicky[cal.Name()] {
							recv := ""
							if cal.Signature.Recv() != nil {
								recv = typeStr(cal.Signature.Recv().Type()) + "."
							}
							add("P4", "call reflect."+recv+cal.Name(), "reflect call with a panicking precondition")
						}
					case "regexp":
						if cal.Name() == "MustCompile" {
							if _, isConst := x.Common().Args[0].(*ssa.Const); !isConst && fn.Name() != "init" {
								add("P4", "call regexp.MustCompile", "MustCompile of a non-constant pattern")
							}
						}
					case "strings":
						if cal.Name() == "Repeat" {
							if _, isConst := x.Common().Args[1].(*ssa.Const); !isConst {
								add("P4", "call strings.Repeat", "strings.Repeat panics on a negative count")
							}
						}
					}
				}
			}
		}
	}
	// P5: dereference of a maybe-nil phi
	isNilFn := p.Func(load.PkgRoot, "IsNil")
	isNilHelper := func(f *ssa.Function) bool { return f == isNilFn }
	safe := NilSafe(p.Repo, isNilHelper)
	nilSafe := func(f *ssa.Function) bool { s, ok := safe[f]; return ok && s }
	for _, fn := range p.Repo {
		if fn.Synthetic != "" {
			continue
		}
		sites[fn] = append(sites[fn], NilPhiSites(fn, isNilHelper, nilSafe)...)
	}
	// P5 (second form): dereference of the result of a function that can return nil
	mayNil := MayReturnNil(p.Repo)
	for _, fn := range p.Repo {
		if fn.Synthetic != "" {
			continue
		}
		ns := NilCallSites(fn, mayNil, isNilHelper, nilSafe)
		if os.Getenv("E1_NILDEBUG") != "" && len(ns) > 0 {
			for _, s := range ns {
				fmt.Println("NILSITE", fn, s.Shape)
			}
		}
		sites[fn] = append(sites[fn], ns...)
	}
	if os.Getenv("E1_NILDEBUG") != "" {
		n := 0
		for range mayNil {
			n++
		}
		fmt.Println("MAYNIL functions:", n)
	}
	unmatched := 0
	for k := range bce {
		if !matched[k] {
			unmatched++
		}
	}
	return sites, unmatched
}

func constSuffix(v ssa.Value) string {
	if c, ok := v.(*ssa.Const); ok && c.Value != nil {
		return " const " + c.Value.String()
	}
	return ""
}

// Recovers reports whether fn installs a deferred closure that calls
// recover(); the defer instruction is returned.
func Recovers(fn *ssa.Function) *ssa.Defer {
	for _, b := range fn.Blocks {
		for _, ins := range b.Instrs {
			d, ok := ins.(*ssa.Defer)
			if !ok {
				continue
			}
			var target *ssa.Function
			switch v := d.Call.Value.(type) {
			case *ssa.MakeClosure:
				target = v.Fn.(*ssa.Function)
			case *ssa.Function:
				target = v
			}
			if target == nil || target.Blocks == nil {
				continue
			}
			calls, repanics := false, false
			for _, tb := range target.Blocks {
				for _, ti := range tb.Instrs {
					if c, ok := ti.(*ssa.Call); ok {
						if bi, ok := c.Call.Value.(*ssa.Builtin); ok && bi.Name() == "recover" {
							calls = true
						}
					}
					if _, ok := ti.(*ssa.Panic); ok {
						repanics = true
					}
				}
			}
			if calls && !repanics {
				return d
			}
		}
	}
	return nil
}

// Reached is a site reachable outside any recover, with its witness path.
type Reached struct {
	*Site
	Path []string
}

type state struct {
	t         cg.Target
	protected bool
}

// Reachable computes the sites reachable from the entries on a goroutine /
// frame stack that has no recovering frame.
func Reachable(p *load.Prog, g *cg.Graph, entries []*ssa.Function, sites map[*ssa.Function][]*Site) (unprotected []*Reached, nFuncs, nProtectedOnly int) {
	type key struct {
		k string
		p bool
	}
	seen := map[key]bool{}
	parent := map[key]struct {
		from key
		edge cg.Edge
	}{}
	nodes := map[key]cg.Target{}
	var queue []key
	push := func(t cg.Target, prot bool, from *key, e cg.Edge) {
		k := key{t.Fn.String() + "|" + t.Ctx.Key(), prot}
		if seen[k] {
			return
		}
		seen[k] = true
		nodes[k] = t
		if from != nil {
			parent[k] = struct {
				from key
				edge cg.Edge
			}{*from, e}
		}
		queue = append(queue, k)
	}
	for _, e := range entries {
		push(cg.Target{Fn: e}, false, nil, cg.Edge{})
	}
	recoverOf := map[*ssa.Function]*ssa.Defer{}
	recChecked := map[*ssa.Function]bool{}
	firstUnprot := map[*ssa.Function]key{}
	funcs := map[*ssa.Function]bool{}
	protFuncs := map[*ssa.Function]bool{}
	for len(queue) > 0 {
		k := queue[0]
		queue = queue[1:]
		t := nodes[k]
		funcs[t.Fn] = true
		if !k.p {
			if _, ok := firstUnprot[t.Fn]; !ok {
				firstUnprot[t.Fn] = k
			}
		} else {
			protFuncs[t.Fn] = true
		}
		if !recChecked[t.Fn] {
			recChecked[t.Fn] = true
			recoverOf[t.Fn] = Recovers(t.Fn)
		}
		d := recoverOf[t.Fn]
		for _, e := range g.Out(t) {
			prot := k.p
			if e.Go {
				prot = false
			} else if d != nil && e.Site != nil && dominates(d, e.Site) {
				prot = true
			}
			kk := k
			push(e.Callee, prot, &kk, e)
		}
	}
	pathOf := func(k key) []string {
		var rev []string
		for {
			t := nodes[k]
			pi, has := parent[k]
			if !has {
				rev = append(rev, load.FuncName(t.Fn))
				break
			}
			site := ""
			if pi.edge.Site != nil {
				site = " (called at " + p.Pos(pi.edge.Site.Pos()) + ", " + pi.edge.Kind
				if pi.edge.Go {
					site += ", go"
				}
				site += ")"
			}
			rev = append(rev, load.FuncName(t.Fn)+site)
			k = pi.from
		}
		for i, j := 0, len(rev)-1; i < j; i, j = i+1, j-1 {
			rev[i], rev[j] = rev[j], rev[i]
		}
		return rev
	}
	var fns []*ssa.Function
	for fn := range firstUnprot {
		fns = append(fns, fn)
	}
	sort.Slice(fns, func(i, j int) bool { return fns[i].String() < fns[j].String() })
	for _, fn := range fns {
		d := recoverOf[fn]
		for _, s := range sites[fn] {
			if d != nil && dominates(d, s.Instr) {
				continue // protected by the function's own recover
			}
			unprotected = append(unprotected, &Reached{Site: s, Path: pathOf(firstUnprot[fn])})
		}
	}
	for fn := range protFuncs {
		if _, ok := firstUnprot[fn]; !ok {
			nProtectedOnly += len(sites[fn])
		}
	}
	return unprotected, len(funcs), nProtectedOnly
}

func dominates(a, b ssa.Instruction) bool {
	ba, bb := a.Block(), b.Block()
	if ba == bb {
		ia, ib := -1, -1
		for i, x := range ba.Instrs {
			if x == a {
				ia = i
			}
			if x == b {
				ib = i
			}
		}
		return ia < ib
	}
	return ba.Dominates(bb)
}

// Key builds the stable key of a site: class, function, construct shape.
func (s *Site) Key() string {
	return s.Class + " " + s.Shape + " in " + load.FuncName(s.Fn)
}

var _ = strconv.Itoa

// RecoverReports: after the deferred closure of d has recovered a panic, fn
// hands the failure to its caller: fn has an error result, the value returned
// from the recover block for it is loaded from a variable (a named result),
// and the recovering closure assigns that variable a value that is not the
// nil constant. Otherwise a recovered panic makes fn return zero values and a
// nil error - the failure is swallowed.
func RecoverReports(fn *ssa.Function, d *ssa.Defer) (bool, string) {
	errT := types.Universe.Lookup("error").Type()
	res := fn.Signature.Results()
	errIdx := -1
	for i := 0; i < res.Len(); i++ {
		if types.Identical(res.At(i).Type(), errT) {
			errIdx = i
		}
	}
	if errIdx < 0 {
		return false, "the function has no error result to report the recovered panic with"
	}
	if fn.Recover == nil || len(fn.Recover.Instrs) == 0 {
		return false, "no recover block"
	}
	ret, ok := fn.Recover.Instrs[len(fn.Recover.Instrs)-1].(*ssa.Return)
	if !ok || len(ret.Results) <= errIdx {
		return false, "the recover block does not return the results"
	}
	ld, ok := ret.Results[errIdx].(*ssa.UnOp)
	if !ok {
		return false, "after a recovered panic the function returns the constant " + ret.Results[errIdx].String() + " as its error (the results are not named, so the deferred function cannot set them): the panic is swallowed and the caller gets zero values without an error"
	}
	al, ok := ld.X.(*ssa.Alloc)
	if !ok {
		return false, "the error returned after a recovered panic is not a named result"
	}
	mc, ok := d.Call.Value.(*ssa.MakeClosure)
	if !ok {
		return false, "the recovering function is not a closure: it cannot set the named error result"
	}
	anon := mc.Fn.(*ssa.Function)
	for i, bnd := range mc.Bindings {
		if bnd != ssa.Value(al) {
			continue
		}
		fv := anon.FreeVars[i]
		for _, b := range anon.Blocks {
			for _, ins := range b.Instrs {
				st, ok := ins.(*ssa.Store)
				if !ok || st.Addr != ssa.Value(fv) {
					continue
				}
				if k, isK := st.Val.(*ssa.Const); isK && k.Value == nil {
					continue
				}
				return true, ""
			}
		}
	}
	return false, "the recovering closure never assigns the named error result " + al.Comment + ": a recovered panic is swallowed and the caller gets the results as they were, without an error"
}
