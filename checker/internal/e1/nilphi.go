package e1

import (
	"go/token"
	"go/types"

	"golang.org/x/tools/go/ssa"
)

// nilGuardedBy: the use of v at instruction ins is only reached over edges on
// which v != nil holds (branch on v == nil / v != nil, or on IsNil-like helper
// calls taking v), found as an edge cut between the entry and the use.
func nonNilAt(v ssa.Value, ins ssa.Instruction, isNilHelper func(*ssa.Function) bool) bool {
	fn := ins.Parent()
	derived := func(x ssa.Value) bool {
		for {
			if x == v {
				return true
			}
			switch y := x.(type) {
			case *ssa.ChangeInterface:
				x = y.X
			case *ssa.MakeInterface:
				x = y.X
			case *ssa.ChangeType:
				x = y.X
			default:
				return false
			}
		}
	}
	good := func(b *ssa.BasicBlock, succ int) bool {
		iff, ok := b.Instrs[len(b.Instrs)-1].(*ssa.If)
		if !ok {
			return false
		}
		cond := iff.Cond
		neg := false
		for {
			if u, ok := cond.(*ssa.UnOp); ok && u.Op == token.NOT {
				cond = u.X
				neg = !neg
				continue
			}
			break
		}
		switch c := cond.(type) {
		case *ssa.BinOp:
			if c.Op != token.EQL && c.Op != token.NEQ {
				return false
			}
			var other ssa.Value
			if derived(c.X) {
				other = c.Y
			} else if derived(c.Y) {
				other = c.X
			} else {
				return false
			}
			k, ok := other.(*ssa.Const)
			if !ok || k.Value != nil {
				return false
			}
			nonNilOnTrue := (c.Op == token.NEQ) != neg
			if nonNilOnTrue {
				return succ == 0
			}
			return succ == 1
		case *ssa.Call:
			cal := c.Call.StaticCallee()
			if cal == nil || !isNilHelper(cal) || len(c.Call.Args) != 1 || !derived(c.Call.Args[0]) {
				return false
			}
			// IsNil(v): non-nil on the false edge
			if neg {
				return succ == 0
			}
			return succ == 1
		}
		return false
	}
	target := ins.Block()
	seen := map[*ssa.BasicBlock]bool{}
	var walk func(b *ssa.BasicBlock) bool
	walk = func(b *ssa.BasicBlock) bool {
		if b == target {
			return true
		}
		if seen[b] {
			return false
		}
		seen[b] = true
		for i, sc := range b.Succs {
			if good(b, i) {
				continue
			}
			if walk(sc) {
				return true
			}
		}
		return false
	}
	// start from the block that defines v (a phi) - paths before the definition are irrelevant
	start := fn.Blocks[0]
	if d, ok := v.(ssa.Instruction); ok && d.Block() != nil {
		start = d.Block()
	}
	if start == target {
		return false
	}
	return !walk(start)
}

// NilPhiSites enumerates dereferences (interface invoke, field access through a
// pointer, call of a pointer-receiver method that is not nil-receiver-safe) of
// a value that is a phi with a literal nil edge and that is not protected by a
// non-nil test on every path from the phi to the use.
func NilPhiSites(fn *ssa.Function, isNilHelper func(*ssa.Function) bool, nilSafe func(*ssa.Function) bool) []*Site {
	var out []*Site
	phiWithNil := func(v ssa.Value) *ssa.Phi {
		for i := 0; i < 4; i++ {
			switch y := v.(type) {
			case *ssa.ChangeInterface:
				v = y.X
				continue
			case *ssa.ChangeType:
				v = y.X
				continue
			}
			break
		}
		phi, ok := v.(*ssa.Phi)
		if !ok {
			return nil
		}
		switch phi.Type().Underlying().(type) {
		case *types.Pointer, *types.Interface:
		default:
			return nil
		}
		for _, e := range phi.Edges {
			if k, ok := e.(*ssa.Const); ok && k.Value == nil {
				return phi
			}
		}
		return nil
	}
	for _, b := range fn.Blocks {
		for _, ins := range b.Instrs {
			var v ssa.Value
			what := ""
			switch x := ins.(type) {
			case ssa.CallInstruction:
				cc := x.Common()
				if cc.IsInvoke() {
					v, what = cc.Value, "method call on interface"
				} else if cal := cc.StaticCallee(); cal != nil && cal.Signature.Recv() != nil && len(cc.Args) > 0 {
					if _, isPtr := cal.Signature.Recv().Type().(*types.Pointer); isPtr && cal.Blocks != nil && !nilSafe(cal) {
						v, what = cc.Args[0], "call of "+cal.Name()+" (not nil-receiver-safe)"
					}
				}
			case *ssa.FieldAddr:
				v, what = x.X, "field access"
			case *ssa.UnOp:
				if x.Op == token.MUL {
					if _, isPtr := x.X.Type().Underlying().(*types.Pointer); isPtr {
						v, what = x.X, "load"
					}
				}
			case *ssa.MakeInterface:
				// a nil pointer put into an interface is a non-nil interface value: code that receives it cannot see the nil
				// with `== nil` and calls the type's methods on the nil receiver. Only pointer types with at least one
				// method that is not nil-receiver-safe, and only when the interface value leaves the function (argument,
				// store, return) rather than being tested right here
				if _, isPtr := x.X.Type().Underlying().(*types.Pointer); isPtr && ifaceEscapes(x) && hasUnsafeMethod(fn.Prog, x.X.Type(), nilSafe) {
					v, what = x.X, "conversion to an interface (typed nil)"
				}
			}
			if v == nil {
				continue
			}
			phi := phiWithNil(v)
			if phi == nil {
				continue
			}
			if nonNilAt(phi, ins, isNilHelper) {
				continue
			}
			out = append(out, &Site{Class: "P5", Fn: fn, Instr: ins, Pos: ins.Pos(), Shape: "nil-phi " + what + " on " + typeStr(phi.Type()),
				Detail: "dereference of a value that is nil on some incoming path (" + phi.Comment + ") without a non-nil test"})
		}
	}
	return out
}

// NilSafe computes which pointer-receiver methods guard every dereference of
// their receiver by a nil test (fixpoint over calls to other methods on the
// receiver).
func NilSafe(fns []*ssa.Function, isNilHelper func(*ssa.Function) bool) map[*ssa.Function]bool {
	safe := map[*ssa.Function]bool{}
	cand := []*ssa.Function{}
	for _, fn := range fns {
		if fn.Signature.Recv() == nil || fn.Blocks == nil || len(fn.Params) == 0 {
			continue
		}
		if _, isPtr := fn.Signature.Recv().Type().(*types.Pointer); !isPtr {
			continue
		}
		safe[fn] = true
		cand = append(cand, fn)
	}
	changed := true
	for changed {
		changed = false
		for _, fn := range cand {
			if !safe[fn] {
				continue
			}
			recv := fn.Params[0]
			ok := true
			for _, ref := range *recv.Referrers() {
				deref := false
				switch x := ref.(type) {
				case *ssa.FieldAddr:
					deref = x.X == ssa.Value(recv)
				case *ssa.UnOp:
					deref = x.Op == token.MUL && x.X == ssa.Value(recv)
				case ssa.CallInstruction:
					cc := x.Common()
					if !cc.IsInvoke() && len(cc.Args) > 0 && cc.Args[0] == ssa.Value(recv) {
						if cal := cc.StaticCallee(); cal != nil && cal.Signature.Recv() != nil {
							if s, known := safe[cal]; known {
								deref = !s
							} else if cal.Blocks != nil {
								deref = true
							}
						}
					}
				}
				if deref && !nonNilAtParam(recv, ref, isNilHelper) {
					ok = false
					break
				}
			}
			if !ok {
				safe[fn] = false
				changed = true
			}
		}
	}
	return safe
}

func nonNilAtParam(recv *ssa.Parameter, ins ssa.Instruction, isNilHelper func(*ssa.Function) bool) bool {
	// reuse nonNilAt with the entry block as start
	fn := ins.Parent()
	if ins.Block() == fn.Blocks[0] {
		return false
	}
	return nonNilAtFrom(recv, ins, fn.Blocks[0], isNilHelper)
}

func nonNilAtFrom(v ssa.Value, ins ssa.Instruction, start *ssa.BasicBlock, isNilHelper func(*ssa.Function) bool) bool {
	// a parameter has no defining block: wrap by temporarily treating start as entry
	return nonNilAt(v, ins, isNilHelper)
}

// MayReturnNil computes the repository functions with a single pointer result
// that can return nil: a nil constant (directly or through a phi), or the
// result of another such function returned as is.
func MayReturnNil(fns []*ssa.Function) map[*ssa.Function]bool {
	may := map[*ssa.Function]bool{}
	changed := true
	for changed {
		changed = false
		for _, fn := range fns {
			if may[fn] || fn.Blocks == nil || fn.Signature.Results().Len() != 1 {
				continue
			}
			if _, isPtr := fn.Signature.Results().At(0).Type().Underlying().(*types.Pointer); !isPtr {
				continue
			}
			for _, b := range fn.Blocks {
				ret, ok := b.Instrs[len(b.Instrs)-1].(*ssa.Return)
				if !ok || len(ret.Results) != 1 {
					continue
				}
				vals := []ssa.Value{ret.Results[0]}
				if ph, isPhi := ret.Results[0].(*ssa.Phi); isPhi {
					vals = ph.Edges
				}
				// named result in a function with a defer: the return loads the variable; look at what is stored into it
				if ld, isLd := ret.Results[0].(*ssa.UnOp); isLd && ld.Op == token.MUL {
					if al, isAl := ld.X.(*ssa.Alloc); isAl {
						vals = nil
						for _, ref := range *al.Referrers() {
							if st, isSt := ref.(*ssa.Store); isSt && st.Addr == ssa.Value(al) {
								vals = append(vals, st.Val)
							}
						}
					}
				}
				for _, v := range vals {
					if k, isK := v.(*ssa.Const); isK && k.Value == nil {
						may[fn] = true
					}
					if c, isCall := v.(*ssa.Call); isCall {
						if cal := c.Call.StaticCallee(); cal != nil && may[cal] {
							may[fn] = true
						}
					}
					// comma-ok assertion: the zero value when it fails
					if ex, isEx := v.(*ssa.Extract); isEx && ex.Index == 0 {
						if ta, isTA := ex.Tuple.(*ssa.TypeAssert); isTA && ta.CommaOk {
							may[fn] = true
						}
					}
				}
			}
			if may[fn] {
				changed = true
			}
		}
	}
	return may
}

// NilCallSites: dereferences (field access, load, call of a method that is not
// nil-receiver-safe) of the result of a call to a function that may return nil,
// without a non-nil test of that result on the way.
func NilCallSites(fn *ssa.Function, mayNil map[*ssa.Function]bool, isNilHelper func(*ssa.Function) bool, nilSafe func(*ssa.Function) bool) []*Site {
	var out []*Site
	src := func(v ssa.Value) *ssa.Call {
		for i := 0; i < 4; i++ {
			switch y := v.(type) {
			case *ssa.ChangeType:
				v = y.X
				continue
			}
			break
		}
		c, ok := v.(*ssa.Call)
		if !ok {
			return nil
		}
		cal := c.Call.StaticCallee()
		if cal == nil || !mayNil[cal] {
			return nil
		}
		return c
	}
	for _, b := range fn.Blocks {
		for _, ins := range b.Instrs {
			var v ssa.Value
			what := ""
			switch x := ins.(type) {
			case ssa.CallInstruction:
				cc := x.Common()
				if cal := cc.StaticCallee(); !cc.IsInvoke() && cal != nil && cal.Signature.Recv() != nil && len(cc.Args) > 0 {
					if _, isPtr := cal.Signature.Recv().Type().(*types.Pointer); isPtr && cal.Blocks != nil && !nilSafe(cal) {
						v, what = cc.Args[0], "call of "+cal.Name()+" (not nil-receiver-safe)"
					}
				}
			case *ssa.FieldAddr:
				v, what = x.X, "field access"
			case *ssa.UnOp:
				if x.Op == token.MUL {
					if _, isPtr := x.X.Type().Underlying().(*types.Pointer); isPtr {
						v, what = x.X, "load"
					}
				}
			case *ssa.MakeInterface:
				// a nil pointer put into an interface is a non-nil interface value: code that receives it cannot see the nil
				// with `== nil` and calls the type's methods on the nil receiver. Only pointer types with at least one
				// method that is not nil-receiver-safe, and only when the interface value leaves the function (argument,
				// store, return) rather than being tested right here
				if _, isPtr := x.X.Type().Underlying().(*types.Pointer); isPtr && ifaceEscapes(x) && hasUnsafeMethod(fn.Prog, x.X.Type(), nilSafe) {
					v, what = x.X, "conversion to an interface (typed nil)"
				}
			}
			if v == nil {
				continue
			}
			c := src(v)
			if c == nil {
				continue
			}
			if nonNilAt(c, ins, isNilHelper) {
				continue
			}
			out = append(out, &Site{Class: "P5", Fn: fn, Instr: ins, Pos: ins.Pos(), Shape: "nil-result " + what + " on result of " + c.Call.StaticCallee().Name(),
				Detail: "dereference of the result of " + c.Call.StaticCallee().Name() + "(), which can be nil, without a non-nil test"})
		}
	}
	return out
}

// ifaceEscapes: the interface value is handed on (call argument other than a nil test helper, store, return, phi).
func ifaceEscapes(mi *ssa.MakeInterface) bool {
	if mi.Referrers() == nil {
		return false
	}
	for _, ref := range *mi.Referrers() {
		switch x := ref.(type) {
		case *ssa.Store:
			// an element of a variadic argument list: judge the call that receives the list
			if ia, isIA := x.Addr.(*ssa.IndexAddr); isIA {
				if al, isAl := ia.X.(*ssa.Alloc); isAl {
					handled, escapes := false, false
					for _, r2 := range *al.Referrers() {
						sl, isSl := r2.(*ssa.Slice)
						if !isSl {
							continue
						}
						for _, r3 := range *sl.Referrers() {
							if ci, isCall := r3.(ssa.CallInstruction); isCall {
								handled = true
								cal := ci.Common().StaticCallee()
								if cal == nil || !(checksTypedNil(cal) || (cal.Pkg != nil && cal.Pkg.Pkg.Path() == "fmt")) {
									escapes = true
								}
							} else {
								handled, escapes = true, true
							}
						}
					}
					if handled && !escapes {
						continue
					}
				}
			}
			return true
		case *ssa.Return, *ssa.Phi, *ssa.MapUpdate, *ssa.Send:
			return true
		case ssa.CallInstruction:
			cal := x.Common().StaticCallee()
			if cal != nil && (cal.Name() == "IsNil") {
				continue
			}
			if cal != nil && cal.Pkg != nil && (cal.Pkg.Pkg.Path() == "fmt" || cal.Pkg.Pkg.Path() == "reflect") {
				continue
			}
			if cal != nil && checksTypedNil(cal) {
				continue // the receiver of the value looks for typed nils itself (reflect IsNil / gedcom.IsNil)
			}
			return true
		}
	}
	return false
}

// hasUnsafeMethod: the pointer type has a method (declared in the analysed program) that dereferences a nil receiver.
func hasUnsafeMethod(prog *ssa.Program, t types.Type, nilSafe func(*ssa.Function) bool) bool {
	ms := prog.MethodSets.MethodSet(t)
	for i := 0; i < ms.Len(); i++ {
		m := prog.MethodValue(ms.At(i))
		if m == nil || m.Blocks == nil || m.Synthetic != "" {
			continue
		}
		if !nilSafe(m) {
			return true
		}
	}
	return false
}

// checksTypedNil: the function examines its arguments for typed nils (it calls reflect.Value.IsNil or an IsNil helper).
func checksTypedNil(fn *ssa.Function) bool {
	for _, b := range fn.Blocks {
		for _, ins := range b.Instrs {
			c, ok := ins.(ssa.CallInstruction)
			if !ok {
				continue
			}
			if cal := c.Common().StaticCallee(); cal != nil && cal.Name() == "IsNil" {
				return true
			}
			// one level down: the test extracted into a small predicate (isNilComponent)
			if cal := c.Common().StaticCallee(); cal != nil && cal != fn && cal.Blocks != nil && len(cal.Blocks) <= 3 {
				for _, b2 := range cal.Blocks {
					for _, i2 := range b2.Instrs {
						if c2, ok := i2.(ssa.CallInstruction); ok {
							if cal2 := c2.Common().StaticCallee(); cal2 != nil && cal2.Name() == "IsNil" {
								return true
							}
						}
					}
				}
			}
		}
	}
	return false
}
