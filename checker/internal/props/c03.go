package props

import (
	"fmt"
	"go/token"
	"go/types"
	"os"

	"gedverif/internal/e1"
	"gedverif/internal/load"
	"gedverif/internal/oblig"
	"gedverif/internal/relang"
	"gedverif/internal/su"

	"golang.org/x/tools/go/ssa"
)

func e1Assumptions() []string {
	return []string{
		"may-panic classes enumerated: explicit panic, single-result type assertion, index/slice bounds checks the compiler's prove pass left in (go build -gcflags=-d=ssa/check_bce), reflect/regexp/strings.Repeat preconditions; NOT enumerated: nil dereference in general, nil-map writes, integer division, stack exhaustion, non-termination, out-of-memory",
		"library-opaque call graph: repository->repository edges (static, VTA-resolved invokes, function-parameter-sensitive) plus modelled library call-backs (function arguments, fmt->String/Error, sort.Sort, encoding/json->MarshalJSON, reflect->exported zero-argument methods)",
		"a frame that defers a closure calling recover() (and not re-panicking) protects everything called from it on the same goroutine after the defer",
		"R-lin decides bounds from dominating integer comparisons by enumerating atoms over a small window; machine-integer wrap-around is ignored",
	}
}

// nonNegSummary: v is known to be >= 0.
func nonNegSummary(p *load.Prog) func(v ssa.Value) bool {
	memo := map[string]bool{}
	var resultNonNeg func(fn *ssa.Function, k int, depth int) bool
	var valNonNeg func(v ssa.Value, depth int) bool
	valNonNeg = func(v ssa.Value, depth int) bool {
		if depth > 4 {
			return false
		}
		switch x := v.(type) {
		case *ssa.Const:
			i, ok := su.ConstInt(x)
			return ok && i >= 0
		case *ssa.Extract:
			call, ok := x.Tuple.(*ssa.Call)
			if !ok {
				return false
			}
			if su.CalleeIs(&call.Call, "strconv", "Atoi") && x.Index == 0 {
				// Atoi of a regexp group that admits digits only: no sign, saturates on overflow
				digitsOnly := func(a ssa.Value) bool {
					base, k, ok := su.ElemOf(a)
					if !ok {
						return false
					}
					_, pat, ok := submatchOf(base)
					if !ok {
						return false
					}
					sub, err := relang.Group(pat, int(k))
					if err != nil {
						return false
					}
					_, _, cl, ok := relang.IsRepeatOfClass(sub)
					return ok && cl('0') && !cl('-') && !cl('+') && !cl('a') && !cl(' ')
				}
				// the text is a parameter of a conversion helper (parseLevel(s)): every caller hands over such a group
				if prm, isPrm := call.Call.Args[0].(*ssa.Parameter); isPrm {
					h := prm.Parent()
					pi := -1
					for i, q := range h.Params {
						if q == prm {
							pi = i
						}
					}
					n := 0
					for _, caller := range p.Repo {
						for _, cs := range su.CallsTo(caller, h) {
							n++
							if pi < 0 || pi >= len(cs.Call.Args) || !digitsOnly(cs.Call.Args[pi]) {
								return false
							}
						}
					}
					return n > 0
				}
				return digitsOnly(call.Call.Args[0])
			}
			if cal := call.Call.StaticCallee(); cal != nil && p.InRepo(cal) {
				return resultNonNeg(cal, x.Index, depth+1)
			}
		case *ssa.UnOp:
			// load of a local variable (e.g. a named result spilled because a deferred closure captures it):
			// every store to it, here and in closures that capture it, must be non-negative
			al, ok := x.X.(*ssa.Alloc)
			if !ok || x.Op != token.MUL {
				return false
			}
			okAll := true
			var checkRefs func(refs []ssa.Instruction, addr ssa.Value, d int)
			checkRefs = func(refs []ssa.Instruction, addr ssa.Value, d int) {
				for _, ref := range refs {
					switch y := ref.(type) {
					case *ssa.Store:
						if ld, isLd := y.Val.(*ssa.UnOp); isLd && ld.X == y.Addr {
							continue // x = x (a named result returned as itself)
						}
						if y.Addr == addr && !valNonNeg(y.Val, depth+1) {
							if os.Getenv("GEDCHECK_DEBUG") != "" {
								fmt.Printf("nonneg: store of %s fails depth=%d in %s\n", y.Val, depth, y.Parent())
							}
							okAll = false
						}
					case *ssa.UnOp:
					case *ssa.MakeClosure:
						fn := y.Fn.(*ssa.Function)
						for i, b := range y.Bindings {
							if b == addr && d < 2 {
								fv := fn.FreeVars[i]
								checkRefs(*fv.Referrers(), fv, d+1)
							}
						}
					case *ssa.DebugRef:
					default:
						okAll = false // address escapes in a way not modelled
						if os.Getenv("GEDCHECK_DEBUG") != "" {
							fmt.Printf("nonneg: unmodelled referrer %T %s\n", ref, ref)
						}
					}
				}
			}
			checkRefs(*al.Referrers(), al, 0)
			return okAll
		case *ssa.Call:
			if bi, ok := x.Call.Value.(*ssa.Builtin); ok && (bi.Name() == "len" || bi.Name() == "cap") {
				return true
			}
			if cal := x.Call.StaticCallee(); cal != nil && p.InRepo(cal) && cal.Signature.Results().Len() == 1 {
				return resultNonNeg(cal, 0, depth+1)
			}
		}
		return false
	}
	resultNonNeg = func(fn *ssa.Function, k int, depth int) bool {
		key := fmt.Sprintf("%s#%d", fn.String(), k)
		if r, ok := memo[key]; ok {
			return r
		}
		memo[key] = false
		all, n := true, 0
		for _, b := range fn.Blocks {
			if ret, ok := b.Instrs[len(b.Instrs)-1].(*ssa.Return); ok && k < len(ret.Results) {
				n++
				if !valNonNeg(ret.Results[k], depth) {
					all = false
				}
			}
		}
		memo[key] = all && n > 0
		return memo[key]
	}
	return func(v ssa.Value) bool { return valNonNeg(v, 0) }
}

// argNonNil: every call of fn from a function in `within` passes a provably
// non-nil value for parameter idx.
func argNonNil(p *load.Prog, fn *ssa.Function, idx int, within map[*ssa.Function]bool, depth int, seen map[string]bool) bool {
	key := fmt.Sprintf("%s#%d", fn.String(), idx)
	if seen[key] {
		return true // recursion: assume (coinductive)
	}
	seen[key] = true
	if depth > 6 {
		return false
	}
	n := 0
	for caller := range within {
		for _, c := range su.Calls(caller) {
			if c.Common().StaticCallee() != fn {
				continue
			}
			n++
			if idx >= len(c.Common().Args) {
				return false
			}
			if !valueNonNil(p, c.Common().Args[idx], caller, within, depth, seen) {
				return false
			}
		}
	}
	return n > 0
}

func valueNonNil(p *load.Prog, v ssa.Value, in *ssa.Function, within map[*ssa.Function]bool, depth int, seen map[string]bool) bool {
	switch x := v.(type) {
	case *ssa.Alloc:
		return true
	case *ssa.Parameter:
		for i, q := range in.Params {
			if q == x {
				return argNonNil(p, in, i, within, depth+1, seen)
			}
		}
	case *ssa.Call:
		cal := x.Call.StaticCallee()
		if cal == nil || !p.InRepo(cal) {
			return false
		}
		for _, b := range cal.Blocks {
			if ret, ok := b.Instrs[len(b.Instrs)-1].(*ssa.Return); ok {
				if len(ret.Results) != 1 {
					return false
				}
				if _, isAlloc := ret.Results[0].(*ssa.Alloc); !isAlloc {
					return false
				}
			}
		}
		return true
	}
	return false
}

// nilParamPanic: site is a panic dominated by the true edge of `param == nil`.
func nilParamPanic(s *e1.Site) (fn *ssa.Function, idx int, ok bool) {
	fn = s.Fn
	for _, b := range fn.Blocks {
		iff, isIf := b.Instrs[len(b.Instrs)-1].(*ssa.If)
		if !isIf {
			continue
		}
		bo, isBo := iff.Cond.(*ssa.BinOp)
		if !isBo || bo.Op != token.EQL {
			continue
		}
		prm, isP := bo.X.(*ssa.Parameter)
		cst, isC := bo.Y.(*ssa.Const)
		if !isP || !isC || cst.Value != nil {
			continue
		}
		if _, isPtr := prm.Type().Underlying().(*types.Pointer); !isPtr {
			continue
		}
		if len(b.Succs[0].Preds) == 1 && b.Succs[0].Dominates(s.Instr.Block()) {
			for i, q := range fn.Params {
				if q == prm {
					return fn, i, true
				}
			}
		}
	}
	return nil, 0, false
}

// C03: decoding never crashes.
func C03(p *load.Prog, r *oblig.Run) {
	defer memoKeys(p, r, "R03.g")
	r.Explanation = "May-panic site analysis (E1). Every explicit panic, single-result type assertion, bounds check the compiler could not prove, and reflect/regexp precondition in a repository function " +
		"reachable (library-opaque, parameter-sensitive call graph) from Decoder.Decode / NewDocumentFromString / NewDocumentFromGEDCOMFile / the command's file loader, outside any recovering frame, is an obligation. " +
		"Discharge: R-regex (submatch group index of a constant pattern after the no-match exit; trimmed group slice justified by the group's minimum length), R-lin (bounds implied by the dominating branch conditions, " +
		"decided by exhaustive small-window enumeration, with the fact that the level is the non-negative Atoi of an all-digit group), R-nonnil (a panic under `param == nil` whose every reachable caller passes a fresh allocation), " +
		"R-rec (recover frame), and R03.t: the one tolerated panic is reachable only over the false edge of the AllowInvalidIndents option. R03.e: the error returned for an unparsable line is formatted with the line counter."
	r.NotDecided = "termination on every stream (hangs), memory, nil dereferences other than through the enumerated classes."
	r.Assumptions = e1Assumptions()
	entries := []*ssa.Function{
		p.MustMethod(load.PkgRoot, "Decoder", "Decode"),
		p.MustFunc(load.PkgRoot, "NewDocumentFromString"),
		p.MustFunc(load.PkgRoot, "NewDocumentFromGEDCOMFile"),
	}
	if f := p.Func(load.PkgCmd, "newDocumentFromGEDCOMFile"); f != nil {
		entries = append(entries, f)
	}
	dec := entries[0]
	nonneg := nonNegSummary(p)
	// functions reachable from the entries (for R-nonnil)
	var within map[*ssa.Function]bool
	tol := func(s *e1.Site) (string, bool) {
		if within == nil {
			within = map[*ssa.Function]bool{}
		}
		switch s.Class {
		case "P1":
			// R03.t tolerated panic: in Decode, reachable only over the false edge of a load of AllowInvalidIndents
			if s.Fn == dec {
				for _, b := range dec.Blocks {
					iff, ok := b.Instrs[len(b.Instrs)-1].(*ssa.If)
					if !ok {
						continue
					}
					ld, ok := iff.Cond.(*ssa.UnOp)
					if !ok {
						continue
					}
					fa, ok := ld.X.(*ssa.FieldAddr)
					if !ok || su.FieldName(fa) != "AllowInvalidIndents" {
						continue
					}
					if len(b.Succs[1].Preds) == 1 && b.Succs[1].Dominates(s.Instr.Block()) && !b.Succs[0].Dominates(s.Instr.Block()) {
						return "R03.t: the documented 'indent is too large' panic, reachable only while AllowInvalidIndents is false", true
					}
				}
			}
			if fn, idx, ok := nilParamPanic(s); ok {
				if len(within) == 0 {
					for _, f := range reachSet(p, entries) {
						within[f] = true
					}
				}
				if argNonNil(p, fn, idx, within, 0, map[string]bool{}) {
					return "R-nonnil: panics only when parameter " + fn.Params[idx].Name() + " is nil; every caller reachable from the entry points passes a fresh allocation", true
				}
			}
		case "P3":
			if ok, atoms, cases := linInBounds(s.Instr, nonneg); ok {
				return fmt.Sprintf("R-lin: in range by the dominating branch conditions (%d atoms, %d assignments enumerated)", atoms, cases), true
			}
		case "P4":
			// IsNil(node) helper: reflect.Value.IsNil after the nil-interface exit; callers pass pointers/interfaces
		}
		return "", false
	}
	runE1(p, r, "R03", entries, tol, 4)
	recoverObligations(p, r, "R03", entries, 1)
	// the decoder loop's structural rules (C02): the stack of open nodes starts empty and holds level+1 non-nil nodes,
	// a read error ends Decode - preconditions of "no nil parent" and of termination
	c02Rules(p, r)

	// R03.e: error names the line
	r.Rule("R03.e", "an unparsable line is reported as an error formatted with the line counter", 1)
	parse := p.Func(load.PkgRoot, "parseLine")
	n := 0
	if parse != nil {
		for _, c := range su.CallsTo(dec, parse) {
			var errV ssa.Value
			for _, ref := range *c.Referrers() {
				if ex, ok := ref.(*ssa.Extract); ok && ex.Index == 2 {
					errV = ex
				}
			}
			if errV == nil {
				continue
			}
			n++
			o := r.Add("R03.e", "parseLine error in Decode", p.Pos(c.Pos()), "the error of parseLine is returned with the line number")
			// find returns in Decode whose error result derives from errV: must be fmt.Errorf with an int argument that is the line counter (an int phi incremented per iteration)
			good, bad := 0, ""
			for _, b := range dec.Blocks {
				ret, ok := b.Instrs[len(b.Instrs)-1].(*ssa.Return)
				if !ok || len(ret.Results) != 2 {
					continue
				}
				ev := ret.Results[1]
				if ev == errV {
					bad = "Decode returns the bare parse error without the line number at " + p.Pos(ret.Pos())
					continue
				}
				// through a formatting helper of the library: lineError(lineNumber, err) whose own return is fmt.Errorf
				// over both parameters
				if hc, ok := ev.(*ssa.Call); ok {
					if h := hc.Call.StaticCallee(); h != nil && p.InRepo(h) && len(h.Blocks) > 0 && !su.CalleeIs(&hc.Call, "fmt", "Errorf") {
						passesErr, passesInt := false, false
						for _, a := range hc.Call.Args {
							v := su.Strip(a)
							if v == errV {
								passesErr = true
							}
							if bt, isB := v.Type().Underlying().(*types.Basic); isB && bt.Info()&types.IsInteger != 0 {
								if _, isK := v.(*ssa.Const); !isK {
									passesInt = true
								}
							}
						}
						formats := false
						for _, hb := range h.Blocks {
							hr, isRet := hb.Instrs[len(hb.Instrs)-1].(*ssa.Return)
							if !isRet || len(hr.Results) != 1 {
								continue
							}
							if fc, isC := hr.Results[0].(*ssa.Call); isC && su.CalleeIs(&fc.Call, "fmt", "Errorf") {
								deps := map[*ssa.Parameter]bool{}
								paramDeps(fc, deps, map[ssa.Value]bool{})
								nInt, nErr := 0, 0
								for q := range deps {
									if bt, isB := q.Type().Underlying().(*types.Basic); isB && bt.Info()&types.IsInteger != 0 {
										nInt++
									} else {
										nErr++
									}
								}
								formats = nInt > 0 && nErr > 0
							}
						}
						if passesErr && passesInt && formats {
							good++
							continue
						} else if passesErr {
							bad = "the parse error is wrapped by " + load.FuncName(h) + " without the line counter at " + p.Pos(hc.Pos())
							continue
						}
					}
				}
				if call, ok := ev.(*ssa.Call); ok && su.CalleeIs(&call.Call, "fmt", "Errorf") {
					usesErr, usesInt := false, false
					if sl, ok := call.Call.Args[1].(*ssa.Slice); ok {
						if al, ok := sl.X.(*ssa.Alloc); ok {
							for _, ref := range *al.Referrers() {
								if ia, ok := ref.(*ssa.IndexAddr); ok {
									for _, r2 := range *ia.Referrers() {
										if st, ok := r2.(*ssa.Store); ok {
											v := su.Strip(st.Val)
											if v == errV {
												usesErr = true
											}
											if b, ok := v.Type().Underlying().(*types.Basic); ok && b.Info()&types.IsInteger != 0 {
												if _, isConst := v.(*ssa.Const); !isConst {
													usesInt = true
												}
											}
										}
									}
								}
							}
						}
					}
					if usesErr && usesInt {
						good++
					} else if usesErr {
						bad = "the parse error is wrapped without the line counter at " + p.Pos(call.Pos())
					}
				}
			}
			if bad != "" {
				o.Fail(bad)
			} else if good > 0 {
				o.OK("returned through fmt.Errorf with the line counter")
			} else {
				o.Fail("the error of parseLine never reaches a return of Decode: unparsable lines are not reported")
			}
		}
	}
	if n == 0 {
		r.Add("R03.e", "parseLine error in Decode", p.Pos(dec.Pos()), "error path").Unknown("no call of parseLine with a used error in Decode")
	}
}
