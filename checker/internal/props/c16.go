package props

import (
	"fmt"
	"go/ast"
	"go/constant"
	"go/token"
	"go/types"
	"sort"
	"strings"

	"gedverif/internal/lin"
	"gedverif/internal/load"
	"gedverif/internal/oblig"
	"gedverif/internal/su"

	"golang.org/x/tools/go/ssa"
)

type opEntry struct {
	name   string
	tokens []string
	fn     *ssa.Function
	pos    token.Pos
}

func extractOperators(p *load.Prog) ([]opEntry, error) {
	pk := p.ByPath[load.PkgQ]
	obj := pk.Types.Scope().Lookup("Operators")
	if obj == nil {
		return nil, fmt.Errorf("q.Operators not found")
	}
	for _, f := range pk.Syntax {
		for _, d := range f.Decls {
			gd, ok := d.(*ast.GenDecl)
			if !ok {
				continue
			}
			for _, sp := range gd.Specs {
				vs, ok := sp.(*ast.ValueSpec)
				if !ok {
					continue
				}
				for i, n := range vs.Names {
					if pk.TypesInfo.Defs[n] != obj || i >= len(vs.Values) {
						continue
					}
					cl, ok := vs.Values[i].(*ast.CompositeLit)
					if !ok {
						return nil, fmt.Errorf("Operators is not a composite literal")
					}
					var out []opEntry
					for _, e := range cl.Elts {
						el, ok := e.(*ast.CompositeLit)
						if !ok || len(el.Elts) != 3 {
							return nil, fmt.Errorf("unexpected operator entry shape")
						}
						get := func(i int) ast.Expr {
							if kv, ok := el.Elts[i].(*ast.KeyValueExpr); ok {
								return kv.Value
							}
							return el.Elts[i]
						}
						tv := pk.TypesInfo.Types[get(0)]
						if tv.Value == nil || tv.Value.Kind() != constant.String {
							return nil, fmt.Errorf("operator name is not a constant")
						}
						oe := opEntry{name: constant.StringVal(tv.Value), pos: el.Pos()}
						tl, ok := get(1).(*ast.CompositeLit)
						if !ok {
							return nil, fmt.Errorf("operator tokens are not a literal")
						}
						for _, t := range tl.Elts {
							ttv := pk.TypesInfo.Types[t]
							if ttv.Value == nil {
								return nil, fmt.Errorf("token kind is not a constant")
							}
							oe.tokens = append(oe.tokens, constant.StringVal(ttv.Value))
						}
						id, ok := get(2).(*ast.Ident)
						if !ok {
							return nil, fmt.Errorf("operator function is not an identifier")
						}
						fo, ok := pk.TypesInfo.Uses[id].(*types.Func)
						if !ok {
							return nil, fmt.Errorf("operator function does not resolve")
						}
						oe.fn = p.SSA.FuncValue(fo)
						out = append(out, oe)
					}
					return out, nil
				}
			}
		}
	}
	return nil, fmt.Errorf("declaration of Operators not found")
}

var opToken = map[string]token.Token{"=": token.EQL, ">": token.GTR, ">=": token.GEQ, "<": token.LSS, "<=": token.LEQ}

// C16: query results (table clauses).
func C16(p *load.Prog, r *oblig.Run) {
	r.Explanation = "Table agreement (E5). R16.a: for every entry of q.Operators the registered function performs exactly the comparison its name spells - in the numeric branch on the two results of binaryFloats in order and in the text branch (through compareStrings, which must trim and lower-case both sides and call the comparison with the operands in order) - and '!=' is the negation of the function registered for '='. " +
		"R16.b: when one operator's token list is a proper prefix of another's, the longer one is listed first (the parser takes the first entry whose tokens match). R16.c: each documented function name is registered with the expression type that implements it, all distinct, and CallExpr evaluates its function with its own arguments."
	r.NotDecided = "First/Last/Only/Combine/Length arithmetic, mapping over slices and its order, variable substitution, object construction; equality with a reference interpreter."
	r.Assumptions = []string{"the operator and function registries are composite literals in the source", "exported names of the expression types carry their documented meaning"}
	r.Rule("R16.a", "each operator's function performs the comparison its name spells, numerically and on trimmed lower-cased text, with operands in order", 6)
	r.Rule("R16.b", "an operator whose tokens extend another operator's tokens is listed first", 2)
	r.Rule("R16.c", "documented function names are registered with their own expression types; calls forward the call's own arguments", 9)
	r.Rule("R16.d", "results built by appending are built on a slice the expression made itself (appending to a received slice can write into the caller's backing array)", 4)
	c16FreshAppend(p, r)
	c16ReflectSlices(p, r)
	c16Stateless(p, r)
	c16NoIdentity(p, r)
	c16NilResults(p, r)
	c16MapLoops(p, r)
	c16OperandSides(p, r)
	c16NoEarlyAnswer(p, r)
	c16OperandInput(p, r)
	c16Variables(p, r)
	ops, err := extractOperators(p)
	if err != nil {
		r.Add("R16.a", "Operators table", "-", "operator registry").Unknown(err.Error())
		return
	}
	byName := map[string]opEntry{}
	for _, o := range ops {
		byName[o.name] = o
	}
	want := []string{"!=", ">=", "<=", "=", ">", "<"}
	for _, w := range want {
		if _, ok := byName[w]; !ok {
			r.Add("R16.a", "operator "+w, "-", "documented operator "+w).Fail("the documented operator " + w + " is not registered")
		}
	}
	binStr := p.Func(load.PkgQ, "binaryStrings")
	binFlt := p.Func(load.PkgQ, "binaryFloats")
	cmpStr := p.Func(load.PkgQ, "compareStrings")
	for _, op := range ops {
		o := r.Add("R16.a", "operator "+op.name, p.Pos(op.pos), fmt.Sprintf("operator %s -> %s", op.name, op.fn.Name()))
		if op.name == "!=" {
			eq, ok := byName["="]
			if !ok {
				o.Unknown("no '=' entry")
				continue
			}
			if why := isNegationOf(op.fn, eq.fn); why != "" {
				o.Fail("'!=' is not the negation of the function registered for '=': " + why)
			} else {
				o.OK("returns the negated result of " + eq.fn.Name() + "(left, right)")
			}
			continue
		}
		tk, ok := opToken[op.name]
		if !ok {
			o.Fail("operator name " + op.name + " is not a documented operator")
			continue
		}
		why := checkComparison(op.fn, tk, binStr, binFlt, cmpStr)
		if why != "" {
			// the operators may share one helper that is handed the numeric and the text comparison as functions
			if viaWhy, applies := checkComparisonViaHelper(p, op.fn, tk, binStr, binFlt, cmpStr); applies {
				why = viaWhy
			}
		}
		if why != "" {
			o.Fail(fmt.Sprintf("the function registered for %q (%s) %s", op.name, op.fn.Name(), why))
		} else {
			o.OK("numeric and text branch both use " + tk.String() + " on the operands in order")
		}
	}
	// compareStrings normalisation
	o := r.Add("R16.a", "compareStrings", p.Pos(cmpStr.Pos()), "text comparison is case-insensitive on trimmed text")
	if cmpStr == nil {
		o.Unknown("compareStrings not found")
	} else if why := checkCompareStrings(cmpStr); why != "" {
		o.Fail(why)
	} else {
		o.OK("both operands pass strings.ToLower and strings.TrimSpace; op(s, t) in order")
	}
	// R16.b
	for i, a := range ops {
		for j, b := range ops {
			if i == j || len(a.tokens) >= len(b.tokens) {
				continue
			}
			isPrefix := true
			for k := range a.tokens {
				if a.tokens[k] != b.tokens[k] {
					isPrefix = false
				}
			}
			if !isPrefix {
				continue
			}
			r.Check("R16.b", fmt.Sprintf("%s before %s", b.name, a.name), p.Pos(b.pos), fmt.Sprintf("tokens of %q extend those of %q", b.name, a.name), j < i,
				"listed first", fmt.Sprintf("operator %q is listed before %q although its tokens are a prefix of it: the parser reads %q as %q followed by garbage", a.name, b.name, b.name, a.name))
		}
	}
	// R16.c
	c16Functions(p, r)
}

func isNegationOf(fn, eq *ssa.Function) string {
	calls := su.CallsTo(fn, eq)
	if len(calls) != 1 {
		return fmt.Sprintf("it does not call %s exactly once", eq.Name())
	}
	c := calls[0]
	if len(c.Call.Args) != 2 || c.Call.Args[0] != ssa.Value(fn.Params[0]) || c.Call.Args[1] != ssa.Value(fn.Params[1]) {
		return "the operands are not passed on in order"
	}
	// every non-error return's bool is !extract0
	var res ssa.Value
	for _, ref := range *c.Referrers() {
		if ex, ok := ref.(*ssa.Extract); ok && ex.Index == 0 {
			res = ex
		}
	}
	if res == nil {
		return "the result of '=' is not used"
	}
	ok := false
	for _, b := range fn.Blocks {
		ret, isRet := b.Instrs[len(b.Instrs)-1].(*ssa.Return)
		if !isRet {
			continue
		}
		if un, isUn := ret.Results[0].(*ssa.UnOp); isUn && un.Op == token.NOT && un.X == res {
			ok = true
		} else if k, isK := ret.Results[0].(*ssa.Const); isK {
			_ = k // error path returns a constant
		} else {
			return "a path returns something other than the negated result"
		}
	}
	if !ok {
		return "no path returns the negated result"
	}
	return ""
}

func checkComparison(fn *ssa.Function, tk token.Token, binStr, binFlt, cmpStr *ssa.Function) string {
	if binStr == nil || binFlt == nil || cmpStr == nil {
		return "cannot be analysed (helpers not found)"
	}
	bs := su.CallsTo(fn, binStr)
	if len(bs) != 1 || bs[0].Call.Args[0] != ssa.Value(fn.Params[0]) || bs[0].Call.Args[1] != ssa.Value(fn.Params[1]) {
		return "does not obtain its text operands from binaryStrings(left, right)"
	}
	var sL, sR ssa.Value
	for _, ref := range *bs[0].Referrers() {
		if ex, ok := ref.(*ssa.Extract); ok {
			if ex.Index == 0 {
				sL = ex
			} else if ex.Index == 1 {
				sR = ex
			}
		}
	}
	bf := su.CallsTo(fn, binFlt)
	if len(bf) != 1 || bf[0].Call.Args[0] != sL || bf[0].Call.Args[1] != sR {
		return "does not try the numeric comparison on the same two operands in order"
	}
	var fL, fR, fOK ssa.Value
	for _, ref := range *bf[0].Referrers() {
		if ex, ok := ref.(*ssa.Extract); ok {
			switch ex.Index {
			case 0:
				fL = ex
			case 1:
				fR = ex
			case 2:
				fOK = ex
			}
		}
	}
	// numeric comparison
	nNum := 0
	for _, b := range fn.Blocks {
		for _, ins := range b.Instrs {
			bo, ok := ins.(*ssa.BinOp)
			if !ok {
				continue
			}
			switch bo.Op {
			case token.EQL, token.NEQ, token.LSS, token.LEQ, token.GTR, token.GEQ:
			default:
				continue
			}
			if bt, isB := bo.X.Type().Underlying().(*types.Basic); !isB || bt.Info()&types.IsFloat == 0 {
				continue
			}
			nNum++
			if bo.Op != tk {
				return fmt.Sprintf("compares numbers with %s instead of %s", bo.Op, tk)
			}
			if bo.X != fL || bo.Y != fR {
				return "compares the numeric operands in the wrong order"
			}
			// only on the ok branch
			guarded := false
			for _, d := range fn.Blocks {
				if iff, isIf := d.Instrs[len(d.Instrs)-1].(*ssa.If); isIf && iff.Cond == fOK && d.Succs[0].Dominates(bo.Block()) {
					guarded = true
				}
			}
			if !guarded {
				return "uses the numeric comparison without checking that both sides are numeric"
			}
		}
	}
	if nNum != 1 {
		return fmt.Sprintf("has %d numeric comparisons (want exactly one)", nNum)
	}
	// text comparison through compareStrings(sL, sR, closure)
	cs := su.CallsTo(fn, cmpStr)
	if len(cs) != 1 || cs[0].Call.Args[0] != sL || cs[0].Call.Args[1] != sR {
		return "does not compare the text operands in order through compareStrings"
	}
	var clo *ssa.Function
	switch x := cs[0].Call.Args[2].(type) {
	case *ssa.MakeClosure:
		clo = x.Fn.(*ssa.Function)
	case *ssa.Function:
		clo = x
	}
	if clo == nil {
		return "passes a comparison to compareStrings that cannot be resolved"
	}
	nTxt := 0
	for _, b := range clo.Blocks {
		for _, ins := range b.Instrs {
			bo, ok := ins.(*ssa.BinOp)
			if !ok {
				continue
			}
			switch bo.Op {
			case token.EQL, token.NEQ, token.LSS, token.LEQ, token.GTR, token.GEQ:
			default:
				continue
			}
			nTxt++
			if bo.Op != tk {
				return fmt.Sprintf("compares text with %s instead of %s", bo.Op, tk)
			}
			if bo.X != ssa.Value(clo.Params[0]) || bo.Y != ssa.Value(clo.Params[1]) {
				return "compares the text operands in the wrong order"
			}
		}
	}
	if nTxt != 1 {
		return fmt.Sprintf("has %d text comparisons (want exactly one)", nTxt)
	}
	return ""
}

func checkCompareStrings(fn *ssa.Function) string {
	// each of the two string params flows through ToLower and TrimSpace into the corresponding argument of the op call
	through := func(v ssa.Value, prm *ssa.Parameter) (lower, trim bool, ok bool) {
		for i := 0; i < 6; i++ {
			if v == ssa.Value(prm) {
				return lower, trim, true
			}
			c, isCall := v.(*ssa.Call)
			if !isCall {
				return
			}
			switch {
			case su.CalleeIs(&c.Call, "strings", "ToLower"):
				lower = true
			case su.CalleeIs(&c.Call, "strings", "TrimSpace"):
				trim = true
			default:
				return
			}
			v = c.Call.Args[0]
		}
		return
	}
	for _, b := range fn.Blocks {
		for _, ins := range b.Instrs {
			c, ok := ins.(*ssa.Call)
			if !ok || c.Call.Value != ssa.Value(fn.Params[2]) {
				continue
			}
			for i := 0; i < 2; i++ {
				lo, tr, ok := through(c.Call.Args[i], fn.Params[i])
				if !ok {
					return fmt.Sprintf("compareStrings does not pass its operand %d (normalised) as argument %d of the comparison", i+1, i+1)
				}
				if !lo || !tr {
					return fmt.Sprintf("compareStrings does not both lower-case and trim operand %d: the comparison is not case-insensitive on trimmed text", i+1)
				}
			}
			return ""
		}
	}
	return "compareStrings never calls the comparison"
}

var c16Functions_ = map[string]string{
	"?": "QuestionMarkExpr", "Combine": "CombineExpr", "First": "FirstExpr", "Last": "LastExpr", "Length": "LengthExpr",
	"MergeDocumentsAndIndividuals": "MergeDocumentsAndIndividualsExpr", "NodesWithTagPath": "NodesWithTagPathExpr", "Only": "OnlyExpr",
}

func c16Functions(p *load.Prog, r *oblig.Run) {
	pk := p.ByPath[load.PkgQ]
	obj := pk.Types.Scope().Lookup("Functions")
	got := map[string]string{}
	var pos token.Pos
	found := false
	for _, f := range pk.Syntax {
		ast.Inspect(f, func(n ast.Node) bool {
			vs, ok := n.(*ast.ValueSpec)
			if !ok {
				return true
			}
			for i, nm := range vs.Names {
				if pk.TypesInfo.Defs[nm] != obj || i >= len(vs.Values) {
					continue
				}
				cl, ok := vs.Values[i].(*ast.CompositeLit)
				if !ok {
					continue
				}
				found = true
				pos = cl.Pos()
				for _, e := range cl.Elts {
					kv, ok := e.(*ast.KeyValueExpr)
					if !ok {
						continue
					}
					ktv := pk.TypesInfo.Types[kv.Key]
					if ktv.Value == nil {
						continue
					}
					vt := pk.TypesInfo.Types[kv.Value].Type
					name := ""
					if n := load.NamedOf(vt); n != nil {
						name = n.Obj().Name()
					}
					got[constant.StringVal(ktv.Value)] = name
				}
			}
			return true
		})
	}
	if !found {
		r.Add("R16.c", "Functions table", "-", "function registry").Unknown("q.Functions is not a map literal")
		return
	}
	var names []string
	for n := range c16Functions_ {
		names = append(names, n)
	}
	sort.Strings(names)
	for _, n := range names {
		o := r.Add("R16.c", "function "+n, p.Pos(pos), "documented function "+n)
		switch {
		case got[n] == "":
			o.Fail("the documented function " + n + " is not registered")
		case got[n] != c16Functions_[n]:
			o.Fail(fmt.Sprintf("the function name %q is registered with %s instead of %s: the query function behaves as a different one", n, got[n], c16Functions_[n]))
		default:
			o.OK(got[n])
		}
	}
	for n, t := range got {
		if _, ok := c16Functions_[n]; !ok {
			r.Add("R16.c", "function "+n, p.Pos(pos), "extra function").OK("undocumented extra function " + n + " -> " + t + " (not checked)")
		}
	}
	// CallExpr forwards its own Args
	ce := p.Method(load.PkgQ, "CallExpr", "Evaluate")
	o := r.Add("R16.c", "CallExpr forwards its arguments", "-", "arguments handed to the called function")
	if ce == nil {
		o.Unknown("CallExpr.Evaluate not found")
		return
	}
	o.Pos = p.Pos(ce.Pos())
	ok := false
	for _, c := range su.Calls(ce) {
		cc := c.Common()
		if cc.IsInvoke() && cc.Method.Name() == "Evaluate" && len(cc.Args) == 3 {
			// args[2] must be a load of e.Args; args[1] the input; args[0] the engine
			if ld, isLd := cc.Args[2].(*ssa.UnOp); isLd {
				if fa, isFa := ld.X.(*ssa.FieldAddr); isFa && su.FieldName(fa) == "Args" && fa.X == ssa.Value(ce.Params[0]) &&
					cc.Args[0] == ssa.Value(ce.Params[1]) && cc.Args[1] == ssa.Value(ce.Params[2]) {
					// receiver: e.Function
					if rl, isRl := cc.Value.(*ssa.UnOp); isRl {
						if rfa, isRfa := rl.X.(*ssa.FieldAddr); isRfa && su.FieldName(rfa) == "Function" {
							ok = true
						}
					}
				}
			}
		}
	}
	if ok {
		o.OK("e.Function.Evaluate(engine, input, e.Args)")
	} else {
		o.Fail("CallExpr does not evaluate its function with the engine, the current input and the call's own arguments: a function call receives the wrong arguments (" + strings.TrimSpace("e.g. the caller's") + ")")
	}
}

// c16FreshAppend (R16.d): every reflect.Append / reflect.AppendSlice in package q
// appends to a value that comes from reflect.MakeSlice (or from an earlier
// append on such a value).
func c16FreshAppend(p *load.Prog, r *oblig.Run) {
	isReflect := func(c *ssa.CallCommon, names ...string) bool {
		cal := c.StaticCallee()
		if cal == nil || cal.Pkg == nil || cal.Pkg.Pkg.Path() != "reflect" {
			return false
		}
		for _, n := range names {
			if cal.Name() == n {
				return true
			}
		}
		return false
	}
	ord := map[string]int{}
	for _, fn := range p.Repo {
		if fn.Pkg == nil && fn.Parent() == nil {
			continue
		}
		if pkgPathOf(fn) != load.PkgQ {
			continue
		}
		for _, c := range su.Calls(fn) {
			cc := c.Common()
			if !isReflect(cc, "Append", "AppendSlice") || len(cc.Args) < 1 {
				continue
			}
			key := "append in " + load.FuncName(fn)
			ord[key]++
			if ord[key] > 1 {
				key = fmt.Sprintf("%s #%d", key, ord[key])
			}
			o := r.Add("R16.d", key, p.Pos(c.Pos()), "destination of a reflect append")
			seen := map[ssa.Value]bool{}
			bad := ""
			var walk func(v ssa.Value, d int)
			walk = func(v ssa.Value, d int) {
				if seen[v] || bad != "" {
					return
				}
				seen[v] = true
				if d > 20 {
					bad = "derivation too deep"
					return
				}
				switch x := v.(type) {
				case *ssa.Phi:
					for _, e := range x.Edges {
						walk(e, d+1)
					}
				case *ssa.Call:
					if isReflect(&x.Call, "MakeSlice", "Append", "AppendSlice") {
						if isReflect(&x.Call, "Append", "AppendSlice") {
							walk(x.Call.Args[0], d+1)
						}
						return
					}
					// a helper of package q that hands back the slice it appended to
					if g := x.Call.StaticCallee(); g != nil && pkgPathOf(g) == load.PkgQ && len(g.Blocks) > 0 && g.Signature.Results().Len() == 1 {
						for _, b := range g.Blocks {
							if ret, ok := b.Instrs[len(b.Instrs)-1].(*ssa.Return); ok && len(ret.Results) == 1 {
								walk(ret.Results[0], d+1)
							}
						}
						return
					}
					bad = "the result of " + x.Call.String()
				case *ssa.Extract:
					if tc, ok := x.Tuple.(*ssa.Call); ok {
						if g := tc.Call.StaticCallee(); g != nil && pkgPathOf(g) == load.PkgQ && len(g.Blocks) > 0 {
							for _, b := range g.Blocks {
								if ret, ok := b.Instrs[len(b.Instrs)-1].(*ssa.Return); ok && x.Index < len(ret.Results) {
									walk(ret.Results[x.Index], d+1)
								}
							}
							return
						}
					}
					bad = fmt.Sprintf("%s (%T)", v.String(), v)
				case *ssa.Parameter:
					// a parameter of an unexported helper: what every caller hands over
					h := x.Parent()
					if h == nil || ast.IsExported(h.Name()) {
						bad = "the parameter " + x.Name() + " of " + load.FuncName(h)
						return
					}
					idx := -1
					for i, q := range h.Params {
						if q == x {
							idx = i
						}
					}
					n := 0
					for _, caller := range p.Repo {
						for _, cs := range su.CallsTo(caller, h) {
							if idx >= 0 && idx < len(cs.Call.Args) {
								n++
								walk(cs.Call.Args[idx], d+1)
							}
						}
					}
					if n == 0 {
						bad = "the parameter " + x.Name() + " of " + load.FuncName(h) + " (no static caller)"
					}
				case *ssa.UnOp:
					if al, ok := x.X.(*ssa.Alloc); ok && x.Op == token.MUL {
						for _, ref := range *al.Referrers() {
							if st, ok := ref.(*ssa.Store); ok && st.Addr == ssa.Value(al) {
								walk(st.Val, d+1)
							}
						}
						return
					}
					bad = "a value loaded from " + x.X.String()
				case *ssa.Const:
					// the zero reflect.Value (a variable that is assigned before its first use): not a received slice
					if x.Value != nil {
						bad = "the constant " + x.String()
					}
				default:
					bad = fmt.Sprintf("%s (%T)", v.String(), v)
				}
			}
			walk(cc.Args[0], 0)
			if bad == "" {
				o.OK("appends to a slice made by reflect.MakeSlice in the same function")
			} else {
				o.Fail("the destination of the append is not a slice the expression made itself but " + bad + ": when that slice has spare capacity the append writes into the backing array it shares with the value it came from (another result, or the document)")
			}
		}
	}
}

// c16ReflectSlices (R16.g): a reflect re-slice in package q never reaches past
// the length of the list - Value.Slice only checks the capacity, so an upper
// bound clamped against anything else returns the zero elements that sit in the
// spare capacity of a list built by appending. The bound must be provably <=
// recv.Len() from the dominating tests (small linear prover over the SSA).
func c16ReflectSlices(p *load.Prog, r *oblig.Run) {
	r.Rule("R16.g", "the upper bound of every reflect re-slice of a list is at most the list's length", 2)
	ord := map[string]int{}
	for _, fn := range p.Repo {
		if pkgPathOf(fn) != load.PkgQ || len(fn.Blocks) == 0 {
			continue
		}
		for _, c := range su.Calls(fn) {
			cc := c.Common()
			cal := cc.StaticCallee()
			if cal == nil || cal.Pkg == nil || cal.Pkg.Pkg.Path() != "reflect" || cal.Name() != "Slice" || len(cc.Args) != 3 {
				continue
			}
			key := "re-slice in " + load.FuncName(fn)
			ord[key]++
			if ord[key] > 1 {
				key = fmt.Sprintf("%s #%d", key, ord[key])
			}
			o := r.Add("R16.g", key, p.Pos(c.Pos()), "upper bound of reflect.Value.Slice")
			hi := cc.Args[2]
			if k, ok := su.ConstInt(hi); ok && k == 0 {
				o.OK("constant 0")
				continue
			}
			// Len() calls on the same reflect.Value
			proved := false
			for _, c2 := range su.Calls(fn) {
				cal2 := c2.Common().StaticCallee()
				if cal2 == nil || cal2.Pkg == nil || cal2.Pkg.Pkg.Path() != "reflect" || cal2.Name() != "Len" || len(c2.Common().Args) != 1 {
					continue
				}
				if c2.Common().Args[0] != cc.Args[0] {
					continue
				}
				lv, ok := c2.(ssa.Value)
				if !ok || !(c2.Block() == c.Block() || c2.Block().Dominates(c.Block())) {
					continue
				}
				if hi == lv || lin.ProveGoals(c.(ssa.Instruction), []lin.Goal{{Op: token.LEQ, X: hi, Y: lv}}, func(ssa.Value) bool { return false }) {
					proved = true
				}
			}
			if proved {
				o.OK("at most Len() of the same value by the dominating tests")
			} else {
				o.Fail("the upper bound of the re-slice is not shown to be <= Len() of the list (it is clamped against something else, e.g. the capacity): for a list built by appending the result includes zero-value elements beyond its end")
			}
		}
	}
}

// c16Variables (R16.e/f): a variable is interchangeable with its definition -
// VariableExpr.Evaluate answers with the variable's statement evaluated on its
// own input; and binaryFloats decides "numeric" from the two ParseFloat errors
// and nothing else.
func c16Variables(p *load.Prog, r *oblig.Run) {
	r.Rule("R16.e", "a variable evaluates its definition on the value piped into it", 1)
	r.Rule("R16.f", "two operands are compared numerically exactly when both parse as numbers (strconv.ParseFloat), whatever they look like", 1)
	ve := p.Method(load.PkgQ, "VariableExpr", "Evaluate")
	se := p.Method(load.PkgQ, "Statement", "Evaluate")
	o := r.Add("R16.e", "value returned by VariableExpr.Evaluate", "-", "what a variable reference evaluates to")
	if ve == nil || se == nil || len(ve.Params) < 3 {
		o.Unknown("VariableExpr.Evaluate / Statement.Evaluate not found")
	} else {
		o.Pos = p.Pos(ve.Pos())
		input := ve.Params[2]
		bad, n := "", 0
		for _, b := range ve.Blocks {
			ret, ok := b.Instrs[len(b.Instrs)-1].(*ssa.Return)
			if !ok || len(ret.Results) != 2 {
				continue
			}
			v := ret.Results[0]
			// spilled named results: load of an alloc
			var vals []ssa.Value
			if ld, isLd := v.(*ssa.UnOp); isLd {
				if al, isAl := ld.X.(*ssa.Alloc); isAl {
					for _, ref := range *al.Referrers() {
						if st, ok := ref.(*ssa.Store); ok && st.Addr == ssa.Value(al) {
							vals = append(vals, st.Val)
						}
					}
				}
			}
			if len(vals) == 0 {
				vals = []ssa.Value{v}
			}
			for _, x := range vals {
				if k, isK := x.(*ssa.Const); isK && k.Value == nil {
					continue // nil with an error
				}
				n++
				ex, isEx := x.(*ssa.Extract)
				var call *ssa.Call
				if isEx {
					call, _ = ex.Tuple.(*ssa.Call)
				}
				if call == nil || call.Call.StaticCallee() != se || len(call.Call.Args) < 3 || call.Call.Args[2] != ssa.Value(input) {
					bad = "a value that is not Statement.Evaluate(engine, input) of the variable's statement (" + x.String() + ")"
				}
			}
		}
		switch {
		case n == 0:
			o.Unknown("no value returned")
		case bad != "":
			o.Fail("VariableExpr.Evaluate can answer with " + bad + ": a variable is then not interchangeable with its definition (Count is Length; .Individuals | Count no longer counts the individuals)")
		default:
			o.OK("the variable's statement evaluated on the input")
		}
	}
	bf := p.Func(load.PkgQ, "binaryFloats")
	o2 := r.Add("R16.f", "numeric verdict of binaryFloats", "-", "what decides between numeric and text comparison")
	if bf == nil {
		o2.Unknown("binaryFloats not found")
		return
	}
	o2.Pos = p.Pos(bf.Pos())
	// every branch test in binaryFloats is a nil test of a ParseFloat error
	bad := ""
	nTests := 0
	for _, b := range bf.Blocks {
		iff, ok := b.Instrs[len(b.Instrs)-1].(*ssa.If)
		if !ok {
			continue
		}
		cond := iff.Cond
		if u, isNot := cond.(*ssa.UnOp); isNot && u.Op == token.NOT {
			cond = u.X
		}
		okTest := false
		if bo, isBo := cond.(*ssa.BinOp); isBo && (bo.Op == token.EQL || bo.Op == token.NEQ) {
			if k, isK := bo.Y.(*ssa.Const); isK && k.Value == nil {
				if ex, isEx := bo.X.(*ssa.Extract); isEx {
					if c, isCall := ex.Tuple.(*ssa.Call); isCall && su.CalleeIs(&c.Call, "strconv", "ParseFloat") {
						okTest = true
						nTests++
					}
				}
			}
		}
		if !okTest {
			bad = "the branch at " + p.Pos(iff.Pos()) + " tests " + iff.Cond.String()
		}
	}
	switch {
	case bad != "":
		o2.Fail("binaryFloats decides on something other than the two ParseFloat errors (" + bad + "): operands that both parse as numbers (negative, with exponent, with a leading '+' or '.') can be compared as text")
	case nTests < 2:
		o2.Fail("binaryFloats no longer tests both ParseFloat errors")
	default:
		o2.OK("the two ParseFloat errors and nothing else")
	}
}

// closureCompares: the function literal returns  p0 tk p1  and nothing else.
func closureCompares(v ssa.Value, tk token.Token) string {
	var clo *ssa.Function
	switch x := v.(type) {
	case *ssa.MakeClosure:
		clo, _ = x.Fn.(*ssa.Function)
	case *ssa.Function:
		clo = x
	}
	if clo == nil || len(clo.Blocks) == 0 || len(clo.Params) != 2 {
		return "passes a comparison that cannot be resolved"
	}
	n := 0
	for _, b := range clo.Blocks {
		ret, ok := b.Instrs[len(b.Instrs)-1].(*ssa.Return)
		if !ok || len(ret.Results) != 1 {
			continue
		}
		n++
		bo, ok := ret.Results[0].(*ssa.BinOp)
		if !ok {
			return "passes a comparison that does not return a single comparison of its operands"
		}
		if bo.Op != tk {
			return fmt.Sprintf("compares with %s instead of %s", bo.Op, tk)
		}
		if bo.X != ssa.Value(clo.Params[0]) || bo.Y != ssa.Value(clo.Params[1]) {
			return "compares its operands in the wrong order"
		}
	}
	if n != 1 {
		return "passes a comparison with several results"
	}
	return ""
}

// checkComparisonViaHelper: fn is  return H(left, right, numericComparison, textComparison)  where H obtains the text
// operands from binaryStrings, tries binaryFloats on them, applies the numeric comparison to the two floats in order
// only when both are numeric, and otherwise the text comparison through compareStrings in order. applies=false when
// fn does not have that form.
func checkComparisonViaHelper(p *load.Prog, fn *ssa.Function, tk token.Token, binStr, binFlt, cmpStr *ssa.Function) (string, bool) {
	var hc *ssa.Call
	for _, c := range su.Calls(fn) {
		cv, ok := c.(*ssa.Call)
		if !ok {
			continue
		}
		h := cv.Call.StaticCallee()
		if h == nil || pkgPathOf(h) != load.PkgQ || len(h.Blocks) == 0 || len(h.Params) != 4 || len(cv.Call.Args) != 4 {
			continue
		}
		if hc != nil {
			return "", false
		}
		hc = cv
	}
	if hc == nil {
		return "", false
	}
	if hc.Call.Args[0] != ssa.Value(fn.Params[0]) || hc.Call.Args[1] != ssa.Value(fn.Params[1]) {
		return "does not hand its operands on in order", true
	}
	// fn returns the helper's results unchanged
	for _, b := range fn.Blocks {
		if ret, ok := b.Instrs[len(b.Instrs)-1].(*ssa.Return); ok {
			for _, res := range ret.Results {
				if ex, isEx := res.(*ssa.Extract); !isEx || ex.Tuple != ssa.Value(hc) {
					if res != ssa.Value(hc) {
						return "does not return the result of the shared comparison helper unchanged", true
					}
				}
			}
		}
	}
	if why := closureCompares(hc.Call.Args[2], tk); why != "" {
		return "numeric comparison: " + why, true
	}
	if why := closureCompares(hc.Call.Args[3], tk); why != "" {
		return "text comparison: " + why, true
	}
	h := hc.Call.StaticCallee()
	bs := su.CallsTo(h, binStr)
	if len(bs) != 1 || bs[0].Call.Args[0] != ssa.Value(h.Params[0]) || bs[0].Call.Args[1] != ssa.Value(h.Params[1]) {
		return "uses a helper that does not obtain its text operands from binaryStrings(left, right)", true
	}
	var sL, sR ssa.Value
	for _, ref := range *bs[0].Referrers() {
		if ex, ok := ref.(*ssa.Extract); ok {
			if ex.Index == 0 {
				sL = ex
			} else if ex.Index == 1 {
				sR = ex
			}
		}
	}
	bf := su.CallsTo(h, binFlt)
	if len(bf) != 1 || bf[0].Call.Args[0] != sL || bf[0].Call.Args[1] != sR {
		return "uses a helper that does not try the numeric comparison on the same two operands in order", true
	}
	var fL, fR, fOK ssa.Value
	for _, ref := range *bf[0].Referrers() {
		if ex, ok := ref.(*ssa.Extract); ok {
			switch ex.Index {
			case 0:
				fL = ex
			case 1:
				fR = ex
			case 2:
				fOK = ex
			}
		}
	}
	nNum := 0
	for _, c := range su.Calls(h) {
		cv, ok := c.(*ssa.Call)
		if !ok || cv.Call.Value != ssa.Value(h.Params[2]) {
			continue
		}
		nNum++
		if len(cv.Call.Args) != 2 || cv.Call.Args[0] != fL || cv.Call.Args[1] != fR {
			return "uses a helper that applies the numeric comparison to the operands in the wrong order", true
		}
		guarded := false
		for _, d := range h.Blocks {
			if iff, isIf := d.Instrs[len(d.Instrs)-1].(*ssa.If); isIf && iff.Cond == fOK && d.Succs[0].Dominates(cv.Block()) {
				guarded = true
			}
		}
		if !guarded {
			return "uses a helper that applies the numeric comparison without checking that both sides are numeric", true
		}
	}
	if nNum != 1 {
		return fmt.Sprintf("uses a helper with %d numeric comparisons (want exactly one)", nNum), true
	}
	cs := su.CallsTo(h, cmpStr)
	if len(cs) != 1 || cs[0].Call.Args[0] != sL || cs[0].Call.Args[1] != sR || cs[0].Call.Args[2] != ssa.Value(h.Params[3]) {
		return "uses a helper that does not compare the text operands in order through compareStrings with the text comparison it was given", true
	}
	return "", true
}
