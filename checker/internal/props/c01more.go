package props

import (
	"regexp"
	"fmt"
	"go/constant"
	"go/token"
	"go/types"

	"gedverif/internal/load"
	"gedverif/internal/oblig"
	"gedverif/internal/su"

	"golang.org/x/tools/go/ssa"
)

// elementLoop describes a loop that walks every element of a slice value:
// the SSA form of `for _, x := range s` (index phi from -1, cur = phi+1) or of
// `for i := 0; i < len(s); i++` (index phi from 0, cur = phi).
type elementLoop struct {
	header *ssa.BasicBlock
	body   *ssa.BasicBlock // successor taken while cur < len(s)
	done   *ssa.BasicBlock
	cur    ssa.Value // index of the element of this iteration
	slice  ssa.Value
}

// findElementLoops returns the loops of fn that walk all elements of slice.
func findElementLoops(fn *ssa.Function, slice ssa.Value) []elementLoop {
	var out []elementLoop
	isLen := func(v ssa.Value) bool {
		c, ok := v.(*ssa.Call)
		if !ok {
			return false
		}
		bi, ok := c.Call.Value.(*ssa.Builtin)
		return ok && bi.Name() == "len" && len(c.Call.Args) == 1 && c.Call.Args[0] == slice
	}
	for _, b := range fn.Blocks {
		iff, ok := b.Instrs[len(b.Instrs)-1].(*ssa.If)
		if !ok {
			continue
		}
		cmp, ok := iff.Cond.(*ssa.BinOp)
		if !ok || cmp.Op != token.LSS || !isLen(cmp.Y) {
			continue
		}
		cur := cmp.X
		var ph *ssa.Phi
		var init int64
		if bo, ok := cur.(*ssa.BinOp); ok && bo.Op == token.ADD {
			// range form: cur = phi + 1, phi starts at -1 and continues with cur
			if k, isK := su.ConstInt(bo.Y); isK && k == 1 {
				ph, _ = bo.X.(*ssa.Phi)
				init = -1
			}
		} else if x, ok := cur.(*ssa.Phi); ok {
			ph = x
			init = 0
		}
		if ph == nil || ph.Block() != b {
			continue
		}
		good := true
		for i, e := range ph.Edges {
			pred := b.Preds[i]
			if b.Dominates(pred) {
				// back edge: next index
				if init == -1 {
					if e != cur {
						good = false
					}
				} else {
					bo, ok := e.(*ssa.BinOp)
					k, isK := int64(0), false
					if ok {
						k, isK = su.ConstInt(bo.Y)
					}
					if !ok || bo.Op != token.ADD || bo.X != ssa.Value(ph) || !isK || k != 1 {
						good = false
					}
				}
			} else if k, isK := su.ConstInt(e); !isK || k != init {
				good = false
			}
		}
		if !good {
			continue
		}
		out = append(out, elementLoop{header: b, body: b.Succs[0], done: b.Succs[1], cur: cur, slice: slice})
	}
	return out
}

// elementOf: v is the element slice[cur] of this loop's iteration.
func (l elementLoop) elementOf(v ssa.Value) bool {
	v = su.Strip(v)
	ld, ok := v.(*ssa.UnOp)
	if !ok || ld.Op != token.MUL {
		return false
	}
	ia, ok := ld.X.(*ssa.IndexAddr)
	return ok && ia.X == l.slice && ia.Index == l.cur
}

// errorReturn: the return hands back (as its last result) an error value on
// the side of a test where that value is known to be non-nil.
func errorReturn(ret *ssa.Return) bool {
	if len(ret.Results) == 0 {
		return false
	}
	v := ret.Results[len(ret.Results)-1]
	if !types.Identical(v.Type(), types.Universe.Lookup("error").Type()) {
		return false
	}
	if k, ok := v.(*ssa.Const); ok {
		return k.Value != nil
	}
	if _, ok := v.(*ssa.MakeInterface); ok {
		return true
	}
	if c, ok := v.(*ssa.Call); ok && c.Block() == ret.Block() {
		// return fmt.Errorf(...) and the like
		if cal := c.Call.StaticCallee(); cal != nil && cal.Pkg != nil && (cal.Pkg.Pkg.Path() == "fmt" || cal.Pkg.Pkg.Path() == "errors") {
			return true
		}
	}
	blk := ret.Block()
	for _, ref := range *v.Referrers() {
		bo, ok := ref.(*ssa.BinOp)
		if !ok || (bo.Op != token.NEQ && bo.Op != token.EQL) {
			continue
		}
		if k, ok := bo.Y.(*ssa.Const); !ok || k.Value != nil {
			continue
		}
		for _, r2 := range *bo.Referrers() {
			iff, ok := r2.(*ssa.If)
			if !ok {
				continue
			}
			side := iff.Block().Succs[0]
			if bo.Op == token.EQL {
				side = iff.Block().Succs[1]
			}
			if len(side.Preds) == 1 && side.Dominates(blk) {
				return true
			}
		}
	}
	return false
}

// c01Encoder (R01.f): the encoder writes every node of the forest exactly
// once, parents before children, children in order, one level deeper.
func c01Encoder(p *load.Prog, r *oblig.Run) {
	r.Rule("R01.f", "the encoder writes the line of every node on every successful path and visits every child/root in order, one level deeper", 6)
	render := p.Method(load.PkgRoot, "Encoder", "renderNode")
	encode := p.Method(load.PkgRoot, "Encoder", "Encode")
	if render == nil || encode == nil || len(render.Params) != 3 {
		r.Add("R01.f", "anchors", "-", "anchor").Unknown("Encoder.renderNode(indent, node)/Encoder.Encode not found")
		return
	}
	level, node := render.Params[1], render.Params[2]
	pos := p.Pos(render.Pos())

	// the line of the node and its write: in renderNode itself, or in a helper that is handed the level and the node
	lineOf := func(fn *ssa.Function, lv, nd ssa.Value) ssa.Value {
		for _, c := range su.Calls(fn) {
			cc := c.Common()
			if cc.IsInvoke() && cc.Method.Name() == "GEDCOMLine" && cc.Value == nd && len(cc.Args) == 1 && cc.Args[0] == lv {
				return c.Value()
			}
		}
		return nil
	}
	dependsOn := func(v, target ssa.Value) bool {
		seen := map[ssa.Value]bool{}
		var walk func(v ssa.Value) bool
		walk = func(v ssa.Value) bool {
			if v == target {
				return true
			}
			if seen[v] {
				return false
			}
			seen[v] = true
			switch x := v.(type) {
			case *ssa.BinOp:
				return walk(x.X) || walk(x.Y)
			case *ssa.Convert:
				return walk(x.X)
			case *ssa.ChangeType:
				return walk(x.X)
			case *ssa.Phi:
				for _, e := range x.Edges {
					if walk(e) {
						return true
					}
				}
			}
			return false
		}
		return walk(v)
	}
	writesValue := func(ins ssa.Instruction, line ssa.Value) bool {
		c, ok := ins.(ssa.CallInstruction)
		if !ok {
			return false
		}
		cc := c.Common()
		name := ""
		if cc.IsInvoke() {
			name = cc.Method.Name()
		} else if cal := cc.StaticCallee(); cal != nil {
			name = cal.Name()
		}
		if name != "Write" && name != "WriteString" {
			return false
		}
		for _, a := range cc.Args {
			if dependsOn(a, line) {
				return true
			}
		}
		return false
	}
	// helperWrites: h(.., level, .., node, ..) writes the line of that node at that level exactly once on every path to a return
	helperWrites := func(c ssa.CallInstruction) bool {
		h := c.Common().StaticCallee()
		if h == nil || !p.IsRepoFunc(h) || len(h.Blocks) == 0 || h == render {
			return false
		}
		var lv, nd ssa.Value
		for i, a := range c.Common().Args {
			if i >= len(h.Params) {
				break
			}
			if a == ssa.Value(level) {
				lv = h.Params[i]
			}
			if a == ssa.Value(node) {
				nd = h.Params[i]
			}
		}
		if lv == nil || nd == nil {
			return false
		}
		line := lineOf(h, lv, nd)
		if line == nil {
			return false
		}
		hp, capped := simplePaths(h.Blocks[0], map[*ssa.BasicBlock]bool{}, 200)
		if capped {
			return false
		}
		for _, path := range hp {
			last := path[len(path)-1]
			if _, isRet := last.Instrs[len(last.Instrs)-1].(*ssa.Return); !isRet {
				continue
			}
			w := 0
			for _, b := range path {
				for _, ins := range b.Instrs {
					if writesValue(ins, line) {
						w++
					}
				}
			}
			if w != 1 {
				return false
			}
		}
		return true
	}
	lineCall := lineOf(render, level, node)
	viaHelper := false
	if lineCall == nil {
		for _, c := range su.Calls(render) {
			if helperWrites(c) {
				viaHelper = true
			}
		}
	}
	if lineCall == nil && !viaHelper {
		r.Add("R01.f", "line of the node", pos, "renderNode formats its node with GEDCOMLine(level)").Fail("renderNode no longer formats the node it was given with node.GEDCOMLine(indent) (itself or through a helper that gets the level and the node): the written line is not the line of this node at this level")
		return
	}
	r.Add("R01.f", "line of the node", pos, "renderNode formats its node with GEDCOMLine(level)").OK("node.GEDCOMLine(indent)")
	isWrite := func(ins ssa.Instruction) bool {
		if lineCall != nil && writesValue(ins, lineCall) {
			return true
		}
		if c, ok := ins.(ssa.CallInstruction); ok && helperWrites(c) {
			return true
		}
		return false
	}

	// children loop
	var kids ssa.Value
	for _, c := range su.Calls(render) {
		cc := c.Common()
		if cc.IsInvoke() && cc.Method.Name() == "Nodes" && cc.Value == ssa.Value(node) {
			kids = c.Value()
		}
	}
	var loops []elementLoop
	if kids != nil {
		loops = findElementLoops(render, kids)
	}
	if len(loops) != 1 {
		r.Add("R01.f", "children loop", pos, "renderNode walks node.Nodes() from the first to the last child").Fail(fmt.Sprintf("renderNode has %d loops over all of node.Nodes(): children are skipped, reordered or visited by a construct this rule cannot follow", len(loops)))
		return
	}
	loop := loops[0]
	r.Add("R01.f", "children loop", p.Pos(kids.Pos()), "renderNode walks node.Nodes() from the first to the last child").OK("index runs over 0..len-1 in order")

	// every successful path writes the line once and then enters the children loop
	paths, capped := simplePaths(render.Blocks[0], map[*ssa.BasicBlock]bool{}, 400)
	if capped {
		r.Add("R01.f", "paths", pos, "paths of renderNode").Unknown("more than 400 paths")
		return
	}
	n := 0
	for _, path := range paths {
		last := path[len(path)-1]
		ret, ok := last.Instrs[len(last.Instrs)-1].(*ssa.Return)
		if !ok || errorReturn(ret) {
			continue
		}
		n++
		writes, writeBeforeLoop, sawLoop := 0, false, false
		for _, b := range path {
			if b == loop.header {
				sawLoop = true
				if writes > 0 {
					writeBeforeLoop = true
				}
			}
			if loopBlock(b, loop.header) {
				continue
			}
			for _, ins := range b.Instrs {
				if isWrite(ins) {
					writes++
				}
			}
		}
		desc := pathDesc(p, path)
		o := r.Add("R01.f", fmt.Sprintf("renderNode success path %d", n), p.Pos(ret.Pos()), "successful path "+desc)
		switch {
		case writes == 0:
			o.Fail("renderNode returns success on the path " + desc + " without writing the node's line: the node and its whole subtree are missing from the text")
		case writes > 1:
			o.Fail(fmt.Sprintf("renderNode writes the node's line %d times on the path %s", writes, desc))
		case !sawLoop:
			o.Fail("renderNode returns success on the path " + desc + " without visiting the children of the node")
		case !writeBeforeLoop:
			o.Fail("on the path " + desc + " the children are written before the line of their parent")
		default:
			o.OK("line written once, then all children")
		}
	}
	if n == 0 {
		r.Add("R01.f", "renderNode success path", pos, "successful paths").Unknown("no successful return found in renderNode")
	}

	// loop body: each iteration recurses into the element, one level deeper; early exits are error returns
	visitOK := func(fn *ssa.Function, loop elementLoop, callee *ssa.Function, nodeArg int, what string, extra func(c *ssa.Call) string) {
		bpaths, capped := simplePaths(loop.body, map[*ssa.BasicBlock]bool{loop.header: true}, 400)
		if capped {
			r.Add("R01.f", what+" body", p.Pos(fn.Pos()), "loop body").Unknown("more than 400 paths")
			return
		}
		k := 0
		for _, path := range bpaths {
			last := path[len(path)-1]
			if last != loop.header {
				if ret, ok := last.Instrs[len(last.Instrs)-1].(*ssa.Return); ok && errorReturn(ret) {
					continue
				}
				if _, ok := last.Instrs[len(last.Instrs)-1].(*ssa.Panic); ok {
					continue
				}
				k++
				r.Add("R01.f", fmt.Sprintf("%s early exit %d", what, k), p.Pos(last.Instrs[len(last.Instrs)-1].Pos()), "exit from the loop").Fail("the loop over the " + what + " is left on the path " + pathDesc(p, path) + " without an error: the remaining nodes are never written")
				continue
			}
			k++
			visits := 0
			why := ""
			for _, b := range path[:len(path)-1] {
				for _, ins := range b.Instrs {
					c, ok := ins.(*ssa.Call)
					if !ok || c.Call.StaticCallee() != callee {
						continue
					}
					if !loop.elementOf(c.Call.Args[nodeArg]) {
						continue
					}
					visits++
					if extra != nil {
						if w := extra(c); w != "" {
							why = w
						}
					}
				}
			}
			o := r.Add("R01.f", fmt.Sprintf("%s iteration path %d", what, k), p.Pos(path[0].Instrs[0].Pos()), "iteration path "+pathDesc(p, path))
			switch {
			case visits == 0:
				o.Fail("an iteration over the " + what + " can finish on the path " + pathDesc(p, path) + " without rendering the element: that node and its subtree are dropped")
			case visits > 1:
				o.Fail("an element of the " + what + " is rendered more than once per iteration")
			case why != "":
				o.Fail(why)
			default:
				o.OK("element rendered once")
			}
		}
		if k == 0 {
			r.Add("R01.f", what+" body", p.Pos(fn.Pos()), "loop body").Unknown("no path through the loop body")
		}
	}
	noIndent := int64(-1)
	if c, ok := p.ByPath[load.PkgRoot].Types.Scope().Lookup("NoIndent").(*types.Const); ok {
		if v, ok2 := constant.Int64Val(c.Val()); ok2 {
			noIndent = v
		}
	}
	visitOK(render, loop, render, 2, "children", func(c *ssa.Call) string {
		// level argument: indent+1, or NoIndent (kept when the parent is written without a level)
		var bad string
		var chk func(v ssa.Value, depth int)
		chk = func(v ssa.Value, depth int) {
			if depth > 4 {
				bad = "level argument of the recursive call is not indent+1"
				return
			}
			switch x := v.(type) {
			case *ssa.Phi:
				for _, e := range x.Edges {
					chk(e, depth+1)
				}
			case *ssa.BinOp:
				k, isK := su.ConstInt(x.Y)
				if x.Op != token.ADD || x.X != ssa.Value(level) || !isK || k != 1 {
					bad = "children are written at a level other than the parent's level + 1"
				}
			case *ssa.Const:
				if k, isK := su.ConstInt(x); !isK || k != noIndent {
					bad = fmt.Sprintf("children are written at the constant level %v", x.Value)
				}
			case *ssa.Call:
				// a helper that maps the level: every value it returns must be level+1 or NoIndent
				h := x.Call.StaticCallee()
				if h == nil || !p.IsRepoFunc(h) || len(h.Params) != 1 || len(x.Call.Args) != 1 || x.Call.Args[0] != ssa.Value(level) {
					bad = "level argument of the recursive call is not indent+1"
					return
				}
				saved := level
				level = h.Params[0]
				for _, b := range h.Blocks {
					if ret, ok := b.Instrs[len(b.Instrs)-1].(*ssa.Return); ok && len(ret.Results) == 1 {
						chk(ret.Results[0], depth+1)
					}
				}
				level = saved
			default:
				bad = "level argument of the recursive call is not indent+1"
			}
		}
		chk(c.Call.Args[1], 0)
		return bad
	})

	// Encode: every root, in order
	var roots ssa.Value
	docNodes := p.Method(load.PkgRoot, "Document", "Nodes")
	for _, c := range su.CallsTo(encode, docNodes) {
		roots = c
	}
	var rl []elementLoop
	if roots != nil {
		rl = findElementLoops(encode, roots)
	}
	if len(rl) != 1 {
		r.Add("R01.f", "roots loop", p.Pos(encode.Pos()), "Encode walks document.Nodes() from the first to the last root").Fail(fmt.Sprintf("Encode has %d loops over all of document.Nodes()", len(rl)))
		return
	}
	r.Add("R01.f", "roots loop", p.Pos(roots.Pos()), "Encode walks document.Nodes() from the first to the last root").OK("index runs over 0..len-1 in order")
	visitOK(encode, rl[0], render, 2, "root records", nil)
	epaths, capped := simplePaths(encode.Blocks[0], map[*ssa.BasicBlock]bool{}, 400)
	if capped {
		r.Add("R01.f", "Encode paths", p.Pos(encode.Pos()), "paths of Encode").Unknown("more than 400 paths")
		return
	}
	m := 0
	for _, path := range epaths {
		last := path[len(path)-1]
		ret, ok := last.Instrs[len(last.Instrs)-1].(*ssa.Return)
		if !ok || errorReturn(ret) {
			continue
		}
		m++
		saw := false
		for _, b := range path {
			if b == rl[0].header {
				saw = true
			}
		}
		r.Check("R01.f", fmt.Sprintf("Encode success path %d", m), p.Pos(ret.Pos()), "successful path "+pathDesc(p, path), saw,
			"passes through the loop over the roots", "Encode can return on the path "+pathDesc(p, path)+" without writing the root records")
	}
}

// c02LoopEnds (R02.i): the read loop of Decode ends only when the reader is
// at the end of its input - never because of what a line contains.
func c02LoopEnds(p *load.Prog, r *oblig.Run, dec *ssa.Function, header *ssa.BasicBlock) {
	r.Rule("R02.i", "the read loop ends (other than by an error) only on a path on which readLine reported the end of input", 2)
	readLine := p.Method(load.PkgRoot, "Decoder", "readLine")
	if readLine == nil {
		r.Add("R02.i", "anchor", "-", "anchor").Unknown("Decoder.readLine not found")
		return
	}
	calls := su.CallsTo(dec, readLine)
	if len(calls) != 1 {
		r.Add("R02.i", "readLine call", p.Pos(dec.Pos()), "anchor").Unknown("expected one call of readLine in Decode")
		return
	}
	var rerr ssa.Value
	for _, ref := range *calls[0].Referrers() {
		if ex, ok := ref.(*ssa.Extract); ok && ex.Index == 1 {
			rerr = ex
		}
	}
	if rerr == nil {
		r.Add("R02.i", "readLine error", p.Pos(calls[0].Pos()), "anchor").Unknown("the error of readLine is not used")
		return
	}
	// edges on which the reader's error is (or may be) set: err != nil true, err == nil false, err == X true, err != X false
	eofEdge := map[[2]*ssa.BasicBlock]bool{}
	for _, ref := range *rerr.Referrers() {
		bo, ok := ref.(*ssa.BinOp)
		if !ok || (bo.Op != token.NEQ && bo.Op != token.EQL) {
			continue
		}
		other := bo.Y
		if other == rerr {
			other = bo.X
		}
		isNil := false
		if k, ok := other.(*ssa.Const); ok && k.Value == nil {
			isNil = true
		}
		for _, r2 := range *bo.Referrers() {
			iff, ok := r2.(*ssa.If)
			if !ok {
				continue
			}
			b := iff.Block()
			side := 0 // err != nil : true side ; err == X : true side
			if (bo.Op == token.EQL && isNil) || (bo.Op == token.NEQ && !isNil) {
				side = 1
			}
			eofEdge[[2]*ssa.BasicBlock{b, b.Succs[side]}] = true
		}
	}
	// a read error that is not the end of input ends Decode with that error (otherwise the loop reads the failing
	// stream again and again, or a truncated document is returned without an error)
	{
		returned := false
		for _, b := range dec.Blocks {
			ret, ok := b.Instrs[len(b.Instrs)-1].(*ssa.Return)
			if !ok || len(ret.Results) == 0 {
				continue
			}
			ev := ret.Results[len(ret.Results)-1]
			uses := ev == rerr
			if c, isCall := ev.(*ssa.Call); isCall && !uses {
				// wrapped: fmt.Errorf(..., err)
				for _, a := range c.Call.Args {
					if elems, ok := variadicElems(a); ok {
						for _, e := range elems {
							if mi, isMI := e.(*ssa.MakeInterface); isMI && mi.X == rerr {
								uses = true
							}
							if e == rerr {
								uses = true
							}
						}
					}
				}
			}
			if !uses {
				continue
			}
			// on the side on which the error is set
			for e := range eofEdge {
				if len(e[1].Preds) == 1 && (e[1] == b || e[1].Dominates(b)) {
					returned = true
				}
			}
		}
		r.Check("R02.i", "read error returned", p.Pos(calls[0].Pos()), "a read error other than the end of input ends Decode with that error", returned,
			"Decode returns readLine's error on the side on which it is set", "no return of Decode hands back the error of readLine: a stream whose Read fails (a directory, a closed file, a broken pipe) is read again and again and Decode never returns, or a truncated document is returned with a nil error")
	}
	if len(eofEdge) == 0 {
		r.Add("R02.i", "end-of-input test", p.Pos(calls[0].Pos()), "anchor").Unknown("the error of readLine is never tested")
		return
	}
	sawEOF := func(path []*ssa.BasicBlock) bool {
		for i := 0; i+1 < len(path); i++ {
			if eofEdge[[2]*ssa.BasicBlock{path[i], path[i+1]}] {
				return true
			}
		}
		return false
	}
	hif, ok := header.Instrs[len(header.Instrs)-1].(*ssa.If)
	var bodies []*ssa.BasicBlock
	exitSide := -1
	if ok {
		for i, s := range header.Succs {
			if loopBlock(s, header) {
				bodies = append(bodies, s)
			} else {
				exitSide = i
			}
		}
	} else {
		bodies = header.Succs // `for { ... }`
	}
	// value of the header's condition when the header is entered from `pred`, following the path backwards through phis
	var eval func(v ssa.Value, path []*ssa.BasicBlock, at int) (val, known bool)
	eval = func(v ssa.Value, path []*ssa.BasicBlock, at int) (bool, bool) {
		switch x := v.(type) {
		case *ssa.Const:
			if x.Value != nil && x.Value.Kind().String() == "Bool" {
				return x.Value.ExactString() == "true", true
			}
		case *ssa.UnOp:
			if x.Op == token.NOT {
				b, ok := eval(x.X, path, at)
				return !b, ok
			}
		case *ssa.Phi:
			// find the occurrence of the phi's block on the path at or before `at`
			for i := at; i >= 1; i-- {
				if path[i] == x.Block() {
					for j, pr := range x.Block().Preds {
						if pr == path[i-1] {
							return eval(x.Edges[j], path, i-1)
						}
					}
				}
			}
			if x.Block() == header {
				// value at the start of this iteration: the loop condition held, so the flag said "go on"
				return false, false
			}
		}
		return false, false
	}
	n := 0
	for _, body := range bodies {
		paths, capped := simplePaths(body, map[*ssa.BasicBlock]bool{header: true}, 2000)
		if capped {
			r.Add("R02.i", "paths", p.Pos(dec.Pos()), "path enumeration").Unknown("more than 2000 paths through the loop body")
			return
		}
		for _, path := range paths {
			last := path[len(path)-1]
			if last != header {
				ret, ok := last.Instrs[len(last.Instrs)-1].(*ssa.Return)
				if !ok || errorReturn(ret) {
					continue
				}
				if k, isK := ret.Results[0].(*ssa.Const); isK && k.Value == nil {
					continue
				}
				n++
				r.Check("R02.i", fmt.Sprintf("exit path %d", n), p.Pos(ret.Pos()), "path leaving the loop "+pathDesc(p, path), sawEOF(path),
					"leaves the loop after readLine reported the end of input", "Decode leaves the read loop and returns a document on the path "+pathDesc(p, path)+" although readLine has not reported the end of input: every later line of the stream is dropped")
				continue
			}
			if hif == nil {
				continue
			}
			// back edge: does the loop condition let the loop end after this path?
			full := append([]*ssa.BasicBlock{header}, path...)
			v, known := eval(hif.Cond, full, len(full)-1)
			ends := known && ((v && exitSide == 0) || (!v && exitSide == 1))
			if !known {
				// the flag is the one the iteration started with (still "go on"), or it is computed from data
				if flagUnchanged(hif.Cond, full, header) {
					continue
				}
				// the flag is a test of the reader's error itself (atEOF = err == io.EOF): the loop ends exactly when the reader says so
				if base, neg, ok := resolveFlag(hif.Cond, full); ok {
					if bo, isBo := base.(*ssa.BinOp); isBo && (bo.X == rerr || bo.Y == rerr) && (bo.Op == token.EQL || bo.Op == token.NEQ) {
						other := bo.Y
						if other == rerr {
							other = bo.X
						}
						isNil := false
						if k, isK := other.(*ssa.Const); isK && k.Value == nil {
							isNil = true
						}
						// truth of the comparison that means "the reader reported something"
						readerSaid := (bo.Op == token.EQL && !isNil) || (bo.Op == token.NEQ && isNil)
						// the loop is left when cond evaluates to (exitSide == 0); cond = base xor neg
						exitWhenBase := (exitSide == 0) != neg
						if readerSaid == exitWhenBase {
							n++
							r.Add("R02.i", fmt.Sprintf("exit path %d", n), p.Pos(full[1].Instrs[0].Pos()), "loop condition after "+pathDesc(p, path)).OK("the loop flag is a test of readLine's error")
							continue
						}
					}
				}
				n++
				r.Add("R02.i", fmt.Sprintf("exit path %d", n), p.Pos(full[1].Instrs[0].Pos()), "loop condition after "+pathDesc(p, path)).Fail("after the path " + pathDesc(p, path) + " the loop condition of Decode depends on a value that is not the reader's end of input: lines after it may be dropped")
				continue
			}
			if !ends {
				continue
			}
			n++
			r.Check("R02.i", fmt.Sprintf("exit path %d", n), p.Pos(full[1].Instrs[0].Pos()), "loop ends after "+pathDesc(p, path), sawEOF(path),
				"the loop ends after readLine reported the end of input", "the read loop of Decode is ended on the path "+pathDesc(p, path)+" although readLine has not reported the end of input: every later line of the stream is dropped")
		}
	}
	if n == 0 {
		r.Add("R02.i", "exit paths", p.Pos(dec.Pos()), "paths that end the loop").Unknown("no path ends the read loop")
	}
}

// flagUnchanged: along the path (which starts and ends at header) the value
// the loop condition reads is the header phi's own value of this iteration.
func flagUnchanged(cond ssa.Value, path []*ssa.BasicBlock, header *ssa.BasicBlock) bool {
	v := cond
	for {
		if u, ok := v.(*ssa.UnOp); ok && u.Op == token.NOT {
			v = u.X
			continue
		}
		break
	}
	hp, ok := v.(*ssa.Phi)
	if !ok || hp.Block() != header {
		return false
	}
	// the value that flows in over the back edge
	at := len(path) - 1
	var cur ssa.Value
	for j, pr := range header.Preds {
		if pr == path[at-1] {
			cur = hp.Edges[j]
		}
	}
	at--
	for cur != nil {
		if cur == ssa.Value(hp) {
			return true
		}
		ph, ok := cur.(*ssa.Phi)
		if !ok {
			return false
		}
		found := false
		for i := at; i >= 1; i-- {
			if path[i] == ph.Block() {
				for j, pr := range ph.Block().Preds {
					if pr == path[i-1] {
						cur = ph.Edges[j]
						at = i - 1
						found = true
					}
				}
				break
			}
		}
		if !found {
			return false
		}
	}
	return false
}

// resolveFlag follows the loop condition backwards along the path (which
// starts and ends at the loop header) through negations and phis to the value
// that defines it on this path.
func resolveFlag(cond ssa.Value, path []*ssa.BasicBlock) (base ssa.Value, negated bool, ok bool) {
	v := cond
	at := len(path) - 1
	for steps := 0; steps < 32; steps++ {
		switch x := v.(type) {
		case *ssa.UnOp:
			if x.Op == token.NOT {
				v = x.X
				negated = !negated
				continue
			}
			return v, negated, true
		case *ssa.Phi:
			found := false
			for i := at; i >= 1; i-- {
				if path[i] == x.Block() {
					for j, pr := range x.Block().Preds {
						if pr == path[i-1] {
							v = x.Edges[j]
							at = i - 1
							found = true
						}
					}
					break
				}
			}
			if !found {
				return nil, false, false
			}
			continue
		default:
			return v, negated, true
		}
	}
	return nil, false, false
}

// c01TagLookup (R01.h): TagFromString looks the tag up exactly as it was written: the key of every lookup in the table
// of known tags is the parameter itself. A folded or trimmed key turns a line's tag into a different (registered) tag,
// so the node no longer carries the tag of its line and the text written back differs.
func c01TagLookup(p *load.Prog, r *oblig.Run) {
	r.Rule("R01.h", "TagFromString looks a tag up under exactly the text it was given", 1)
	fn := p.Func(load.PkgRoot, "TagFromString")
	if fn == nil || len(fn.Params) != 1 {
		r.Add("R01.h", "anchor", "-", "anchor").Unknown("TagFromString(tag) not found")
		return
	}
	n := 0
	for _, b := range fn.Blocks {
		for _, ins := range b.Instrs {
			lk, ok := ins.(*ssa.Lookup)
			if !ok {
				continue
			}
			if _, isMap := lk.X.Type().Underlying().(*types.Map); !isMap {
				continue
			}
			n++
			r.Check("R01.h", fmt.Sprintf("lookup %d in TagFromString", n), p.Pos(lk.Pos()), "key of the known-tag lookup", lk.Index == ssa.Value(fn.Params[0]),
				"the parameter itself", "TagFromString looks the tag up under a key computed from the text ("+lk.Index.String()+") instead of the text itself: a line whose tag differs from a registered tag only by that computation (letter case, spaces) is decoded as the registered tag - the node's tag is not the tag of its line, its kind changes, and re-encoding writes different bytes")
		}
	}
	if n == 0 {
		r.Add("R01.h", "lookups in TagFromString", p.Pos(fn.Pos()), "lookups").Unknown("TagFromString no longer looks the tag up in a map")
	}
}

// c01DecodeErrors (R01.j): Decode refuses a stream only for what its reader and its line parser refuse. Every
// error it returns is the reader's error or is built from the error of parseLine; an error made up in Decode itself
// (a depth limit, a length limit, a "cannot happen" check) rejects files the line grammar and the encoder accept -
// the encoder's own output no longer decodes. (The one documented exception, the indent panic, is a panic and is
// decided by R03.t.)
func c01DecodeErrors(p *load.Prog, r *oblig.Run) {
	r.Rule("R01.j", "every error Decode returns is the reader's error or is built from parseLine's error (the decoder adds no refusal of its own)", 1)
	dec := p.Method(load.PkgRoot, "Decoder", "Decode")
	o := r.Add("R01.j", "errors returned by Decoder.Decode", "-", "provenance of the returned errors")
	if dec == nil || len(dec.Blocks) == 0 {
		o.Unknown("Decoder.Decode not found")
		return
	}
	o.Pos = p.Pos(dec.Pos())
	fromCallee := func(v ssa.Value, names ...string) bool {
		seen := map[ssa.Value]bool{}
		var rec func(v ssa.Value, d int) bool
		rec = func(v ssa.Value, d int) bool {
			if d > 10 || seen[v] {
				return false
			}
			seen[v] = true
			switch x := v.(type) {
			case *ssa.Extract:
				if c, ok := x.Tuple.(*ssa.Call); ok && types.Identical(x.Type(), types.Universe.Lookup("error").Type()) {
					if cal := c.Call.StaticCallee(); cal != nil {
						for _, n := range names {
							if cal.Name() == n {
								return true
							}
						}
					}
				}
			case *ssa.Phi:
				for _, e := range x.Edges {
					if rec(e, d+1) {
						return true
					}
				}
			case *ssa.MakeInterface:
				return rec(x.X, d+1)
			case *ssa.ChangeInterface:
				return rec(x.X, d+1)
			case *ssa.Call:
				// fmt.Errorf / wrap helpers: one of the operands is such an error
				for _, a := range x.Call.Args {
					if rec(a, d+1) {
						return true
					}
				}
			case *ssa.Slice:
				return rec(x.X, d+1)
			case *ssa.Alloc:
				for _, ref := range *x.Referrers() {
					if ia, ok := ref.(*ssa.IndexAddr); ok {
						for _, r2 := range *ia.Referrers() {
							if st, ok := r2.(*ssa.Store); ok && st.Addr == ssa.Value(ia) && rec(st.Val, d+1) {
								return true
							}
						}
					}
				}
			case *ssa.UnOp:
				return rec(x.X, d+1)
			}
			return false
		}
		return rec(v, 0)
	}
	bad := ""
	n := 0
	for _, b := range dec.Blocks {
		ret, ok := b.Instrs[len(b.Instrs)-1].(*ssa.Return)
		if !ok || len(ret.Results) != 2 || b == dec.Recover {
			continue
		}
		ev := ret.Results[1]
		if k, isK := ev.(*ssa.Const); isK && k.Value == nil {
			continue
		}
		n++
		if !fromCallee(ev, "readLine", "parseLine") {
			// a line whose level skips over its parent's (level-1 >= number of open nodes): no output of the encoder
			// has such a line, so refusing it (instead of the documented panic) does not touch the round trip
			env := &descEnv{p: p, params: map[*ssa.Parameter]string{}, noInline: true}
			skipped := env.holdsAny(b, func(f cfact) bool {
				return !f.val && invalidIndentRe.MatchString(f.atom)
			})
			if skipped {
				continue
			}
			bad = "the error returned at " + p.Pos(ret.Pos()) + " comes neither from the line reader nor from parseLine"
		}
	}
	switch {
	case bad != "":
		o.Fail(bad + ": Decode refuses a stream for a reason of its own - a document the encoder writes (any depth, any line length the grammar admits) is no longer accepted back")
	case n == 0:
		o.Unknown("Decode returns no error at all")
	default:
		o.OK(fmt.Sprintf("%d error return(s), each the reader's error or built from parseLine's", n))
	}
}

var invalidIndentRe = regexp.MustCompile(`^\(.+-1\)<len\(`)

// c02ReaderStateless (R02.j): where a line ends is decided by the bytes of that line. Decoder.readLine keeps no
// state of its own between calls: it stores into no field of the decoder and reads no field but the underlying
// reader. A flag that survives a call ("the last byte was a CR") joins or splits later lines depending on how an
// earlier line ended - records are dropped or re-parented for streams with mixed line endings.
func c02ReaderStateless(p *load.Prog, r *oblig.Run) {
	r.Rule("R02.j", "Decoder.readLine keeps no state between lines (no stores to decoder fields; only the underlying reader is read)", 1)
	fn := p.Method(load.PkgRoot, "Decoder", "readLine")
	o := r.Add("R02.j", "decoder fields touched by readLine", "-", "state kept between lines")
	if fn == nil || len(fn.Blocks) == 0 {
		o.Unknown("Decoder.readLine not found")
		return
	}
	o.Pos = p.Pos(fn.Pos())
	bad := ""
	for _, b := range fn.Blocks {
		for _, ins := range b.Instrs {
			fa, ok := ins.(*ssa.FieldAddr)
			if !ok || rootParam(fa.X) != fn.Params[0] {
				continue
			}
			for _, ref := range *fa.Referrers() {
				switch y := ref.(type) {
				case *ssa.Store:
					if y.Addr == ssa.Value(fa) {
						bad = "readLine stores into the decoder's field " + su.FieldName(fa) + " at " + p.Pos(y.Pos())
					}
				case *ssa.UnOp:
					switch y.Type().Underlying().(type) {
					case *types.Pointer, *types.Interface:
						// the underlying reader
					default:
						bad = "readLine reads the decoder's field " + su.FieldName(fa) + " (" + y.Type().String() + ") at " + p.Pos(y.Pos())
					}
				}
			}
		}
	}
	if bad != "" {
		o.Fail(bad + ": the end of a line then depends on earlier lines, not on the bytes of this line - with mixed CR / LF / CRLF endings a later line feed is swallowed and two lines are read as one (a record disappears, its children hang under the previous record)")
	} else {
		o.OK("only the underlying reader is used")
	}
}
