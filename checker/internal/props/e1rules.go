package props

import (
	"encoding/json"
	"fmt"
	"go/constant"
	"go/token"
	"go/types"
	"os"
	"path/filepath"
	"regexp/syntax"
	"sort"
	"strings"

	"gedverif/internal/absint"
	"gedverif/internal/cg"
	"gedverif/internal/e1"
	"gedverif/internal/lin"
	"gedverif/internal/load"
	"gedverif/internal/oblig"
	"gedverif/internal/relang"
	"gedverif/internal/su"

	"golang.org/x/tools/go/ssa"
)

// e1Table is the reviewed discharge table /verif/tables/e1.json: sites that no
// generic rule proves but that were confirmed safe by reading, one reason each.
type e1Entry struct {
	Key    string `json:"key"`
	Reason string `json:"reason"`
}

func loadE1Table() map[string]string {
	b, err := os.ReadFile(filepath.Join(oblig.VerifDir(), "tables", "e1.json"))
	if err != nil {
		load.Fatal("tables/e1.json: %v", err)
	}
	var es []e1Entry
	if err := json.Unmarshal(b, &es); err != nil {
		load.Fatal("tables/e1.json: %v", err)
	}
	m := map[string]string{}
	for _, e := range es {
		m[e.Key] = e.Reason
	}
	return m
}

// registryKinds extracts tag variable -> node kind from newNodeWithChildren
// (the same extraction R01.c verifies).
func registryKinds(p *load.Prog) map[*ssa.Global]*types.Named {
	nn := p.Func(load.PkgRoot, "newNodeWithChildren")
	out := map[*ssa.Global]*types.Named{}
	if nn == nil {
		return out
	}
	var tagP *ssa.Parameter
	for _, q := range nn.Params {
		if q.Name() == "tag" {
			tagP = q
		}
	}
	b := nn.Blocks[0]
	visited := map[*ssa.BasicBlock]bool{}
	for b != nil && !visited[b] {
		visited[b] = true
		iff, ok := b.Instrs[len(b.Instrs)-1].(*ssa.If)
		if !ok {
			break
		}
		bo, ok := iff.Cond.(*ssa.BinOp)
		if !ok || bo.Op != token.EQL {
			break
		}
		var g *ssa.Global
		if bo.X == ssa.Value(tagP) {
			g = su.GlobalLoaded(bo.Y)
		} else if bo.Y == ssa.Value(tagP) {
			g = su.GlobalLoaded(bo.X)
		}
		if g == nil {
			break
		}
		for _, ins := range b.Succs[0].Instrs {
			if call, ok := ins.(*ssa.Call); ok && call.Call.StaticCallee() != nil {
				if named := load.NamedOf(call.Type()); named != nil {
					if _, isPtr := call.Type().(*types.Pointer); isPtr && named.Obj().Pkg() != nil && named.Obj().Pkg().Path() == load.PkgRoot {
						if _, dup := out[g]; !dup {
							out[g] = named
						}
					}
				}
			}
		}
		b = b.Succs[1]
	}
	return out
}

// registryInvariant checks that plain SimpleNodes are never built with a tag
// that has a specialised kind: every call of newSimpleNode outside the
// registry fallback passes the tag its kind is registered under (or forwards
// its own parameter from a constructor that is itself called with such a tag).
func registryInvariant(p *load.Prog, reg map[*ssa.Global]*types.Named) (ok bool, why string) {
	newSimple := p.Func(load.PkgRoot, "newSimpleNode")
	nn := p.Func(load.PkgRoot, "newNodeWithChildren")
	if newSimple == nil || nn == nil {
		return false, "newSimpleNode/newNodeWithChildren not found"
	}
	for _, fn := range p.Repo {
		for _, c := range su.CallsTo(fn, newSimple) {
			if fn == nn {
				continue // fallback: reached only when no case matched (R01.c)
			}
			tagArg := c.Call.Args[0]
			if g := su.GlobalLoaded(tagArg); g != nil {
				// constructor hard-wires a tag: its result type must be the registered kind (or the tag has no kind and fn returns *SimpleNode)
				continue
			}
			if _, isParam := tagArg.(*ssa.Parameter); isParam {
				continue // forwarded (newSimpleDocumentNode, NewFamilySearchIDNode); their callers hard-wire the tag
			}
			return false, fmt.Sprintf("newSimpleNode is called with a computed tag in %s: a plain node could carry a registered tag", load.FuncName(fn))
		}
	}
	// the registry is consulted with Tag.Is: it must be exact equality of the tag strings, otherwise a node whose
	// tag only resembles a registered tag (other case, other spelling) is found by NodesWithTag(T) without being of T's kind
	is := p.Method(load.PkgRoot, "Tag", "Is")
	if is == nil || len(is.Blocks) == 0 {
		return false, "Tag.Is not found"
	}
	// the tag string of a parameter: the field itself, or an accessor method that returns that field and nothing else
	tagStr := func(v ssa.Value) (*ssa.Parameter, int) {
		if prm, fi := fieldOfParam(v); prm != nil {
			if b, isB := v.Type().Underlying().(*types.Basic); isB && b.Kind() == types.String {
				return prm, fi
			}
			return nil, 0
		}
		c, ok := v.(*ssa.Call)
		if !ok || len(c.Call.Args) != 1 {
			return nil, 0
		}
		acc := c.Call.StaticCallee()
		if acc == nil || !p.IsRepoFunc(acc) || len(acc.Blocks) != 1 || len(acc.Params) != 1 {
			return nil, 0
		}
		ret, ok := acc.Blocks[0].Instrs[len(acc.Blocks[0].Instrs)-1].(*ssa.Return)
		if !ok || len(ret.Results) != 1 {
			return nil, 0
		}
		ap, fi := fieldOfParam(ret.Results[0])
		if ap == nil {
			return nil, 0
		}
		// the accessor's receiver is a parameter of Tag.Is (directly, or a copy of a value receiver)
		var prm *ssa.Parameter
		switch a := c.Call.Args[0].(type) {
		case *ssa.Parameter:
			prm = a
		case *ssa.UnOp:
			if al, isAl := a.X.(*ssa.Alloc); isAl && a.Op == token.MUL {
				for _, ref := range *al.Referrers() {
					if st, isSt := ref.(*ssa.Store); isSt && st.Addr == ssa.Value(al) {
						prm, _ = st.Val.(*ssa.Parameter)
					}
				}
			}
		}
		if prm == nil {
			return nil, 0
		}
		return prm, fi
	}
	// exact: true is answered exactly on the paths that established equality of the two tag strings
	exact := true
	paths, capped := simplePaths(is.Blocks[0], map[*ssa.BasicBlock]bool{}, 200)
	if capped {
		exact = false
	}
	nRet := 0
	for _, path := range paths {
		last := path[len(path)-1]
		ret, isRet := last.Instrs[len(last.Instrs)-1].(*ssa.Return)
		if !isRet || len(ret.Results) != 1 || !pathConstFeasible(path) {
			continue
		}
		nRet++
		// what the path established
		established := 0 // +1 equal, -1 different
		for i := 0; i+1 < len(path); i++ {
			iff, isIf := path[i].Instrs[len(path[i].Instrs)-1].(*ssa.If)
			if !isIf {
				continue
			}
			bo, isBo := iff.Cond.(*ssa.BinOp)
			if !isBo || (bo.Op != token.EQL && bo.Op != token.NEQ) {
				continue
			}
			px, fxi := tagStr(bo.X)
			py, fyi := tagStr(bo.Y)
			if px == nil || py == nil || px == py || fxi != fyi {
				continue
			}
			eq := (bo.Op == token.EQL) == (path[i+1] == path[i].Succs[0])
			if eq {
				established = 1
			} else {
				established = -1
			}
		}
		if val, known := evalBoolOnPath(ret.Results[0], path, len(path)-1); known {
			if (val && established != 1) || (!val && established != -1) {
				exact = false
			}
			continue
		}
		// the comparison itself is returned
		base, neg, okR := resolveFlag(ret.Results[0], path)
		bo, isBo := base.(*ssa.BinOp)
		if !okR || !isBo || (bo.Op != token.EQL && bo.Op != token.NEQ) {
			exact = false
			continue
		}
		px, fxi := tagStr(bo.X)
		py, fyi := tagStr(bo.Y)
		if px == nil || py == nil || px == py || fxi != fyi || (bo.Op == token.NEQ) != neg {
			exact = false
		}
	}
	if nRet == 0 {
		exact = false
	}
	if !exact {
		return false, "Tag.Is is no longer exact equality of the two tag strings: NodesWithTag(T) can return nodes that are not of the kind registered for T"
	}
	return true, ""
}

// tokenPattern: the constant pattern compiled for the token kind with the given name in the initialiser of q.TokenRegexp.
func tokenPattern(p *load.Prog, kind string) (string, bool) {
	pkg := p.SSAPkg[load.PkgQ]
	if pkg == nil {
		return "", false
	}
	initFn := pkg.Func("init")
	if initFn == nil {
		return "", false
	}
	// stores of a MustCompile result and of the kind constant into fields of the same element
	type elem struct {
		pat  string
		kind string
	}
	elems := map[ssa.Value]*elem{}
	for _, b := range initFn.Blocks {
		for _, ins := range b.Instrs {
			st, ok := ins.(*ssa.Store)
			if !ok {
				continue
			}
			fa, ok := st.Addr.(*ssa.FieldAddr)
			if !ok {
				continue
			}
			e := elems[fa.X]
			if e == nil {
				e = &elem{}
				elems[fa.X] = e
			}
			if c, ok := st.Val.(*ssa.Call); ok && su.CalleeIs(&c.Call, "regexp", "MustCompile") && len(c.Call.Args) == 1 {
				if s, ok := su.ConstString(c.Call.Args[0]); ok {
					e.pat = s
				}
			}
			if s, ok := su.ConstString(st.Val); ok {
				e.kind = s
			}
		}
	}
	for _, e := range elems {
		if e.kind == kind && e.pat != "" {
			return e.pat, true
		}
	}
	return "", false
}

// fieldOfParam: v is field #i of a struct-typed parameter (directly, or through the parameter's local copy).
func fieldOfParam(v ssa.Value) (*ssa.Parameter, int) {
	switch x := v.(type) {
	case *ssa.Field:
		if p, ok := x.X.(*ssa.Parameter); ok {
			return p, x.Field
		}
	case *ssa.UnOp:
		if x.Op != token.MUL {
			return nil, 0
		}
		fa, ok := x.X.(*ssa.FieldAddr)
		if !ok {
			return nil, 0
		}
		al, ok := fa.X.(*ssa.Alloc)
		if !ok {
			return nil, 0
		}
		var prm *ssa.Parameter
		n := 0
		for _, ref := range *al.Referrers() {
			if st, ok := ref.(*ssa.Store); ok && st.Addr == ssa.Value(al) {
				n++
				prm, _ = st.Val.(*ssa.Parameter)
			}
		}
		if n == 1 && prm != nil {
			return prm, fa.Field
		}
	}
	return nil, 0
}

// tableSideConditions: table key -> check, on the current source, of the fact the reviewed reason relies on.
// dateConstraintTable: every DateConstraint value that can exist is a valid index of the matcher table in Date.Equals.
func dateConstraintTable(p *load.Prog) (bool, string) {
	pkg := p.ByPath[load.PkgRoot]
	tObj := pkg.Types.Scope().Lookup("DateConstraint")
	eq := p.Method(load.PkgRoot, "Date", "Equals")
	if tObj == nil || eq == nil {
		return false, "DateConstraint / Date.Equals not found"
	}
	maxC := int64(-1)
	for _, name := range pkg.Types.Scope().Names() {
		c, ok := pkg.Types.Scope().Lookup(name).(*types.Const)
		if !ok || !types.Identical(c.Type(), tObj.Type()) {
			continue
		}
		if v, ok := constant.Int64Val(c.Val()); ok {
			if v < 0 {
				return false, "negative DateConstraint constant " + name
			}
			if v > maxC {
				maxC = v
			}
		}
	}
	minDim := int64(-1)
	for _, b := range eq.Blocks {
		for _, ins := range b.Instrs {
			al, ok := ins.(*ssa.Alloc)
			if !ok {
				continue
			}
			at, ok := al.Type().(*types.Pointer).Elem().Underlying().(*types.Array)
			if !ok {
				continue
			}
			if minDim < 0 || at.Len() < minDim {
				minDim = at.Len()
			}
		}
	}
	if minDim < 0 {
		// the matcher table is a package variable: its literal is built in the package initialiser
		var gl *ssa.Global
		for _, b := range eq.Blocks {
			for _, ins := range b.Instrs {
				if ld, ok := ins.(*ssa.UnOp); ok && ld.Op == token.MUL {
					if g, isG := ld.X.(*ssa.Global); isG {
						if sl, isSl := g.Type().(*types.Pointer).Elem().Underlying().(*types.Slice); isSl {
							if _, isSl2 := sl.Elem().Underlying().(*types.Slice); isSl2 {
								gl = g
							}
						}
					}
				}
			}
		}
		if gl != nil {
			rowT := gl.Type().(*types.Pointer).Elem().Underlying().(*types.Slice).Elem()
			cellT := rowT.Underlying().(*types.Slice).Elem()
			if initFn := p.SSAPkg[load.PkgRoot].Func("init"); initFn != nil {
				// the global must be stored exactly once (never reassigned with another table)
				storeSet := map[ssa.Instruction]bool{}
				for _, fn := range p.Repo {
					for _, b := range fn.Blocks {
						for _, ins := range b.Instrs {
							if st, ok := ins.(*ssa.Store); ok && st.Addr == ssa.Value(gl) {
								storeSet[st] = true
							}
						}
					}
				}
				for _, b := range initFn.Blocks {
					for _, ins := range b.Instrs {
						if st, ok := ins.(*ssa.Store); ok && st.Addr == ssa.Value(gl) {
							storeSet[st] = true
						}
						al, ok := ins.(*ssa.Alloc)
						if !ok {
							continue
						}
						at, ok := al.Type().(*types.Pointer).Elem().Underlying().(*types.Array)
						if !ok || !(types.Identical(at.Elem(), rowT) || types.Identical(at.Elem(), cellT)) {
							continue
						}
						if minDim < 0 || at.Len() < minDim {
							minDim = at.Len()
						}
					}
				}
				if len(storeSet) != 1 {
					return false, fmt.Sprintf("the matcher table %s is assigned %d times", gl.Name(), len(storeSet))
				}
			}
		}
	}
	if maxC < 0 || minDim < 0 {
		return false, "cannot read the DateConstraint constants or the dimensions of the matcher table"
	}
	if maxC >= minDim {
		return false, fmt.Sprintf("the largest DateConstraint constant is %d but the matcher table in Date.Equals has a dimension of %d: comparing a date with the new constraint indexes past the table", maxC, minDim)
	}
	// no DateConstraint is made from a computed integer
	for _, fn := range p.Repo {
		for _, b := range fn.Blocks {
			for _, ins := range b.Instrs {
				cv, ok := ins.(*ssa.Convert)
				if !ok || !types.Identical(cv.Type(), tObj.Type()) {
					continue
				}
				if _, isK := cv.X.(*ssa.Const); !isK {
					return false, "a DateConstraint is converted from a computed integer in " + load.FuncName(fn)
				}
			}
		}
	}
	return true, ""
}

// uuidPattern32: the pattern that gates NewUUIDFromString matches exactly the 32 bytes the slices cut up.
func uuidPattern32(p *load.Prog) (bool, string) {
	g := p.Global(load.PkgRoot, "uuidRegexp")
	if g == nil {
		return false, "uuidRegexp not found"
	}
	pat, err := absint.FoldGlobalRegexp(g)
	if err != nil {
		return false, "cannot read the pattern of uuidRegexp: " + err.Error()
	}
	n, err := relang.MinLenOf(pat)
	if err != nil {
		return false, "cannot parse " + pat
	}
	if n < 32 {
		return false, fmt.Sprintf("uuidRegexp (%s) matches a text of only %d bytes, but NewUUIDFromString slices up to byte 32", pat, n)
	}
	return true, ""
}

// minIntArgs: every call of the variadic minInt passes at least one value.
func minIntArgs(p *load.Prog) (bool, string) {
	f := p.Func(load.PkgRoot, "minInt")
	if f == nil {
		return false, "minInt not found"
	}
	n := 0
	for _, fn := range p.Repo {
		for _, c := range su.CallsTo(fn, f) {
			n++
			sl, ok := c.Call.Args[len(c.Call.Args)-1].(*ssa.Slice)
			if !ok {
				return false, "minInt is called with a computed slice in " + load.FuncName(fn)
			}
			al, ok := sl.X.(*ssa.Alloc)
			if !ok {
				return false, "minInt is called with a computed slice in " + load.FuncName(fn)
			}
			if at, ok := al.Type().(*types.Pointer).Elem().Underlying().(*types.Array); !ok || at.Len() < 1 {
				return false, "minInt is called without values in " + load.FuncName(fn)
			}
		}
	}
	if n == 0 {
		return false, "minInt is never called"
	}
	return true, ""
}

// surnameGroup: group 2 of nameRegexp, when it takes part in a match, is at least the two slashes.
func surnameGroup(p *load.Prog) (bool, string) {
	g := p.Global(load.PkgRoot, "nameRegexp")
	if g == nil {
		return false, "nameRegexp not found"
	}
	pat, err := absint.FoldGlobalRegexp(g)
	if err != nil {
		return false, "cannot read the pattern of nameRegexp: " + err.Error()
	}
	sub, err := relang.Group(pat, 2)
	if err != nil {
		return false, "nameRegexp has no group 2"
	}
	if n := relang.MinLen(sub); n < 2 {
		return false, fmt.Sprintf("group 2 of nameRegexp (%s) can capture a text of %d byte(s); Surname() cuts one byte off each end of it", pat, n)
	}
	return true, ""
}

// comparisonStringCovers: the switch in DateRangeComparison.String has a case for every constant of the type.
func comparisonStringCovers(p *load.Prog) (bool, string) {
	pkg := p.ByPath[load.PkgRoot]
	tObj := pkg.Types.Scope().Lookup("DateRangeComparison")
	fn := p.Method(load.PkgRoot, "DateRangeComparison", "String")
	if tObj == nil || fn == nil {
		return false, "DateRangeComparison / its String method not found"
	}
	cases := map[string]bool{}
	for _, b := range fn.Blocks {
		for _, ins := range b.Instrs {
			if bo, ok := ins.(*ssa.BinOp); ok && bo.Op == token.EQL {
				if k, ok := bo.Y.(*ssa.Const); ok {
					if k.Value == nil {
						cases["0"] = true
					} else {
						cases[k.Value.ExactString()] = true
					}
				}
			}
		}
	}
	for _, name := range pkg.Types.Scope().Names() {
		c, ok := pkg.Types.Scope().Lookup(name).(*types.Const)
		if !ok || !types.Identical(c.Type(), tObj.Type()) {
			continue
		}
		if !cases[c.Val().ExactString()] {
			return false, "the constant " + name + " has no case in DateRangeComparison.String: printing that comparison reaches the default panic"
		}
	}
	return true, ""
}

// eventDateBlank: EventDate.WriteHTMLTo indexes dates[0] only after IsBlank() answered false, and IsBlank is len(dates) == 0.
func eventDateBlank(p *load.Prog) (bool, string) {
	w := p.Method(load.PkgHTML, "EventDate", "WriteHTMLTo")
	ib := p.Method(load.PkgHTML, "EventDate", "IsBlank")
	if w == nil || ib == nil {
		return false, "EventDate.WriteHTMLTo / IsBlank not found"
	}
	// IsBlank: single return of len(recv.dates) == 0
	okShape := false
	for _, b := range ib.Blocks {
		if ret, ok := b.Instrs[len(b.Instrs)-1].(*ssa.Return); ok && len(ret.Results) == 1 {
			if bo, ok := ret.Results[0].(*ssa.BinOp); ok && bo.Op == token.EQL {
				if k, isK := su.ConstInt(bo.Y); isK && k == 0 {
					if c, isC := bo.X.(*ssa.Call); isC {
						if bi, isB := c.Call.Value.(*ssa.Builtin); isB && bi.Name() == "len" {
							if ld, isLd := c.Call.Args[0].(*ssa.UnOp); isLd {
								if fa, isFA := ld.X.(*ssa.FieldAddr); isFA && su.FieldName(fa) == "dates" {
									okShape = true
								}
							}
						}
					}
				}
			}
		}
	}
	if !okShape || len(ib.Blocks) != 1 {
		return false, "EventDate.IsBlank is no longer `len(c.dates) == 0`"
	}
	// every index of c.dates in WriteHTMLTo is dominated by the false edge of IsBlank(c)
	var safe *ssa.BasicBlock
	for _, b := range w.Blocks {
		if iff, ok := b.Instrs[len(b.Instrs)-1].(*ssa.If); ok {
			if c, isC := iff.Cond.(*ssa.Call); isC && c.Call.StaticCallee() == ib && len(b.Succs[1].Preds) == 1 {
				safe = b.Succs[1]
			}
		}
	}
	if safe == nil {
		return false, "EventDate.WriteHTMLTo no longer returns early when IsBlank()"
	}
	for _, b := range w.Blocks {
		for _, ins := range b.Instrs {
			if ia, ok := ins.(*ssa.IndexAddr); ok {
				if ld, isLd := ia.X.(*ssa.UnOp); isLd {
					if fa, isFA := ld.X.(*ssa.FieldAddr); isFA && su.FieldName(fa) == "dates" {
						if !(safe == b || safe.Dominates(b)) {
							return false, "c.dates is indexed outside the not-blank branch"
						}
					}
				}
			}
		}
	}
	return true, ""
}

// multipleSexesGuard: every MultipleSexesWarning is built from a list tested to have more than one element.
func multipleSexesGuard(p *load.Prog) (bool, string) {
	ctor := p.Func(load.PkgRoot, "NewMultipleSexesWarning")
	if ctor == nil {
		return false, "NewMultipleSexesWarning not found"
	}
	n := 0
	for _, fn := range p.Repo {
		for _, c := range su.CallsTo(fn, ctor) {
			n++
			if len(c.Call.Args) < 2 {
				return false, "NewMultipleSexesWarning changed its parameters"
			}
			list := c.Call.Args[1]
			guarded := false
			for _, b := range fn.Blocks {
				iff, ok := b.Instrs[len(b.Instrs)-1].(*ssa.If)
				if !ok {
					continue
				}
				bo, ok := iff.Cond.(*ssa.BinOp)
				if !ok || bo.Op != token.GTR {
					continue
				}
				k, isK := su.ConstInt(bo.Y)
				lc, isC := bo.X.(*ssa.Call)
				if !isK || k < 1 || !isC {
					continue
				}
				if bi, isB := lc.Call.Value.(*ssa.Builtin); !isB || bi.Name() != "len" || lc.Call.Args[0] != list {
					continue
				}
				if ts := b.Succs[0]; len(ts.Preds) == 1 && (ts == c.Block() || ts.Dominates(c.Block())) {
					guarded = true
				}
			}
			if !guarded {
				return false, "NewMultipleSexesWarning is called in " + load.FuncName(fn) + " with a list that was not tested to have more than one element: String() slices sexes[:len-1] and indexes the last one"
			}
		}
	}
	if n == 0 {
		return false, "NewMultipleSexesWarning is never called"
	}
	return true, ""
}

var tableSideConditions = map[string]func(p *load.Prog) (bool, string){
	"P3 index []string in gedcom.parseMonthName":                                     monthNameGroup,
	"P3 slice string in (gedcom.Date).String":                                        monthAbbreviation,
	"P3 slice string in (gedcom.SimilarityOptions).String":                           goSyntaxPrefix,
	"P3 index []bool in gedcom.jaro":                                                 jaroWindow,
	"P3 index string in gedcom.JaroWinkler":                                          jaroWinklerPrefix,
	"P3 index string in gedcom.JaroWinkler #2":                                       jaroWinklerPrefix,
	"P3 index gedcom.IndividualNodes in gedcom.createPointerJobs$1":                  stridedWorkerIndex("createPointerJobs"),
	"P3 index gedcom.IndividualNodes in gedcom.createUniqueJobs$1":                   stridedWorkerIndex("createUniqueJobs"),
	"P3 index []*gedcom.DateNode const 0 in (*html.EventDate).WriteHTMLTo":           eventDateBlank,
	"P3 slice []string in (*gedcom.MultipleSexesWarning).String":                     multipleSexesGuard,
	"P3 slice string in gedcom.NewUUIDFromString":                                    uuidPattern32,
	"P3 slice string in gedcom.NewUUIDFromString #2":                                 uuidPattern32,
	"P3 slice string in gedcom.NewUUIDFromString #3":                                 uuidPattern32,
	"P3 slice string in gedcom.NewUUIDFromString #4":                                 uuidPattern32,
	"P3 index []int const 0 in gedcom.minInt":                                        minIntArgs,
	"P3 slice string in (*gedcom.NameNode).Surname":                                  surnameGroup,
	"P1 panic in (gedcom.DateRangeComparison).String":                                comparisonStringCovers,
	"P3 index [][]func(d1 gedcom.Date, d2 gedcom.Date) bool in (gedcom.Date).Equals": dateConstraintTable,
	"P3 index []func(d1 gedcom.Date, d2 gedcom.Date) bool in (gedcom.Date).Equals":   dateConstraintTable,
	"P3 slice string in (*q.Parser).consumeConstant": func(p *load.Prog) (bool, string) {
		// value[1 : len(value)-1] needs two bytes: the pattern of the string token must not match anything shorter
		pat, ok := tokenPattern(p, "string")
		if !ok {
			return false, "cannot find the pattern registered for the string token in q.TokenRegexp"
		}
		n, err := relang.MinLenOf(pat)
		if err != nil {
			return false, "cannot parse the string token's pattern " + pat
		}
		if n < 2 {
			return false, fmt.Sprintf("the pattern of the string token (%s) matches a text of %d byte(s): a token that is only an opening quote reaches the slice value[1:len-1] with len 1, and ParseString has no recover", pat, n)
		}
		return true, ""
	},
	"P1 panic in gedcom.needsFamily": func(p *load.Prog) (bool, string) {
		// (1) the family-role constructors are only called behind needsFamily or with the receiver's family
		// (2) DeepCopy's callback takes the family of a family-role node from the node itself when no FAM node is above it
		dc := p.Func(load.PkgRoot, "DeepCopy")
		sc := p.Func(load.PkgRoot, "shallowCopyNode")
		if dc == nil || sc == nil {
			return false, "DeepCopy / shallowCopyNode not found"
		}
		// (0) in the decoder the panic is turned into an error: parseLine installs a deferred function that itself calls recover()
		if pl := p.Func(load.PkgRoot, "parseLine"); pl == nil || e1.Recovers(pl) == nil {
			return false, "parseLine no longer recovers: its deferred function does not call recover() itself (recover only stops a panic when the deferred function calls it directly), so a HUSB/WIFE/CHIL line before any FAM record panics out of Decode"
		}
		found := false
		for _, an := range copyCallbacks(p, dc) {
			if len(su.CallsTo(an, sc)) == 0 {
				continue
			}
			// an invoke of FamilyNoder.Family() on the callback's node whose result is stored into the captured family variable
			for _, c := range su.Calls(an) {
				cc := c.Common()
				if !cc.IsInvoke() || cc.Method.Name() != "Family" {
					continue
				}
				val, ok := c.(ssa.Value)
				if !ok {
					continue
				}
				for _, ref := range *val.Referrers() {
					if st, ok := ref.(*ssa.Store); ok && st.Val == val {
						if _, isFV := st.Addr.(*ssa.FreeVar); isFV {
							found = true
						}
						// the copier's state kept in a struct: a field of the callback's receiver
						if fa, isFA := st.Addr.(*ssa.FieldAddr); isFA && len(an.Params) > 0 && fa.X == ssa.Value(an.Params[0]) {
							found = true
						}
					}
				}
			}
		}
		if !found {
			return false, "DeepCopy's callback no longer takes the family of a HUSB/WIFE/CHIL node from the node itself: copying such a node that has no FAM node above it (a CHIL line nested under an INDI record, or a bare child copied by MergeNodes) reaches needsFamily with a nil family"
		}
		var famOK func(fn *ssa.Function, arg ssa.Value, depth int) bool
		famOK = func(fn *ssa.Function, arg ssa.Value, depth int) bool {
			prm, isPrm := arg.(*ssa.Parameter)
			if !isPrm || depth > 3 {
				return false
			}
			if fn.Signature.Recv() != nil && len(fn.Params) > 0 && fn.Params[0] == prm {
				return true // the receiver family (a method was called on it)
			}
			for _, c2 := range su.Calls(fn) {
				if cal := c2.Common().StaticCallee(); cal != nil && cal.Name() == "needsFamily" && len(c2.Common().Args) > 0 && c2.Common().Args[0] == arg {
					return true // checked by needsFamily in this function (the constructor calls follow the check)
				}
			}
			// forwarded parameter: every caller must pass a good family
			idx := -1
			for i, q := range fn.Params {
				if q == prm {
					idx = i
				}
			}
			n := 0
			for _, caller := range p.Repo {
				for _, c := range su.CallsTo(caller, fn) {
					n++
					if idx >= len(c.Call.Args) || !famOK(caller, c.Call.Args[idx], depth+1) {
						return false
					}
				}
			}
			return n > 0
		}
		for _, ctor := range []string{"newHusbandNode", "newWifeNode", "newChildNode"} {
			f := p.Func(load.PkgRoot, ctor)
			if f == nil {
				return false, ctor + " not found"
			}
			for _, fn := range p.Repo {
				for _, c := range su.CallsTo(fn, f) {
					if !famOK(fn, c.Call.Args[0], 0) {
						return false, "the family given to " + ctor + " in " + load.FuncName(fn) + " is neither checked by needsFamily nor a receiver: a family-role node without a family can exist"
					}
				}
			}
		}
		return true, ""
	},
}

type e1ctx struct {
	p      *load.Prog
	g      *cg.Graph
	reg    map[*ssa.Global]*types.Named
	regOK  bool
	regWhy string
	table  map[string]string
	used   map[string]bool
}

// nodesTag: v is a Nodes value obtained from NodesWithTag(_, T); returns T.
func (c *e1ctx) nodesTag(v ssa.Value, depth int) *ssa.Global {
	if depth > 5 {
		return nil
	}
	v = su.Strip(v)
	switch x := v.(type) {
	case *ssa.Call:
		if su.CalleeIs(&x.Call, load.PkgRoot, "NodesWithTag") && len(x.Call.Args) == 2 {
			if g := su.GlobalLoaded(x.Call.Args[1]); g != nil {
				return g
			}
			// the tag is an element of a constant list of tags returned by a helper (FamilySearchIDNodeTags()): every tag
			// of the list must be registered for the same kind; the first one stands for all
			if gs := tagListGlobals(x.Call.Args[1]); len(gs) > 0 {
				first := c.reg[gs[0]]
				if first == nil {
					return nil
				}
				for _, g := range gs[1:] {
					if c.reg[g] != first {
						return nil
					}
				}
				return gs[0]
			}
		}
	case *ssa.Phi:
		var g *ssa.Global
		for _, e := range x.Edges {
			eg := c.nodesTag(e, depth+1)
			if eg == nil || (g != nil && eg != g) {
				return nil
			}
			g = eg
		}
		return g
	}
	return nil
}

// nodeTag: v is a Node taken from such a list (First, range element, index).
func (c *e1ctx) nodeTag(v ssa.Value, depth int) *ssa.Global {
	if depth > 5 {
		return nil
	}
	v = su.Strip(v)
	switch x := v.(type) {
	case *ssa.Call:
		if su.CalleeIs(&x.Call, load.PkgRoot, "First") && len(x.Call.Args) == 1 {
			return c.nodesTag(x.Call.Args[0], depth+1)
		}
	case *ssa.UnOp:
		if ia, ok := x.X.(*ssa.IndexAddr); ok {
			return c.nodesTag(ia.X, depth+1)
		}
	case *ssa.Phi:
		var g *ssa.Global
		for _, e := range x.Edges {
			eg := c.nodeTag(e, depth+1)
			if eg == nil || (g != nil && eg != g) {
				return nil
			}
			g = eg
		}
		return g
	}
	return nil
}

// discharge tries the generic rules; returns the reason when one applies.
func (c *e1ctx) discharge(s *e1.Site) (string, bool) {
	switch s.Class {
	case "P2":
		ta := s.Instr.(*ssa.TypeAssert)
		// R-reg
		if g := c.nodeTag(ta.X, 0); g != nil {
			if named := c.reg[g]; named != nil && c.regOK {
				if at := load.NamedOf(ta.AssertedType); at == named {
					return "R-reg: operand is an element of NodesWithTag(_, " + g.Name() + ") and the kind registry maps that tag to " + named.Obj().Name(), true
				}
			}
		}
		// R-cast: Nodes.CastTo(t).([]T) with t of static type T
		if call, ok := su.Strip(ta.X).(*ssa.Call); ok {
			cal := call.Call.StaticCallee()
			if cal != nil && (cal.Name() == "CastTo" || cal.Name() == "castNodesWithTag") && c.p.InRepo(cal) {
				targ := call.Call.Args[len(call.Call.Args)-1]
				if mi, ok := targ.(*ssa.MakeInterface); ok {
					if sl, ok := ta.AssertedType.(*types.Slice); ok && types.Identical(sl.Elem(), mi.X.Type()) {
						return "R-cast: CastTo returns a slice of its argument's static type " + mi.X.Type().String(), true
					}
				}
			}
		}
		if r, ok := c.ruleSyncMap(s); ok {
			return r, true
		}
		if r, ok := c.ruleEntityMap(s); ok {
			return r, true
		}
	case "P3":
		if r, ok := c.ruleRegex(s); ok {
			return r, true
		}
		if r, ok := c.ruleSort(s); ok {
			return r, true
		}
		if r, ok := c.ruleConsume(s); ok {
			return r, true
		}
		if r, ok := c.ruleFieldIndex(s); ok {
			return r, true
		}
		if r, ok := ruleNonEmpty(s); ok {
			return r, true
		}
		if r, ok := ruleSplitFirst(s); ok {
			return r, true
		}
		if r, ok := c.ruleIndexOf(s); ok {
			return r, true
		}
		if r, ok := c.ruleParallel(s); ok {
			return r, true
		}
		if r, ok := c.ruleRowLiteral(s); ok {
			return r, true
		}
		if r, ok := ruleFieldName(s); ok {
			return r, true
		}
	case "P4":
		if r, ok := c.ruleKind(s); ok {
			return r, true
		}
		if r, ok := c.ruleWrapper(s); ok {
			return r, true
		}
	case "P1":
		if r, ok := c.ruleWriterPanic(s); ok {
			return r, true
		}
		if r, ok := c.ruleArgConst(s); ok {
			return r, true
		}
	}
	return "", false
}

// submatchOf: v is the result of (*regexp.Regexp).FindStringSubmatch on a
// package-level regexp with a foldable constant pattern.
func submatchOf(v ssa.Value) (call *ssa.Call, pattern string, ok bool) {
	c, isCall := v.(*ssa.Call)
	if !isCall {
		return nil, "", false
	}
	if !su.CalleeIs(&c.Call, "regexp", "FindStringSubmatch") {
		// a one-block helper that returns FindStringSubmatch of a package-level regexp
		cal := c.Call.StaticCallee()
		if cal == nil || len(cal.Blocks) != 1 {
			return nil, "", false
		}
		ret, isRet := cal.Blocks[0].Instrs[len(cal.Blocks[0].Instrs)-1].(*ssa.Return)
		if !isRet || len(ret.Results) != 1 {
			return nil, "", false
		}
		_, pat, ok := submatchOf(ret.Results[0])
		if !ok {
			return nil, "", false
		}
		return c, pat, true
	}
	g := su.GlobalLoaded(c.Call.Args[0])
	if g == nil {
		return nil, "", false
	}
	pat, err := absint.FoldGlobalRegexp(g)
	if err != nil {
		return nil, "", false
	}
	return c, pat, true
}

// lenGuarded: instruction ins is only reached when len(v) != 0 (dominating
// branch on len(v)==0 / !=0 / >0 with ins on the non-empty side).
func lenGuarded(v ssa.Value, ins ssa.Instruction) bool {
	fn := ins.Parent()
	for _, b := range fn.Blocks {
		iff, ok := b.Instrs[len(b.Instrs)-1].(*ssa.If)
		if !ok {
			continue
		}
		bo, ok := iff.Cond.(*ssa.BinOp)
		if !ok {
			continue
		}
		isLen := func(x ssa.Value) bool {
			c, ok := x.(*ssa.Call)
			if !ok {
				return false
			}
			bi, ok := c.Call.Value.(*ssa.Builtin)
			return ok && bi.Name() == "len" && c.Call.Args[0] == v
		}
		var nonEmptySucc *ssa.BasicBlock
		k, isK := su.ConstInt(bo.Y)
		if isLen(bo.X) && isK {
			switch {
			case bo.Op == token.EQL && k == 0:
				nonEmptySucc = b.Succs[1]
			case (bo.Op == token.NEQ || bo.Op == token.GTR) && k == 0:
				nonEmptySucc = b.Succs[0]
			case bo.Op == token.GEQ && k >= 1, bo.Op == token.GTR && k >= 0:
				nonEmptySucc = b.Succs[0]
			case bo.Op == token.LSS && k == 1, bo.Op == token.LEQ && k == 0:
				nonEmptySucc = b.Succs[1]
			}
		}
		if nonEmptySucc == nil {
			continue
		}
		other := b.Succs[0]
		if other == nonEmptySucc {
			other = b.Succs[1]
		}
		if len(nonEmptySucc.Preds) == 1 && nonEmptySucc.Dominates(ins.Block()) {
			return true
		}
		// early-exit form: the empty side never reaches ins
		if b.Dominates(ins.Block()) && !su.ReachableBlocks(other)[ins.Block()] {
			return true
		}
	}
	return false
}

func minLen(r *syntax.Regexp) int {
	switch r.Op {
	case syntax.OpLiteral:
		return len(r.Rune)
	case syntax.OpCharClass, syntax.OpAnyChar, syntax.OpAnyCharNotNL:
		return 1
	case syntax.OpCapture:
		return minLen(r.Sub[0])
	case syntax.OpConcat:
		n := 0
		for _, s := range r.Sub {
			n += minLen(s)
		}
		return n
	case syntax.OpAlternate:
		m := -1
		for _, s := range r.Sub {
			if l := minLen(s); m < 0 || l < m {
				m = l
			}
		}
		if m < 0 {
			return 0
		}
		return m
	case syntax.OpPlus:
		return minLen(r.Sub[0])
	case syntax.OpRepeat:
		return r.Min * minLen(r.Sub[0])
	}
	return 0
}

func (c *e1ctx) ruleRegex(s *e1.Site) (string, bool) {
	switch x := s.Instr.(type) {
	case *ssa.IndexAddr:
		call, pat, ok := submatchOf(x.X)
		if !ok {
			return "", false
		}
		k, isK := su.ConstInt(x.Index)
		n, err := relang.NumGroups(pat)
		if !isK || err != nil || int(k) > n {
			return "", false
		}
		if lenGuarded(call, s.Instr) {
			return fmt.Sprintf("R-regex: group %d of a constant pattern with %d groups, used only after the no-match (len==0) exit", k, n), true
		}
		if alwaysMatches(pat) {
			return fmt.Sprintf("R-regex: group %d of a constant pattern with %d groups that matches every string (nullable, no assertions)", k, n), true
		}
	case *ssa.Slice:
		// group[k][lo : len(group[k])-h] under group[k] != ""
		base, k, ok := su.ElemOf(x.X)
		if !ok {
			return "", false
		}
		_, pat, ok := submatchOf(base)
		if !ok {
			return "", false
		}
		sub, err := relang.Group(pat, int(k))
		if err != nil {
			return "", false
		}
		lo, okLo := su.ConstInt(x.Low)
		bo, okHi := x.High.(*ssa.BinOp)
		if !okLo || !okHi || bo.Op != token.SUB {
			return "", false
		}
		h, okH := su.ConstInt(bo.Y)
		ln, okLn := bo.X.(*ssa.Call)
		if !okH || !okLn {
			return "", false
		}
		if bi, ok := ln.Call.Value.(*ssa.Builtin); !ok || bi.Name() != "len" {
			return "", false
		}
		b2, k2, ok := su.ElemOf(ln.Call.Args[0])
		if !ok || b2 != base || k2 != k {
			return "", false
		}
		// non-empty guard: dominated by true edge of group != ""
		guarded := false
		for _, b := range s.Fn.Blocks {
			iff, ok := b.Instrs[len(b.Instrs)-1].(*ssa.If)
			if !ok {
				continue
			}
			cmp, ok := iff.Cond.(*ssa.BinOp)
			if !ok || cmp.Op != token.NEQ {
				continue
			}
			if str, ok := su.ConstString(cmp.Y); !ok || str != "" {
				continue
			}
			b3, k3, ok := su.ElemOf(cmp.X)
			if ok && b3 == base && k3 == k && len(b.Succs[0].Preds) == 1 && b.Succs[0].Dominates(s.Instr.Block()) {
				guarded = true
			}
		}
		if guarded && int64(minLen(sub)) >= lo+h && lo >= 0 && h >= 0 {
			return fmt.Sprintf("R-regex: a non-empty match of group %d has at least %d bytes, enough for [%d:len-%d]", k, minLen(sub), lo, h), true
		}
	}
	return "", false
}

// ruleSort: index by the i/j parameters of a less closure passed to
// sort.Slice/SliceStable over the same captured slice variable.
func (c *e1ctx) ruleSort(s *e1.Site) (string, bool) {
	ia, ok := s.Instr.(*ssa.IndexAddr)
	if !ok {
		return "", false
	}
	fn := s.Fn
	par := fn.Parent()
	if par == nil || len(fn.Params) != 2 {
		return "", false
	}
	if ia.Index != ssa.Value(fn.Params[0]) && ia.Index != ssa.Value(fn.Params[1]) {
		return "", false
	}
	// factory form: the less function is made by a helper F(slice) that returns the closure; every use of F in the
	// repository is sort.Slice(s, F(s)) / sort.SliceStable(s, F(s)) with the same s
	if fvDirect, isFV := ia.X.(*ssa.FreeVar); isFV {
		// captured by value: the free variable is bound to a parameter of the factory
		prmIdx := -1
		made := false
		for _, b := range par.Blocks {
			for _, ins := range b.Instrs {
				mc, ok := ins.(*ssa.MakeClosure)
				if !ok || mc.Fn != fn {
					continue
				}
				for i, f := range fn.FreeVars {
					if f == fvDirect {
						for pi, pp := range par.Params {
							if mc.Bindings[i] == ssa.Value(pp) {
								prmIdx = pi
							}
						}
					}
				}
				// the closure is what the factory returns
				for _, ref := range *mc.Referrers() {
					if _, isRet := ref.(*ssa.Return); isRet {
						made = true
					}
				}
			}
		}
		if prmIdx < 0 || !made {
			return "", false
		}
		uses := 0
		for _, g := range c.p.Repo {
			for _, fc := range su.CallsTo(g, par) {
				uses++
				okUse := false
				for _, ref := range *fc.Referrers() {
					sc, isCall := ref.(*ssa.Call)
					if !isCall || !(su.CalleeIs(&sc.Call, "sort", "Slice") || su.CalleeIs(&sc.Call, "sort", "SliceStable")) || sc.Call.Args[1] != ssa.Value(fc) {
						continue
					}
					if mi, isMI := sc.Call.Args[0].(*ssa.MakeInterface); isMI && mi.X == fc.Call.Args[prmIdx] {
						okUse = true
					}
				}
				if !okUse {
					return "", false
				}
			}
		}
		if uses == 0 {
			return "", false
		}
		return fmt.Sprintf("R-sort: index is a parameter of a less function made by %s(slice); each of its %d use(s) is sort.Slice over that same slice", par.Name(), uses), true
	}
	ld, ok := ia.X.(*ssa.UnOp)
	if !ok {
		return "", false
	}
	fv, ok := ld.X.(*ssa.FreeVar)
	if !ok {
		return "", false
	}
	fvIdx := -1
	for i, f := range fn.FreeVars {
		if f == fv {
			fvIdx = i
		}
	}
	// find the MakeClosure in the parent and the sort call that takes it
	for _, b := range par.Blocks {
		for _, ins := range b.Instrs {
			call, ok := ins.(*ssa.Call)
			if !ok || !(su.CalleeIs(&call.Call, "sort", "Slice") || su.CalleeIs(&call.Call, "sort", "SliceStable")) {
				continue
			}
			mc, ok := call.Call.Args[1].(*ssa.MakeClosure)
			if !ok || mc.Fn != fn || fvIdx < 0 || fvIdx >= len(mc.Bindings) {
				continue
			}
			cell := mc.Bindings[fvIdx]
			arg := su.Strip(call.Call.Args[0])
			if l2, ok := arg.(*ssa.UnOp); ok && l2.X == cell {
				// no store to the captured variable inside the closure
				for _, ref := range *fv.Referrers() {
					if st, ok := ref.(*ssa.Store); ok && st.Addr == ssa.Value(fv) {
						return "", false
					}
				}
				return "R-sort: index is a parameter of the less function of sort.Slice over the same captured slice", true
			}
		}
	}
	// factory form: par(slice) returns this closure, which captured par's parameter (through its cell); every use of
	// par in the repository is sort.Slice(s, par(s)) / sort.SliceStable(s, par(s)) with the same s
	for _, ref := range *fv.Referrers() {
		if st, ok := ref.(*ssa.Store); ok && st.Addr == ssa.Value(fv) {
			return "", false
		}
	}
	prmIdx, made := -1, false
	for _, b := range par.Blocks {
		for _, ins := range b.Instrs {
			mc, ok := ins.(*ssa.MakeClosure)
			if !ok || mc.Fn != fn || fvIdx < 0 || fvIdx >= len(mc.Bindings) {
				continue
			}
			cell, isAlloc := mc.Bindings[fvIdx].(*ssa.Alloc)
			if !isAlloc {
				continue
			}
			stores := 0
			for _, ref := range *cell.Referrers() {
				if st, ok := ref.(*ssa.Store); ok && st.Addr == ssa.Value(cell) {
					stores++
					for pi, pp := range par.Params {
						if st.Val == ssa.Value(pp) {
							prmIdx = pi
						}
					}
				}
			}
			if stores != 1 {
				prmIdx = -1
			}
			for _, ref := range *mc.Referrers() {
				if _, isRet := ref.(*ssa.Return); isRet {
					made = true
				}
			}
		}
	}
	if prmIdx < 0 || !made {
		return "", false
	}
	uses := 0
	for _, g := range c.p.Repo {
		for _, fc := range su.CallsTo(g, par) {
			uses++
			okUse := false
			for _, ref := range *fc.Referrers() {
				sc, isCall := ref.(*ssa.Call)
				if !isCall || !(su.CalleeIs(&sc.Call, "sort", "Slice") || su.CalleeIs(&sc.Call, "sort", "SliceStable")) || sc.Call.Args[1] != ssa.Value(fc) {
					continue
				}
				if mi, isMI := sc.Call.Args[0].(*ssa.MakeInterface); isMI && mi.X == fc.Call.Args[prmIdx] {
					okUse = true
				}
			}
			if !okUse {
				return "", false
			}
		}
	}
	if uses == 0 {
		return "", false
	}
	return fmt.Sprintf("R-sort: index is a parameter of a less function made by %s(slice); each of its %d use(s) is sort.Slice over that same slice", par.Name(), uses), true
}

// ruleConsume: t[k] where (t, err) = Tokens.Consume(kinds...) with more than k
// kinds, reached only when err == nil.
func (c *e1ctx) ruleConsume(s *e1.Site) (string, bool) {
	ia, ok := s.Instr.(*ssa.IndexAddr)
	if !ok {
		return "", false
	}
	k, isK := su.ConstInt(ia.Index)
	if !isK {
		return "", false
	}
	calls := consumeCallsOf(ia.X, 0)
	if len(calls) == 0 {
		return "", false
	}
	for _, call := range calls {
		// number of kinds: varargs slice of an array
		n := -1
		if sl, ok := call.Call.Args[len(call.Call.Args)-1].(*ssa.Slice); ok {
			if al, ok := sl.X.(*ssa.Alloc); ok {
				if arr, ok := al.Type().(*types.Pointer).Elem().Underlying().(*types.Array); ok {
					n = int(arr.Len())
				}
			}
		}
		if n <= int(k) {
			return "", false
		}
		// err == nil guard on the error of the same call
		var errV ssa.Value
		for _, ref := range *call.Referrers() {
			if ex, ok := ref.(*ssa.Extract); ok && ex.Index == 1 {
				errV = ex
			}
		}
		if errV == nil || !nilGuarded(errV, s.Instr) {
			return "", false
		}
	}
	return fmt.Sprintf("R-consume: element %d of the tokens returned by Consume with more kinds than that, used only when its error is nil", k), true
}

func consumeCallsOf(v ssa.Value, depth int) []*ssa.Call {
	if depth > 4 {
		return nil
	}
	switch x := v.(type) {
	case *ssa.Extract:
		if x.Index != 0 {
			return nil
		}
		if c, ok := x.Tuple.(*ssa.Call); ok && su.CalleeIs(&c.Call, load.PkgQ, "Consume") {
			return []*ssa.Call{c}
		}
	case *ssa.Phi:
		var out []*ssa.Call
		for _, e := range x.Edges {
			cs := consumeCallsOf(e, depth+1)
			if cs == nil {
				if c, ok := e.(*ssa.Const); ok && c.Value == nil {
					continue
				}
				return nil
			}
			out = append(out, cs...)
		}
		return out
	}
	return nil
}

// nilGuarded: ins is reached only over edges where errV == nil holds.
func nilGuarded(errV ssa.Value, ins ssa.Instruction) bool {
	fn := ins.Parent()
	derived := map[ssa.Value]bool{errV: true}
	// errV may flow through a phi (named result); accept phis all of whose other edges are nil constants
	for _, ref := range *errV.Referrers() {
		if phi, ok := ref.(*ssa.Phi); ok {
			derived[phi] = true
		}
		// errV stored into a local (an address-taken named result) and re-loaded later in the same block with no store in between
		if st, ok := ref.(*ssa.Store); ok && st.Val == errV {
			if al, ok := st.Addr.(*ssa.Alloc); ok {
				blk := st.Block()
				after := false
				for _, ins := range blk.Instrs {
					if ins == ssa.Instruction(st) {
						after = true
						continue
					}
					if !after {
						continue
					}
					if s2, ok := ins.(*ssa.Store); ok && s2.Addr == ssa.Value(al) {
						break
					}
					if _, isCall := ins.(ssa.CallInstruction); isCall {
						break // a call may write through the escaped address
					}
					if ld, ok := ins.(*ssa.UnOp); ok && ld.Op == token.MUL && ld.X == ssa.Value(al) {
						derived[ld] = true
					}
				}
			}
		}
	}
	for _, b := range fn.Blocks {
		iff, ok := b.Instrs[len(b.Instrs)-1].(*ssa.If)
		if !ok {
			continue
		}
		var nilSucc *ssa.BasicBlock
		test := func(cond ssa.Value, succTrue, succFalse *ssa.BasicBlock) *ssa.BasicBlock {
			bo, ok := cond.(*ssa.BinOp)
			if !ok || !derived[bo.X] {
				return nil
			}
			if cst, ok := bo.Y.(*ssa.Const); !ok || cst.Value != nil {
				return nil
			}
			if bo.Op == token.EQL {
				return succTrue
			}
			if bo.Op == token.NEQ {
				return succFalse
			}
			return nil
		}
		nilSucc = test(iff.Cond, b.Succs[0], b.Succs[1])
		if nilSucc == nil {
			continue
		}
		other := b.Succs[0]
		if other == nilSucc {
			other = b.Succs[1]
		}
		if len(nilSucc.Preds) == 1 && nilSucc.Dominates(ins.Block()) {
			return true
		}
		if b.Dominates(ins.Block()) && !su.ReachableBlocks(other)[ins.Block()] {
			return true
		}
	}
	return false
}

var kindForMethod = map[string][]string{
	"Len":      {"Slice", "Array", "Map", "String", "Chan"},
	"Index":    {"Slice", "Array", "String"},
	"Slice":    {"Slice", "Array", "String"},
	"MapKeys":  {"Map"},
	"MapIndex": {"Map"},
	"MapRange": {"Map"},
	"Elem":     {"Ptr", "Pointer", "Interface"},
	"IsNil":    {"Ptr", "Pointer", "Slice", "Map", "Interface", "Chan", "Func"},
	"NumField": {"Struct"}, "Field": {"Struct"}, "FieldByName": {"Struct"},
}

var reflectKindValue = map[int64]string{1: "Bool", 2: "Int", 17: "Array", 18: "Chan", 19: "Func", 20: "Interface", 21: "Map", 22: "Pointer", 23: "Slice", 24: "String", 25: "Struct"}

// ruleKind: reflect.Value.M(v) dominated by the true edge of v.Kind() == K (or
// the false edge of !=) with K admissible for M; Index additionally needs a
// loop bound, which the compiler-independent part cannot prove: accepted when
// the index is the induction variable of a loop bounded by v.Len().
func (c *e1ctx) ruleKind(s *e1.Site) (string, bool) {
	call, ok := s.Instr.(ssa.CallInstruction)
	if !ok {
		return "", false
	}
	cal := call.Common().StaticCallee()
	if cal == nil || cal.Signature.Recv() == nil {
		return "", false
	}
	kinds, ok := kindForMethod[cal.Name()]
	if !ok {
		return "", false
	}
	recv := call.Common().Args[0]
	fn := s.Fn
	// kindGuarded: every path of f to block crosses an edge on which v.Kind() is one of the admissible kinds
	kindGuarded := func(f *ssa.Function, block *ssa.BasicBlock, v ssa.Value) bool {
		good := func(b *ssa.BasicBlock, succ int) bool {
			switch t := b.Instrs[len(b.Instrs)-1].(type) {
			case *ssa.If:
				bo, ok := t.Cond.(*ssa.BinOp)
				if !ok || (bo.Op != token.EQL && bo.Op != token.NEQ) {
					return false
				}
				kc, ok := bo.X.(*ssa.Call)
				if !ok || !su.CalleeIs(&kc.Call, "reflect", "Kind") || !sameReflectValue(kc.Call.Args[0], v) {
					return false
				}
				kv, ok := su.ConstInt(bo.Y)
				if !ok {
					return false
				}
				kn := reflectKindValue[kv]
				adm := false
				for _, k := range kinds {
					if k == kn {
						adm = true
					}
				}
				if !adm {
					return false
				}
				if bo.Op == token.EQL {
					return succ == 0
				}
				return succ == 1
			}
			return false
		}
		return allPathsCross(f, block, good)
	}
	if !kindGuarded(fn, s.Instr.Block(), recv) {
		// the value is a parameter of an unexported helper: every call of the helper in the repository must be guarded
		prm, isPrm := recv.(*ssa.Parameter)
		if !isPrm || fn.Object() == nil || fn.Object().Exported() {
			return "", false
		}
		idx := -1
		for i, q := range fn.Params {
			if q == prm {
				idx = i
			}
		}
		callers := 0
		for _, g := range c.p.Repo {
			for _, cs := range su.CallsTo(g, fn) {
				callers++
				if idx < 0 || idx >= len(cs.Call.Args) || !kindGuarded(g, cs.Block(), cs.Call.Args[idx]) {
					return "", false
				}
			}
			// the helper must not be used as a value
			for _, b := range g.Blocks {
				for _, ins := range b.Instrs {
					for _, op := range ins.Operands(nil) {
						if *op == ssa.Value(fn) {
							if ci, isCall := ins.(ssa.CallInstruction); !isCall || ci.Common().Value != ssa.Value(fn) {
								return "", false
							}
						}
					}
				}
			}
		}
		if callers == 0 {
			return "", false
		}
		if cal.Name() == "Index" {
			return "", false
		}
		return fmt.Sprintf("R-kind: the value is a parameter of an unexported helper; each of its %d call(s) is only reached after a test that the argument's Kind() admits %s", callers, cal.Name()), true
	}
	if cal.Name() == "Index" && !loopBoundedByLen(call.Common().Args[1], recv) {
		return "", false
	}
	return "R-kind: every path to the call passes a test that the value's Kind() admits " + cal.Name(), true
}

// allPathsCross: every path from the entry block to target uses at least one
// edge accepted by good.
func allPathsCross(fn *ssa.Function, target *ssa.BasicBlock, good func(b *ssa.BasicBlock, succ int) bool) bool {
	seen := map[*ssa.BasicBlock]bool{}
	var walk func(b *ssa.BasicBlock) bool // true if target reachable without a good edge
	walk = func(b *ssa.BasicBlock) bool {
		if b == target {
			return true
		}
		if seen[b] {
			return false
		}
		seen[b] = true
		for i, sc := range b.Succs {
			if good(b, i) {
				continue
			}
			if walk(sc) {
				return true
			}
		}
		return false
	}
	return !walk(fn.Blocks[0])
}

func sameReflectValue(a, b ssa.Value) bool {
	if a == b {
		return true
	}
	// loads of the same local variable
	la, ok1 := a.(*ssa.UnOp)
	lb, ok2 := b.(*ssa.UnOp)
	if ok1 && ok2 && la.X == lb.X {
		if al, ok := la.X.(*ssa.Alloc); ok {
			// the variable must be assigned once
			n := 0
			for _, ref := range *al.Referrers() {
				if st, ok := ref.(*ssa.Store); ok && st.Addr == ssa.Value(al) {
					n++
				}
			}
			return n <= 1
		}
	}
	return false
}

// loopBoundedByLen: idx is a loop induction phi whose loop condition is
// idx < v.Len().
func loopBoundedByLen(idx ssa.Value, recv ssa.Value) bool {
	phi, ok := idx.(*ssa.Phi)
	if !ok {
		return false
	}
	for _, ref := range *phi.Referrers() {
		bo, ok := ref.(*ssa.BinOp)
		if !ok || bo.Op != token.LSS || bo.X != ssa.Value(phi) {
			continue
		}
		lc, ok := bo.Y.(*ssa.Call)
		if ok && su.CalleeIs(&lc.Call, "reflect", "Len") && sameReflectValue(lc.Call.Args[0], recv) {
			// starts at 0 and increments
			okStart := false
			for _, e := range phi.Edges {
				if k, isK := su.ConstInt(e); isK && k == 0 {
					okStart = true
				}
			}
			return okStart
		}
	}
	return false
}

// ruleWriterPanic: panic(err) where err is the error returned by a write to an
// io.Writer / Component.WriteHTMLTo: reachable only with a failing writer,
// which is C19's fault model, not a property of the input file.
func (c *e1ctx) ruleWriterPanic(s *e1.Site) (string, bool) {
	pn := s.Instr.(*ssa.Panic)
	v := su.Strip(pn.X)
	ex, ok := v.(*ssa.Extract)
	if !ok {
		return "", false
	}
	call, ok := ex.Tuple.(*ssa.Call)
	if !ok {
		return "", false
	}
	name := ""
	if call.Call.IsInvoke() {
		name = call.Call.Method.Name()
	} else if cal := call.Call.StaticCallee(); cal != nil {
		name = cal.Name()
	}
	isWriter := func(t types.Type) bool {
		n := load.NamedOf(t)
		return n != nil && n.Obj().Pkg() != nil && n.Obj().Pkg().Path() == "io" && n.Obj().Name() == "Writer"
	}
	writes := false
	switch name {
	case "Write", "WriteString", "WriteHTMLTo", "Fprintf", "Fprint":
		writes = true
	}
	for _, a := range call.Call.Args {
		if isWriter(a.Type()) {
			writes = true
		}
	}
	if writes && ex.Index == call.Type().(*types.Tuple).Len()-1 {
		return "R-wpanic: panics only with the error of a failed write to the caller's io.Writer (C19's fault model)", true
	}
	return "", false
}

// runE1 is the common driver for C03, C14, C15.
func runE1(p *load.Prog, r *oblig.Run, rulePrefix string, entries []*ssa.Function, tolerated func(s *e1.Site) (string, bool), floor int) {
	bce, err := e1.BCE(p)
	if err != nil {
		load.Fatal("check_bce build: %v", err)
	}
	sites, unmatched := e1.Enumerate(p, bce)
	r.Extra["bce_unproven_positions"] = len(bce)
	r.Extra["bce_positions_inlined_copies_dropped"] = unmatched
	useCHA := r.Tier == "thorough"
	g := cg.New(p, false)
	c := &e1ctx{p: p, g: g, reg: registryKinds(p), table: loadE1Table(), used: map[string]bool{}}
	c.regOK, c.regWhy = registryInvariant(p, c.reg)
	reached, nf, protOnly := e1.Reachable(p, g, entries, sites)
	r.Extra["reachable_functions"] = nf
	r.Extra["sites_only_under_recover"] = protOnly
	if useCHA {
		g2 := cg.New(p, true)
		reached2, nf2, _ := e1.Reachable(p, g2, entries, sites)
		seen := map[*e1.Site]bool{}
		for _, s := range reached {
			seen[s.Site] = true
		}
		// CHA resolves an interface call to every type with the method set, used or not: sites found only this way
		// are listed for information (they are not obligations - the precise graph decides the verdict)
		extra := 0
		var only []string
		for _, s := range reached2 {
			if !seen[s.Site] {
				extra++
				if len(only) < 40 {
					only = append(only, s.Key()+" at "+p.Pos(s.Pos))
				}
			}
		}
		sort.Strings(only)
		r.Extra["cha_only_site_list"] = only
		r.Extra["cha_reachable_functions"] = nf2
		r.Extra["cha_only_sites"] = extra
	}
	var names []string
	for _, e := range entries {
		names = append(names, load.FuncName(e))
	}
	r.Extra["entry_points"] = names
	hangFloor := 100
	if rulePrefix == "R03" {
		hangFloor = 2 // the decoder's reachable set is small
	}
	hangObligations(p, r, rulePrefix+".h", g, entries, hangFloor)
	rule := rulePrefix + ".a"
	r.Rule(rule, "every may-panic construct (explicit panic, single-result type assertion, bounds check the compiler could not prove, reflect/regexp precondition) reachable from the entry points outside any recover is discharged by a rule or a reviewed table entry", floor)
	byClass := map[string]int{}
	sort.SliceStable(reached, func(i, j int) bool { return p.Pos(reached[i].Pos) < p.Pos(reached[j].Pos) })
	for _, s := range reached {
		byClass[s.Class]++
		o := r.Add(rule, s.Key(), p.Pos(s.Pos), s.Detail+": "+s.Shape+" in "+load.FuncName(s.Fn))
		key := o.Key
		if tolerated != nil {
			if why, ok := tolerated(s.Site); ok {
				o.OK(why)
				continue
			}
		}
		if why, ok := c.discharge(s.Site); ok {
			o.OK(why)
			continue
		}
		if why, ok := c.table[key]; ok {
			c.used[key] = true
			// machine-checked side condition of the reviewed reason, where one is coded
			if cond, has := tableSideConditions[key]; has {
				if okc, whyNot := cond(p); !okc {
					o.Fail("may panic: " + s.Detail + "; the reviewed table entry no longer applies: " + whyNot)
					continue
				}
				why += " [side condition checked]"
			}
			o.OK("table: " + why)
			continue
		}
		o.Fail("may panic: "+s.Detail+"; no discharge rule or table entry applies", append([]string{"call path from the entry point:"}, s.Path...)...)
	}
	r.Extra["sites_by_class"] = byClass
	if !c.regOK {
		r.Note("kind-registry invariant does not hold (%s): R-reg disabled", c.regWhy)
	}
	_ = strings.Join
}

func linInBounds(ins ssa.Instruction, nonneg func(ssa.Value) bool) (bool, int, int) {
	return lin.InBounds(ins, nonneg)
}

// reachSet lists the repository functions reachable from the entries.
func reachSet(p *load.Prog, entries []*ssa.Function) []*ssa.Function {
	g := cg.New(p, false)
	var ts []cg.Target
	for _, e := range entries {
		ts = append(ts, cg.Target{Fn: e})
	}
	r := g.ReachFrom(ts, cg.Options{})
	var out []*ssa.Function
	for f := range r.Funcs {
		out = append(out, f)
	}
	return out
}

// alwaysMatches: the pattern can match the empty string and contains no
// position assertion, so FindStringSubmatch never returns nil.
func alwaysMatches(pat string) bool {
	re, err := syntax.Parse(pat, syntax.Perl)
	if err != nil {
		return false
	}
	var hasAssert func(r *syntax.Regexp) bool
	hasAssert = func(r *syntax.Regexp) bool {
		switch r.Op {
		case syntax.OpBeginLine, syntax.OpEndLine, syntax.OpBeginText, syntax.OpEndText, syntax.OpWordBoundary, syntax.OpNoWordBoundary, syntax.OpNoMatch:
			return true
		}
		for _, s := range r.Sub {
			if hasAssert(s) {
				return true
			}
		}
		return false
	}
	return minLen(re) == 0 && !hasAssert(re)
}

// ruleSyncMap: assertion on a value loaded from a sync.Map that the
// repository only ever fills with values of the asserted type.
func (c *e1ctx) ruleSyncMap(s *e1.Site) (string, bool) {
	ta := s.Instr.(*ssa.TypeAssert)
	id, isKey := c.syncMapValue(ta.X, 0)
	if id == "" {
		return "", false
	}
	n := 0
	for _, fn := range c.p.Repo {
		for _, ci := range su.Calls(fn) {
			cc := ci.Common()
			if !(su.CalleeIs(cc, "sync", "Store") || su.CalleeIs(cc, "sync", "LoadOrStore")) {
				continue
			}
			if c.syncMapID(cc.Args[0], 0) != id {
				continue
			}
			n++
			arg := cc.Args[2]
			if isKey {
				arg = cc.Args[1]
			}
			var stored types.Type
			switch mi := arg.(type) {
			case *ssa.MakeInterface:
				stored = mi.X.Type()
			case *ssa.ChangeInterface:
				stored = mi.X.Type()
			case *ssa.Const:
				if mi.Value == nil && !isKey {
					continue // nil value stored: only keys are asserted on such maps
				}
				return "", false
			default:
				return "", false
			}
			if !types.Identical(stored, ta.AssertedType) {
				if iface, isIface := ta.AssertedType.Underlying().(*types.Interface); !isIface || !types.Implements(stored, iface) {
					return "", false
				}
			}
		}
	}
	if n == 0 {
		return "", false
	}
	what := "values"
	if isKey {
		what = "keys"
	}
	return fmt.Sprintf("R-syncmap: all %d stores into %s put %s of type %s", n, id, what, typeStrP(ta.AssertedType)), true
}

func typeStrP(t types.Type) string {
	return strings.ReplaceAll(t.String(), load.Module, "gedcom")
}

// syncMapID names a *sync.Map value: a package variable, a struct field, or
// the maps stored inside another identified map.
func (c *e1ctx) syncMapID(v ssa.Value, depth int) string {
	if depth > 4 {
		return ""
	}
	switch x := v.(type) {
	case *ssa.UnOp:
		if g, ok := x.X.(*ssa.Global); ok {
			return "var " + g.Name()
		}
		if fa, ok := x.X.(*ssa.FieldAddr); ok {
			return "field " + su.FieldOwner(fa).Obj().Name() + "." + su.FieldName(fa)
		}
	case *ssa.FieldAddr:
		if o := su.FieldOwner(x); o != nil {
			return "field " + o.Obj().Name() + "." + su.FieldName(x)
		}
	case *ssa.Global:
		return "var " + x.Name()
	case *ssa.TypeAssert:
		id, isKey := c.syncMapValue(x.X, depth+1)
		if id != "" && !isKey {
			return "values of " + id
		}
	case *ssa.Extract:
		if ta, ok := x.Tuple.(*ssa.TypeAssert); ok && x.Index == 0 {
			return c.syncMapID(ta, depth+1)
		}
	case *ssa.Alloc:
		// &sync.Map{} stored into an identified map: resolved through the store side below
	}
	return ""
}

// syncMapValue: v is a value (or key) obtained from an identified sync.Map by
// Load or as a Range callback parameter.
func (c *e1ctx) syncMapValue(v ssa.Value, depth int) (id string, isKey bool) {
	if depth > 4 {
		return "", false
	}
	switch x := v.(type) {
	case *ssa.Extract:
		if call, ok := x.Tuple.(*ssa.Call); ok && x.Index == 0 && su.CalleeIs(&call.Call, "sync", "Load") {
			return c.syncMapID(call.Call.Args[0], depth+1), false
		}
	case *ssa.Parameter:
		// parameter of a closure passed to Range
		fn := x.Parent()
		par := fn.Parent()
		if par == nil || len(fn.Params) != 2 {
			return "", false
		}
		for _, ci := range su.Calls(par) {
			cc := ci.Common()
			if !su.CalleeIs(cc, "sync", "Range") {
				continue
			}
			if mc, ok := cc.Args[1].(*ssa.MakeClosure); ok && mc.Fn == fn {
				return c.syncMapID(cc.Args[0], depth+1), x == fn.Params[0]
			}
		}
	}
	return "", false
}

// ruleArgConst: a panic reached only when `param != k` (k constant) in a
// function that every caller in the repository calls with the constant k.
func (c *e1ctx) ruleArgConst(s *e1.Site) (string, bool) {
	fn := s.Fn
	for _, b := range fn.Blocks {
		iff, ok := b.Instrs[len(b.Instrs)-1].(*ssa.If)
		if !ok {
			continue
		}
		bo, ok := iff.Cond.(*ssa.BinOp)
		if !ok || bo.Op != token.NEQ {
			continue
		}
		prm, ok := bo.X.(*ssa.Parameter)
		k, ok2 := su.ConstInt(bo.Y)
		if !ok || !ok2 {
			continue
		}
		if !(len(b.Succs[0].Preds) == 1 && b.Succs[0].Dominates(s.Instr.Block())) {
			continue
		}
		idx := -1
		for i, q := range fn.Params {
			if q == prm {
				idx = i
			}
		}
		n := 0
		for _, caller := range c.p.Repo {
			for _, ci := range su.Calls(caller) {
				if ci.Common().StaticCallee() != fn {
					continue
				}
				n++
				if v, isK := su.ConstInt(ci.Common().Args[idx]); !isK || v != k {
					return "", false
				}
			}
		}
		if n > 0 && !c.gAddrTaken(fn) {
			return fmt.Sprintf("R-argconst: panics only when parameter %s != %d; all %d callers pass the constant %d", prm.Name(), k, n, k), true
		}
	}
	return "", false
}

func (c *e1ctx) gAddrTaken(fn *ssa.Function) bool {
	for _, f := range c.p.Repo {
		for _, b := range f.Blocks {
			for _, ins := range b.Instrs {
				var ops []*ssa.Value
				for _, op := range ins.Operands(ops) {
					if op != nil && *op == ssa.Value(fn) {
						if ci, ok := ins.(ssa.CallInstruction); ok && ci.Common().Value == ssa.Value(fn) {
							continue
						}
						return true
					}
				}
			}
		}
	}
	return false
}

// ruleFieldIndex (R-fieldidx): x.S[x.I] where slice and index are two fields of the same object, under the true
// edge of `x.I < len(x.S)` with nothing in between that could change either field, and the index field is never
// negative: every store to it anywhere stores a non-negative constant, the field's own earlier value (saved and
// restored, possibly through a parameter whose every caller passes such a value) or that plus a positive constant.
func (c *e1ctx) ruleFieldIndex(s *e1.Site) (string, bool) {
	var sliceV, idxV ssa.Value
	switch x := s.Instr.(type) {
	case *ssa.IndexAddr:
		sliceV, idxV = x.X, x.Index
	case *ssa.Index:
		sliceV, idxV = x.X, x.Index
	default:
		return "", false
	}
	fieldLoad := func(v ssa.Value) (*ssa.FieldAddr, bool) {
		ld, ok := v.(*ssa.UnOp)
		if !ok || ld.Op != token.MUL {
			return nil, false
		}
		fa, ok := ld.X.(*ssa.FieldAddr)
		return fa, ok
	}
	sf, ok1 := fieldLoad(sliceV)
	xf, ok2 := fieldLoad(idxV)
	if !ok1 || !ok2 || sf.X != xf.X || sf.Field == xf.Field {
		return "", false
	}
	sameField := func(v ssa.Value, like *ssa.FieldAddr) bool {
		fa, ok := fieldLoad(v)
		return ok && fa.X == like.X && fa.Field == like.Field
	}
	// guard: a block ending in `if x.I < len(x.S)` whose true successor (single predecessor) dominates the index
	blk := s.Instr.Block()
	var guard *ssa.BasicBlock
	for _, b := range blk.Parent().Blocks {
		iff, ok := b.Instrs[len(b.Instrs)-1].(*ssa.If)
		if !ok {
			continue
		}
		bo, ok := iff.Cond.(*ssa.BinOp)
		if !ok || bo.Op != token.LSS || !sameField(bo.X, xf) {
			continue
		}
		lc, ok := bo.Y.(*ssa.Call)
		if !ok {
			continue
		}
		if bi, isB := lc.Call.Value.(*ssa.Builtin); !isB || bi.Name() != "len" || !sameField(lc.Call.Args[0], sf) {
			continue
		}
		ts := b.Succs[0]
		if len(ts.Preds) == 1 && (ts == blk || ts.Dominates(blk)) {
			guard = b
		}
	}
	if guard == nil {
		return "", false
	}
	// nothing that can change the fields between the test and the use: only the straight line guard -> true successor == index block is accepted
	if guard.Succs[0] != blk {
		return "", false
	}
	for _, ins := range blk.Instrs {
		if ins == s.Instr {
			break
		}
		switch ins.(type) {
		case *ssa.Store, *ssa.Call, *ssa.Go, *ssa.Defer, *ssa.MapUpdate, *ssa.Send:
			return "", false
		}
	}
	// the index field is never negative
	owner := su.FieldOwner(xf)
	if owner == nil {
		return "", false
	}
	fname := su.FieldName(xf)
	var nonNeg func(v ssa.Value, fn *ssa.Function, d int) bool
	nonNeg = func(v ssa.Value, fn *ssa.Function, d int) bool {
		if d > 5 {
			return false
		}
		if k, ok := su.ConstInt(v); ok {
			return k >= 0
		}
		switch x := v.(type) {
		case *ssa.UnOp:
			if fa, ok := fieldLoad(x); ok {
				if o := su.FieldOwner(fa); o != nil && o == owner && su.FieldName(fa) == fname {
					return true // the field's own value
				}
			}
			if al, ok := x.X.(*ssa.Alloc); ok && x.Op == token.MUL {
				all := true
				for _, ref := range *al.Referrers() {
					if st, ok := ref.(*ssa.Store); ok && st.Addr == ssa.Value(al) && !nonNeg(st.Val, fn, d+1) {
						all = false
					}
				}
				return all
			}
		case *ssa.BinOp:
			if x.Op == token.ADD {
				return nonNeg(x.X, fn, d+1) && nonNeg(x.Y, fn, d+1)
			}
		case *ssa.Phi:
			for _, e := range x.Edges {
				if e != ssa.Value(x) && !nonNeg(e, fn, d+1) {
					return false
				}
			}
			return true
		case *ssa.Parameter:
			idx := -1
			for i, q := range fn.Params {
				if q == x {
					idx = i
				}
			}
			n := 0
			for _, caller := range c.p.Repo {
				for _, call := range su.Calls(caller) {
					if call.Common().StaticCallee() != fn {
						continue
					}
					n++
					if idx >= len(call.Common().Args) || !nonNeg(call.Common().Args[idx], caller, d+1) {
						return false
					}
				}
			}
			return n > 0
		}
		return false
	}
	for _, fn := range c.p.Repo {
		for _, b := range fn.Blocks {
			for _, ins := range b.Instrs {
				st, ok := ins.(*ssa.Store)
				if !ok {
					continue
				}
				fa, ok := st.Addr.(*ssa.FieldAddr)
				if !ok {
					continue
				}
				if o := su.FieldOwner(fa); o == nil || o != owner || su.FieldName(fa) != fname {
					continue
				}
				if !nonNeg(st.Val, fn, 0) {
					return "", false
				}
			}
		}
	}
	return "R-fieldidx: under the true edge of " + owner.Obj().Name() + "." + fname + " < len(" + owner.Obj().Name() + "." + su.FieldName(sf) + ") with nothing in between; every store to " + fname + " stores a non-negative constant, its own earlier value or that plus a non-negative amount", true
}

// ruleNonEmpty (R-nonempty): s[0] of a string that is not empty on every path: a non-empty constant, a value under
// the failed side of an emptiness test (v == "", len(v) == 0), strings.ToLower/ToUpper/ToTitle of such a value (the
// case mappings never delete a character), or a phi of such values (each edge judged where it leaves its predecessor).
func ruleNonEmpty(s *e1.Site) (string, bool) {
	ix, ok := s.Instr.(*ssa.Index)
	if !ok {
		return "", false
	}
	if bt, isB := ix.X.Type().Underlying().(*types.Basic); !isB || bt.Info()&types.IsString == 0 {
		return "", false
	}
	if k, isK := su.ConstInt(ix.Index); !isK || k != 0 {
		return "", false
	}
	// nonEmptySide: the successor index of block b on which v is known to be non-empty, or -1
	nonEmptySide := func(b *ssa.BasicBlock, v ssa.Value) int {
		iff, ok := b.Instrs[len(b.Instrs)-1].(*ssa.If)
		if !ok {
			return -1
		}
		bo, ok := iff.Cond.(*ssa.BinOp)
		if !ok {
			return -1
		}
		if bo.X == v {
			if str, isK := su.ConstString(bo.Y); isK && str == "" {
				switch bo.Op {
				case token.NEQ:
					return 0
				case token.EQL:
					return 1
				}
			}
			return -1
		}
		if of, isLen := lenArgOf(bo.X); isLen && of == v {
			k, isK := su.ConstInt(bo.Y)
			if !isK {
				return -1
			}
			switch {
			case bo.Op == token.GTR && k >= 0, bo.Op == token.GEQ && k >= 1, bo.Op == token.NEQ && k == 0:
				return 0
			case bo.Op == token.EQL && k == 0, bo.Op == token.LSS && k == 1, bo.Op == token.LEQ && k == 0:
				return 1
			}
		}
		return -1
	}
	var nonEmpty func(v ssa.Value, at *ssa.BasicBlock, depth int) bool
	nonEmpty = func(v ssa.Value, at *ssa.BasicBlock, depth int) bool {
		if depth > 6 {
			return false
		}
		if str, isK := su.ConstString(v); isK {
			return str != ""
		}
		// a dominating emptiness test of v itself
		for _, b := range at.Parent().Blocks {
			side := nonEmptySide(b, v)
			if side < 0 {
				continue
			}
			t := b.Succs[side]
			if len(t.Preds) == 1 && (t == at || t.Dominates(at)) {
				return true
			}
		}
		switch x := v.(type) {
		case *ssa.Call:
			for _, n := range []string{"ToLower", "ToUpper", "ToTitle"} {
				if su.CalleeIs(&x.Call, "strings", n) {
					return nonEmpty(x.Call.Args[0], x.Block(), depth+1)
				}
			}
		case *ssa.Phi:
			for i, e := range x.Edges {
				pred := x.Block().Preds[i]
				if side := nonEmptySide(pred, e); side >= 0 && pred.Succs[side] == x.Block() {
					continue
				}
				if !nonEmpty(e, pred, depth+1) {
					return false
				}
			}
			return true
		}
		return false
	}
	if nonEmpty(ix.X, ix.Block(), 0) {
		return "R-nonempty: the string is not empty on any path to the index (emptiness test / non-empty constant / case mapping of a non-empty string)", true
	}
	return "", false
}

func lenArgOf(v ssa.Value) (ssa.Value, bool) {
	return lenArg(v)
}

// ruleSplitFirst (R-split): strings.Split(s, sep)[0] with a non-empty constant separator: Split returns at least
// one element for every s when the separator is not empty.
func ruleSplitFirst(s *e1.Site) (string, bool) {
	ia, ok := s.Instr.(*ssa.IndexAddr)
	if !ok {
		return "", false
	}
	if k, isK := su.ConstInt(ia.Index); !isK || k != 0 {
		return "", false
	}
	c, ok := ia.X.(*ssa.Call)
	if !ok || !su.CalleeIs(&c.Call, "strings", "Split") {
		return "", false
	}
	if sep, isK := su.ConstString(c.Call.Args[1]); !isK || sep == "" {
		return "", false
	}
	return "R-split: first element of strings.Split with a non-empty constant separator (never an empty slice)", true
}

// tagListGlobals: v is an element (range or index) of the slice returned by a repository function whose only return
// is a slice literal of loads of package-level tag variables; returns those variables.
func tagListGlobals(v ssa.Value) []*ssa.Global {
	ld, ok := su.Strip(v).(*ssa.UnOp)
	if !ok || ld.Op != token.MUL {
		return nil
	}
	ia, ok := ld.X.(*ssa.IndexAddr)
	if !ok {
		return nil
	}
	c, ok := ia.X.(*ssa.Call)
	if !ok {
		return nil
	}
	cal := c.Call.StaticCallee()
	if cal == nil || len(cal.Blocks) != 1 || len(c.Call.Args) != 0 {
		return nil
	}
	ret, ok := cal.Blocks[0].Instrs[len(cal.Blocks[0].Instrs)-1].(*ssa.Return)
	if !ok || len(ret.Results) != 1 {
		return nil
	}
	sl, ok := ret.Results[0].(*ssa.Slice)
	if !ok || sl.Low != nil || sl.High != nil {
		return nil
	}
	al, ok := sl.X.(*ssa.Alloc)
	if !ok {
		return nil
	}
	at, ok := al.Type().(*types.Pointer).Elem().Underlying().(*types.Array)
	if !ok {
		return nil
	}
	var out []*ssa.Global
	for _, ref := range *al.Referrers() {
		ea, ok := ref.(*ssa.IndexAddr)
		if !ok {
			continue
		}
		for _, r2 := range *ea.Referrers() {
			st, ok := r2.(*ssa.Store)
			if !ok || st.Addr != ssa.Value(ea) {
				continue
			}
			g := su.GlobalLoaded(st.Val)
			if g == nil {
				return nil
			}
			out = append(out, g)
		}
	}
	if int64(len(out)) != at.Len() {
		return nil
	}
	return out
}

// ruleEntityMap (R-entitymap): x.(*T) where x is the answer of entityMap.GetOrAssign: the map only ever receives what an
// assign callback returned (the one store is in GetOrAssign itself), and every assign callback in the repository
// returns a value of static type *T.
func (c *e1ctx) ruleEntityMap(s *e1.Site) (string, bool) {
	ta, ok := s.Instr.(*ssa.TypeAssert)
	if !ok {
		return "", false
	}
	call, ok := su.Strip(ta.X).(*ssa.Call)
	if !ok {
		return "", false
	}
	goa := call.Call.StaticCallee()
	if goa == nil || goa.Name() != "GetOrAssign" || !c.p.InRepo(goa) || goa.Signature.Recv() == nil {
		return "", false
	}
	mapT := goa.Signature.Recv().Type()
	// the only store into a map of that type is the one in GetOrAssign, storing the callback's answer
	for _, fn := range c.p.Repo {
		for _, b := range fn.Blocks {
			for _, ins := range b.Instrs {
				mu, ok := ins.(*ssa.MapUpdate)
				if !ok || !types.Identical(mu.Map.Type(), mapT) {
					continue
				}
				if fn != goa {
					return "", false
				}
				v, isCall := mu.Value.(*ssa.Call)
				if !isCall || v.Call.Value != ssa.Value(goa.Params[len(goa.Params)-1]) {
					return "", false
				}
			}
		}
	}
	n := 0
	for _, fn := range c.p.Repo {
		for _, cs := range su.CallsTo(fn, goa) {
			n++
			var clo *ssa.Function
			switch x := cs.Call.Args[len(cs.Call.Args)-1].(type) {
			case *ssa.MakeClosure:
				clo, _ = x.Fn.(*ssa.Function)
			case *ssa.Function:
				clo = x
			}
			if clo == nil {
				return "", false
			}
			for _, b := range clo.Blocks {
				ret, ok := b.Instrs[len(b.Instrs)-1].(*ssa.Return)
				if !ok {
					continue
				}
				for _, rv := range ret.Results {
					mi, ok := rv.(*ssa.MakeInterface)
					if !ok || !types.Identical(mi.X.Type(), ta.AssertedType) {
						return "", false
					}
				}
			}
		}
	}
	if n == 0 {
		return "", false
	}
	return fmt.Sprintf("R-entitymap: the entity map is only filled by GetOrAssign with what its assign callback returns, and all %d callback(s) return a %s", n, ta.AssertedType.String()), true
}

// ruleFieldName (R-fieldname): name[0] where name is reflect.StructField.Name of reflect.Type.Field(i): every field of a
// Go struct type has a non-empty name (embedded fields are named after their type, blank fields are named "_").
func ruleFieldName(s *e1.Site) (string, bool) {
	ix, ok := s.Instr.(*ssa.Index)
	if !ok {
		return "", false
	}
	if k, isK := su.ConstInt(ix.Index); !isK || k != 0 {
		return "", false
	}
	isFieldCall := func(v ssa.Value) bool {
		c, ok := v.(*ssa.Call)
		if !ok {
			return false
		}
		if c.Call.IsInvoke() {
			return c.Call.Method.Name() == "Field" && c.Call.Value.Type().String() == "reflect.Type"
		}
		return su.CalleeIs(&c.Call, "reflect", "Field")
	}
	v := ix.X
	for d := 0; d < 6; d++ {
		switch x := v.(type) {
		case *ssa.Field:
			st, ok := x.X.Type().Underlying().(*types.Struct)
			if !ok || st.Field(x.Field).Name() != "Name" || x.X.Type().String() != "reflect.StructField" {
				return "", false
			}
			if isFieldCall(x.X) {
				return "R-fieldname: the Name of reflect.Type.Field(i); a struct field always has a non-empty name", true
			}
			return "", false
		case *ssa.UnOp:
			if x.Op != token.MUL {
				return "", false
			}
			fa, ok := x.X.(*ssa.FieldAddr)
			if !ok || su.FieldName(fa) != "Name" {
				return "", false
			}
			al, ok := fa.X.(*ssa.Alloc)
			if !ok || al.Type().(*types.Pointer).Elem().String() != "reflect.StructField" {
				return "", false
			}
			n := 0
			good := true
			for _, ref := range *al.Referrers() {
				if st, ok := ref.(*ssa.Store); ok && st.Addr == ssa.Value(al) {
					n++
					if !isFieldCall(st.Val) {
						good = false
					}
				}
			}
			if n >= 1 && good {
				return "R-fieldname: the Name of reflect.Type.Field(i); a struct field always has a non-empty name", true
			}
			return "", false
		default:
			return "", false
		}
	}
	return "", false
}

// ruleIndexOf (R-indexof): s[i] where i is the answer of a search helper of the repository - every return of the
// helper is a negative constant or a loop counter that the helper's own loop condition keeps below len(P) of one of
// its parameters -, the helper was handed the very slice that is indexed, and the index is used only where a
// dominating test excluded the negative answer (i >= 0, i != -1, `if i < 0 { return }`).
func (c *e1ctx) ruleIndexOf(s *e1.Site) (string, bool) {
	var sl, idx ssa.Value
	switch x := s.Instr.(type) {
	case *ssa.IndexAddr:
		sl, idx = x.X, x.Index
	case *ssa.Index:
		sl, idx = x.X, x.Index
	default:
		return "", false
	}
	call, ok := idx.(*ssa.Call)
	if !ok {
		return "", false
	}
	h := call.Call.StaticCallee()
	if h == nil || len(h.Blocks) == 0 || !c.p.InRepo(h) || h.Signature.Results().Len() != 1 {
		return "", false
	}
	// which parameter bounds the returned counter
	var bound *ssa.Parameter
	for _, b := range h.Blocks {
		ret, isRet := b.Instrs[len(b.Instrs)-1].(*ssa.Return)
		if !isRet {
			continue
		}
		v := ret.Results[0]
		if k, isK := su.ConstInt(v); isK {
			if k >= 0 {
				return "", false
			}
			continue
		}
		// v < len(P) on the true edge of a dominating loop test
		found := false
		for d := b.Idom(); d != nil; d = d.Idom() {
			iff, isIf := d.Instrs[len(d.Instrs)-1].(*ssa.If)
			if !isIf {
				continue
			}
			bo, isBo := iff.Cond.(*ssa.BinOp)
			if !isBo || bo.Op != token.LSS || bo.X != v {
				continue
			}
			if !(d.Succs[0] == b || d.Succs[0].Dominates(b)) || len(d.Succs[0].Preds) != 1 {
				continue
			}
			of, isLen := lenArg(bo.Y)
			if !isLen {
				continue
			}
			prm, isPrm := of.(*ssa.Parameter)
			if !isPrm || (bound != nil && bound != prm) {
				continue
			}
			// the counter never goes down
			if monotoneCounter(v) {
				bound, found = prm, true
			}
		}
		if !found {
			return "", false
		}
	}
	if bound == nil {
		return "", false
	}
	pi := -1
	for i, q := range h.Params {
		if q == bound {
			pi = i
		}
	}
	if pi < 0 || pi >= len(call.Call.Args) {
		return "", false
	}
	if su.Strip(call.Call.Args[pi]) != su.Strip(sl) && !madeWithLenOf(sl, call.Call.Args[pi]) {
		return "", false
	}
	env := &descEnv{p: c.p, params: map[*ssa.Parameter]string{}, noInline: true}
	d := env.desc(call, 0)
	if !env.holdsAny(s.Instr.Block(), func(f cfact) bool {
		return !f.val && (f.atom == d+"<0" || f.atom == "-1=="+d || f.atom == d+"==-1")
	}) {
		return "", false
	}
	return "R-indexof: the index is the answer of the search helper " + load.FuncName(h) + " over this very slice (a negative constant or a counter below len), used after the negative answer was excluded", true
}

// madeWithLenOf: x is make([]T, len(s)) for this very s (a slice kept parallel to s; its length never changes
// because the SSA value is the slice header the make produced).
func madeWithLenOf(x, s ssa.Value) bool {
	mk, ok := su.Strip(x).(*ssa.MakeSlice)
	if !ok {
		return false
	}
	of, isLen := lenArg(mk.Len)
	return isLen && su.Strip(of) == su.Strip(s)
}

// ruleParallel (R-parallel): X[i] in a helper where X is a parameter, i is a counter the helper's own loop keeps
// below len(P) of another parameter P (or the index of a range over P), and every static caller hands over an X
// that was made with the length of the P it hands over (make([]T, len(p))): the two slices are parallel.
func (c *e1ctx) ruleParallel(s *e1.Site) (string, bool) {
	var sl, idx ssa.Value
	switch x := s.Instr.(type) {
	case *ssa.IndexAddr:
		sl, idx = x.X, x.Index
	case *ssa.Index:
		sl, idx = x.X, x.Index
	default:
		return "", false
	}
	fn := s.Instr.Parent()
	xp, ok := su.Strip(sl).(*ssa.Parameter)
	if !ok || xp.Parent() != fn {
		return "", false
	}
	// the bound: a dominating `idx < len(P)` on the true edge, P a parameter
	var bound *ssa.Parameter
	blk := s.Instr.Block()
	for d := blk; d != nil; d = d.Idom() {
		iff, isIf := d.Instrs[len(d.Instrs)-1].(*ssa.If)
		if !isIf || d == blk {
			continue
		}
		bo, isBo := iff.Cond.(*ssa.BinOp)
		if !isBo || bo.Op != token.LSS || bo.X != idx {
			continue
		}
		if !(d.Succs[0] == blk || d.Succs[0].Dominates(blk)) || len(d.Succs[0].Preds) != 1 {
			continue
		}
		of, isLen := lenArg(bo.Y)
		if !isLen {
			continue
		}
		if prm, isPrm := su.Strip(of).(*ssa.Parameter); isPrm && prm.Parent() == fn && prm != xp {
			bound = prm
		}
	}
	if bound == nil {
		return "", false
	}
	// the counter starts at a non-negative constant and only goes up
	if ph, isPhi := idx.(*ssa.Phi); isPhi {
		for _, e := range ph.Edges {
			if k, isK := su.ConstInt(e); isK {
				if k < 0 {
					return "", false
				}
				continue
			}
			add, isAdd := e.(*ssa.BinOp)
			if !isAdd || add.Op != token.ADD || add.X != ssa.Value(ph) {
				return "", false
			}
			if k, isK := su.ConstInt(add.Y); !isK || k <= 0 {
				return "", false
			}
		}
	} else if add, isAdd := idx.(*ssa.BinOp); isAdd && add.Op == token.ADD {
		// the rotated form of a range loop: index = phi + 1 with phi starting at -1
		ph, isPhi := add.X.(*ssa.Phi)
		k, isK := su.ConstInt(add.Y)
		if !isPhi || !isK || k != 1 {
			return "", false
		}
		for _, e := range ph.Edges {
			if k0, isK0 := su.ConstInt(e); isK0 {
				if k0 < -1 {
					return "", false
				}
				continue
			}
			if e != ssa.Value(add) {
				return "", false
			}
		}
	} else {
		return "", false
	}
	xi, bi := -1, -1
	for i, q := range fn.Params {
		if q == xp {
			xi = i
		}
		if q == bound {
			bi = i
		}
	}
	n := 0
	for _, caller := range c.p.Repo {
		for _, cs := range su.CallsTo(caller, fn) {
			n++
			if xi >= len(cs.Call.Args) || bi >= len(cs.Call.Args) || !madeWithLenOf(cs.Call.Args[xi], cs.Call.Args[bi]) {
				return "", false
			}
		}
	}
	if n == 0 {
		return "", false
	}
	return fmt.Sprintf("R-parallel: the index is a counter below len(%s) and every one of the %d caller(s) hands over a %s made with that length", bound.Name(), n, xp.Name()), true
}

// monotoneCounter: v is a loop counter that starts at a non-negative constant and only goes up - a phi of such a
// constant and itself plus a positive constant, or the rotated form of a range loop (phi + 1 with the phi starting
// at -1).
func monotoneCounter(v ssa.Value) bool {
	if ph, isPhi := v.(*ssa.Phi); isPhi {
		for _, e := range ph.Edges {
			if k, isK := su.ConstInt(e); isK {
				if k < 0 {
					return false
				}
				continue
			}
			add, isAdd := e.(*ssa.BinOp)
			if !isAdd || add.Op != token.ADD || add.X != ssa.Value(ph) {
				return false
			}
			if k, isK := su.ConstInt(add.Y); !isK || k <= 0 {
				return false
			}
		}
		return true
	}
	add, isAdd := v.(*ssa.BinOp)
	if !isAdd || add.Op != token.ADD {
		return false
	}
	ph, isPhi := add.X.(*ssa.Phi)
	k, isK := su.ConstInt(add.Y)
	if !isPhi || !isK || k != 1 {
		return false
	}
	for _, e := range ph.Edges {
		if k0, isK0 := su.ConstInt(e); isK0 {
			if k0 < -1 {
				return false
			}
			continue
		}
		if e != ssa.Value(add) {
			return false
		}
	}
	return true
}

// ruleRowLiteral (R-rows): rows[i][k] with a constant k where `rows` is a table built in this function (or the
// function enclosing this closure) only by appending slice literals, each with more than k elements; nothing else of
// the table's type is produced there (no make, no call result, no parameter).
func (c *e1ctx) ruleRowLiteral(s *e1.Site) (string, bool) {
	var sl, idx ssa.Value
	switch x := s.Instr.(type) {
	case *ssa.IndexAddr:
		sl, idx = x.X, x.Index
	case *ssa.Index:
		sl, idx = x.X, x.Index
	default:
		return "", false
	}
	k, isK := su.ConstInt(idx)
	if !isK || k < 0 {
		return "", false
	}
	// the row: an element of a table
	ld, ok := sl.(*ssa.UnOp)
	if !ok || ld.Op != token.MUL {
		return "", false
	}
	ia, ok := ld.X.(*ssa.IndexAddr)
	if !ok {
		return "", false
	}
	tt := ia.X.Type()
	if _, isSl := tt.Underlying().(*types.Slice); !isSl {
		return "", false
	}
	outer := s.Instr.Parent()
	for outer.Parent() != nil {
		outer = outer.Parent()
	}
	for _, prm := range outer.Params {
		if types.Identical(prm.Type(), tt) {
			return "", false
		}
	}
	minRow := int64(-1)
	nApp := 0
	for _, fn := range append([]*ssa.Function{outer}, allAnon(outer)...) {
		for _, b := range fn.Blocks {
			for _, ins := range b.Instrs {
				v, isVal := ins.(ssa.Value)
				if !isVal || !types.Identical(v.Type(), tt) {
					continue
				}
				switch x := ins.(type) {
				case *ssa.Phi, *ssa.UnOp, *ssa.Slice:
					continue // moves of the table
				case *ssa.Call:
					bi, isB := x.Call.Value.(*ssa.Builtin)
					if !isB || bi.Name() != "append" || len(x.Call.Args) != 2 {
						return "", false
					}
					// the appended rows: slice of a fresh array whose elements are slice literals
					vs, ok := x.Call.Args[1].(*ssa.Slice)
					if !ok {
						return "", false
					}
					arr, ok := vs.X.(*ssa.Alloc)
					if !ok {
						return "", false
					}
					rows := 0
					for _, ref := range *arr.Referrers() {
						ea, ok := ref.(*ssa.IndexAddr)
						if !ok {
							continue
						}
						for _, r2 := range *ea.Referrers() {
							st, ok := r2.(*ssa.Store)
							if !ok || st.Addr != ssa.Value(ea) {
								continue
							}
							n, ok := rowLiteralLen(c.p, st.Val, 0)
							if !ok {
								return "", false
							}
							rows++
							if minRow < 0 || n < minRow {
								minRow = n
							}
						}
					}
					if rows == 0 {
						return "", false
					}
					nApp++
				default:
					return "", false
				}
			}
		}
	}
	if nApp == 0 || minRow <= k {
		return "", false
	}
	return fmt.Sprintf("R-rows: the table is built only by appending slice literals of at least %d elements (%d append(s)); the constant index %d is inside every row", minRow, nApp, k), true
}

// rowLiteralLen: the value is a slice literal of n elements, or the result of a library helper whose every return is
// such a literal (the smallest n).
func rowLiteralLen(p *load.Prog, v ssa.Value, depth int) (int64, bool) {
	if rs, ok := v.(*ssa.Slice); ok && rs.Low == nil && rs.High == nil {
		if ra, ok := rs.X.(*ssa.Alloc); ok {
			if at, ok := ra.Type().(*types.Pointer).Elem().Underlying().(*types.Array); ok {
				return at.Len(), true
			}
		}
		return 0, false
	}
	if call, ok := v.(*ssa.Call); ok && depth < 2 {
		h := call.Call.StaticCallee()
		if h == nil || !p.InRepo(h) || len(h.Blocks) == 0 {
			return 0, false
		}
		min := int64(-1)
		for _, b := range h.Blocks {
			ret, isRet := b.Instrs[len(b.Instrs)-1].(*ssa.Return)
			if !isRet || len(ret.Results) != 1 {
				continue
			}
			n, ok := rowLiteralLen(p, ret.Results[0], depth+1)
			if !ok {
				return 0, false
			}
			if min < 0 || n < min {
				min = n
			}
		}
		return min, min >= 0
	}
	return 0, false
}

// ruleWrapper (R-wrapper): a reflect call with a precondition (Value.IsNil, ...) in an unexported helper that does
// nothing to its operand but forward one of its own parameters - `func isNilX(x I) bool { return reflect.ValueOf(x).IsNil() }`.
// The precondition is then a requirement on what the callers hand over, and the obligation belongs to them: it is
// discharged here only when every call site of the helper is a static call in a function for which the same
// obligation ("P4 <shape> in <caller>") has a reviewed table entry (with its coded side condition, if any, holding).
// A caller without such an entry leaves the site undischarged. The helper must not be used as a value.
func (c *e1ctx) ruleWrapper(s *e1.Site) (string, bool) {
	call, ok := s.Instr.(ssa.CallInstruction)
	if !ok {
		return "", false
	}
	cal := call.Common().StaticCallee()
	if cal == nil || cal.Signature.Recv() == nil || len(call.Common().Args) != 1 {
		return "", false
	}
	fn := s.Fn
	if fn.Parent() != nil || fn.Object() == nil || fn.Object().Exported() || fn.Signature.Recv() != nil {
		return "", false
	}
	vo, ok := call.Common().Args[0].(*ssa.Call)
	if !ok || !su.CalleeIs(&vo.Call, "reflect", "ValueOf") {
		return "", false
	}
	arg := vo.Call.Args[0]
	for {
		switch a := arg.(type) {
		case *ssa.MakeInterface:
			arg = a.X
			continue
		case *ssa.ChangeInterface:
			arg = a.X
			continue
		}
		break
	}
	par, ok := arg.(*ssa.Parameter)
	if !ok || par.Parent() != fn {
		return "", false
	}
	if c.gAddrTaken(fn) {
		return "", false
	}
	var callers []string
	seen := map[*ssa.Function]bool{}
	for _, f := range c.p.Repo {
		for _, b := range f.Blocks {
			for _, ins := range b.Instrs {
				ci, ok := ins.(ssa.CallInstruction)
				if !ok || ci.Common().StaticCallee() != fn {
					continue
				}
				if _, isCall := ins.(*ssa.Call); !isCall {
					return "", false // go / defer of the helper: not the plain forwarding this rule is about
				}
				if seen[f] {
					continue
				}
				seen[f] = true
				key := s.Class + " " + s.Shape + " in " + load.FuncName(f)
				if _, has := c.table[key]; !has {
					return "", false
				}
				if cond, has := tableSideConditions[key]; has {
					if okc, _ := cond(c.p); !okc {
						return "", false
					}
				}
				c.used[key] = true
				callers = append(callers, load.FuncName(f))
			}
		}
	}
	if len(callers) == 0 {
		return "", false
	}
	sort.Strings(callers)
	return fmt.Sprintf("R-wrapper: %s only forwards its parameter %s to the reflect call; the precondition is its callers', and each of the %d (%s) has a reviewed table entry for it: %s",
		fn.Name(), par.Name(), len(callers), strings.Join(callers, ", "), c.table[s.Class+" "+s.Shape+" in "+callers[0]]), true
}
