package props

import (
	"fmt"
	"go/token"
	"go/types"
	"sort"
	"strings"

	"gedverif/internal/load"
	"gedverif/internal/oblig"
	"gedverif/internal/su"

	"golang.org/x/tools/go/ssa"
)

// allElementLoops lists the element loops of fn over any slice value.
func allElementLoops(fn *ssa.Function) []elementLoop {
	var out []elementLoop
	seen := map[ssa.Value]bool{}
	for _, b := range fn.Blocks {
		for _, ins := range b.Instrs {
			c, ok := ins.(*ssa.Call)
			if !ok {
				continue
			}
			if of, isLen := lenArg(c); isLen && !seen[of] {
				seen[of] = true
				out = append(out, findElementLoops(fn, of)...)
			}
		}
	}
	return out
}

// c07PairSearch: the equality relations that match the children of two nodes
// as unordered collections (R07.f: never by position; R07.g: the search for a
// matching pair considers every left element).
func c07PairSearch(p *load.Prog, r *oblig.Run) {
	r.Rule("R07.f", "equality of nodes never pairs the children of the two sides by position (child order is irrelevant)", 5)
	r.Rule("R07.g", "a search for an equal pair among the children of two nodes tries every left child against the right children (no left child is skipped)", 2)
	var fns []*ssa.Function
	for _, fn := range p.Repo {
		if pkgPathOf(fn) != load.PkgRoot || len(fn.Blocks) == 0 || fn.Synthetic != "" {
			continue
		}
		if fn.Name() == "Equals" || fn.Name() == "DeepEqual" || fn.Name() == "DeepEqualNodes" {
			fns = append(fns, fn)
			continue
		}
		// helpers the equality relations delegate a pair search to: called from an equality relation and comparing
		// elements with Equals / DeepEqual themselves
		if calledFromEquality(p, fn) && comparesElements(fn) {
			fns = append(fns, fn)
		}
	}
	sort.Slice(fns, func(i, j int) bool { return fns[i].String() < fns[j].String() })
	isNilFn := p.Func(load.PkgRoot, "IsNil")
	for _, fn := range fns {
		loops := allElementLoops(fn)
		// R07.f
		bad := ""
		for _, b := range fn.Blocks {
			for _, ins := range b.Instrs {
				ia, ok := ins.(*ssa.IndexAddr)
				if !ok {
					continue
				}
				// bookkeeping slices (flags, counters) kept alongside a list are not a second list of nodes
				if sl, isSl := ia.X.Type().Underlying().(*types.Slice); isSl {
					if _, isBasic := sl.Elem().Underlying().(*types.Basic); isBasic {
						continue
					}
				}
				for _, l := range loops {
					if ia.Index == l.cur && ia.X != l.slice {
						bad = fmt.Sprintf("the element at the position of the loop over %s is taken from the other list %s at %s", l.slice.Name(), ia.X.Name(), p.Pos(ia.Pos()))
					}
				}
			}
		}
		o := r.Add("R07.f", load.FuncName(fn), p.Pos(fn.Pos()), "positional pairing of two lists")
		if bad != "" {
			o.Fail(load.FuncName(fn) + " pairs the elements of two lists by position (" + bad + "): two nodes whose children are equal as a collection but written in a different order are no longer equal - DeepEqual must ignore the order of children")
		} else {
			o.OK(fmt.Sprintf("%d element loop(s), no element of another list taken at a loop's position", len(loops)))
		}
		// R07.g
		for _, outer := range loops {
			for _, inner := range loops {
				if inner.header == outer.header || !loopBlock(inner.header, outer.header) {
					continue
				}
				// the inner body compares the two elements
				compares := false
				for _, c := range su.Calls(fn) {
					cc := c.Common()
					name := ""
					if cc.IsInvoke() {
						name = cc.Method.Name()
					} else if cal := cc.StaticCallee(); cal != nil {
						name = cal.Name()
					}
					if name != "Equals" && name != "DeepEqual" {
						continue
					}
					var operands []ssa.Value
					if cc.IsInvoke() {
						operands = append(operands, cc.Value)
					}
					operands = append(operands, cc.Args...)
					hasO, hasI := false, false
					for _, a := range operands {
						if outer.elementOf(a) {
							hasO = true
						}
						if inner.elementOf(a) {
							hasI = true
						}
					}
					if hasO && hasI {
						compares = true
					}
				}
				if !compares {
					continue
				}
				key := fmt.Sprintf("pair search in %s", load.FuncName(fn))
				ob := r.Add("R07.g", key, p.Pos(outer.header.Instrs[len(outer.header.Instrs)-1].Pos()), "every left element reaches the comparison loop")
				paths, capped := simplePaths(outer.body, map[*ssa.BasicBlock]bool{outer.header: true}, 2000)
				if capped {
					ob.Unknown("more than 2000 paths")
					continue
				}
				skip := ""
				for _, path := range paths {
					if path[len(path)-1] != outer.header {
						continue
					}
					full := append([]*ssa.BasicBlock{outer.header}, path...)
					if !pathConstFeasible(full) {
						continue
					}
					reached, nilGuard := false, false
					for i, b := range path[:len(path)-1] {
						if b == inner.header {
							reached = true
						}
						if iff, ok := b.Instrs[len(b.Instrs)-1].(*ssa.If); ok && i+1 < len(path) && path[i+1] == b.Succs[0] {
							switch c := iff.Cond.(type) {
							case *ssa.Call:
								if isNilFn != nil && c.Call.StaticCallee() == isNilFn && outer.elementOf(c.Call.Args[0]) {
									nilGuard = true
								}
							case *ssa.BinOp:
								if k, isK := c.Y.(*ssa.Const); isK && k.Value == nil && c.Op == token.EQL && outer.elementOf(c.X) {
									nilGuard = true
								}
							}
						}
					}
					if !reached && !nilGuard {
						skip = pathDesc(p, path)
					}
				}
				// the lists searched are the lists the emptiness fallback looks at: a search over a filtered copy of a list
				// whose unfiltered length is tested elsewhere leaves a gap (elements that exist but are never compared)
				for _, lst := range []ssa.Value{outer.slice, inner.slice} {
					c, isCall := lst.(*ssa.Call)
					if !isCall {
						continue
					}
					var srcs []ssa.Value
					if c.Call.IsInvoke() {
						srcs = append(srcs, c.Call.Value)
					}
					srcs = append(srcs, c.Call.Args...)
					for _, src := range srcs {
						if _, isSlice := src.Type().Underlying().(*types.Slice); !isSlice {
							continue
						}
						for _, b := range fn.Blocks {
							for _, ins := range b.Instrs {
								bo, ok := ins.(*ssa.BinOp)
								if !ok {
									continue
								}
								if of, isLen := lenArg(bo.X); isLen && of == src {
									if k, isK := su.ConstInt(bo.Y); isK && k == 0 && skip == "" {
										skip = "FILTER:" + p.Pos(bo.Pos())
									}
								}
							}
						}
					}
				}
				if strings.HasPrefix(skip, "FILTER:") {
					ob.Fail("in " + load.FuncName(fn) + " the search for an equal pair runs over a filtered copy of a list whose unfiltered length is what the no-children fallback tests (" + strings.TrimPrefix(skip, "FILTER:") + "): a node whose children are all filtered out has children, so the fallback does not apply, and none of them is compared - it is not equal to its own copy")
				} else if skip != "" {
					ob.Fail("in " + load.FuncName(fn) + " a left element can be passed over on the path " + skip + " without being compared with the right elements: when every left element is passed over (and the lists are not empty, so the no-children fallback does not apply) the node is not even equal to its own copy")
				} else {
					ob.OK("every iteration reaches the loop over the right elements")
				}
			}
		}
	}
}

// c07CopyWalksAll (R07.h): the callback DeepCopy hands to Filter keeps every
// node (it returns the copy, never nil) and always asks for the children to be
// traversed - otherwise a subtree is missing from every copy.
func c07CopyWalksAll(p *load.Prog, r *oblig.Run) {
	r.Rule("R07.h", "the callback of DeepCopy asks for the children of every node to be traversed (second result true on every return)", 1)
	dc := p.Func(load.PkgRoot, "DeepCopy")
	if dc == nil {
		r.Add("R07.h", "anchor", "-", "anchor").Unknown("DeepCopy not found")
		return
	}
	n := 0
	for _, an := range copyCallbacks(p, dc) {
		if an.Signature.Results().Len() != 2 {
			continue
		}
		for _, b := range an.Blocks {
			ret, ok := b.Instrs[len(b.Instrs)-1].(*ssa.Return)
			if !ok || len(ret.Results) != 2 {
				continue
			}
			n++
			o := r.Add("R07.h", fmt.Sprintf("return %d of the DeepCopy callback", n), p.Pos(ret.Pos()), "traverseChildren result")
			k, isK := ret.Results[1].(*ssa.Const)
			switch {
			case !isK:
				o.Fail("the callback of DeepCopy decides at run time whether the children of a node are copied: for the nodes it answers false for, everything below them is missing from every copy (and from every merge)")
			case k.Value == nil || k.Value.ExactString() != "true":
				o.Fail("the callback of DeepCopy returns traverseChildren=false at " + p.Pos(ret.Pos()) + ": everything below such a node is missing from every copy (and from every merge, which is built from copies)")
			default:
				o.OK("true")
			}
		}
	}
	if n == 0 {
		r.Add("R07.h", "callback", p.Pos(dc.Pos()), "callback of DeepCopy").Unknown("DeepCopy has no callback with two results")
	}
}

// calledFromEquality: fn is called (statically) from a function named Equals, DeepEqual or DeepEqualNodes.
func calledFromEquality(p *load.Prog, fn *ssa.Function) bool {
	for _, caller := range p.Repo {
		if pkgPathOf(caller) != load.PkgRoot {
			continue
		}
		if n := caller.Name(); n != "Equals" && n != "DeepEqual" && n != "DeepEqualNodes" {
			continue
		}
		if len(su.CallsTo(caller, fn)) > 0 {
			return true
		}
	}
	return false
}

// comparesElements: fn calls Equals or DeepEqual.
func comparesElements(fn *ssa.Function) bool {
	for _, c := range su.Calls(fn) {
		cc := c.Common()
		name := ""
		if cc.IsInvoke() {
			name = cc.Method.Name()
		} else if cal := cc.StaticCallee(); cal != nil {
			name = cal.Name()
		}
		if name == "Equals" || name == "DeepEqual" {
			return true
		}
	}
	return false
}

// copyCallbacks: the functions DeepCopy can hand to Filter as its callback: its function literals, or the method
// behind a bound method value (copier.copyNode).
func copyCallbacks(p *load.Prog, dc *ssa.Function) []*ssa.Function {
	out := append([]*ssa.Function{}, dc.AnonFuncs...)
	for _, b0 := range dc.Blocks {
		for _, i0 := range b0.Instrs {
			mc, ok := i0.(*ssa.MakeClosure)
			if !ok {
				continue
			}
			fn, _ := mc.Fn.(*ssa.Function)
			if fn == nil || fn.Synthetic == "" {
				continue
			}
			// bound method wrapper: it calls the method with the bound receiver
			found := false
			for _, ic := range su.Calls(fn) {
				if m := ic.Common().StaticCallee(); m != nil && p.IsRepoFunc(m) && len(m.Blocks) > 0 {
					out = append(out, m)
					found = true
				}
			}
			if !found {
				if obj, isFunc := fn.Object().(*types.Func); isFunc {
					if m := p.SSA.FuncValue(obj); m != nil && len(m.Blocks) > 0 {
						out = append(out, m)
					}
				}
			}
		}
	}
	return out
}

// c07CopyThroughFilter (R07.i): every node DeepCopy returns was made by Filter (the kind registry with the destination
// document and the tracked family) - no path hands out a node made another way.
func c07CopyThroughFilter(p *load.Prog, r *oblig.Run) {
	r.Rule("R07.i", "everything DeepCopy returns was made by Filter with the destination document", 1)
	dc := p.Func(load.PkgRoot, "DeepCopy")
	fl := p.Func(load.PkgRoot, "Filter")
	if dc == nil || fl == nil {
		r.Add("R07.i", "anchor", "-", "anchor").Unknown("DeepCopy / Filter not found")
		return
	}
	n := 0
	for _, b := range dc.Blocks {
		ret, ok := b.Instrs[len(b.Instrs)-1].(*ssa.Return)
		if !ok || len(ret.Results) != 1 {
			continue
		}
		vals := []ssa.Value{ret.Results[0]}
		if ph, isPhi := ret.Results[0].(*ssa.Phi); isPhi {
			vals = ph.Edges
		}
		for _, v := range vals {
			n++
			k, isK := v.(*ssa.Const)
			c, isCall := v.(*ssa.Call)
			isDoc := func(a ssa.Value) bool {
				if a == ssa.Value(dc.Params[1]) {
					return true
				}
				// the parameter's cell (captured by the callback)
				if ld, ok := a.(*ssa.UnOp); ok && ld.Op == token.MUL {
					if al, ok := ld.X.(*ssa.Alloc); ok {
						for _, ref := range *al.Referrers() {
							if st, ok := ref.(*ssa.Store); ok && st.Addr == ssa.Value(al) && st.Val == ssa.Value(dc.Params[1]) {
								return true
							}
						}
					}
				}
				return false
			}
			good := (isK && k.Value == nil) || (isCall && c.Call.StaticCallee() == fl && len(c.Call.Args) >= 2 && isDoc(c.Call.Args[1]))
			r.Check("R07.i", fmt.Sprintf("result %d of DeepCopy", n), p.Pos(ret.Pos()), "origin of the returned node", good, "nil or Filter(node, document, ...)",
				"DeepCopy returns "+v.String()+", a node that was not made by Filter with the destination document: it is built without the document and the family the copy belongs to - a HUSB/WIFE/CHIL leaf cannot be created at all (panic), an INDI or FAM record comes back as a plain node attached to the source document")
		}
	}
	if n == 0 {
		r.Add("R07.i", "results", p.Pos(dc.Pos()), "results of DeepCopy").Unknown("DeepCopy has no return")
	}
}

// c07Bookkeeping (R07.j): DeepEqualNodes pairs every left child with a right child that was not used yet; "used" is
// recorded per POSITION of the right list. Recording it per node (a set keyed by the node) treats every occurrence of a
// node that appears twice among the siblings as used after its first pairing.
func c07Bookkeeping(p *load.Prog, r *oblig.Run) {
	r.Rule("R07.j", "DeepEqualNodes records which right children were paired by position, not by node", 1)
	den := p.Func(load.PkgRoot, "DeepEqualNodes")
	if den == nil {
		r.Add("R07.j", "anchor", "-", "anchor").Unknown("DeepEqualNodes not found")
		return
	}
	fns := []*ssa.Function{den}
	for _, c := range su.Calls(den) {
		if h := c.Common().StaticCallee(); h != nil && h != den && pkgPathOf(h) == load.PkgRoot && len(h.Blocks) > 0 && comparesElements(h) && h.Name() != "DeepEqual" {
			fns = append(fns, h)
		}
	}
	o := r.Add("R07.j", "used-marks in DeepEqualNodes", p.Pos(den.Pos()), "what the test for an already paired right child is keyed by")
	indexKeyed, valueKeyed := false, ""
	for _, fn := range fns {
		for _, l := range allElementLoops(fn) {
			// the loops whose element is handed to DeepEqual
			compares := false
			for _, c := range su.Calls(fn) {
				cc := c.Common()
				if cal := cc.StaticCallee(); cal != nil && cal.Name() == "DeepEqual" {
					for _, a := range cc.Args {
						if l.elementOf(a) {
							compares = true
						}
					}
				}
			}
			if !compares {
				continue
			}
			for _, b := range fn.Blocks {
				if b != l.header && !loopBlock(b, l.header) {
					continue
				}
				for _, ins := range b.Instrs {
					switch x := ins.(type) {
					case *ssa.Lookup:
						if x.Index == l.cur {
							indexKeyed = true
						}
					case *ssa.IndexAddr:
						if x.Index == l.cur && x.X != l.slice {
							if sl, ok := x.X.Type().Underlying().(*types.Slice); ok {
								if _, isBasic := sl.Elem().Underlying().(*types.Basic); isBasic {
									indexKeyed = true
								}
							}
						}
					case *ssa.Call:
						cal := x.Call.StaticCallee()
						if cal == nil || cal.Name() == "DeepEqual" || cal.Name() == "Equals" {
							continue
						}
						if n := strings.ToLower(cal.Name()); n == "has" || n == "contains" || strings.HasPrefix(n, "has") {
							for _, a := range x.Call.Args {
								if l.elementOf(a) {
									valueKeyed = p.Pos(x.Pos())
								}
							}
						}
					}
				}
			}
		}
	}
	switch {
	case valueKeyed != "":
		o.Fail("the test whether a right child was already paired asks a set for the node itself (" + valueKeyed + "): when the same node object occurs twice among the siblings, pairing its first occurrence marks both as used - a tree is then not deep-equal to itself or to its copy")
	case indexKeyed:
		o.OK("keyed by the position in the right list")
	default:
		o.Unknown("cannot find how DeepEqualNodes remembers which right children were paired")
	}
}

// c07EqualityReadsOnly (R07.l): comparing leaves both sides as they were. DeepEqual, DeepEqualNodes and every Equals
// method of the root package (and the repository helpers DeepEqualNodes calls directly) contain no store, and no map
// update, whose address is derived from one of the function's parameters - through element and field addresses,
// re-slices, loads and the results of calls on them (`right.Nodes()` hands out the node's own children slice). Stores
// into locals and into maps or slices the function made itself are bookkeeping. A search that "moves matched children
// out of the way" inside the received slice re-orders the children of the right operand: after DeepEqual(copy, source)
// the source serialises differently.
func c07EqualityReadsOnly(p *load.Prog, r *oblig.Run) {
	r.Rule("R07.l", "equality functions write nothing that is reachable from their operands", 10)
	var fns []*ssa.Function
	seen := map[*ssa.Function]bool{}
	addFn := func(f *ssa.Function) {
		if f != nil && !seen[f] && len(f.Blocks) > 0 && f.Synthetic == "" {
			seen[f] = true
			fns = append(fns, f)
		}
	}
	den := p.Func(load.PkgRoot, "DeepEqualNodes")
	addFn(p.Func(load.PkgRoot, "DeepEqual"))
	addFn(den)
	if den != nil {
		for _, c := range su.Calls(den) {
			if h := c.Common().StaticCallee(); h != nil && pkgPathOf(h) == load.PkgRoot {
				addFn(h)
			}
		}
	}
	for _, fn := range p.Repo {
		if fn.Name() == "Equals" && fn.Signature.Recv() != nil && pkgPathOf(fn) == load.PkgRoot {
			addFn(fn)
		}
	}
	if den == nil {
		r.Add("R07.l", "anchor", "-", "anchor").Unknown("DeepEqualNodes not found")
	}
	clean, dirty, helpers := map[*ssa.Parameter]bool{}, map[*ssa.Parameter]bool{}, map[*ssa.Function]bool{}
	var fromParam func(v ssa.Value, d int) (string, bool)
	fromParam = func(v ssa.Value, d int) (string, bool) {
		if d > 12 {
			return "", false
		}
		switch x := v.(type) {
		case *ssa.Parameter:
			if clean[x] {
				return "", false // a helper's parameter that receives only the caller's own bookkeeping
			}
			return x.Name(), true
		case *ssa.IndexAddr:
			return fromParam(x.X, d+1)
		case *ssa.FieldAddr:
			return fromParam(x.X, d+1)
		case *ssa.Slice:
			return fromParam(x.X, d+1)
		case *ssa.UnOp:
			if x.Op == token.MUL {
				return fromParam(x.X, d+1)
			}
		case *ssa.ChangeType:
			return fromParam(x.X, d+1)
		case *ssa.ChangeInterface:
			return fromParam(x.X, d+1)
		case *ssa.TypeAssert:
			return fromParam(x.X, d+1)
		case *ssa.Extract:
			return fromParam(x.Tuple, d+1)
		case *ssa.Phi:
			for _, e := range x.Edges {
				if n, ok := fromParam(e, d+1); ok {
					return n, true
				}
			}
		case *ssa.Call:
			// storage handed out by a call on an operand (Nodes() returns the children slice itself)
			args := x.Call.Args
			if x.Call.IsInvoke() {
				args = append([]ssa.Value{x.Call.Value}, args...)
			}
			for _, a := range args {
				if n, ok := fromParam(a, d+1); ok {
					return n, true
				}
			}
		}
		return "", false
	}
	// helpers of DeepEqualNodes: a parameter is an operand only if some call in DeepEqualNodes hands over something
	// reached from DeepEqualNodes' own operands (a map or slice DeepEqualNodes made itself is its bookkeeping)
	if den != nil {
		for _, c := range su.Calls(den) {
			h := c.Common().StaticCallee()
			if h == nil || !seen[h] || h == den || h.Name() == "DeepEqual" || h.Name() == "Equals" || c.Common().IsInvoke() {
				continue
			}
			for i, a := range c.Common().Args {
				if i >= len(h.Params) {
					break
				}
				if _, tainted := fromParam(a, 0); tainted {
					dirty[h.Params[i]] = true
				}
			}
			helpers[h] = true
		}
		for h := range helpers {
			for _, q := range h.Params {
				if !dirty[q] {
					clean[q] = true
				}
			}
		}
	}
	sort.Slice(fns, func(i, j int) bool { return fns[i].String() < fns[j].String() })
	for _, fn := range fns {
		o := r.Add("R07.l", "writes of "+load.FuncName(fn), p.Pos(fn.Pos()), "stores through the operands")
		bad := ""
		for _, b := range fn.Blocks {
			for _, ins := range b.Instrs {
				switch x := ins.(type) {
				case *ssa.Store:
					if _, isAlloc := x.Addr.(*ssa.Alloc); isAlloc {
						continue
					}
					if n, ok := fromParam(x.Addr, 0); ok && bad == "" {
						bad = "the store at " + p.Pos(x.Pos()) + " writes into storage reached from the operand " + n
					}
				case *ssa.MapUpdate:
					if n, ok := fromParam(x.Map, 0); ok && bad == "" {
						bad = "the map update at " + p.Pos(x.Pos()) + " writes into a map reached from the operand " + n
					}
				}
			}
		}
		if bad != "" {
			o.Fail(bad + ": a comparison changes what it compares (children re-ordered or replaced in the operand's own list) - a tree is no longer equal to, or serialises differently from, what it was before it was compared")
		} else {
			o.OK("no store or map update through a parameter")
		}
	}
}

// c12UsedMarks (R12.m): the greedy one-to-one assignment of IndividualNodes.Similarity keeps "already matched" marks
// in maps it makes itself. Every such map that is written is also consulted: a map with updates but no lookup, range,
// len or other use is a set of marks nobody reads - the side it was meant to protect can be matched again and again
// (one individual paired with several of the other list; the score exceeds what a one-to-one pairing allows and
// depends on the order of the operands). Only maps made in the function itself and never handed on are judged.
func c12UsedMarks(p *load.Prog, r *oblig.Run) {
	r.Rule("R12.m", "every bookkeeping map the pairing of IndividualNodes.Similarity writes is also read", 1)
	fn := p.Method(load.PkgRoot, "IndividualNodes", "Similarity")
	if fn == nil || len(fn.Blocks) == 0 {
		r.Add("R12.m", "anchor", "-", "anchor").Unknown("IndividualNodes.Similarity not found")
		return
	}
	fns := []*ssa.Function{fn}
	for _, c := range su.Calls(fn) {
		if h := c.Common().StaticCallee(); h != nil && h != fn && pkgPathOf(h) == load.PkgRoot && len(h.Blocks) > 0 && h.Object() != nil && !h.Object().Exported() {
			fns = append(fns, h)
		}
	}
	o := r.Add("R12.m", "used-marks of IndividualNodes.Similarity", p.Pos(fn.Pos()), "maps made, written and read by the pairing")
	bad, n := "", 0
	for _, f := range fns {
		for _, b := range f.Blocks {
			for _, ins := range b.Instrs {
				mm, ok := ins.(*ssa.MakeMap)
				if !ok || mm.Referrers() == nil {
					continue
				}
				writes, others := 0, 0
				for _, ref := range *mm.Referrers() {
					if mu, isU := ref.(*ssa.MapUpdate); isU && mu.Map == ssa.Value(mm) {
						writes++
						continue
					}
					if _, isDbg := ref.(*ssa.DebugRef); isDbg {
						continue
					}
					others++ // lookup, range, len, call argument, store, return, phi ...: the marks are consulted or leave the function
				}
				n++
				if writes > 0 && others == 0 && bad == "" {
					bad = "the map made at " + p.Pos(mm.Pos()) + " in " + load.FuncName(f) + " is written " + fmt.Sprint(writes) + " time(s) and never read"
				}
			}
		}
	}
	if bad != "" {
		o.Fail(bad + ": the marks it keeps protect nothing - an individual of that side can be paired more than once, the total is no longer that of a one-to-one assignment and changes when the operands are swapped")
	} else {
		o.OK(fmt.Sprintf("%d map(s) made by the pairing; each one that is written is also consulted", n))
	}
}

// c19WriterError (R19.q): the error a FileWriter reports is kept. In Publisher.Publish and its function literals the
// result of every WriteFile call is stored, returned or handed on - a result that is only compared with nil (and then
// dropped, e.g. by a shadowing `if err := ...; err != nil { err = err }`) lets Publish answer nil after a failed write.
func c19WriterError(p *load.Prog, r *oblig.Run) {
	r.Rule("R19.q", "the error returned by FileWriter.WriteFile in Publish is stored, returned or handed on, not only tested", 1)
	pub := p.Method(load.PkgHTML, "Publisher", "Publish")
	if pub == nil || len(pub.Blocks) == 0 {
		r.Add("R19.q", "anchor", "-", "anchor").Unknown("Publisher.Publish not found")
		return
	}
	n := 0
	for _, f := range append([]*ssa.Function{pub}, pub.AnonFuncs...) {
		for _, b := range f.Blocks {
			for _, ins := range b.Instrs {
				c, ok := ins.(*ssa.Call)
				if !ok || !c.Call.IsInvoke() || c.Call.Method.Name() != "WriteFile" || c.Referrers() == nil {
					continue
				}
				n++
				o := r.Add("R19.q", "error of WriteFile in "+load.FuncName(f), p.Pos(c.Pos()), "uses of the writer's error")
				kept := false
				for _, ref := range *c.Referrers() {
					switch x := ref.(type) {
					case *ssa.BinOp, *ssa.DebugRef, *ssa.If:
					case *ssa.Store:
						if x.Val == ssa.Value(c) {
							kept = true
						}
					default:
						kept = true // returned, passed to a call, converted, merged in a phi ...
					}
				}
				if kept {
					o.OK("the error is stored or handed on")
				} else {
					o.Fail("the error of WriteFile is only compared with nil and then dropped: Publish returns nil although a file could not be written")
				}
			}
		}
	}
	if n == 0 {
		r.Add("R19.q", "anchor calls", p.Pos(pub.Pos()), "anchor").OK("Publish does not call WriteFile itself (written through a helper; not judged)")
	}
}
