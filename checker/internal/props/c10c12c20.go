package props

import (
	"fmt"
	"go/constant"
	"go/token"
	"go/types"
	"sort"
	"strings"

	"gedverif/internal/cg"
	"gedverif/internal/load"
	"gedverif/internal/oblig"
	"gedverif/internal/su"

	"golang.org/x/tools/go/ssa"
)

func floatConst(v ssa.Value) (float64, bool) {
	c, ok := v.(*ssa.Const)
	if !ok {
		return 0, false
	}
	if b, isB := c.Type().Underlying().(*types.Basic); !isB || b.Info()&types.IsFloat == 0 {
		return 0, false
	}
	if c.Value == nil {
		return 0, true
	}
	f, _ := constant.Float64Val(constant.ToFloat(c.Value))
	return f, true
}

// missingTest classifies a branch condition: "nil" (pointer == nil),
// "zero" (a length-derived number == 0), or "".
func missingTest(cond ssa.Value) string {
	bo, ok := cond.(*ssa.BinOp)
	if !ok || bo.Op != token.EQL {
		return ""
	}
	if k, isK := bo.Y.(*ssa.Const); isK {
		if k.Value == nil {
			switch bo.X.Type().Underlying().(type) {
			case *types.Pointer, *types.Interface, *types.Slice:
				return "nil"
			}
		}
		if f, isF := floatConst(k); isF && f == 0 && derivesFromLen(bo.X, 0) {
			return "zero"
		}
		if i, isI := su.ConstInt(k); isI && i == 0 && derivesFromLen(bo.X, 0) {
			return "zero"
		}
	}
	return ""
}

func derivesFromLen(v ssa.Value, depth int) bool {
	if depth > 3 {
		return false
	}
	switch x := v.(type) {
	case *ssa.Call:
		if bi, ok := x.Call.Value.(*ssa.Builtin); ok && bi.Name() == "len" {
			return true
		}
	case *ssa.Convert:
		return derivesFromLen(x.X, depth+1)
	}
	return false
}

// C12: neutral constant agreement.
func C12(p *load.Prog, r *oblig.Run) {
	defer memoKeys(p, r, "R12.h")
	r.Explanation = "One structural clause (E5). R12.a: in every function or method named Similarity of the library package, a constant returned from a missing-operand guard - a return block reached only over the true edges of `x == nil` tests (receiver or argument) or of zero-length tests - is the neutral 0.5 " +
		"(1 only when both lengths are tested to be zero together); the padding factor for unmatched individuals in IndividualNodes.Similarity and the 'no parents found' default of SurroundingSimilarity are the same 0.5."
	r.NotDecided = "that scores lie in [0,1], symmetry, monotonicity of the date parabola, maximality on identity: floating-point value universals that have no structural form."
	r.Assumptions = []string{"guards are recognised as nil comparisons of pointer-typed operands and zero tests of len()-derived numbers"}
	r.Rule("R12.a", "missing information scores exactly the neutral 0.5 on every guard path", 7)
	r.Rule("R12.b", "the test that selects a neutral score looks at both operands (a one-sided test makes the score depend on the order of the operands)", 1)
	var fns []*ssa.Function
	for _, fn := range p.Repo {
		if fn.Pkg != nil && fn.Pkg.Pkg.Path() == load.PkgRoot && fn.Name() == "Similarity" && fn.Synthetic == "" {
			fns = append(fns, fn)
		}
	}
	sort.Slice(fns, func(i, j int) bool { return fns[i].String() < fns[j].String() })
	for _, fn := range fns {
		for _, b := range fn.Blocks {
			ret, ok := b.Instrs[len(b.Instrs)-1].(*ssa.Return)
			if !ok || len(ret.Results) != 1 {
				continue
			}
			val, isConst := floatConst(ret.Results[0])
			if !isConst {
				continue
			}
			// guard classification
			kinds := []string{}
			all := len(b.Preds) > 0
			for _, pr := range b.Preds {
				iff, isIf := pr.Instrs[len(pr.Instrs)-1].(*ssa.If)
				if !isIf || pr.Succs[0] != b {
					all = false
					break
				}
				k := missingTest(iff.Cond)
				if k == "" {
					all = false
					break
				}
				kinds = append(kinds, k)
			}
			if !all {
				continue
			}
			want := 0.5
			desc := "missing operand (" + strings.Join(kinds, " or ") + ")"
			if len(b.Preds) == 1 && kinds[0] == "zero" {
				// conjunction: the single predecessor is itself only reached over the true edge of a zero test
				pr := b.Preds[0]
				if len(pr.Preds) == 1 {
					if iff, isIf := pr.Preds[0].Instrs[len(pr.Preds[0].Instrs)-1].(*ssa.If); isIf && pr.Preds[0].Succs[0] == pr && missingTest(iff.Cond) == "zero" {
						want = 1
						desc = "both lists empty"
					}
				}
			}
			r.Check("R12.a", fmt.Sprintf("guard return in %s (%s)", load.FuncName(fn), desc), p.Pos(ret.Pos()), "constant returned when "+desc,
				val == want, fmt.Sprintf("returns %v", val),
				fmt.Sprintf("%s returns %v when %s; the documented neutral score is %v", load.FuncName(fn), val, desc, want))
		}
	}
	c12More(p, r)
	// padding factor and no-parents default
	if f := p.Method(load.PkgRoot, "IndividualNodes", "Similarity"); f != nil {
		n := 0
		for _, b := range f.Blocks {
			for _, ins := range b.Instrs {
				bo, ok := ins.(*ssa.BinOp)
				if !ok || bo.Op != token.MUL {
					continue
				}
				for _, side := range []ssa.Value{bo.X, bo.Y} {
					if v, isC := floatConst(side); isC {
						n++
						r.Check("R12.a", "padding factor in IndividualNodes.Similarity", p.Pos(bo.Pos()), "score given to each unmatched individual", v == 0.5,
							"0.5", fmt.Sprintf("unmatched individuals are padded with %v instead of the neutral 0.5", v))
					}
				}
			}
		}
		if n == 0 {
			r.Add("R12.a", "padding factor in IndividualNodes.Similarity", p.Pos(f.Pos()), "padding").Unknown("no constant padding factor found")
		}
	}
	if f := p.Method(load.PkgRoot, "IndividualNode", "SurroundingSimilarity"); f != nil {
		n := 0
		for _, b := range f.Blocks {
			for _, ins := range b.Instrs {
				st, ok := ins.(*ssa.Store)
				if !ok {
					continue
				}
				fa, ok := st.Addr.(*ssa.FieldAddr)
				if !ok || su.FieldName(fa) != "ParentsSimilarity" {
					continue
				}
				if v, isC := floatConst(st.Val); isC {
					n++
					r.Check("R12.a", "no-parents default in SurroundingSimilarity", p.Pos(st.Pos()), "parents similarity when neither side has parents", v == 0.5,
						"0.5", fmt.Sprintf("the parents similarity defaults to %v instead of the neutral 0.5 when no parents are known", v))
					// R12.b: the test that selects the default looks at both individuals
					ob := r.Add("R12.b", "test selecting the no-parents default in SurroundingSimilarity", p.Pos(st.Pos()), "operands the neutral-score test depends on")
					deps := map[*ssa.Parameter]bool{}
					for _, pr := range b.Preds {
						if iff, isIf := pr.Instrs[len(pr.Instrs)-1].(*ssa.If); isIf {
							paramDeps(iff.Cond, deps, map[ssa.Value]bool{})
						}
					}
					var missing []string
					for i, prm := range f.Params {
						if i > 1 {
							break
						}
						if !deps[prm] {
							missing = append(missing, prm.Name())
						}
					}
					if len(b.Preds) == 0 || len(missing) > 0 {
						ob.Fail("the neutral parents score is chosen by a test that does not look at " + strings.Join(missing, ", ") + ": a.SurroundingSimilarity(b) and b.SurroundingSimilarity(a) differ when only one of the two has parents (one direction scores 0.5, the other 0)")
					} else {
						ob.OK("depends on both individuals")
					}
				}
			}
		}
		if n == 0 {
			// the parents score is computed by a helper (parentsSimilarity): its constant return is the default
			for _, b := range f.Blocks {
				for _, ins := range b.Instrs {
					st, ok := ins.(*ssa.Store)
					if !ok {
						continue
					}
					fa, ok := st.Addr.(*ssa.FieldAddr)
					if !ok || su.FieldName(fa) != "ParentsSimilarity" {
						continue
					}
					hc, ok := st.Val.(*ssa.Call)
					if !ok {
						continue
					}
					h := hc.Call.StaticCallee()
					if h == nil || !p.IsRepoFunc(h) || len(h.Blocks) == 0 || len(h.Params) < 2 {
						continue
					}
					for _, hb := range h.Blocks {
						ret, isRet := hb.Instrs[len(hb.Instrs)-1].(*ssa.Return)
						if !isRet || len(ret.Results) != 1 {
							continue
						}
						v, isC := floatConst(ret.Results[0])
						if !isC {
							continue
						}
						n++
						r.Check("R12.a", "no-parents default in SurroundingSimilarity", p.Pos(ret.Pos()), "parents similarity when neither side has parents", v == 0.5,
							"0.5", fmt.Sprintf("the parents similarity defaults to %v instead of the neutral 0.5 when no parents are known", v))
						ob := r.Add("R12.b", "test selecting the no-parents default in SurroundingSimilarity", p.Pos(ret.Pos()), "operands the neutral-score test depends on")
						deps := map[*ssa.Parameter]bool{}
						for _, pr := range hb.Preds {
							if iff, isIf := pr.Instrs[len(pr.Instrs)-1].(*ssa.If); isIf {
								paramDeps(iff.Cond, deps, map[ssa.Value]bool{})
							}
						}
						var missing []string
						for i, prm := range h.Params {
							if i > 1 {
								break
							}
							if !deps[prm] {
								missing = append(missing, prm.Name())
							}
						}
						if len(hb.Preds) == 0 || len(missing) > 0 {
							ob.Fail("the neutral parents score is chosen by a test that does not look at " + strings.Join(missing, ", ") + ": a.SurroundingSimilarity(b) and b.SurroundingSimilarity(a) differ when only one of the two has parents (one direction scores 0.5, the other 0)")
						} else {
							ob.OK("depends on both individuals")
						}
					}
				}
			}
		}
		if n == 0 {
			r.Add("R12.a", "no-parents default in SurroundingSimilarity", p.Pos(f.Pos()), "default").Unknown("no constant store to ParentsSimilarity found")
		}
	}
}

// C10: merging documents - one structural clause.
func C10(p *load.Prog, r *oblig.Run) {
	r.Explanation = "One path rule (E6) over IndividualNodes.Merge: on every path through the body of the loop over the comparisons exactly one individual is appended to the result when the comparison has a left or a right side " +
		"(the merged node, the left or the right individual - each stemming from that same comparison), the error of MergeNodes is returned, and the two operands of MergeNodes are the comparison's Left and Right in that order. Given a valid matching (C11) every person is therefore carried over or merged exactly once."
	r.NotDecided = "validity of references after merging (no pointer rewriting step exists - that absence has no structural form a sound rule could demand), that the output decodes again, that the merged individual holds the facts of both originals (C09's clauses)."
	r.Assumptions = []string{"go/ssa control-flow graph of IndividualNodes.Merge"}
	r.Rule("R10.a", "each comparison contributes exactly one individual to the merge result on every path", 3)
	c10Errors(p, r)
	// the merged individual holds the facts of both originals only if MergeNodes accounts for every right child (C09's path rule)
	c09Accounts(p, r)
	c09KindOnlyEquals(p, r)
	// a document merge runs the matching pipeline of IndividualNodes.Compare: a stage that never finishes, pairs the wrong
	// lists or partitions the jobs wrongly loses or duplicates people in the merged document (C11's structural rules)
	if cmpRoot := p.Method(load.PkgRoot, "IndividualNodes", "Compare"); cmpRoot != nil {
		pipelineStructure(p, r, cg.New(p, false), cmpRoot)
	}
	fn := p.Method(load.PkgRoot, "IndividualNodes", "Merge")
	mn := p.Func(load.PkgRoot, "MergeNodes")
	if fn == nil || mn == nil {
		r.Add("R10.a", "anchors", "-", "anchor").Unknown("IndividualNodes.Merge / MergeNodes not found")
		return
	}
	// loop header: block with a rangeindex phi / back edge
	var header *ssa.BasicBlock
	for _, b := range fn.Blocks {
		for _, pr := range b.Preds {
			if b.Dominates(pr) {
				header = b
			}
		}
	}
	if header == nil {
		r.Add("R10.a", "loop", p.Pos(fn.Pos()), "anchor").Unknown("no loop in Merge")
		return
	}
	// body entry: successor of the header that is inside the loop
	var body *ssa.BasicBlock
	for _, s := range header.Succs {
		if su.ReachableBlocks(s)[header] {
			body = s
		}
	}
	paths, capped := simplePaths(body, map[*ssa.BasicBlock]bool{header: true}, 200)
	if capped || body == nil {
		r.Add("R10.a", "paths", p.Pos(fn.Pos()), "paths").Unknown("cannot enumerate the loop body's paths")
		return
	}
	isField := func(v ssa.Value, name string) bool {
		ld, ok := v.(*ssa.UnOp)
		if !ok {
			return false
		}
		fa, ok := ld.X.(*ssa.FieldAddr)
		return ok && su.FieldName(fa) == name
	}
	n := 0
	for _, path := range paths {
		if !feasible(path) {
			continue
		}
		last := path[len(path)-1]
		appends := 0
		var appended []ssa.Value
		bothNil := true
		leftThere, rightThere := false, false
		infeasiblePhi := false
		for i, b := range path[:len(path)-1] {
			if iff, ok := b.Instrs[len(b.Instrs)-1].(*ssa.If); ok && i+1 < len(path) {
				cond := iff.Cond
				// a && b kept as a value: the phi takes the value of the edge the path came in on
				if ph, isPhi := cond.(*ssa.Phi); isPhi && ph.Block() == b && i > 0 {
					for j, pr := range b.Preds {
						if pr == path[i-1] {
							cond = ph.Edges[j]
						}
					}
					if k, isK := cond.(*ssa.Const); isK && k.Value != nil && k.Value.Kind() == constant.Bool {
						if constant.BoolVal(k.Value) != (path[i+1] == b.Succs[0]) {
							infeasiblePhi = true
						}
					}
				}
				if bo, isBo := cond.(*ssa.BinOp); isBo && bo.Op == token.NEQ {
					if k, isK := bo.Y.(*ssa.Const); isK && k.Value == nil && (isField(bo.X, "Left") || isField(bo.X, "Right")) && path[i+1] == b.Succs[0] {
						bothNil = false
						if isField(bo.X, "Left") {
							leftThere = true
						} else {
							rightThere = true
						}
					}
				}
			}
			for _, ins := range b.Instrs {
				c, ok := ins.(*ssa.Call)
				if !ok {
					continue
				}
				if bi, isB := c.Call.Value.(*ssa.Builtin); isB && bi.Name() == "append" {
					if n := load.NamedOf(c.Type()); n != nil && n.Obj().Name() == "IndividualNodes" {
						appends++
						// the appended element
						if sl, ok := c.Call.Args[1].(*ssa.Slice); ok {
							if al, ok := sl.X.(*ssa.Alloc); ok {
								for _, ref := range *al.Referrers() {
									if ia, ok := ref.(*ssa.IndexAddr); ok {
										for _, r2 := range *ia.Referrers() {
											if st, ok := r2.(*ssa.Store); ok {
												appended = append(appended, st.Val)
											}
										}
									}
								}
							}
						}
					}
				}
			}
		}
		if infeasiblePhi {
			continue
		}
		n++
		desc := pathDesc(p, path)
		key := fmt.Sprintf("path %d", n)
		o := r.Add("R10.a", key, p.Pos(path[0].Instrs[0].Pos()), "path "+desc+" through the loop over the comparisons")
		if last != header {
			// return path: must be the error return of MergeNodes
			ret, isRet := last.Instrs[len(last.Instrs)-1].(*ssa.Return)
			okErr := false
			if isRet && len(ret.Results) == 2 {
				if ex, isEx := ret.Results[1].(*ssa.Extract); isEx {
					if c, isC := ex.Tuple.(*ssa.Call); isC && (c.Call.StaticCallee() == mn || mergePairHelper(p, c.Call.StaticCallee(), mn)) {
						okErr = true
					}
				}
			}
			if okErr {
				o.OK("returns the error of MergeNodes")
			} else {
				o.Fail("the loop is left on the path " + desc + " without returning the error of MergeNodes: the remaining individuals are dropped silently")
			}
			continue
		}
		switch {
		case bothNil && appends == 0:
			o.OK("comparison without either side contributes nothing")
		case appends == 1:
			ok := true
			why := ""
			for _, v := range appended {
				switch {
				case (isField(v, "Left") || isField(v, "Right")) && leftThere && rightThere:
					ok, why = false, "a comparison that has both a left and a right individual contributes one of them as it is, without MergeNodes: whatever the other side records beyond what was compared (occupations, residences, new family links) is dropped"
				case isField(v, "Left"), isField(v, "Right"):
				default:
					// merged node: type assertion of MergeNodes(left, right, document) result
					ta, isTA := v.(*ssa.TypeAssert)
					var call *ssa.Call
					if isTA {
						if ex, isEx := ta.X.(*ssa.Extract); isEx {
							call, _ = ex.Tuple.(*ssa.Call)
						}
					}
					// through a helper that merges the pair it is handed: mergeIndividualPair(left, right, document)
					if ex, isEx := v.(*ssa.Extract); isEx && ex.Index == 0 {
						if hc, isC := ex.Tuple.(*ssa.Call); isC && mergePairHelper(p, hc.Call.StaticCallee(), mn) {
							if !isField(su.Strip(hc.Call.Args[0]), "Left") || !isField(su.Strip(hc.Call.Args[1]), "Right") {
								ok, why = false, "the merging helper is not called with the comparison's Left and Right in that order"
							}
							continue
						}
					}
					if call == nil || call.Call.StaticCallee() != mn {
						ok, why = false, "the appended individual is neither the comparison's left/right nor the result of MergeNodes"
					} else if !isField(su.Strip(call.Call.Args[0]), "Left") || !isField(su.Strip(call.Call.Args[1]), "Right") {
						ok, why = false, "MergeNodes is not called with the comparison's Left and Right in that order"
					}
				}
			}
			if ok {
				o.OK("one individual appended")
			} else {
				o.Fail("on the path " + desc + ": " + why)
			}
		default:
			o.Fail(fmt.Sprintf("on the path %s a comparison contributes %d individuals to the result: a person is dropped or duplicated", desc, appends))
		}
	}
}

// C20: warnings - registry and structural clauses.
func C20(p *load.Prog, r *oblig.Run) {
	r.Explanation = "Structural clauses (call graph + path rules). R20.a: each of the eight warning constructors is reachable from Document.Warnings (through the Warner interface), and the walk that Document.Warnings uses visits every node: it calls its function for the node and recurses into every child unconditionally. " +
		"R20.b: in siblingsBornTooCloseWarnings a warning is appended only after a negative pairs.Has test and the pair is recorded on the same path (once per offending pair). R20.c: every warning collected by Document.Warnings has SetContext called with the context of the enclosing record before it is appended."
	r.NotDecided = "every threshold and comparison direction ('if and only if' over dates and ages), independence of record order."
	r.Assumptions = []string{"library-opaque call graph (VTA-resolved Warner.Warnings invokes)"}
	r.Rule("R20.a", "every warning kind is produced from Document.Warnings and the walk visits every node", 9)
	r.Rule("R20.b", "a siblings-born-too-close warning is emitted once per pair", 1)
	r.Rule("R20.c", "each collected warning gets the context of its record", 1)
	dw := p.Method(load.PkgRoot, "Document", "Warnings")
	if dw == nil {
		r.Add("R20.a", "anchor", "-", "anchor").Unknown("Document.Warnings not found")
		return
	}
	g := cg.New(p, false)
	reach := g.ReachFrom([]cg.Target{{Fn: dw}}, cg.Options{})
	ctors := []string{"NewChildBornBeforeParentWarning", "NewSiblingsBornTooCloseWarning", "NewMarriedOutOfRangeWarning", "NewIndividualTooOldWarning",
		"NewIncorrectEventOrderWarning", "NewUnparsableDateWarning", "NewMultipleSexesWarning", "NewInverseSpousesWarning"}
	for _, c := range ctors {
		f := p.Func(load.PkgRoot, c)
		o := r.Add("R20.a", "warning kind "+strings.TrimPrefix(c, "New"), "-", "constructor "+c+" is reachable from Document.Warnings")
		switch {
		case f == nil:
			o.Fail("the warning constructor " + c + " no longer exists")
		case reach.Funcs[f]:
			o.Pos = p.Pos(f.Pos())
			o.OK("reachable: " + strings.Join(lastN(reach.Path(f), 3), " > "))
		default:
			o.Pos = p.Pos(f.Pos())
			o.Fail("the warning " + strings.TrimPrefix(c, "New") + " can no longer be produced by Document.Warnings: no call path leads from it to " + c)
		}
	}
	// the walk
	walk := p.Func(load.PkgRoot, "walkNodes")
	o := r.Add("R20.a", "walk visits every node", "-", "tree walk used by Document.Warnings")
	if walk == nil || !reach.Funcs[walk] {
		// fall back: Filter-based walk with constant true
		o.Unknown("Document.Warnings does not use walkNodes; the traversal is not recognised")
	} else {
		o.Pos = p.Pos(walk.Pos())
		// fn(node) dominates the loop; the recursive call is in the range loop body and not under any other condition
		var fnCall, rec ssa.Instruction
		for _, c := range su.Calls(walk) {
			if c.Common().Value == ssa.Value(walk.Params[1]) {
				fnCall = c
			}
			if c.Common().StaticCallee() == walk {
				rec = c
			}
		}
		switch {
		case fnCall == nil:
			o.Fail("the walk never calls its function for the node it visits")
		case rec == nil:
			o.Fail("the walk does not recurse into children")
		default:
			// conditions between loop header and recursive call: the recursive call's block must be the range loop body
			// (its only dominating branches are the nil test at the top and the loop condition)
			extra := 0
			for _, b := range walk.Blocks {
				if iff, ok := b.Instrs[len(b.Instrs)-1].(*ssa.If); ok && b.Dominates(rec.Block()) && b != rec.Block() {
					_ = iff
					extra++
				}
			}
			// the child passed on must be the range element, the function the same fn
			okArgs := rec.(ssa.CallInstruction).Common().Args[1] == ssa.Value(walk.Params[1])
			if extra <= 2 && okArgs && su.Dominates(fnCall, rec) {
				o.OK("fn(node) then walkNodes(child, fn) for every child, unconditionally")
			} else {
				o.Fail("the walk does not visit every node: the recursion into children is conditional or passes a different function")
			}
		}
	}
	// the walk is started for every record: in Document.Warnings no path from one element of the record loop to the
	// next goes around the call of the walk (a `continue` for records that are neither INDI nor FAM drops the
	// unparsable dates of sources, submitters and the header)
	if walk != nil {
		for _, c := range su.Calls(dw) {
			if c.Common().StaticCallee() != walk {
				continue
			}
			o2 := r.Add("R20.a", "walk started for every record", p.Pos(c.Pos()), "paths of the record loop of Document.Warnings")
			skipped := ""
			for _, h := range loopHeaders(dw) {
				if !loopBlock(c.Block(), h) {
					continue
				}
				seenB := map[*ssa.BasicBlock]bool{}
				var dfs func(b *ssa.BasicBlock) bool
				dfs = func(b *ssa.BasicBlock) bool {
					if b == h {
						return true
					}
					if seenB[b] || b == c.Block() || !loopBlock(b, h) {
						return false
					}
					seenB[b] = true
					for _, sx := range b.Succs {
						if dfs(sx) {
							return true
						}
					}
					return false
				}
				for _, sx := range h.Succs {
					if loopBlock(sx, h) && sx != c.Block() && dfs(sx) {
						skipped = "a path of the loop over the records reaches the next record without starting the walk at " + p.Pos(c.Pos())
					}
				}
			}
			if skipped != "" {
				o2.Fail(skipped + ": the nodes of such a record are never asked for their warnings (an unparsable date in a SOUR, SUBM or HEAD record goes unreported)")
			} else {
				o2.OK("every path to the next record passes the walk")
			}
		}
	}
	// R20.c
	o = r.Add("R20.c", "SetContext before collecting", p.Pos(dw.Pos()), "context of collected warnings")
	okCtx := false
	ctxScan := append([]*ssa.Function{dw}, dw.AnonFuncs...)
	// the collecting loop may live in a helper Document.Warnings calls (appendNodeWarnings) or in its function literal
	for _, c := range su.Calls(dw) {
		if h := c.Common().StaticCallee(); h != nil && h != dw && pkgPathOf(h) == load.PkgRoot && len(h.Blocks) > 0 && h.Signature.Recv() == nil {
			ctxScan = append(ctxScan, h)
			ctxScan = append(ctxScan, h.AnonFuncs...)
		}
	}
	for _, fn := range ctxScan {
		var setCtx, app ssa.Instruction
		for _, b := range fn.Blocks {
			for _, ins := range b.Instrs {
				if c, ok := ins.(ssa.CallInstruction); ok {
					if c.Common().IsInvoke() && c.Common().Method.Name() == "SetContext" {
						setCtx = ins
					}
					if bi, isB := c.Common().Value.(*ssa.Builtin); isB && bi.Name() == "append" {
						if n := load.NamedOf(c.(ssa.Value).Type()); n != nil && n.Obj().Name() == "Warnings" {
							app = ins
						}
					}
				}
			}
		}
		if setCtx != nil && app != nil && su.Dominates(setCtx, app) {
			okCtx = true
		}
	}
	if okCtx {
		o.OK("warning.SetContext(context) dominates the append")
	} else {
		o.Fail("warnings are collected without SetContext being called first: the report cannot name the individual or family the warning belongs to")
	}
	// R20.b
	sib := p.Method(load.PkgRoot, "FamilyNode", "siblingsBornTooCloseWarnings")
	o = r.Add("R20.b", "once per pair", "-", "duplicate suppression in siblingsBornTooCloseWarnings")
	if sib == nil {
		o.Unknown("siblingsBornTooCloseWarnings not found")
		return
	}
	o.Pos = p.Pos(sib.Pos())
	var has *ssa.Call
	var warnAppend, pairAppend ssa.Instruction
	for _, b := range sib.Blocks {
		for _, ins := range b.Instrs {
			c, ok := ins.(*ssa.Call)
			if !ok {
				continue
			}
			if cal := c.Call.StaticCallee(); cal != nil && cal.Name() == "Has" {
				has = c
			}
			if bi, isB := c.Call.Value.(*ssa.Builtin); isB && bi.Name() == "append" {
				if n := load.NamedOf(c.Type()); n != nil {
					switch n.Obj().Name() {
					case "Warnings":
						warnAppend = c
					case "IndividualNodePairs":
						pairAppend = c
					}
				}
			}
		}
	}
	switch {
	case has == nil || warnAppend == nil:
		o.Fail("warnings are appended without consulting the set of pairs already reported: each pair of siblings is reported twice (once in each order)")
	case pairAppend == nil:
		o.Fail("the reported pair is never recorded: each pair of siblings is reported twice")
	default:
		// the warning append must be on the false side of Has and the pair append in the same block region
		okSide := false
		for _, ref := range *has.Referrers() {
			if iff, isIf := ref.(*ssa.If); isIf {
				if fs := iff.Block().Succs[1]; len(fs.Preds) == 1 && fs.Dominates(warnAppend.Block()) {
					okSide = true
				}
			}
			if un, isUn := ref.(*ssa.UnOp); isUn && un.Op == token.NOT {
				for _, r2 := range *un.Referrers() {
					if iff, isIf := r2.(*ssa.If); isIf && len(iff.Block().Succs[0].Preds) == 1 && iff.Block().Succs[0].Dominates(warnAppend.Block()) {
						okSide = true
					}
				}
			}
		}
		sameRegion := warnAppend.Block() == pairAppend.Block() || warnAppend.Block().Dominates(pairAppend.Block())
		if okSide && sameRegion {
			o.OK("append under !pairs.Has(pair); the pair is recorded on the same path")
		} else {
			o.Fail("the warning is not emitted exactly under the negative pairs.Has test with the pair recorded on the same path")
		}
	}
	c20More(p, r)
}

// loopHeaders: blocks that are the target of a back edge.
func loopHeaders(fn *ssa.Function) []*ssa.BasicBlock {
	var hs []*ssa.BasicBlock
	for _, b := range fn.Blocks {
		for _, pr := range b.Preds {
			if b.Dominates(pr) {
				hs = append(hs, b)
				break
			}
		}
	}
	return hs
}

// c20More: R20.d (the pair search is exhaustive) and R20.e (the two parent
// tests of a child are independent).
func c20More(p *load.Prog, r *oblig.Run) {
	r.Rule("R20.d", "IndividualNodePairs.Has gives a negative answer only after every recorded pair was examined", 1)
	r.Rule("R20.e", "a child is tested against the father and against the mother independently (both warnings when born before both)", 1)
	has := p.Method(load.PkgRoot, "IndividualNodePairs", "Has")
	if has == nil || len(has.Blocks) == 0 {
		r.Add("R20.d", "anchor", "-", "anchor").Unknown("IndividualNodePairs.Has not found")
	} else {
		hs := loopHeaders(has)
		o := r.Add("R20.d", "returns inside the search loop of Has", p.Pos(has.Pos()), "search loop of IndividualNodePairs.Has")
		bad := ""
		n := 0
		for _, b := range has.Blocks {
			ret, ok := b.Instrs[len(b.Instrs)-1].(*ssa.Return)
			if !ok || len(ret.Results) != 1 {
				continue
			}
			// inside the loop: dominated by the header but not by the edge that leaves the loop
			inLoop := false
			for _, h := range hs {
				if !h.Dominates(b) || h == b {
					continue
				}
				post := false
				for _, sx := range h.Succs {
					if !loopBlock(sx, h) && sx.Dominates(b) && len(sx.Preds) == 1 {
						post = true
					}
				}
				if !post {
					inLoop = true
				}
			}
			if !inLoop {
				continue
			}
			n++
			vals := []ssa.Value{ret.Results[0]}
			if ph, isPhi := ret.Results[0].(*ssa.Phi); isPhi {
				vals = ph.Edges
			}
			for _, v := range vals {
				k, isK := v.(*ssa.Const)
				if !isK || k.Value == nil || k.Value.Kind() != constant.Bool || !constant.BoolVal(k.Value) {
					bad = "the return at " + p.Pos(ret.Pos()) + " inside the loop can answer false: the search stops at the first recorded pair that matches partly and never looks at the later pairs"
				}
			}
		}
		switch {
		case len(hs) == 0:
			o.Unknown("Has has no loop")
		case bad != "":
			o.Fail(bad)
		default:
			o.OK(fmt.Sprintf("%d return(s) inside the loop, all constant true", n))
		}
	}
	c20TooOld(p, r)
	c20NoEarlyExit(p, r)
	c20Spouses(p, r)
	c20ValidRange(p, r)
	c20Producers(p, r)
	c20Collects(p, r)
	c20Conditions(p, r)
	cb := p.Method(load.PkgRoot, "FamilyNode", "childrenBornBeforeParentsWarnings")
	ctor := p.Func(load.PkgRoot, "NewChildBornBeforeParentWarning")
	if cb == nil || ctor == nil {
		r.Add("R20.e", "anchor", "-", "anchor").Unknown("childrenBornBeforeParentsWarnings / NewChildBornBeforeParentWarning not found")
		return
	}
	sites := su.CallsTo(cb, ctor)
	o := r.Add("R20.e", "parent tests in childrenBornBeforeParentsWarnings", p.Pos(cb.Pos()), "independence of the warning sites")
	hs := loopHeaders(cb)
	switch {
	case len(sites) < 2:
		o.Fail(fmt.Sprintf("only %d construction site(s) of the child-born-before-parent warning: one of the parents is no longer tested", len(sites)))
	case len(hs) == 0:
		o.Unknown("no loop over the children")
	default:
		// every later site must be reachable from every earlier one within the same iteration
		reach := func(a, b *ssa.BasicBlock) bool {
			for _, h := range hs {
				if !su.ReachableBlocksAvoiding(a, b, h) {
					return false
				}
			}
			return true
		}
		bad := ""
		for i := 0; i < len(sites); i++ {
			for j := 0; j < len(sites); j++ {
				if i == j {
					continue
				}
				a, b := sites[i].Block(), sites[j].Block()
				if a == b {
					continue
				}
				ab := reach(a, b)
				ba := reach(b, a)
				if !ab && !ba {
					bad = fmt.Sprintf("after the warning built at %s the test that leads to the warning at %s is skipped for the same child (the sites exclude each other): a child born before both parents gets one warning instead of two", p.Pos(sites[i].Pos()), p.Pos(sites[j].Pos()))
				}
			}
		}
		if bad != "" {
			o.Fail(bad)
		} else {
			o.OK(fmt.Sprintf("%d warning sites, each reachable from the other within one iteration", len(sites)))
		}
	}
}

func lastN(s []string, n int) []string {
	if len(s) > n {
		return s[len(s)-n:]
	}
	return s
}

// feasible: the path does not take two different outcomes for the same
// comparison of the same two SSA values (conditions that are re-evaluated,
// such as the cases of an expression-less switch).
func feasible(path []*ssa.BasicBlock) bool {
	type key struct {
		op   token.Token
		x, y ssa.Value
	}
	seen := map[key]bool{}
	for i, b := range path[:len(path)-1] {
		iff, ok := b.Instrs[len(b.Instrs)-1].(*ssa.If)
		if !ok {
			continue
		}
		bo, ok := iff.Cond.(*ssa.BinOp)
		if !ok {
			continue
		}
		k := key{bo.Op, bo.X, bo.Y}
		if kc, isK := bo.Y.(*ssa.Const); isK && kc.Value == nil {
			k.y = nil
		}
		outcome := path[i+1] == b.Succs[0]
		if prev, dup := seen[k]; dup && prev != outcome {
			return false
		}
		seen[k] = outcome
	}
	return true
}

// c10Errors (R10.b): in the matching and merging pipeline (everything of the
// library package reachable from MergeDocumentsAndIndividuals and
// IndividualNodes.Compare) a value that comes with an error is not used while
// the error is thrown away - an identifier that failed to parse must not become
// a unique identifier two people are matched on. The one existing exception is
// listed with its reason.
func c10Errors(p *load.Prog, r *oblig.Run) {
	r.Rule("R10.b", "in the matching/merging pipeline a value returned together with an error is only used after the error was looked at", 5)
	exceptions := map[string]string{
		"gedcom.MergeNodes in gedcom.IndividualBySurroundingSimilarityMergeFunction$1": "MergeNodes fails only for nil or differently tagged operands and then returns a nil node, which the callers of a merge function read as 'not merged'",
	}
	errT := types.Universe.Lookup("error").Type()
	g := cg.New(p, false)
	var roots []cg.Target
	for _, f := range []*ssa.Function{p.Func(load.PkgRoot, "MergeDocumentsAndIndividuals"), p.Method(load.PkgRoot, "IndividualNodes", "Compare"), p.Method(load.PkgRoot, "IndividualNodes", "Merge")} {
		if f != nil {
			roots = append(roots, cg.Target{Fn: f})
		}
	}
	if len(roots) < 3 {
		r.Add("R10.b", "anchors", "-", "anchor").Unknown("MergeDocumentsAndIndividuals / Compare / Merge not found")
		return
	}
	// printing (String/Error methods reached through fmt) and JSON rendering are not part of the pipeline
	reach := g.ReachFrom(roots, cg.Options{SkipEdge: func(from cg.Target, e cg.Edge) bool { return e.Kind == "fmt" || e.Kind == "json" }})
	var fns []*ssa.Function
	for f := range reach.Funcs {
		if pkgPathOf(f) == load.PkgRoot && len(f.Blocks) > 0 && f.Synthetic == "" {
			fns = append(fns, f)
		}
	}
	sort.Slice(fns, func(i, j int) bool { return fns[i].String() < fns[j].String() })
	ord := map[string]int{}
	for _, fn := range fns {
		for _, c := range su.Calls(fn) {
			cc := c.Common()
			val, ok := c.(ssa.Value)
			if !ok {
				continue
			}
			var sig *types.Signature
			name := ""
			if cal := cc.StaticCallee(); cal != nil {
				if !p.IsRepoFunc(cal) {
					continue
				}
				sig, name = cal.Signature, load.FuncName(cal)
			} else if cc.IsInvoke() {
				sig, name = cc.Signature(), "."+cc.Method.Name()
			} else {
				continue
			}
			res := sig.Results()
			if res.Len() < 2 || !types.Identical(res.At(res.Len()-1).Type(), errT) {
				continue
			}
			errUsed, valUsed := false, false
			for _, ref := range *val.Referrers() {
				ex, ok := ref.(*ssa.Extract)
				if !ok || len(*ex.Referrers()) == 0 {
					continue
				}
				if ex.Index == res.Len()-1 {
					errUsed = true
				} else {
					valUsed = true
				}
			}
			key := name + " in " + load.FuncName(fn)
			ord[key]++
			if ord[key] > 1 {
				key = fmt.Sprintf("%s #%d", key, ord[key])
			}
			o := r.Add("R10.b", key, p.Pos(c.Pos()), "value and error of "+name)
			switch {
			case errUsed || !valUsed:
				o.OK("the error is looked at (or the value is not used)")
			case exceptions[key] != "":
				o.OK("reviewed exception: " + exceptions[key])
			default:
				o.Fail("the value returned by " + name + " is used although its error is thrown away: when the call fails the zero value takes part in matching/merging (for UniqueIDNode.UUID: every malformed identifier becomes the same empty identifier and unrelated people are matched on it)")
			}
		}
	}
}

// paramDeps collects the parameters a value depends on, including - for phis -
// the branch tests between the phi's immediate dominator and the phi (control
// dependence, over-approximated).
func paramDeps(v ssa.Value, out map[*ssa.Parameter]bool, seen map[ssa.Value]bool) {
	if v == nil || seen[v] {
		return
	}
	seen[v] = true
	switch x := v.(type) {
	case *ssa.Parameter:
		out[x] = true
		return
	case *ssa.Const, *ssa.Global, *ssa.Function, *ssa.Builtin, *ssa.FreeVar:
		return
	case *ssa.Alloc:
		// a local array/struct (the argument list of a variadic call): what was stored into it
		if x.Referrers() != nil {
			for _, ref := range *x.Referrers() {
				switch y := ref.(type) {
				case *ssa.Store:
					if y.Addr == ssa.Value(x) {
						paramDeps(y.Val, out, seen)
					}
				case *ssa.IndexAddr, *ssa.FieldAddr:
					if rr := y.(ssa.Value).Referrers(); rr != nil {
						for _, r2 := range *rr {
							if st, ok := r2.(*ssa.Store); ok && st.Addr == y.(ssa.Value) {
								paramDeps(st.Val, out, seen)
							}
						}
					}
				}
			}
		}
		return
	case *ssa.Phi:
		for _, e := range x.Edges {
			paramDeps(e, out, seen)
		}
		blk := x.Block()
		idom := blk.Idom()
		for _, b := range blk.Parent().Blocks {
			iff, isIf := b.Instrs[len(b.Instrs)-1].(*ssa.If)
			if !isIf {
				continue
			}
			if idom != nil && !idom.Dominates(b) {
				continue
			}
			// the branch at the end of the phi's own block comes after the phi (it matters only inside a loop)
			if (b != blk && su.ReachableBlocks(b)[blk]) || (b == blk && inCycle(blk)) {
				paramDeps(iff.Cond, out, seen)
			}
		}
		return
	case *ssa.UnOp:
		if al, ok := x.X.(*ssa.Alloc); ok {
			for _, ref := range *al.Referrers() {
				if st, ok := ref.(*ssa.Store); ok && st.Addr == ssa.Value(al) {
					paramDeps(st.Val, out, seen)
				}
			}
			return
		}
	}
	if ins, ok := v.(ssa.Instruction); ok {
		for _, op := range ins.Operands(nil) {
			if *op != nil {
				paramDeps(*op, out, seen)
			}
		}
	}
}

// exprShape renders how a value is computed, with string parameters abstracted
// to "P" - two operands normalised the same way have the same shape.
func exprShape(v ssa.Value, depth int) string {
	if depth > 10 {
		return "..."
	}
	switch x := v.(type) {
	case *ssa.Parameter:
		return "P"
	case *ssa.Const:
		return x.String()
	case *ssa.Global:
		return x.Name()
	case *ssa.UnOp:
		return "*" + exprShape(x.X, depth+1)
	case *ssa.Call:
		name := "?"
		if cal := x.Call.StaticCallee(); cal != nil {
			name = cal.String()
		} else if x.Call.IsInvoke() {
			name = "." + x.Call.Method.Name()
		} else if b, ok := x.Call.Value.(*ssa.Builtin); ok {
			name = b.Name()
		}
		var as []string
		if x.Call.IsInvoke() {
			as = append(as, exprShape(x.Call.Value, depth+1))
		}
		for _, a := range x.Call.Args {
			as = append(as, exprShape(a, depth+1))
		}
		return name + "(" + strings.Join(as, ",") + ")"
	case *ssa.Convert:
		return "conv(" + exprShape(x.X, depth+1) + ")"
	case *ssa.Slice:
		return "slice(" + exprShape(x.X, depth+1) + ")"
	case *ssa.BinOp:
		return "(" + exprShape(x.X, depth+1) + x.Op.String() + exprShape(x.Y, depth+1) + ")"
	}
	return fmt.Sprintf("%T", v)
}

// c12More: R12.c (stable ordering of the pair scores) and R12.d (both strings
// are normalised the same way).
func c12More(p *load.Prog, r *oblig.Run) {
	c12Identity(p, r)
	c12DateDistance(p, r)
	c12Convex(p, r)
	c12UsedMarks(p, r)
	bitMarks(p, r, "R12.l")
	c12Weights(p, r)
	r.Rule("R12.c", "the greedy matching in IndividualNodes.Similarity orders equal scores deterministically (stable sort)", 1)
	r.Rule("R12.d", "StringSimilarity normalises both strings with the same chain of operations", 1)
	if f := p.Method(load.PkgRoot, "IndividualNodes", "Similarity"); f != nil {
		n := 0
		var fns []*ssa.Function
		fns = append(fns, f)
		fns = append(fns, f.AnonFuncs...)
		for _, fn := range fns {
			for _, c := range su.Calls(fn) {
				cal := c.Common().StaticCallee()
				if cal == nil || cal.Pkg == nil || cal.Pkg.Pkg.Path() != "sort" {
					continue
				}
				n++
				o := r.Add("R12.c", fmt.Sprintf("sort #%d in IndividualNodes.Similarity", n), p.Pos(c.Pos()), "ordering of the candidate pairs")
				switch cal.Name() {
				case "SliceStable", "Stable":
					o.OK("stable: pairs with equal scores keep their matrix order, which mirrors when the operands are exchanged")
				default:
					o.Fail("sort." + cal.Name() + " does not keep the order of pairs with equal scores: which of several equally similar relatives is matched first changes between a.Similarity(b) and b.Similarity(a) (and between runs), and so does the score")
				}
			}
		}
		if n == 0 {
			r.Add("R12.c", "sort in IndividualNodes.Similarity", p.Pos(f.Pos()), "ordering").Unknown("no sort call found")
		}
	}
	ss := p.Func(load.PkgRoot, "StringSimilarity")
	jw := p.Func(load.PkgRoot, "JaroWinkler")
	if ss == nil || jw == nil {
		r.Add("R12.d", "anchors", "-", "anchor").Unknown("StringSimilarity / JaroWinkler not found")
		return
	}
	calls := su.CallsTo(ss, jw)
	o := r.Add("R12.d", "operands handed to JaroWinkler by StringSimilarity", p.Pos(ss.Pos()), "normalisation of the two strings")
	if len(calls) != 1 || len(calls[0].Call.Args) < 2 {
		o.Unknown("StringSimilarity no longer calls JaroWinkler once")
		return
	}
	a, b := exprShape(calls[0].Call.Args[0], 0), exprShape(calls[0].Call.Args[1], 0)
	if a == b {
		o.OK("both operands: " + a)
	} else {
		o.Fail("the two strings are prepared differently (" + a + " vs " + b + "): StringSimilarity(x, y) and StringSimilarity(y, x) can differ and a string need not be maximally similar to itself")
	}
}

// c20TooOld (R20.f): the too-old warning is guarded by "a death is known" and
// reports the age at death. Both must rest on the same death estimate: the value
// whose presence the guard tests comes from a function that Age itself calls.
func c20TooOld(p *load.Prog, r *oblig.Run) {
	r.Rule("R20.f", "the too-old warning's 'death is known' test uses the death estimate the reported age is computed from", 1)
	fn := p.Method(load.PkgRoot, "IndividualNode", "tooOldWarnings")
	age := p.Method(load.PkgRoot, "IndividualNode", "Age")
	ctor := p.Func(load.PkgRoot, "NewIndividualTooOldWarning")
	o := r.Add("R20.f", "guard of the too-old warning", "-", "death test in tooOldWarnings")
	if fn == nil || age == nil || ctor == nil {
		o.Unknown("tooOldWarnings / Age / NewIndividualTooOldWarning not found")
		return
	}
	o.Pos = p.Pos(fn.Pos())
	sites := su.CallsTo(fn, ctor)
	if len(sites) == 0 || len(su.CallsTo(fn, age)) == 0 {
		o.Unknown("tooOldWarnings no longer builds the warning from Age()")
		return
	}
	ageCallees := map[*ssa.Function]bool{}
	for _, c := range su.Calls(age) {
		if cal := c.Common().StaticCallee(); cal != nil {
			ageCallees[cal] = true
		}
	}
	// nil tests that dominate the warning (true edge of x != nil)
	var tested []*ssa.Function
	unknownTest := ""
	for _, b := range fn.Blocks {
		iff, ok := b.Instrs[len(b.Instrs)-1].(*ssa.If)
		if !ok {
			continue
		}
		bo, ok := iff.Cond.(*ssa.BinOp)
		if !ok || bo.Op != token.NEQ {
			continue
		}
		k, isK := bo.Y.(*ssa.Const)
		if !isK || k.Value != nil {
			continue
		}
		if _, isPtr := bo.X.Type().Underlying().(*types.Pointer); !isPtr {
			continue
		}
		if !(len(b.Succs[0].Preds) == 1 && b.Succs[0].Dominates(sites[0].Block())) {
			continue
		}
		v := bo.X
		if ex, isEx := v.(*ssa.Extract); isEx {
			v = ex.Tuple
		}
		if c, isCall := v.(*ssa.Call); isCall && c.Call.StaticCallee() != nil {
			tested = append(tested, c.Call.StaticCallee())
		} else {
			unknownTest = v.String()
		}
	}
	switch {
	case len(tested) == 0 && unknownTest == "":
		o.Fail("the too-old warning is no longer guarded by a 'death is known' test: living people older than the limit are reported")
	case len(tested) == 0:
		o.Unknown("the guard tests " + unknownTest + ", which is not the result of a call")
	default:
		for _, t := range tested {
			if !ageCallees[t] {
				o.Fail("the guard tests " + load.FuncName(t) + ", but the age it reports (Age) is computed from other estimates (" + load.FuncName(age) + " does not call it): a person whose death is only known through the other estimate (e.g. a burial without a death event) is aged correctly and yet never reported - or reported without being dead")
				return
			}
		}
		o.OK("the guard tests the result of " + load.FuncName(tested[0]) + ", which Age computes the age from")
	}
}

// c20NoEarlyExit (R20.g): the loops of the warning producers examine every
// element - a loop is only left through its own header (range exhausted), never
// by a break or a return from inside its body. "Exactly when the facts warrant
// it" fails as soon as the search stops at the first candidate.
func c20NoEarlyExit(p *load.Prog, r *oblig.Run) {
	r.Rule("R20.g", "the loops of the warning producers are left only when their range is exhausted (no break, no return from inside)", 8)
	var fns []*ssa.Function
	for _, fn := range p.Repo {
		if pkgPathOf(fn) == load.PkgRoot && fn.Synthetic == "" && len(fn.Blocks) > 0 && fn.Signature.Recv() != nil && strings.HasSuffix(fn.Name(), "Warnings") && fn.Name() != "Warnings" {
			fns = append(fns, fn)
		}
	}
	sort.Slice(fns, func(i, j int) bool { return fns[i].String() < fns[j].String() })
	for _, fn := range fns {
		for hi, h := range loopHeaders(fn) {
			key := fmt.Sprintf("loop #%d in %s", hi+1, load.FuncName(fn))
			pos := p.Pos(fn.Pos())
			for _, ins := range h.Instrs {
				if ins.Pos().IsValid() {
					pos = p.Pos(ins.Pos())
					break
				}
			}
			o := r.Add("R20.g", key, pos, "exits of the loop")
			// natural loop body: blocks dominated by h that can reach h
			bad := ""
			for _, b := range fn.Blocks {
				if b == h || !loopBlock(b, h) {
					continue
				}
				for _, sx := range b.Succs {
					if sx != h && !loopBlock(sx, h) {
						// an edge that leaves the loop from inside the body
						line := 0
						for _, ins := range b.Instrs {
							if ins.Pos().IsValid() {
								line = p.Fset.Position(ins.Pos()).Line
							}
						}
						bad = fmt.Sprintf("the loop is left from inside its body (near line %d) before its range is exhausted", line)
					}
				}
			}
			if bad != "" {
				o.Fail(bad + ": the elements after that point are never examined, so a warning the facts warrant (an out-of-order pair that is not adjacent, a sibling listed after an unparsable one) is not reported")
			} else {
				o.OK("left only through its header")
			}
		}
	}
}

// fieldPathName: the name of the (last) field a float value is read from, through value or pointer structs.
func fieldPathName(v ssa.Value) string {
	switch x := v.(type) {
	case *ssa.Field:
		st, ok := x.X.Type().Underlying().(*types.Struct)
		if ok {
			return st.Field(x.Field).Name()
		}
	case *ssa.UnOp:
		if fa, ok := x.X.(*ssa.FieldAddr); ok && x.Op == token.MUL {
			return su.FieldName(fa)
		}
	}
	return ""
}

// c12Weights (R12.f/e): each component of the weighted similarity is multiplied by its own weight, and the
// name-against-name comparison of two individuals covers the whole matrix.
func c12Weights(p *load.Prog, r *oblig.Run) {
	r.Rule("R12.f", "each similarity component is weighted with its own weight (XSimilarity * XWeight)", 4)
	r.Rule("R12.e", "the name-against-name comparison of two individuals visits every pair (both loops run over their whole list)", 1)
	ws := p.Method(load.PkgRoot, "SurroundingSimilarity", "WeightedSimilarity")
	if ws == nil {
		r.Add("R12.f", "anchor", "-", "anchor").Unknown("SurroundingSimilarity.WeightedSimilarity not found")
	} else {
		n := 0
		for _, b := range ws.Blocks {
			for _, ins := range b.Instrs {
				bo, ok := ins.(*ssa.BinOp)
				if !ok || bo.Op != token.MUL {
					continue
				}
				a, c := fieldPathName(bo.X), fieldPathName(bo.Y)
				if strings.HasSuffix(c, "Similarity") {
					a, c = c, a
				}
				if !strings.HasSuffix(a, "Similarity") {
					continue
				}
				n++
				o := r.Add("R12.f", "weight of "+a, p.Pos(bo.Pos()), "factor "+a+" is multiplied with")
				want := strings.TrimSuffix(a, "Similarity") + "Weight"
				if c == want {
					o.OK(a + " * " + c)
				} else {
					o.Fail(fmt.Sprintf("%s is multiplied by %q instead of %s: with weights that are not all equal the applied weights no longer sum to one and the weighted similarity leaves [0, 1]", a, c, want))
				}
			}
		}
		if n == 0 {
			r.Add("R12.f", "products in WeightedSimilarity", p.Pos(ws.Pos()), "products").Unknown("no XSimilarity * weight product found")
		}
	}
	// R12.g: the loops of the similarity functions that take a best value over pairs run to the end
	r.Rule("R12.g", "the loops of the similarity functions over pairs of names, families and relatives are left only when their range is exhausted (the best value over all pairs does not depend on the order)", 3)
	seenG := map[*ssa.Function]bool{}
	for _, name := range []struct{ typ, fn string }{{"IndividualNode", "Similarity"}, {"IndividualNode", "SurroundingSimilarity"}, {"FamilyNode", "Similarity"}, {"IndividualNodes", "Similarity"}} {
		top := p.Method(load.PkgRoot, name.typ, name.fn)
		if top == nil {
			continue
		}
		fnsG := []*ssa.Function{top}
		for _, c := range su.Calls(top) {
			if h := c.Common().StaticCallee(); h != nil && h != top && pkgPathOf(h) == load.PkgRoot && len(h.Blocks) > 0 && strings.Contains(strings.ToLower(h.Name()), "similarity") && !seenG[h] && h.Name() != "Similarity" && h.Name() != "SurroundingSimilarity" {
				seenG[h] = true
				fnsG = append(fnsG, h)
			}
		}
		for _, fn := range fnsG {
			hsAll := loopHeaders(fn)
			for hi, h := range hsAll {
				// matrix loops only: a loop that contains, or is contained in, another loop (the greedy pass over the sorted
				// list of pairs legitimately stops at the first pair below the threshold)
				nested := false
				for _, h2 := range hsAll {
					if h2 != h && (loopBlock(h2, h) || loopBlock(h, h2)) {
						nested = true
					}
				}
				if !nested {
					continue
				}
				key := fmt.Sprintf("loop #%d in %s", hi+1, load.FuncName(fn))
				pos := p.Pos(fn.Pos())
				for _, ins := range h.Instrs {
					if ins.Pos().IsValid() {
						pos = p.Pos(ins.Pos())
						break
					}
				}
				ob := r.Add("R12.g", key, pos, "exits of the loop")
				bad := ""
				for _, b := range fn.Blocks {
					if b == h || !loopBlock(b, h) {
						continue
					}
					for _, sx := range b.Succs {
						if sx != h && !loopBlock(sx, h) {
							line := 0
							for _, ins := range b.Instrs {
								if ins.Pos().IsValid() {
									line = p.Fset.Position(ins.Pos()).Line
								}
							}
							bad = fmt.Sprintf("the loop is left from inside its body (near line %d) before its range is exhausted", line)
						}
					}
				}
				if bad != "" {
					ob.Fail(bad + ": the value kept is the first acceptable pair in the receiver's order, not the best pair, so a.Similarity(b) and b.Similarity(a) can differ")
				} else {
					ob.OK("left only through its header")
				}
			}
		}
	}
	sim := p.Method(load.PkgRoot, "IndividualNode", "Similarity")
	o := r.Add("R12.e", "name matrix in IndividualNode.Similarity", "-", "range of the two loops over the names")
	if sim == nil {
		o.Unknown("IndividualNode.Similarity not found")
		return
	}
	o.Pos = p.Pos(sim.Pos())
	// loops whose header has an index phi: it must start at -1/0 (range form) or 0, never at another loop's index
	bad, n := "", 0
	// the matrix may live in a helper IndividualNode.Similarity calls (bestNameSimilarity)
	scanFns := []*ssa.Function{sim}
	for _, c := range su.Calls(sim) {
		if h := c.Common().StaticCallee(); h != nil && h != sim && pkgPathOf(h) == load.PkgRoot && len(h.Blocks) > 0 && len(loopHeaders(h)) >= 2 && h.Signature.Recv() != nil && h.Signature.Recv().Type().String() == sim.Signature.Recv().Type().String() {
			scanFns = append(scanFns, h)
		}
	}
	var allHeaders []*ssa.BasicBlock
	for _, sf := range scanFns {
		allHeaders = append(allHeaders, loopHeaders(sf)...)
	}
	for _, h := range allHeaders {
		for _, ins := range h.Instrs {
			ph, ok := ins.(*ssa.Phi)
			if !ok {
				continue
			}
			if bt, isB := ph.Type().Underlying().(*types.Basic); !isB || bt.Info()&types.IsInteger == 0 {
				continue
			}
			// entry edges (from blocks the header does not dominate)
			for i, pr := range h.Preds {
				if h.Dominates(pr) {
					continue
				}
				n++
				if k, isK := su.ConstInt(ph.Edges[i]); !isK || (k != 0 && k != -1) {
					bad = "a loop index starts at " + ph.Edges[i].String() + " instead of the beginning of its list"
				}
			}
		}
	}
	switch {
	case n == 0:
		o.Unknown("no index loops found")
	case bad != "":
		o.Fail(bad + ": pairs on one side of the diagonal are never compared, and which ones depends on the order of the operands - a.Similarity(b) and b.Similarity(a) differ for individuals with several names")
	default:
		o.OK(fmt.Sprintf("%d loop(s), each from the beginning of its list", n))
	}
}

// mergePairHelper: h(left, right, ...) returns the individual asserted from MergeNodes(left, right, ...) called with its
// own first two parameters in order, and MergeNodes' error on its error returns.
func mergePairHelper(p *load.Prog, h, mn *ssa.Function) bool {
	if h == nil || h == mn || !p.IsRepoFunc(h) || len(h.Blocks) == 0 || len(h.Params) < 2 || h.Signature.Results().Len() != 2 {
		return false
	}
	calls := su.CallsTo(h, mn)
	if len(calls) != 1 {
		return false
	}
	mc := calls[0]
	if len(mc.Call.Args) < 2 || su.Strip(mc.Call.Args[0]) != ssa.Value(h.Params[0]) || su.Strip(mc.Call.Args[1]) != ssa.Value(h.Params[1]) {
		return false
	}
	okVal, okErr := false, true
	for _, b := range h.Blocks {
		ret, isRet := b.Instrs[len(b.Instrs)-1].(*ssa.Return)
		if !isRet || len(ret.Results) != 2 {
			continue
		}
		if k, isK := ret.Results[1].(*ssa.Const); isK && k.Value == nil {
			// success: the asserted result of the merge
			ta, isTA := ret.Results[0].(*ssa.TypeAssert)
			if !isTA {
				return false
			}
			ex, isEx := ta.X.(*ssa.Extract)
			if !isEx || ex.Tuple != ssa.Value(mc) || ex.Index != 0 {
				return false
			}
			okVal = true
			continue
		}
		ex, isEx := ret.Results[1].(*ssa.Extract)
		if !isEx || ex.Tuple != ssa.Value(mc) || ex.Index != 1 {
			okErr = false
		}
	}
	return okVal && okErr
}

// inCycle: the block can be reached again from one of its successors.
func inCycle(b *ssa.BasicBlock) bool {
	for _, s := range b.Succs {
		if su.ReachableBlocks(s)[b] {
			return true
		}
	}
	return false
}
