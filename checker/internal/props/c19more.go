package props

import (
	"os"
	"fmt"
	"go/token"
	"sort"
	"strings"

	"gedverif/internal/load"
	"gedverif/internal/oblig"
	"gedverif/internal/su"

	"golang.org/x/tools/go/ssa"
)

// lockPairing: every Lock()/RLock() of a sync mutex in the given packages is
// followed by the matching Unlock on every path to the end of the function (or
// the unlock is deferred). A path that leaves with the mutex held blocks every
// other worker at its next Lock for ever.
func lockPairing(p *load.Prog, r *oblig.Run, rule string, pkgs map[string]bool) {
	isMutex := func(c ssa.CallInstruction, names ...string) bool {
		cal := c.Common().StaticCallee()
		if cal == nil || cal.Pkg == nil || cal.Pkg.Pkg.Path() != "sync" || cal.Signature.Recv() == nil {
			return false
		}
		rt := cal.Signature.Recv().Type().String()
		if !strings.Contains(rt, "Mutex") {
			return false
		}
		for _, n := range names {
			if cal.Name() == n {
				return true
			}
		}
		return false
	}
	var fns []*ssa.Function
	for _, fn := range p.Repo {
		if pkgs[pkgPathOf(fn)] && len(fn.Blocks) > 0 {
			fns = append(fns, fn)
		}
	}
	sort.Slice(fns, func(i, j int) bool { return fns[i].String() < fns[j].String() })
	for _, fn := range fns {
		ord := 0
		for _, b := range fn.Blocks {
			for i, ins := range b.Instrs {
				c, ok := ins.(*ssa.Call)
				if !ok || !isMutex(c, "Lock", "RLock") {
					continue
				}
				ord++
				key := fmt.Sprintf("Lock #%d in %s", ord, load.FuncName(fn))
				o := r.Add(rule, key, p.Pos(c.Pos()), "mutex acquired")
				mu := c.Call.Args[0]
				sameMu := func(v ssa.Value) bool {
					if v == mu {
						return true
					}
					// two loads of the same variable / field address
					a, ok1 := v.(*ssa.UnOp)
					bb, ok2 := mu.(*ssa.UnOp)
					if ok1 && ok2 {
						if a.X == bb.X {
							return true
						}
						fa, okA := a.X.(*ssa.FieldAddr)
						fb, okB := bb.X.(*ssa.FieldAddr)
						if okA && okB && fa.X == fb.X && fa.Field == fb.Field {
							return true
						}
					}
					fa, ok1 := v.(*ssa.FieldAddr)
					fb, ok2 := mu.(*ssa.FieldAddr)
					return ok1 && ok2 && fa.X == fb.X && fa.Field == fb.Field
				}
				// deferred unlock anywhere dominating or in the same block before the lock's exit
				deferred := false
				for _, b2 := range fn.Blocks {
					for _, i2 := range b2.Instrs {
						if d, ok := i2.(*ssa.Defer); ok && isMutex(d, "Unlock", "RUnlock") && sameMu(d.Call.Args[0]) {
							deferred = true
						}
					}
				}
				if deferred {
					o.OK("unlock deferred")
					continue
				}
				// search: from just after the lock, can a return be reached without an unlock of the same mutex?
				unlocksIn := func(instrs []ssa.Instruction) bool {
					for _, i2 := range instrs {
						if c2, ok := i2.(*ssa.Call); ok && isMutex(c2, "Unlock", "RUnlock") && sameMu(c2.Call.Args[0]) {
							return true
						}
					}
					return false
				}
				bad := ""
				if !unlocksIn(b.Instrs[i+1:]) {
					seen := map[*ssa.BasicBlock]bool{}
					var walk func(x *ssa.BasicBlock)
					walk = func(x *ssa.BasicBlock) {
						if seen[x] || bad != "" {
							return
						}
						seen[x] = true
						if unlocksIn(x.Instrs) {
							return
						}
						if len(x.Succs) == 0 {
							if _, isRet := x.Instrs[len(x.Instrs)-1].(*ssa.Return); isRet {
								bad = "the function can return (" + p.Pos(x.Instrs[len(x.Instrs)-1].Pos()) + ") with the mutex still held"
							}
							return
						}
						for _, sx := range x.Succs {
							if sx == b {
								bad = "the lock can be reached again with the mutex still held"
								return
							}
							walk(sx)
						}
					}
					if len(b.Succs) == 0 {
						if _, isRet := b.Instrs[len(b.Instrs)-1].(*ssa.Return); isRet {
							bad = "the function returns with the mutex still held"
						}
					}
					for _, sx := range b.Succs {
						walk(sx)
					}
				}
				if bad != "" {
					o.Fail(bad + ": the next worker that asks for the mutex waits for ever (publishing / matching never finishes)")
				} else {
					o.OK("unlocked on every path")
				}
			}
		}
	}
}

// c19More: R19.h (a shared cache entry is complete when it is stored) and
// R19.j (the place map that makes place links resolve is only built when the
// place pages are generated).
func c19More(p *load.Prog, r *oblig.Run) {
	r.Rule("R19.h", "a value stored into a shared sync.Map of the publisher is not modified after it was stored (other workers may already be reading it)", 1)
	r.Rule("R19.i", "every mutex taken on the publish path is released on every path", 1)
	r.Rule("R19.j", "the place map (which turns place names into links to place pages) is only built where the place pages are generated", 1)
	lockPairing(p, r, "R19.i", map[string]bool{load.PkgHTML: true, load.PkgCore: true, load.PkgUtil: true})
	// R19.h
	mutates := func(fn *ssa.Function) bool {
		if fn == nil || len(fn.Blocks) == 0 {
			return false
		}
		for _, b := range fn.Blocks {
			for _, ins := range b.Instrs {
				switch x := ins.(type) {
				case *ssa.Store:
					if fa, ok := x.Addr.(*ssa.FieldAddr); ok && len(fn.Params) > 0 && fa.X == ssa.Value(fn.Params[0]) {
						return true
					}
				case *ssa.MapUpdate:
					return true
				case ssa.CallInstruction:
					if su.CalleeIs(x.Common(), "sync", "Store") || su.CalleeIs(x.Common(), "sync", "Delete") || su.CalleeIs(x.Common(), "sync", "LoadOrStore") {
						return true
					}
				}
			}
		}
		return false
	}
	// store sites: direct sync.Map Store/LoadOrStore calls in package html, and calls of a small wrapper whose
	// parameter is what gets stored (a cache type with typed load/store accessors)
	type storeSite struct {
		call ssa.CallInstruction
		val  ssa.Value // the stored value (before MakeInterface)
		act  ssa.Value // for LoadOrStore: the call itself (its first result is the value in the map)
	}
	var stores []storeSite
	wrappers := map[*ssa.Function]int{}
	strip := func(v ssa.Value) ssa.Value {
		if mi, ok := v.(*ssa.MakeInterface); ok {
			return mi.X
		}
		return v
	}
	var htmlFns []*ssa.Function
	for _, fn := range p.Repo {
		if pkgPathOf(fn) == load.PkgHTML && len(fn.Blocks) > 0 {
			htmlFns = append(htmlFns, fn)
		}
	}
	sort.Slice(htmlFns, func(i, j int) bool { return htmlFns[i].String() < htmlFns[j].String() })
	for _, fn := range htmlFns {
		for _, c := range su.Calls(fn) {
			cc := c.Common()
			if !(su.CalleeIs(cc, "sync", "Store") || su.CalleeIs(cc, "sync", "LoadOrStore")) || len(cc.Args) < 3 {
				continue
			}
			v := strip(cc.Args[2])
			if prm, isP := v.(*ssa.Parameter); isP {
				for k, q := range fn.Params {
					if q == prm {
						wrappers[fn] = k
					}
				}
				continue
			}
			st := storeSite{call: c, val: v}
			if su.CalleeIs(cc, "sync", "LoadOrStore") {
				st.act, _ = c.(ssa.Value)
			}
			stores = append(stores, st)
		}
	}
	for _, fn := range htmlFns {
		for _, c := range su.Calls(fn) {
			if cal := c.Common().StaticCallee(); cal != nil {
				if k, isW := wrappers[cal]; isW && k < len(c.Common().Args) {
					stores = append(stores, storeSite{call: c, val: strip(c.Common().Args[k])})
				}
			}
		}
	}
	n := 0
	for _, st := range stores {
		c := st.call
		fn := c.Parent()
		n++
		o := r.Add("R19.h", fmt.Sprintf("entry stored in %s #%d", load.FuncName(fn), n), p.Pos(c.Pos()), "value published in a shared cache")
		objs := map[ssa.Value]bool{st.val: true}
		if st.act != nil {
			for _, ref := range *st.act.Referrers() {
				if ex, ok := ref.(*ssa.Extract); ok && ex.Index == 0 {
					for _, r2 := range *ex.Referrers() {
						if ta, ok := r2.(*ssa.TypeAssert); ok {
							objs[ta] = true
							for _, r3 := range *ta.Referrers() {
								if e2, ok := r3.(*ssa.Extract); ok && e2.Index == 0 {
									objs[e2] = true
								}
							}
						}
					}
				}
			}
		}
		after := map[ssa.Instruction]bool{}
		past := false
		for _, ins := range c.Block().Instrs {
			if past {
				after[ins] = true
			}
			if ins == c.(ssa.Instruction) {
				past = true
			}
		}
		for rb := range su.ReachableBlocks(c.Block()) {
			if rb != c.Block() {
				for _, ins := range rb.Instrs {
					after[ins] = true
				}
			}
		}
		if su.ReachableBlocks(c.Block())[c.Block()] {
			for _, ins := range c.Block().Instrs {
				after[ins] = true
			}
		}
		bad := ""
		for ins := range after {
			c2, ok := ins.(ssa.CallInstruction)
			if !ok || len(c2.Common().Args) == 0 || !objs[c2.Common().Args[0]] {
				continue
			}
			if cal := c2.Common().StaticCallee(); cal != nil && mutates(cal) {
				bad = "after the store, " + load.FuncName(cal) + " is called on the stored value at " + p.Pos(ins.Pos())
			}
		}
		if bad != "" {
			o.Fail("the cache entry is published before it is complete: " + bad + " - another worker that finds the entry meanwhile reads a partial value, so page contents depend on the number of jobs and the schedule")
		} else {
			o.OK("not modified after it was stored")
		}
	}
	// R19.j
	places := p.Method(load.PkgHTML, "Publisher", "Places")
	o := r.Add("R19.j", "calls of Publisher.Places", "-", "where the place map is built")
	if places == nil {
		o.Unknown("Publisher.Places not found")
		return
	}
	o.Pos = p.Pos(places.Pos())
	bad, sites := "", 0
	for _, fn := range p.Repo {
		if fn == places || !strings.HasPrefix(pkgPathOf(fn), load.PkgHTML) {
			continue
		}
		for _, c := range su.CallsTo(fn, places) {
			sites++
			guarded := false
			for _, b := range fn.Blocks {
				iff, ok := b.Instrs[len(b.Instrs)-1].(*ssa.If)
				if !ok {
					continue
				}
				ld, ok := iff.Cond.(*ssa.UnOp)
				if !ok || ld.Op != token.MUL {
					continue
				}
				fa, ok := ld.X.(*ssa.FieldAddr)
				if !ok || su.FieldName(fa) != "ShowPlaces" {
					continue
				}
				if ts := b.Succs[0]; len(ts.Preds) == 1 && (ts == c.Block() || ts.Dominates(c.Block())) {
					guarded = true
				}
			}
			if !guarded {
				bad = "Publisher.Places is called in " + load.FuncName(fn) + " at " + p.Pos(c.Pos()) + " without the ShowPlaces test"
			}
		}
	}
	switch {
	case sites == 0:
		o.Unknown("Publisher.Places is never called")
	case bad != "":
		o.Fail(bad + ": with the places group switched off every page still links its places to <place>.html, and those pages are not generated")
	default:
		o.OK(fmt.Sprintf("%d call site(s), all under the ShowPlaces test", sites))
	}
}

// c19Truncate (R19.o): a published file holds exactly the bytes of its page. Every place in package html/core and
// html that opens a file for writing creates it empty: os.Create, or os.OpenFile whose constant flags contain
// O_CREATE and O_TRUNC (and not O_APPEND). Otherwise a page that is shorter than the file a previous publish left
// under the same name keeps that file's tail - the output depends on what was in the directory before.
func c19Truncate(p *load.Prog, r *oblig.Run) {
	r.Rule("R19.o", "every file the publisher opens for writing is created empty (os.Create, or O_CREATE|O_TRUNC without O_APPEND)", 1)
	n := 0
	for _, fn := range p.Repo {
		pk := pkgPathOf(fn)
		if pk != load.PkgHTML && pk != load.PkgCore {
			continue
		}
		for _, c := range su.Calls(fn) {
			cc := c.Common()
			switch {
			case su.CalleeIs(cc, "os", "Create"):
				n++
				r.Add("R19.o", "file opened in "+load.FuncName(fn), p.Pos(c.Pos()), "os.Create").OK("os.Create truncates")
			case su.CalleeIs(cc, "os", "OpenFile"):
				flags, isK := su.ConstInt(cc.Args[1])
				if isK && flags&int64(os.O_WRONLY|os.O_RDWR) == 0 {
					continue // read only
				}
				n++
				o := r.Add("R19.o", "file opened in "+load.FuncName(fn), p.Pos(c.Pos()), "os.OpenFile for writing")
				switch {
				case !isK:
					o.Unknown("the flags of os.OpenFile are not constant")
				case flags&int64(os.O_TRUNC) == 0 || flags&int64(os.O_APPEND) != 0:
					o.Fail("the file is opened for writing without O_TRUNC (or with O_APPEND): a page shorter than the file an earlier publish left under the same name keeps the old file's tail after </html>, and no error is reported - the published bytes depend on the previous content of the directory")
				case flags&int64(os.O_CREATE) == 0:
					o.Fail("the file is opened for writing without O_CREATE: a page that does not exist yet cannot be published")
				default:
					o.OK("O_CREATE|O_TRUNC")
				}
			}
		}
	}
	if n == 0 {
		r.Add("R19.o", "files opened for writing", "-", "anchor").Unknown("package html/core opens no file for writing (os.Create / os.OpenFile)")
	}
}

// c19FreshMaps (R19.p): a map kept in a field of the publisher is handed to the pages the producer creates and read
// by the workers that render them. It is filled only in the call that allocated it (the store of a fresh map into
// the field dominates every update through the field), so a page holds either no map yet or a map that is complete
// before the page is sent to a worker. A map allocated at construction and filled later is written by the producer
// while workers read it through the pages created earlier: the content of those pages depends on the schedule.
func c19FreshMaps(p *load.Prog, r *oblig.Run) {
	r.Rule("R19.p", "a map field of the publisher is filled only in the call that allocated it (pages never hold a map that is still being filled)", 1)
	n := 0
	for _, fn := range p.Repo {
		if pkgPathOf(fn) != load.PkgHTML {
			continue
		}
		type site struct {
			upd   *ssa.MapUpdate
			field string
		}
		var sites []site
		fresh := map[string][]ssa.Instruction{}
		for _, b := range fn.Blocks {
			for _, ins := range b.Instrs {
				switch x := ins.(type) {
				case *ssa.MapUpdate:
					if ld, ok := x.Map.(*ssa.UnOp); ok && ld.Op == token.MUL {
						if fa, ok := ld.X.(*ssa.FieldAddr); ok {
							if ow := su.FieldOwner(fa); ow != nil && ow.Obj().Name() == "Publisher" {
								sites = append(sites, site{x, su.FieldName(fa)})
							}
						}
					}
				case *ssa.Store:
					if fa, ok := x.Addr.(*ssa.FieldAddr); ok {
						if ow := su.FieldOwner(fa); ow != nil && ow.Obj().Name() == "Publisher" {
							if _, isMake := x.Val.(*ssa.MakeMap); isMake {
								fresh[su.FieldName(fa)] = append(fresh[su.FieldName(fa)], x)
							}
						}
					}
				}
			}
		}
		byField := map[string]bool{}
		for _, s := range sites {
			if byField[s.field] {
				continue
			}
			byField[s.field] = true
			n++
			o := r.Add("R19.p", "updates of Publisher."+s.field+" in "+load.FuncName(fn), p.Pos(s.upd.Pos()), "the map is fresh in this call")
			bad := ""
			for _, s2 := range sites {
				if s2.field != s.field {
					continue
				}
				dom := false
				for _, st := range fresh[s.field] {
					if su.Dominates(st, s2.upd) {
						dom = true
					}
				}
				if !dom {
					bad = p.Pos(s2.upd.Pos())
				}
			}
			if bad != "" {
				o.Fail("the update at " + bad + " writes into the map already kept in Publisher." + s.field + " (no allocation of a fresh map into the field dominates it): pages created before this call hold that same map and are rendered by workers while it is being filled - their content depends on the schedule and the number of jobs, and the unsynchronised map access can crash the process")
			} else {
				o.OK("every update follows the allocation of a fresh map into the field in the same call")
			}
		}
	}
	if n == 0 {
		r.Add("R19.p", "map fields of the publisher", "-", "updates through a map field").OK("no map is filled through a field of html.Publisher (maps are built in locals and stored complete)")
	}
}
