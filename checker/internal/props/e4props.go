package props

import (
	"fmt"
	"go/constant"
	"go/token"
	"go/types"
	"sort"
	"strings"

	"gedverif/internal/cg"
	"gedverif/internal/e4"
	"gedverif/internal/load"
	"gedverif/internal/oblig"
	"gedverif/internal/su"

	"golang.org/x/tools/go/ssa"
)

func e4Assumptions() []string {
	return []string{
		"abstract heap is flow-insensitive and allocation-site based; everything reachable from a parameter of the query's root function is one region object; contexts are distinguished by abstract arguments and constant bool arguments",
		"callees are resolved by the function values that flow to the call (closures, function parameters) and otherwise by VTA; library calls are opaque: results may alias arguments, function-typed arguments are called back, sync.Map/sort/fmt/json/reflect are modelled",
		"no unsafe, no reflection-based mutation of node fields (reflection in the repository is confined to q and Nodes.CastTo, which build slices)",
		"field-based state classification: structural = SimpleNode.{tag,value,pointer,children}, Document.{nodes,HasBOM,MaxLivingAge} and elements of node-typed slices/arrays (incl. the in-place append/copy/sort idioms); cache fields are listed in DESIGN.md (E4)",
	}
}

// purity runs a Q-pure query: no structural write on state reachable from the
// root's parameters listed in protected (nil = all).
type purityResult struct {
	a      *e4.Analysis
	writes []*e4.Write
}

func runPurity(p *load.Prog, g *cg.Graph, root *ssa.Function, args []e4.ObjSet, protected map[int]bool) purityResult {
	a := e4.New(p, g, root)
	a.Run(args)
	res := purityResult{a: a}
	for _, w := range a.SortedWrites() {
		if w.Class != "structural" {
			continue
		}
		hit := false
		for _, o := range w.Target.List() {
			if o.Kind == "R" && (protected == nil || protected[o.Idx]) {
				hit = true
			}
		}
		if hit {
			res.writes = append(res.writes, w)
		}
	}
	return res
}

// addPurityObligations emits one obligation for the root and one violation per
// structural write.
func addPurityObligations(p *load.Prog, r *oblig.Run, rule string, root *ssa.Function, res purityResult, what string) {
	name := load.FuncName(root)
	if res.a.Over {
		r.Add(rule, "pure "+name, p.Pos(root.Pos()), what).Unknown("analysis budget exceeded")
		return
	}
	o := r.Add(rule, "pure "+name, p.Pos(root.Pos()), what)
	if len(res.writes) == 0 {
		o.OK(fmt.Sprintf("no structural store on the protected state in %d analysed contexts", res.a.Contexts()))
		return
	}
	o.OK("see the per-write obligations")
	for _, w := range res.writes {
		var ts []string
		for _, ob := range w.Target.List() {
			if ob.Kind == "R" {
				ts = append(ts, res.a.Describe(ob))
			}
		}
		sort.Strings(ts)
		key := fmt.Sprintf("write %s in %s reached from %s", w.Field, load.FuncName(w.Fn), name)
		r.Add(rule, key, p.Pos(w.Instr.Pos()), what).Fail(
			fmt.Sprintf("%s is advertised as read-only but can store into %s of %s", name, w.Field, strings.Join(ts, "; ")),
			append([]string{"call chain to the store:"}, w.Stack...)...)
	}
}

// freshness: the root's result #idx and everything below it structurally is
// made of objects allocated during the call.
func addFreshObligation(p *load.Prog, r *oblig.Run, rule string, root *ssa.Function, a *e4.Analysis, idx int, what string) {
	name := load.FuncName(root)
	o := r.Add(rule, "fresh result of "+name, p.Pos(root.Pos()), what)
	if a.Over {
		o.Unknown("analysis budget exceeded")
		return
	}
	if idx >= len(a.RootRet) {
		o.Unknown("root has no such result")
		return
	}
	cl := a.StructClosure(a.RootRet[idx])
	var bad []string
	for _, ob := range cl.List() {
		if ob.Kind != "S" && ob.Kind != "F" {
			bad = append(bad, a.Describe(ob))
		}
	}
	sort.Strings(bad)
	if len(bad) == 0 {
		o.OK(fmt.Sprintf("result and its structural contents consist of %d allocation sites only", cl.Len()))
		return
	}
	// witness: which structural stores put a non-fresh object into a fresh one
	var wit []string
	for _, ob := range cl.List() {
		if ob.Kind != "S" {
			continue
		}
		for _, c := range a.TreeContents(ob).List() {
			if c.Kind != "S" && c.Kind != "F" {
				wit = append(wit, a.Describe(ob)+" holds "+a.Describe(c))
			}
		}
	}
	sort.Strings(wit)
	if len(wit) > 6 {
		wit = wit[:6]
	}
	wit = append(append([]string{"shortest chain from the result to a non-fresh object:"}, a.PathToNonFresh(a.RootRet[idx])...), wit...)
	o.Fail(name+" returns (or places inside its result) nodes that are not fresh copies: "+strings.Join(bad, "; "), wit...)
}

// C08: node diff.
func C08(p *load.Prog, r *oblig.Run) {
	r.Explanation = "Effect/provenance analysis (E4). R08.a: from CompareNodes and every NodeDiff query method (String, IsDeepEqual, Sort, Tag, and the unexported helpers they use) no store to a structural node field " +
		"(children/value/tag/pointer, elements of node slices) can reach an object that is reachable from the compared nodes or from the diff; the analysis is an abstract interpretation over allocation sites and " +
		"parameter regions with call-string-free, argument-sensitive contexts. R08.b: every store into NodeDiff.Left (.Right) stores a node that stems from the left (right) input of CompareNodes - never a copy, never the other side " +
		"(contexts are split on the constant isLeft argument). The flattening mutators LeftNode/RightNode are documented as such and are not in the read-only set; using them from a read-only operation is what R08.a reports. R08.c (path rule): every path of CompareNodes calls traverse(left, true) and traverse(right, false); NodeDiff.traverse walks n.Nodes() with a complete element loop, and every feasible iteration path (flags set on the way are followed through phis) walks the child into exactly one entry - an existing one, or a new one that is stored into Children."
	r.NotDecided = "which entry a child is matched to (depends on Equals values), that every child is represented exactly once, all-two-sidedness for deep-equal inputs, IsDeepEqual's verdict."
	r.Assumptions = e4Assumptions()
	r.Rule("R08.a", "computing, printing, sorting or querying a diff performs no structural write on the compared trees", 5)
	r.Rule("R08.b", "each entry's Left (Right) is a node of the left (right) input itself", 2)
	g := cg.New(p, false)
	roots := []*ssa.Function{p.MustFunc(load.PkgRoot, "CompareNodes")}
	for _, m := range []string{"String", "IsDeepEqual", "Sort", "Tag"} {
		roots = append(roots, p.MustMethod(load.PkgRoot, "NodeDiff", m))
	}
	for _, root := range roots {
		res := runPurity(p, g, root, nil, nil)
		addPurityObligations(p, r, "R08.a", root, res, "read-only diff operation "+load.FuncName(root))
	}
	c08Accounts(p, r)
	c08DeepEqual(p, r)
	// children are matched with Equals: a node that is not equal to its own copy cannot give an all-two-sided diff
	c07PairSearch(p, r)
	c09KindOnlyEquals(p, r)
	r.Rule("R07.e", "list equality answers true only for lists of equal length (the relation children are matched with is symmetric in the child counts)", 1)
	c07ListEquality(p, r)
	bitMarks(p, r, "R07.k")
	// R08.b
	cn := roots[0]
	a := e4.New(p, g, cn)
	a.Watch = map[string]bool{"NodeDiff.Left": true, "NodeDiff.Right": true}
	a.Run(nil)
	var ws []*e4.Watched
	for _, w := range a.Watched {
		ws = append(ws, w)
	}
	sort.Slice(ws, func(i, j int) bool { return p.Pos(ws[i].Instr.Pos()) < p.Pos(ws[j].Instr.Pos()) })
	for _, w := range ws {
		want := 0
		side := "left"
		if w.Field == "NodeDiff.Right" {
			want, side = 1, "right"
		}
		var bad []string
		for _, ob := range w.Val.List() {
			if ob.Kind == "R" && ob.Idx == want {
				continue
			}
			bad = append(bad, a.Describe(ob))
		}
		sort.Strings(bad)
		o := r.Add("R08.b", "store "+w.Field+" in "+load.FuncName(w.Fn), p.Pos(w.Instr.Pos()), "node stored into "+w.Field)
		if len(bad) == 0 && w.Val.Len() > 0 {
			o.OK("always a node of the " + side + " input")
		} else if w.Val.Len() == 0 {
			o.Unknown("no value reaches this store in the analysed contexts")
		} else {
			o.Fail("an entry's "+strings.TrimPrefix(w.Field, "NodeDiff.")+" can be set to something other than a node of the "+side+" input: "+strings.Join(bad, "; "),
				append([]string{"call chain:"}, w.Stack...)...)
		}
	}
}

// C09: merging nodes.
func C09(p *load.Prog, r *oblig.Run) {
	r.Explanation = "Effect/provenance analysis (E4). R09.a: the result of MergeNodes and of MergeNodeSlices (with EqualityMergeFunction as the merge function) and everything structurally below it consists only of " +
		"objects allocated during the call (fresh copies); an input node placed in the result by reference is reported with the store that put it there. R09.b: no structural store reaches the left or right input " +
		"(including the in-place append(right[:j], ...) idiom, which must act on the function's own copy of the slice). The destination document is not protected."
	r.NotDecided = "the length bounds as numbers, that every input element is represented exactly once, 'adds nothing when merged with itself'."
	r.Assumptions = e4Assumptions()
	r.Rule("R09.a", "the merge result is built from fresh nodes all the way down", 2)
	r.Rule("R09.b", "merging performs no structural write on either input", 2)
	// which children are merged is decided by the Equals methods: a value used while its error is thrown away there
	// (every malformed identifier becomes the same empty one) merges nodes that are not equal (C10's R10.b)
	defer c10Errors(p, r)
	c09KindOnlyEquals(p, r)
	c09TypedNil(p, r)
	c09Accounts(p, r)
	// merging matches children with Equals (C07's pair-search rules) and is built from deep copies
	c07PairSearch(p, r)
	r.Rule("R07.e", "list equality answers true only for lists of equal length (the relation children are matched with is symmetric in the child counts)", 1)
	c07ListEquality(p, r)
	bitMarks(p, r, "R07.k")
	c07CopyWalksAll(p, r)
	c07CopyThroughFilter(p, r)
	c07Bookkeeping(p, r)
	c07EqualityReadsOnly(p, r)
	r.Rule("R09.c", "a merge function returns nil or a node computed from both operands (nothing of the right node is dropped by a shortcut)", 1)
	g := cg.New(p, false)
	mn := p.MustFunc(load.PkgRoot, "MergeNodes")
	ms := p.MustFunc(load.PkgRoot, "MergeNodeSlices")
	eq := p.MustFunc(load.PkgRoot, "EqualityMergeFunction")
	{
		a := e4.New(p, g, mn)
		a.Run(nil)
		addFreshObligation(p, r, "R09.a", mn, a, 0, "result of MergeNodes")
		res := purityResult{a: a}
		for _, w := range a.SortedWrites() {
			if w.Class == "structural" && targetsParam(w, map[int]bool{0: true, 1: true}) {
				res.writes = append(res.writes, w)
			}
		}
		addPurityObligations(p, r, "R09.b", mn, res, "inputs of MergeNodes")
	}
	{
		a := e4.New(p, g, ms)
		args := []e4.ObjSet{e4.Single(a.R(0)), e4.Single(a.R(1)), e4.Single(a.R(2)), a.FuncObj(eq)}
		a.Run(args)
		addFreshObligation(p, r, "R09.a", ms, a, 0, "result of MergeNodeSlices")
		res := purityResult{a: a}
		for _, w := range a.SortedWrites() {
			if w.Class == "structural" && targetsParam(w, map[int]bool{0: true, 1: true}) {
				res.writes = append(res.writes, w)
			}
		}
		addPurityObligations(p, r, "R09.b", ms, res, "inputs of MergeNodeSlices")
	}
	mergeFnDependsOnBoth(p, r, eq)
	if outer := p.Func(load.PkgRoot, "IndividualBySurroundingSimilarityMergeFunction"); outer != nil {
		for _, an := range outer.AnonFuncs {
			mergeFnDependsOnBoth(p, r, an)
		}
	}
}

// mergeFnDependsOnBoth: every returned value of a merge function is nil or
// derives from a call that receives (values derived from) both operands.
func mergeFnDependsOnBoth(p *load.Prog, r *oblig.Run, fn *ssa.Function) {
	o := r.Add("R09.c", "results of "+load.FuncName(fn), p.Pos(fn.Pos()), "what the merge function returns")
	if len(fn.Params) < 2 {
		o.Unknown("not a merge function")
		return
	}
	var derives func(v ssa.Value, prm *ssa.Parameter, depth int) bool
	derives = func(v ssa.Value, prm *ssa.Parameter, depth int) bool {
		if depth > 8 {
			return false
		}
		if v == ssa.Value(prm) {
			return true
		}
		switch x := v.(type) {
		case *ssa.Phi:
			for _, e := range x.Edges {
				if derives(e, prm, depth+1) {
					return true
				}
			}
		case *ssa.Extract:
			return derives(x.Tuple, prm, depth+1)
		case *ssa.TypeAssert:
			return derives(x.X, prm, depth+1)
		case *ssa.ChangeInterface:
			return derives(x.X, prm, depth+1)
		case *ssa.MakeInterface:
			return derives(x.X, prm, depth+1)
		case *ssa.ChangeType:
			return derives(x.X, prm, depth+1)
		case *ssa.Call:
			for _, a := range x.Call.Args {
				if derives(a, prm, depth+1) {
					return true
				}
			}
			if x.Call.IsInvoke() {
				return derives(x.Call.Value, prm, depth+1)
			}
		}
		return false
	}
	var isNil func(v ssa.Value, depth int) bool
	isNil = func(v ssa.Value, depth int) bool {
		if c, ok := v.(*ssa.Const); ok {
			return c.Value == nil
		}
		if ph, ok := v.(*ssa.Phi); ok && depth < 4 {
			for _, e := range ph.Edges {
				if !isNil(e, depth+1) {
					return false
				}
			}
			return true
		}
		return false
	}
	n := 0
	for _, b := range fn.Blocks {
		ret, ok := b.Instrs[len(b.Instrs)-1].(*ssa.Return)
		if !ok || len(ret.Results) == 0 {
			continue
		}
		v := ret.Results[0]
		if isNil(v, 0) {
			continue
		}
		n++
		if !(derives(v, fn.Params[0], 0) && derives(v, fn.Params[1], 0)) {
			o.Fail("the merge function can return, at " + p.Pos(ret.Pos()) + ", a node that is computed from only one of its two operands: whatever the other operand (and its descendants) holds is lost from the merge result")
			return
		}
	}
	if n == 0 {
		o.Fail("the merge function never returns a merged node")
		return
	}
	o.OK(fmt.Sprintf("%d non-nil return(s), each computed from both operands", n))
}

func targetsParam(w *e4.Write, prot map[int]bool) bool {
	for _, o := range w.Target.List() {
		if o.Kind == "R" && prot[o.Idx] {
			return true
		}
	}
	return false
}

// C07: copy clauses.
func C07(p *load.Prog, r *oblig.Run) {
	r.Explanation = "Effect/provenance analysis (E4), copy clauses only. R07.a: the result of DeepCopy and everything structurally below it is allocated during the call - the copy shares no node with its source. " +
		"R07.b: DeepCopy and Filter perform no structural write on the source tree (writes to the destination document are allowed). R07.c: the copy of a node is built by the kind registry from the source's own tag, value and pointer."
	r.NotDecided = "that DeepEqual is an equivalence ignoring child order, symmetry, and the per-kind Equals rules (value-level); that the copy serialises identically."
	r.Assumptions = e4Assumptions()
	r.Rule("R07.a", "a deep copy shares no node with its source", 1)
	r.Rule("R07.b", "copying leaves the source untouched", 2)
	r.Rule("R07.c", "a node is copied with its own tag, value and pointer through the kind registry", 1)
	r.Rule("R07.d", "the family links of copied HUSB/WIFE/CHIL nodes lead to families made by the copy, never to the source's", 1)
	r.Rule("R07.e", "DeepEqual answers true only after the numbers of children of both nodes were compared (or both found zero)", 1)
	c07EqualShortcuts(p, r)
	c07ListEquality(p, r)
	bitMarks(p, r, "R07.k")
	c07PairSearch(p, r)
	// a copy is made through the kind registry (newNode): it serialises identically only if every kind's constructor
	// passes value and pointer through unchanged (C01's registry rule)
	r.Rule("R01.c", "tag -> specialised kind registry agrees with the tag each kind's constructor hard-wires; value and pointer are passed through", 27)
	c01Registry(p, r)
	c01RegistryInvariant(p, r)
	c07CopyWalksAll(p, r)
	c07CopyThroughFilter(p, r)
	c07Bookkeeping(p, r)
	c07EqualityReadsOnly(p, r)
	g := cg.New(p, false)
	dc := p.MustFunc(load.PkgRoot, "DeepCopy")
	fl := p.MustFunc(load.PkgRoot, "Filter")
	{
		a := e4.New(p, g, dc)
		a.Run(nil)
		addFreshObligation(p, r, "R07.a", dc, a, 0, "result of DeepCopy")
		c07FamilyLinks(p, r)
		res := purityResult{a: a}
		for _, w := range a.SortedWrites() {
			if w.Class == "structural" && targetsParam(w, map[int]bool{0: true}) {
				res.writes = append(res.writes, w)
			}
		}
		addPurityObligations(p, r, "R07.b", dc, res, "source of DeepCopy")
	}
	{
		// Filter with an identity-like callback: use every FilterFunction-returning constructor of the package as callback
		a := e4.New(p, g, fl)
		cb := e4.NewSet()
		for _, fn := range p.Repo {
			if fn.Parent() != nil && fn.Signature.Params().Len() == 1 && fn.Signature.Results().Len() == 2 {
				if n := load.NamedOf(fn.Signature.Params().At(0).Type()); n != nil && n.Obj().Name() == "Node" && fn.Parent().Pkg != nil && fn.Parent().Pkg.Pkg.Path() == load.PkgRoot {
					for _, o := range a.FuncObj(fn).List() {
						cb.Add(o)
					}
				}
			}
		}
		args := []e4.ObjSet{e4.Single(a.R(0)), e4.Single(a.R(1)), cb}
		a.Run(args)
		res := purityResult{a: a}
		for _, w := range a.SortedWrites() {
			if w.Class == "structural" && targetsParam(w, map[int]bool{0: true}) {
				res.writes = append(res.writes, w)
			}
		}
		r.Extra["filter_callbacks_analysed"] = cb.Len()
		addPurityObligations(p, r, "R07.b", fl, res, "source of Filter (with every filter function of the package as callback)")
	}
	// R07.c
	sc := p.Func(load.PkgRoot, "shallowCopyNode")
	nn := p.Func(load.PkgRoot, "newNode")
	o := r.Add("R07.c", "shallowCopyNode arguments", "-", "tag/value/pointer handed to the kind registry")
	if sc == nil || nn == nil {
		o.Unknown("shallowCopyNode/newNode not found")
		return
	}
	o.Pos = p.Pos(sc.Pos())
	calls := 0
	for _, b := range sc.Blocks {
		for _, ins := range b.Instrs {
			c, ok := ins.(*ssa.Call)
			if !ok || c.Call.StaticCallee() != nn {
				continue
			}
			calls++
			idx := map[string]int{}
			for i, q := range nn.Params {
				idx[q.Name()] = i
			}
			okAll := true
			for _, pair := range [][2]string{{"tag", "Tag"}, {"value", "Value"}, {"pointer", "Pointer"}} {
				arg := c.Call.Args[idx[pair[0]]]
				inv, isCall := arg.(*ssa.Call)
				if !isCall || !inv.Call.IsInvoke() || inv.Call.Method.Name() != pair[1] || inv.Call.Value != ssa.Value(sc.Params[0]) {
					okAll = false
				}
			}
			if okAll {
				o.OK("newNode(document, family, node.Tag(), node.Value(), node.Pointer())")
			} else {
				o.Fail("the copy of a node is not built from the source's own Tag(), Value() and Pointer() in that order: a copied node differs from its source")
			}
		}
	}
	if calls == 0 {
		o.Fail("shallowCopyNode no longer goes through the kind registry (newNode): copies may lose their specialised kind")
	}
}

// c07FamilyLinks (R07.d): the family handed to the constructor of a copied
// HUSB/WIFE/CHIL node in filter() is produced by Document.AddFamily on the
// destination (through the entity map), inherited from the enclosing filter
// call, or nil - never the source's family. (The allocation sites of the node
// constructors are shared between the intermediate copy made by the callback
// and the final copy, so this clause is decided on the value flow inside
// filter instead of on the abstract heap.)
func c07FamilyLinks(p *load.Prog, r *oblig.Run) {
	o := r.Add("R07.d", "family given to the copies made by filter", "-", "origin of the family argument of the copy constructor")
	fl := p.Func(load.PkgRoot, "filter")
	sc := p.Func(load.PkgRoot, "shallowCopyNode")
	addFam := p.Method(load.PkgRoot, "Document", "AddFamily")
	if fl == nil || sc == nil || addFam == nil {
		o.Unknown("filter / shallowCopyNode / Document.AddFamily not found")
		return
	}
	o.Pos = p.Pos(fl.Pos())
	var famParam *ssa.Parameter
	for _, prm := range fl.Params {
		if n := load.NamedOf(prm.Type()); n != nil && n.Obj().Name() == "FamilyNode" {
			famParam = prm
		}
	}
	calls := su.CallsTo(fl, sc)
	if len(calls) == 0 || famParam == nil {
		o.Unknown("filter no longer copies through shallowCopyNode with a family")
		return
	}
	bad := ""
	seen := map[ssa.Value]bool{}
	var fromAddFamily func(v ssa.Value, d int) bool
	fromAddFamily = func(v ssa.Value, d int) bool {
		v = su.Strip(v)
		if d > 8 {
			return false
		}
		switch x := v.(type) {
		case *ssa.Call:
			return x.Call.StaticCallee() == addFam
		case *ssa.Phi:
			for _, e := range x.Edges {
				if !fromAddFamily(e, d+1) {
					return false
				}
			}
			return true
		}
		return false
	}
	var walk func(v ssa.Value, d int)
	walk = func(v ssa.Value, d int) {
		if seen[v] || bad != "" {
			return
		}
		seen[v] = true
		if d > 12 {
			bad = "derivation too deep"
			return
		}
		switch x := v.(type) {
		case *ssa.Parameter:
			if x != famParam {
				bad = "parameter " + x.Name()
			}
		case *ssa.Const:
			if x.Value != nil {
				bad = "a constant"
			}
		case *ssa.Phi:
			for _, e := range x.Edges {
				walk(e, d+1)
			}
		case *ssa.TypeAssert:
			walk(x.X, d+1)
		case *ssa.Extract:
			walk(x.Tuple, d+1)
		case *ssa.ChangeInterface:
			walk(x.X, d+1)
		case *ssa.MakeInterface:
			walk(x.X, d+1)
		case *ssa.Call:
			cal := x.Call.StaticCallee()
			if cal == addFam {
				return
			}
			// entityMap.GetOrAssign(key, func() interface{}): the value is what the function argument returns
			okCall := false
			if cal != nil && cal.Name() == "GetOrAssign" {
				for _, a := range x.Call.Args {
					mc, isMC := a.(*ssa.MakeClosure)
					if !isMC {
						continue
					}
					okCall = true
					fn := mc.Fn.(*ssa.Function)
					for _, b := range fn.Blocks {
						if ret, isRet := b.Instrs[len(b.Instrs)-1].(*ssa.Return); isRet {
							for _, rv := range ret.Results {
								if !fromAddFamily(rv, 0) {
									bad = "the value returned at " + p.Pos(ret.Pos()) + ", which is not the result of Document.AddFamily on the destination document"
								}
							}
						}
					}
				}
			}
			if !okCall && cal != nil && p.IsRepoFunc(cal) && len(cal.Blocks) > 0 && cal != fl {
				// a helper that is handed the current family (filteredFamily(node, entityMap, document, current)): every
				// value it returns is walked; its own family parameter stands for the enclosing call's family
				var hp *ssa.Parameter
				for i, a := range x.Call.Args {
					if a == ssa.Value(famParam) && i < len(cal.Params) {
						hp = cal.Params[i]
					}
				}
				if hp != nil {
					okCall = true
					saved := famParam
					famParam = hp
					for _, b := range cal.Blocks {
						if ret, isRet := b.Instrs[len(b.Instrs)-1].(*ssa.Return); isRet {
							for _, rv := range ret.Results {
								walk(rv, d+1)
							}
						}
					}
					famParam = saved
				}
			}
			if !okCall && bad == "" {
				bad = "the result of " + x.Call.String()
			}
		default:
			bad = fmt.Sprintf("%s (%T)", v.String(), v)
		}
	}
	for _, c := range calls {
		if len(c.Call.Args) == 3 {
			walk(c.Call.Args[2], 0)
		}
	}
	// the outermost call passes no family
	for _, fn := range p.Repo {
		if fn == fl {
			continue
		}
		for _, c := range su.CallsTo(fn, fl) {
			for i, prm := range fl.Params {
				if prm == famParam && i < len(c.Call.Args) {
					if k, isK := c.Call.Args[i].(*ssa.Const); !isK || k.Value != nil {
						bad = "the family passed by " + load.FuncName(fn)
					}
				}
			}
		}
	}
	if bad != "" {
		o.Fail("a copied HUSB/WIFE/CHIL node can be given a family that is not created by the copy: " + bad + " - the copy is not independent of its source (Family(), Father(), Mother() on the copy return source nodes and follow later edits of the source)")
	} else {
		o.OK("the family of a copy is Document.AddFamily's result (through the entity map), the enclosing call's family, or nil")
	}
}

// c09TypedNil (R09.d): a Node returned by a caller-supplied function (a call
// through a function-typed parameter, field or variable) is an interface that
// can hold a typed nil pointer; the library tests such values with IsNil. A
// plain comparison with nil lets a typed nil through as "a node".
func c09TypedNil(p *load.Prog, r *oblig.Run) {
	r.Rule("R09.d", "a node returned by a caller-supplied merge function is tested with IsNil, never compared with nil directly", 1)
	isNil := p.Func(load.PkgRoot, "IsNil")
	nodeT := p.ByPath[load.PkgRoot].Types.Scope().Lookup("Node")
	if isNil == nil || nodeT == nil {
		r.Add("R09.d", "anchors", "-", "anchor").Unknown("IsNil / Node not found")
		return
	}
	ord := map[string]int{}
	for _, fn := range p.Repo {
		if pkgPathOf(fn) != load.PkgRoot {
			continue
		}
		for _, c := range su.Calls(fn) {
			cc := c.Common()
			if cc.IsInvoke() || cc.StaticCallee() != nil {
				continue
			}
			if _, isB := cc.Value.(*ssa.Builtin); isB {
				continue
			}
			val, ok := c.(ssa.Value)
			if !ok || !types.Identical(val.Type(), nodeT.Type()) {
				continue
			}
			// only functions handed in by the caller (named function types such as MergeFunction)
			if n := load.NamedOf(cc.Value.Type()); n == nil || n.Obj().Name() != "MergeFunction" {
				continue
			}
			key := "result of the merge function called in " + load.FuncName(fn)
			ord[key]++
			if ord[key] > 1 {
				key = fmt.Sprintf("%s #%d", key, ord[key])
			}
			o := r.Add("R09.d", key, p.Pos(c.Pos()), "nil test of a merge function's result")
			direct, viaIsNil := "", false
			var follow func(v ssa.Value, d int)
			seen := map[ssa.Value]bool{}
			follow = func(v ssa.Value, d int) {
				if seen[v] || d > 4 || v.Referrers() == nil {
					return
				}
				seen[v] = true
				for _, ref := range *v.Referrers() {
					switch x := ref.(type) {
					case *ssa.BinOp:
						if x.Op == token.EQL || x.Op == token.NEQ {
							for _, other := range []ssa.Value{x.X, x.Y} {
								if k, isK := other.(*ssa.Const); isK && k.Value == nil {
									direct = p.Pos(x.Pos())
								}
							}
						}
					case *ssa.Call:
						if x.Call.StaticCallee() == isNil {
							viaIsNil = true
						}
					case *ssa.MakeInterface:
						follow(x, d+1)
					case *ssa.ChangeInterface:
						follow(x, d+1)
					case *ssa.Phi:
						follow(x, d+1)
					}
				}
			}
			follow(val, 0)
			switch {
			case direct != "":
				o.Fail("the node returned by the merge function is compared with nil at " + direct + ": a merge function that declines with a typed nil pointer (var n *IndividualNode; return n) is taken to have merged, the left element is replaced by a nil node and the right element is dropped")
			case viaIsNil:
				o.OK("tested with IsNil")
			default:
				o.OK("not nil-tested here (returned or passed on)")
			}
		}
	}
}

// c07EqualShortcuts (R07.e): a shortcut in DeepEqual that answers true after looking at the children of one side
// only makes the relation asymmetric. Every path that can answer true compares len(left.Nodes()) with
// len(right.Nodes()) (or finds both zero).
func c07EqualShortcuts(p *load.Prog, r *oblig.Run) {
	fn := p.Func(load.PkgRoot, "DeepEqual")
	o := r.Add("R07.e", "paths of DeepEqual that answer true", "-", "child counts compared before answering true")
	if fn == nil || len(fn.Blocks) == 0 || len(fn.Params) < 2 {
		o.Unknown("DeepEqual not found")
		return
	}
	o.Pos = p.Pos(fn.Pos())
	// len(Nodes(param k)) -> k
	var sideOfLen func(v ssa.Value) int
	sideOfLen = func(v ssa.Value) int {
		c, ok := v.(*ssa.Call)
		if !ok {
			return -1
		}
		if bi, isB := c.Call.Value.(*ssa.Builtin); !isB || bi.Name() != "len" {
			return -1
		}
		nc, ok := c.Call.Args[0].(*ssa.Call)
		if !ok || !nc.Call.IsInvoke() || nc.Call.Method.Name() != "Nodes" {
			return -1
		}
		for k, prm := range fn.Params {
			if nc.Call.Value == ssa.Value(prm) {
				return k
			}
		}
		return -1
	}
	paths, capped := simplePaths(fn.Blocks[0], map[*ssa.BasicBlock]bool{}, 5000)
	if capped {
		o.Unknown("too many paths")
		return
	}
	bad, n := "", 0
	for _, path := range paths {
		last := path[len(path)-1]
		ret, ok := last.Instrs[len(last.Instrs)-1].(*ssa.Return)
		if !ok || len(ret.Results) != 1 || !feasible(path) {
			continue
		}
		v := ret.Results[0]
		if ph, isPhi := v.(*ssa.Phi); isPhi && ph.Block() == last && len(path) >= 2 {
			for i, q := range last.Preds {
				if q == path[len(path)-2] {
					v = ph.Edges[i]
				}
			}
		}
		if k, isK := v.(*ssa.Const); isK && (k.Value == nil || !constant.BoolVal(k.Value)) {
			continue // answers false
		}
		n++
		// the answer of a callee that is handed the two child lists and compares their lengths itself before it can
		// answer true (DeepEqualNodes)
		if c, isCall := v.(*ssa.Call); isCall {
			if g := c.Call.StaticCallee(); g != nil && p.IsRepoFunc(g) && len(c.Call.Args) == 2 && len(g.Params) == 2 {
				kidsOf := func(a ssa.Value) int {
					nc, ok := a.(*ssa.Call)
					if !ok || !nc.Call.IsInvoke() || nc.Call.Method.Name() != "Nodes" {
						return -1
					}
					for k, prm := range fn.Params {
						if nc.Call.Value == ssa.Value(prm) {
							return k
						}
					}
					return -1
				}
				a0, a1 := kidsOf(c.Call.Args[0]), kidsOf(c.Call.Args[1])
				if a0 >= 0 && a1 >= 0 && a0 != a1 && lengthsComparedBeforeTrue(p, g) {
					continue
				}
			}
		}
		compared := false
		zero := map[int]bool{}
		for i, b := range path[:len(path)-1] {
			iff, ok := b.Instrs[len(b.Instrs)-1].(*ssa.If)
			if !ok {
				continue
			}
			outcome := path[i+1] == b.Succs[0]
			if lenEqOnEdge(p, iff.Cond, outcome, "len(invoke.Nodes(p0))", "len(invoke.Nodes(p1))") {
				compared = true // also through a boolean helper such as sameLength(left, right)
				continue
			}
			bo, ok := iff.Cond.(*ssa.BinOp)
			if !ok || (bo.Op != token.EQL && bo.Op != token.NEQ) {
				continue
			}
			eq := (bo.Op == token.EQL) == outcome
			a, c := sideOfLen(bo.X), sideOfLen(bo.Y)
			if a >= 0 && c >= 0 && a != c && eq {
				compared = true
			}
			if k, isK := su.ConstInt(bo.Y); isK && k == 0 && a >= 0 && eq {
				zero[a] = true
			}
		}
		if !compared && !(zero[0] && zero[1]) {
			bad = "a path " + pathDesc(p, path) + " can answer true without having compared len(left.Nodes()) with len(right.Nodes())"
		}
	}
	switch {
	case n == 0:
		o.Unknown("DeepEqual never answers true")
	case bad != "":
		o.Fail(bad + ": a node with no children is then deep-equal to the same node with children, but not the other way round (DeepEqual(a, b) != DeepEqual(b, a))")
	default:
		o.OK(fmt.Sprintf("%d path(s) that can answer true, each after the child counts were compared", n))
	}
}

// lengthsComparedBeforeTrue: g(left, right []T) bool can only answer true on paths on which len(left) == len(right)
// was established (or both found zero).
func lengthsComparedBeforeTrue(p *load.Prog, g *ssa.Function) bool {
	if len(g.Blocks) == 0 || len(g.Params) != 2 {
		return false
	}
	side := func(v ssa.Value) int {
		of, ok := lenArg(v)
		if !ok {
			return -1
		}
		for k, prm := range g.Params {
			if of == ssa.Value(prm) {
				return k
			}
		}
		return -1
	}
	paths, capped := simplePaths(g.Blocks[0], map[*ssa.BasicBlock]bool{}, 5000)
	if capped {
		return false
	}
	n := 0
	for _, path := range paths {
		last := path[len(path)-1]
		ret, ok := last.Instrs[len(last.Instrs)-1].(*ssa.Return)
		if !ok || len(ret.Results) != 1 || !feasible(path) || !pathConstFeasible(path) {
			continue
		}
		if val, known := evalBoolOnPath(ret.Results[0], path, len(path)-1); known && !val {
			continue
		}
		n++
		compared := false
		for i, b := range path[:len(path)-1] {
			iff, ok := b.Instrs[len(b.Instrs)-1].(*ssa.If)
			if !ok {
				continue
			}
			if lenEqOnEdge(p, iff.Cond, path[i+1] == b.Succs[0], "len(p0)", "len(p1)") {
				compared = true
				continue
			}
			bo, ok := iff.Cond.(*ssa.BinOp)
			if !ok || (bo.Op != token.EQL && bo.Op != token.NEQ) {
				continue
			}
			eq := (bo.Op == token.EQL) == (path[i+1] == b.Succs[0])
			a, c := side(bo.X), side(bo.Y)
			if a >= 0 && c >= 0 && a != c && eq {
				compared = true
			}
		}
		if !compared {
			return false
		}
	}
	return n > 0
}

// c07ListEquality (R07.e, second clause): the list comparison DeepEqualNodes is called directly by the Equals methods of
// events and residences, not only by DeepEqual. It answers true only after the two lengths were compared - inside it, or,
// failing that, in front of every one of its call sites over the two argument lists.
func c07ListEquality(p *load.Prog, r *oblig.Run) {
	g := p.Func(load.PkgRoot, "DeepEqualNodes")
	o := r.Add("R07.e", "lengths compared by or before DeepEqualNodes", "-", "list equality answers true only for lists of equal length")
	if g == nil || len(g.Blocks) == 0 {
		o.Unknown("DeepEqualNodes not found")
		return
	}
	o.Pos = p.Pos(g.Pos())
	if lengthsComparedBeforeTrue(p, g) {
		o.OK("DeepEqualNodes compares the two lengths on every path that can answer true")
		return
	}
	n, bad := 0, ""
	for _, caller := range p.Repo {
		for _, c := range su.CallsTo(caller, g) {
			n++
			env := &descEnv{p: p, params: map[*ssa.Parameter]string{}}
			a0, a1 := env.desc(c.Call.Args[0], 0), env.desc(c.Call.Args[1], 0)
			want1, want2 := "len("+a0+")==len("+a1+")", "len("+a1+")==len("+a0+")"
			if !env.holdsAny(c.Block(), func(f cfact) bool { return f.val && (f.atom == want1 || f.atom == want2) }) {
				bad = "the call at " + p.Pos(c.Pos()) + " in " + load.FuncName(caller) + " hands over two lists whose lengths were not compared"
			}
		}
	}
	switch {
	case bad != "":
		o.Fail("DeepEqualNodes can answer true without having compared the lengths of its two lists, and " + bad + ": a node whose children are a sub-multiset of the other's is 'equal' to it in one direction only (Equals(a, b) != Equals(b, a)), so a diff or merge pairs nodes that are not equal")
	case n == 0:
		o.Unknown("DeepEqualNodes does not compare lengths and has no static caller")
	default:
		o.OK(fmt.Sprintf("the lengths are compared in front of all %d call sites", n))
	}
}

// lenEqOnEdge: the branch outcome establishes that the two lengths are equal, directly or through a boolean helper
// of the library (facts common to the helper's returns of that outcome, parameters replaced by the arguments).
func lenEqOnEdge(p *load.Prog, cond ssa.Value, outcome bool, a, b string) bool {
	env := &descEnv{p: p, params: map[*ssa.Parameter]string{}}
	for _, f := range env.condFacts(cond, outcome, 0) {
		if f.val && (f.atom == a+"=="+b || f.atom == b+"=="+a) {
			return true
		}
	}
	return false
}
