package props

import (
	"go/types"
	"fmt"
	"go/token"
	"sort"
	"strings"

	"gedverif/internal/load"
	"gedverif/internal/oblig"
	"gedverif/internal/su"

	"golang.org/x/tools/go/ssa"
)

// c17OwnerLookup (R17.d): the living/visibility guards of the place pages rest on individualForNode finding the owner
// of ANY node of a record: it must search each individual's whole record (HasNestedNode on the individual itself).
func c17OwnerLookup(p *load.Prog, r *oblig.Run) {
	r.Rule("R17.d", "the owner of a node is looked up in the whole record of every individual", 1)
	fn := p.Func(load.PkgHTML, "individualForNode")
	has := p.Func(load.PkgRoot, "HasNestedNode")
	o := r.Add("R17.d", "individualForNode", "-", "how the owner of a node is found")
	if fn == nil || has == nil {
		o.Unknown("html.individualForNode / gedcom.HasNestedNode not found")
		return
	}
	o.Pos = p.Pos(fn.Pos())
	var people ssa.Value
	for _, c := range su.Calls(fn) {
		if cal := c.Common().StaticCallee(); cal != nil && cal.Name() == "Individuals" {
			people = c.Value()
		}
	}
	if people == nil {
		o.Unknown("individualForNode does not walk Document.Individuals()")
		return
	}
	loops := findElementLoops(fn, people)
	good := false
	for _, l := range loops {
		for _, c := range su.CallsTo(fn, has) {
			if len(c.Call.Args) == 2 && l.elementOf(c.Call.Args[0]) {
				good = true
			}
		}
	}
	if good {
		o.OK("HasNestedNode(individual, node) for every individual of the document")
	} else {
		o.Fail("individualForNode no longer searches the whole record of each individual (HasNestedNode on the individual itself): a place or date under a part of the record it skips has no owner, so the hide filter of the place pages cannot tell that it belongs to a living person - the place gets a page of its own and is listed")
	}
}

// c19CacheKeys (R19.n): a result cached in a package-level sync.Map is keyed by every parameter the computation uses -
// each such parameter is stored, unchanged, into the key.
func c19CacheKeys(p *load.Prog, r *oblig.Run) {
	r.Rule("R19.n", "a process-wide cache is keyed by every parameter its computation depends on, unchanged", 1)
	var fns []*ssa.Function
	for _, fn := range p.Repo {
		if pkgPathOf(fn) == load.PkgHTML && len(fn.Blocks) > 0 && fn.Synthetic == "" {
			fns = append(fns, fn)
		}
	}
	sort.Slice(fns, func(i, j int) bool { return fns[i].String() < fns[j].String() })
	n := 0
	for _, fn := range fns {
		// a Load on a package-level sync.Map with a struct key built in this function
		var key *ssa.Alloc
		for _, c := range su.Calls(fn) {
			cc := c.Common()
			if !su.CalleeIs(cc, "sync", "Load") || len(cc.Args) < 2 {
				continue
			}
			if _, isGlobal := cc.Args[0].(*ssa.Global); !isGlobal {
				continue
			}
			if mi, ok := cc.Args[1].(*ssa.MakeInterface); ok {
				if ld, ok := mi.X.(*ssa.UnOp); ok && ld.Op == token.MUL {
					key, _ = ld.X.(*ssa.Alloc)
				}
			}
		}
		if key == nil {
			continue
		}
		n++
		stored := map[ssa.Value]bool{}
		var lossy []string
		for _, ref := range *key.Referrers() {
			fa, ok := ref.(*ssa.FieldAddr)
			if !ok {
				continue
			}
			for _, r2 := range *fa.Referrers() {
				if st, ok := r2.(*ssa.Store); ok && st.Addr == ssa.Value(fa) {
					stored[st.Val] = true
					if _, isPrm := st.Val.(*ssa.Parameter); !isPrm {
						if _, isK := st.Val.(*ssa.Const); !isK {
							lossy = append(lossy, su.FieldName(fa))
						}
					}
				}
			}
		}
		o := r.Add("R19.n", "cache key in "+load.FuncName(fn), p.Pos(key.Pos()), "parameters stored into the key")
		var missing []string
		for _, prm := range fn.Params {
			if prm.Referrers() == nil || len(*prm.Referrers()) == 0 {
				continue
			}
			if !stored[prm] {
				missing = append(missing, prm.Name())
			}
		}
		if len(missing) > 0 {
			o.Fail(fmt.Sprintf("the cache in %s is not keyed by its parameter(s) %s as given (key field(s) %s hold a value computed from them): two calls whose parameters differ but whose keys coincide share one entry - the second publish in a process gets the set computed for the first one's options", load.FuncName(fn), strings.Join(missing, ", "), strings.Join(lossy, ", ")))
		} else {
			o.OK("every used parameter is a key field")
		}
	}
	if n == 0 {
		r.Add("R19.n", "caches", "-", "process-wide caches of package html").OK("no function of package html looks a struct key up in a package-level sync.Map directly (R19.d decides process-wide state)")
	}
}

// c20Producers (R20.j): every Warnings() method of a node kind calls each of its warning producers on every path.
func c20Producers(p *load.Prog, r *oblig.Run) {
	r.Rule("R20.j", "a node's Warnings() runs every one of its warning producers on every path", 2)
	var fns []*ssa.Function
	for _, fn := range p.Repo {
		if pkgPathOf(fn) == load.PkgRoot && fn.Name() == "Warnings" && fn.Signature.Recv() != nil && len(fn.Blocks) > 0 && fn.Synthetic == "" {
			fns = append(fns, fn)
		}
	}
	sort.Slice(fns, func(i, j int) bool { return fns[i].String() < fns[j].String() })
	for _, fn := range fns {
		// the producers: methods of the same receiver whose name ends in "Warnings", called with the receiver
		prods := map[*ssa.Function]bool{}
		for _, c := range su.Calls(fn) {
			cal := c.Common().StaticCallee()
			if cal == nil || cal == fn || !strings.HasSuffix(cal.Name(), "Warnings") || cal.Signature.Recv() == nil || len(c.Common().Args) == 0 || c.Common().Args[0] != ssa.Value(fn.Params[0]) {
				continue
			}
			prods[cal] = true
		}
		if len(prods) < 2 {
			// the producers as bound method values in a list that is walked by a loop calling each element
			var bound []*ssa.MakeClosure
			for _, b := range fn.Blocks {
				for _, ins := range b.Instrs {
					mc, ok := ins.(*ssa.MakeClosure)
					if !ok || len(mc.Bindings) != 1 || mc.Bindings[0] != ssa.Value(fn.Params[0]) {
						continue
					}
					wf, _ := mc.Fn.(*ssa.Function)
					if wf == nil || wf.Synthetic == "" || !strings.HasSuffix(strings.TrimSuffix(wf.Name(), "$bound"), "Warnings") {
						continue
					}
					bound = append(bound, mc)
				}
			}
			if len(bound) < 2 {
				continue
			}
			o := r.Add("R20.j", load.FuncName(fn), p.Pos(fn.Pos()), fmt.Sprintf("%d warning producers (method values) run by a loop", len(bound)))
			// all stored into one array that is walked completely, each element called on every iteration path
			var arr *ssa.Alloc
			okStore := true
			for _, mc := range bound {
				stored := false
				for _, ref := range *mc.Referrers() {
					st, isSt := ref.(*ssa.Store)
					if !isSt {
						continue
					}
					if ia, isIA := st.Addr.(*ssa.IndexAddr); isIA {
						if al, isAl := ia.X.(*ssa.Alloc); isAl && (arr == nil || arr == al) {
							arr, stored = al, true
						}
					}
				}
				if !stored {
					okStore = false
				}
			}
			good := false
			if okStore && arr != nil {
				for _, ref := range *arr.Referrers() {
					sl, isSl := ref.(*ssa.Slice)
					if !isSl {
						continue
					}
					for _, l := range findElementLoops(fn, sl) {
						// no early exit, element called on every iteration path, loop on every path to a return
						exits := false
						for _, b := range fn.Blocks {
							if b != l.header && loopBlock(b, l.header) {
								for _, sx := range b.Succs {
									if sx != l.header && !loopBlock(sx, l.header) {
										exits = true
									}
								}
							}
						}
						bp, capped := simplePaths(l.body, map[*ssa.BasicBlock]bool{l.header: true}, 500)
						calledAll := !capped
						for _, path := range bp {
							if path[len(path)-1] != l.header {
								continue
							}
							called := false
							for _, b := range path[:len(path)-1] {
								for _, ins := range b.Instrs {
									if c, isCall := ins.(*ssa.Call); isCall && !c.Call.IsInvoke() && c.Call.StaticCallee() == nil && l.elementOf(c.Call.Value) {
										called = true
									}
								}
							}
							if !called {
								calledAll = false
							}
						}
						onAll := true
						fp, fcap := simplePaths(fn.Blocks[0], map[*ssa.BasicBlock]bool{}, 2000)
						if fcap {
							onAll = false
						}
						for _, path := range fp {
							if _, isRet := path[len(path)-1].Instrs[len(path[len(path)-1].Instrs)-1].(*ssa.Return); !isRet {
								continue
							}
							through := false
							for _, b := range path {
								if b == l.header {
									through = true
								}
							}
							if !through {
								onAll = false
							}
						}
						if !exits && calledAll && onAll {
							good = true
						}
					}
				}
			}
			if good {
				o.OK("every listed producer is called by a loop that runs to the end on every path")
			} else {
				o.Fail(load.FuncName(fn) + " keeps its warning producers in a list but does not call every one of them on every path: the warnings of the skipped producers are lost")
			}
			continue
		}
		o := r.Add("R20.j", load.FuncName(fn), p.Pos(fn.Pos()), fmt.Sprintf("%d warning producers on every path", len(prods)))
		paths, capped := simplePaths(fn.Blocks[0], map[*ssa.BasicBlock]bool{}, 2000)
		if capped {
			o.Unknown("more than 2000 paths")
			continue
		}
		bad := ""
		for _, path := range paths {
			last := path[len(path)-1]
			if _, ok := last.Instrs[len(last.Instrs)-1].(*ssa.Return); !ok || !pathConstFeasible(path) {
				continue
			}
			// a nil receiver has no warnings
			nilExit := false
			for i := 0; i+1 < len(path); i++ {
				if iff, ok := path[i].Instrs[len(path[i].Instrs)-1].(*ssa.If); ok && path[i+1] == path[i].Succs[0] {
					if bo, ok := iff.Cond.(*ssa.BinOp); ok && bo.Op == token.EQL && bo.X == ssa.Value(fn.Params[0]) {
						if k, isK := bo.Y.(*ssa.Const); isK && k.Value == nil {
							nilExit = true
						}
					}
				}
			}
			if nilExit {
				continue
			}
			seen := map[*ssa.Function]bool{}
			for _, b := range path {
				for _, ins := range b.Instrs {
					if c, ok := ins.(*ssa.Call); ok && prods[c.Call.StaticCallee()] {
						seen[c.Call.StaticCallee()] = true
					}
				}
			}
			for pr := range prods {
				if !seen[pr] {
					bad = fmt.Sprintf("%s can return on the path %s without having run %s: the warnings of that kind are lost for the records that take this path", load.FuncName(fn), pathDesc(p, path), pr.Name())
				}
			}
		}
		if bad != "" {
			o.Fail(bad)
		} else {
			o.OK("all producers on every path")
		}
	}
}

// c20Collects (R20.k): Document.Warnings keeps every warning its nodes produce: each iteration over the warnings of a
// node appends the element.
func c20Collects(p *load.Prog, r *oblig.Run) {
	r.Rule("R20.k", "Document.Warnings appends every warning a node produces", 1)
	fn := p.Method(load.PkgRoot, "Document", "Warnings")
	if fn == nil {
		r.Add("R20.k", "anchor", "-", "anchor").Unknown("Document.Warnings not found")
		return
	}
	n := 0
	type fl struct {
		f *ssa.Function
		l elementLoop
	}
	var all []fl
	scan := append([]*ssa.Function{fn}, fn.AnonFuncs...)
	for _, c := range su.Calls(fn) {
		if h := c.Common().StaticCallee(); h != nil && h != fn && pkgPathOf(h) == load.PkgRoot && len(h.Blocks) > 0 && h.Signature.Results().Len() == 1 && h.Signature.Results().At(0).Type().String() == fn.Signature.Results().At(0).Type().String() {
			scan = append(scan, h)
			scan = append(scan, h.AnonFuncs...)
		}
	}
	for _, f := range scan {
		for _, l := range allElementLoops(f) {
			all = append(all, fl{f, l})
		}
	}
	for _, x := range all {
		l := x.l
		// loops over a list of warnings (the result of a Warnings() call)
		c, ok := l.slice.(*ssa.Call)
		name := ""
		if ok {
			if c.Call.IsInvoke() {
				name = c.Call.Method.Name()
			} else if cal := c.Call.StaticCallee(); cal != nil {
				name = cal.Name()
			}
		}
		if name != "Warnings" {
			continue
		}
		n++
		o := r.Add("R20.k", fmt.Sprintf("loop %d over a node's warnings", n), p.Pos(c.Pos()), "every element is appended")
		paths, capped := simplePaths(l.body, map[*ssa.BasicBlock]bool{l.header: true}, 500)
		if capped {
			o.Unknown("more than 500 paths")
			continue
		}
		bad := ""
		for _, path := range paths {
			if path[len(path)-1] != l.header {
				continue
			}
			appended := false
			for _, b := range path[:len(path)-1] {
				for _, ins := range b.Instrs {
					ac, ok := ins.(*ssa.Call)
					if !ok {
						continue
					}
					if bi, isB := ac.Call.Value.(*ssa.Builtin); !isB || bi.Name() != "append" || len(ac.Call.Args) != 2 {
						continue
					}
					if elems, ok := variadicElems(ac.Call.Args[1]); ok {
						for _, e := range elems {
							if l.elementOf(e) {
								appended = true
							}
						}
					}
				}
			}
			if !appended {
				bad = "a warning produced by a node can pass through Document.Warnings on the path " + pathDesc(p, path) + " without being appended to the result: two different offending facts whose warnings look alike are reported once"
			}
		}
		if bad != "" {
			o.Fail(bad)
		} else {
			o.OK("appended on every path")
		}
	}
	if n == 0 {
		r.Add("R20.k", "loops", p.Pos(fn.Pos()), "loops over the warnings of a node").Unknown("Document.Warnings has no loop over the result of a Warnings() call")
	}
}

// c17VisibilityFields (R17.e): the living guard of a component reads the visibility mode from a field of the
// component. Every place in package html that builds a component holding a LivingVisibility field assigns that
// field, and not with a constant: a field left at its zero value "" is none of hide/placeholder/show, and since no
// visibility switch has a default branch it behaves like show - the component publishes living people whatever
// the user asked for. (The guard analysis R17.a takes the field for the mode; this rule is what entitles it to.)
func c17VisibilityFields(p *load.Prog, r *oblig.Run) {
	r.Rule("R17.e", "every html component that keeps the visibility mode in a field gets that field assigned (from a parameter or an option, never left empty) wherever it is built", 10)
	isVis := func(t types.Type) bool {
		n := load.NamedOf(t)
		return n != nil && n.Obj().Name() == "LivingVisibility"
	}
	ord := map[string]int{}
	for _, fn := range p.Repo {
		if pkgPathOf(fn) != load.PkgHTML {
			continue
		}
		for _, b := range fn.Blocks {
			for _, ins := range b.Instrs {
				al, ok := ins.(*ssa.Alloc)
				if !ok {
					continue
				}
				pt, ok := al.Type().(*types.Pointer)
				if !ok {
					continue
				}
				st, ok := pt.Elem().Underlying().(*types.Struct)
				if !ok {
					continue
				}
				var fields []int
				for i := 0; i < st.NumFields(); i++ {
					if isVis(st.Field(i).Type()) {
						fields = append(fields, i)
					}
				}
				if len(fields) == 0 {
					continue
				}
				// a composite literal: at least one field store on this allocation (a plain `var x T` copy is not a construction)
				literal := false
				assigned := map[int]ssa.Value{}
				for _, ref := range *al.Referrers() {
					fa, ok := ref.(*ssa.FieldAddr)
					if !ok {
						if s2, isSt := ref.(*ssa.Store); isSt && s2.Addr == ssa.Value(al) {
							literal = false
							assigned = nil
							break
						}
						continue
					}
					for _, r2 := range *fa.Referrers() {
						if s2, isSt := r2.(*ssa.Store); isSt && s2.Addr == ssa.Value(fa) {
							literal = true
							if assigned != nil {
								assigned[fa.Field] = s2.Val
							}
						}
					}
				}
				if !literal || assigned == nil {
					continue
				}
				tn := "struct"
				if n := load.NamedOf(pt.Elem()); n != nil {
					tn = n.Obj().Name()
				}
				for _, fi := range fields {
					key := fmt.Sprintf("%s.%s built in %s", tn, st.Field(fi).Name(), load.FuncName(fn))
					ord[key]++
					if ord[key] > 1 {
						key = fmt.Sprintf("%s #%d", key, ord[key])
					}
					o := r.Add("R17.e", key, p.Pos(al.Pos()), "assignment of the visibility field")
					v, has := assigned[fi]
					switch {
					case !has:
						o.Fail("the component " + tn + " is built without its " + st.Field(fi).Name() + " field: the mode stays \"\" , which matches neither hide nor placeholder, so the component's living guard never fires and it writes the names and dates of living people in every mode")
					default:
						if k, isK := v.(*ssa.Const); isK && k.Value != nil {
							o.Fail("the component " + tn + " is built with the constant mode " + k.Value.ExactString() + " instead of the mode the user asked for")
						} else {
							o.OK("assigned from " + v.Name())
						}
					}
				}
			}
		}
	}
}
