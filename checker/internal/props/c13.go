package props

import (
	"fmt"
	"go/token"
	"go/types"
	"sort"
	"strings"

	"gedverif/internal/cg"
	"gedverif/internal/e4"
	"gedverif/internal/load"
	"gedverif/internal/oblig"
	"gedverif/internal/su"

	"golang.org/x/tools/go/ssa"
)

// readOnlyRoots lists the read-only API of C13.
func readOnlyRoots(p *load.Prog, g *cg.Graph) (explicit []*ssa.Function, accessors []*ssa.Function) {
	add := func(f *ssa.Function) {
		if f != nil {
			explicit = append(explicit, f)
		}
	}
	for _, m := range []string{"Warnings", "String", "GEDCOMString", "Individuals", "Families", "Places", "Sources", "NodeByPointer", "Nodes"} {
		add(p.Method(load.PkgRoot, "Document", m))
	}
	add(p.Method(load.PkgRoot, "IndividualNode", "Similarity"))
	add(p.Method(load.PkgRoot, "IndividualNode", "SurroundingSimilarity"))
	add(p.Method(load.PkgRoot, "IndividualNodes", "Compare"))
	add(p.Method(load.PkgRoot, "IndividualNodes", "Similarity"))
	// renderers of lists of records (also what the q GEDCOM formatter calls for .Individuals)
	add(p.Method(load.PkgRoot, "IndividualNodes", "GEDCOMString"))
	add(p.Method(load.PkgRoot, "IndividualNodes", "String"))
	add(p.Method(load.PkgRoot, "IndividualNodes", "Nodes"))
	add(p.Func(load.PkgRoot, "CompareNodes"))
	add(p.Func(load.PkgRoot, "DeepEqual"))
	add(p.Func(load.PkgRoot, "DeepEqualNodes"))
	add(p.Func(load.PkgRoot, "Flatten"))
	add(p.Func(load.PkgRoot, "NodesWithTag"))
	add(p.Func(load.PkgRoot, "NodesWithTagPath"))
	seen := map[*ssa.Function]bool{}
	for _, f := range explicit {
		seen[f] = true
	}
	// query accessors: exported zero-argument methods of the root package's types reachable from *Document
	for _, f := range g.ReflectTargets() {
		if f.Pkg == nil && f.Synthetic != "" {
			// promoted-method wrapper: analyse the wrapper itself (it calls the real method)
		}
		obj := f.Object()
		if obj == nil || obj.Pkg() == nil || obj.Pkg().Path() != load.PkgRoot || seen[f] {
			continue
		}
		if documentedMutators[strings.TrimPrefix(load.FuncName(f), "(*gedcom.")] {
			continue
		}
		seen[f] = true
		accessors = append(accessors, f)
	}
	sort.Slice(accessors, func(i, j int) bool { return accessors[i].String() < accessors[j].String() })
	return
}

// documentedMutators: exported zero-argument methods that are documented to
// modify their receiver and therefore are not part of the read-only API.
var documentedMutators = map[string]bool{
	"NodeDiff).LeftNode":  true, // documented: flattens the diff into the left node ("adds all the children")
	"NodeDiff).RightNode": true, // documented: flattens the diff into the right node
}

// cacheDef describes a lazily filled cache.
type cacheDef struct {
	name  string                         // display
	isInv func(ins ssa.Instruction) bool // the instruction invalidates (or refills) the cache
	fill  []*ssa.Function                // functions that fill it
}

// C13: reads never modify; views reflect every edit.
func C13(p *load.Prog, r *oblig.Run) {
	r.Explanation = "R13.a (E4 purity): every function of the read-only API - Document.{Warnings,String,GEDCOMString,Individuals,Families,Places,Sources,NodeByPointer,Nodes}, the similarity/matching/diff/equality/flatten entry points, " +
		"and every exported zero-argument method of the root package reachable by reflection from *Document (the accessors a query can call) - is analysed by the effect/provenance interpreter with all its parameters protected: no store to a structural " +
		"field may reach state reachable from them. R13.b (cache pairing; may-invalidate over the call graph plus must-invalidate inside the writer: an invalidation site dominates the membership store or lies on every path from it to a return, except on the unchanged side of a changed-flag returned by the call that produced the stored value): for every lazily filled cache the membership fields its fill computation reads (SimpleNode.children, Document.nodes; computed over the call graph) are determined, and every " +
		"API function that directly stores such a field on an object it did not allocate must be able to reach an invalidation of that cache (a store to its field/flag/variable or a mutating call on its sync.Map)."
	r.NotDecided = "equality of each view with a fresh decode as values; that an invalidation happens on every path and under the right condition (may, not must); value/tag/pointer edits (SetValue-style) against caches; purity of html.Publisher.Publish (too large for the interpreter's budget; its node-state writes are covered by R19.e's region analysis instead)."
	r.Assumptions = e4Assumptions()
	defer sortsInternal(p, r, "R13.g")
	r.Rule("R13.a", "read-only operations perform no structural write on the document or nodes they are given", 150)
	r.Rule("R13.c", "all fills of the document's pointer index use the same store operation (they agree on which record wins a duplicated pointer)", 1)
	c13PointerFills(p, r)
	r.Rule("R13.b", "every writer of a membership field invalidates every cache derived from that field: it can reach an invalidation, and one is executed whenever the store is", 8)
	c13FieldInventory(p, r)
	c13TagCacheKey(p, r)
	r.Rule("R13.d", "a function that calls a membership writer and resets a cache itself (because the writer cannot) does so on every path after the call", 2)
	g := cg.New(p, false)
	explicit, accessors := readOnlyRoots(p, g)
	r.Extra["read_only_roots_explicit"] = len(explicit)
	r.Extra["read_only_roots_accessors"] = len(accessors)
	for _, root := range append(explicit, accessors...) {
		res := runPurityBudget(p, g, root, 150000)
		addPurityObligations(p, r, "R13.a", root, res, "read-only operation "+load.FuncName(root))
	}
	c13Pairing(p, r, g)
}

func runPurityBudget(p *load.Prog, g *cg.Graph, root *ssa.Function, budget int) purityResult {
	a := e4.New(p, g, root)
	a.Budget = budget
	a.Run(nil)
	res := purityResult{a: a}
	for _, w := range a.SortedWrites() {
		if w.Class != "structural" {
			continue
		}
		for _, o := range w.Target.List() {
			if o.Kind == "R" {
				res.writes = append(res.writes, w)
				break
			}
		}
	}
	return res
}

// c13Pairing implements Q-pair.
func c13Pairing(p *load.Prog, r *oblig.Run, g *cg.Graph) {
	type fieldRef struct{ owner, name string }
	membership := map[fieldRef]bool{{"SimpleNode", "children"}: true, {"Document", "nodes"}: true}
	// per function: membership fields loaded / stored directly, cache fields stored directly
	type facts struct {
		loads, stores map[fieldRef]bool
		cacheStores   map[string]bool // invalidations (resets / guarded updates / map mutations)
		cacheFills    map[string]bool // any store (used to find what the cache is computed from)
		storeOnParam  map[fieldRef]bool
	}
	fx := map[*ssa.Function]*facts{}
	// fields of one logical cache (value + "is filled" flag) are grouped under one name
	logical := map[string]string{
		"IndividualNode.cachedFamilies": "IndividualNode.families", "IndividualNode.cachedSpouses": "IndividualNode.spouses",
		"FamilyNode.cachedHusband": "FamilyNode.husband", "FamilyNode.cachedWife": "FamilyNode.wife",
		"DateNode.alreadyParsed": "DateNode.parsedDateRange",
	}
	cacheOf := func(owner *types.Named, name string) string {
		if e4.FieldClass(owner, name) == "cache" {
			n := owner.Obj().Name() + "." + name
			if l, ok := logical[n]; ok {
				return l
			}
			return n
		}
		return ""
	}
	freshCall := func(v ssa.Value) bool {
		c, ok := v.(*ssa.Call)
		if !ok {
			return false
		}
		cal := c.Call.StaticCallee()
		if cal == nil || cal.Blocks == nil {
			return false
		}
		for _, b := range cal.Blocks {
			if ret, ok := b.Instrs[len(b.Instrs)-1].(*ssa.Return); ok {
				if len(ret.Results) != 1 {
					return false
				}
				if _, isAlloc := ret.Results[0].(*ssa.Alloc); !isAlloc {
					return false
				}
			}
		}
		return true
	}
	nodeCache := p.Global(load.PkgRoot, "nodeCache")
	for _, fn := range p.Repo {
		f := &facts{loads: map[fieldRef]bool{}, stores: map[fieldRef]bool{}, cacheStores: map[string]bool{}, cacheFills: map[string]bool{}, storeOnParam: map[fieldRef]bool{}}
		fx[fn] = f
		for _, b := range fn.Blocks {
			for _, ins := range b.Instrs {
				switch x := ins.(type) {
				case *ssa.UnOp:
					if fa, ok := x.X.(*ssa.FieldAddr); ok {
						if o := su.FieldOwner(fa); o != nil {
							ref := fieldRef{o.Obj().Name(), su.FieldName(fa)}
							if membership[ref] {
								f.loads[ref] = true
							}
						}
					}
				case *ssa.Store:
					if fa, ok := x.Addr.(*ssa.FieldAddr); ok {
						if o := su.FieldOwner(fa); o != nil {
							ref := fieldRef{o.Obj().Name(), su.FieldName(fa)}
							if membership[ref] {
								f.stores[ref] = true
								if _, isAlloc := fa.X.(*ssa.Alloc); !isAlloc && !freshCall(fa.X) {
									f.storeOnParam[ref] = true
								}
							}
							if c := cacheOf(o, su.FieldName(fa)); c != "" {
								// an invalidation is a reset (a constant zero value / a fresh empty value) or an incremental
								// update that is made only when the cache is filled (guarded by a non-nil test of the field);
								// the unguarded store of a computed value is the fill itself
								f.cacheFills[c] = true
								if isResetValue(x.Val) || guardedByFieldTest(x, fa) {
									f.cacheStores[c] = true
								}
							}
						}
					}
					if gl, ok := x.Addr.(*ssa.Global); ok && gl == nodeCache {
						f.cacheStores["var nodeCache"] = true
					}
				case ssa.CallInstruction:
					cc := x.Common()
					if su.CalleeIs(cc, "sync", "Store") || su.CalleeIs(cc, "sync", "Delete") {
						switch a := cc.Args[0].(type) {
						case *ssa.FieldAddr:
							if o := su.FieldOwner(a); o != nil {
								if c := cacheOf(o, su.FieldName(a)); c != "" {
									f.cacheStores[c] = true
								}
							}
						case *ssa.UnOp:
							if gl, ok := a.X.(*ssa.Global); ok && gl == nodeCache {
								// storing an entry is a fill, not an invalidation: only Delete counts - and only with a
								// key of the kind the fills use (the node as a Node interface). A key built from a
								// concrete *SimpleNode never equals the entry of a typed node, which is keyed by the
								// outer *ResidenceNode, *EventNode, ...
								if su.CalleeIs(cc, "sync", "Delete") && len(cc.Args) > 1 {
									concrete := false
									if mi, isMI := cc.Args[1].(*ssa.MakeInterface); isMI {
										if _, isIface := mi.X.Type().Underlying().(*types.Interface); !isIface {
											concrete = true
										}
									}
									if !concrete {
										f.cacheStores["var nodeCache"] = true
									}
								}
							}
						}
					}
				}
			}
		}
	}
	reach := func(fn *ssa.Function) map[*ssa.Function]bool {
		return g.ReachFrom([]cg.Target{{Fn: fn}}, cg.Options{}).Funcs
	}
	// caches: name -> fill functions (functions that store the cache outside of a reset: those that also read a membership field transitively)
	caches := map[string][]*ssa.Function{}
	for fn, f := range fx {
		for c := range f.cacheFills {
			caches[c] = append(caches[c], fn)
		}
		for c := range f.cacheStores {
			if !f.cacheFills[c] {
				caches[c] = append(caches[c], fn)
			}
		}
	}
	// nodeCache is filled through sync.Map.Store in NodesWithTag
	if nwt := p.Func(load.PkgRoot, "NodesWithTag"); nwt != nil {
		caches["var nodeCache"] = append(caches["var nodeCache"], nwt)
		for _, an := range nwt.AnonFuncs {
			caches["var nodeCache"] = append(caches["var nodeCache"], an)
		}
	}
	// dependency: cache -> membership fields read by any function that stores the cache (fill) and what it reaches
	deps := map[string]map[fieldRef]bool{}
	var cacheNames []string
	for c, fns := range caches {
		cacheNames = append(cacheNames, c)
		deps[c] = map[fieldRef]bool{}
		for _, fn := range fns {
			// a pure reset function (stores constants only and reads nothing) contributes no dependency
			for rf := range reach(fn) {
				if f := fx[rf]; f != nil {
					for l := range f.loads {
						deps[c][l] = true
					}
				}
			}
			if par := fn.Parent(); par != nil { // deferred fill closures: the enclosing getter computes the value
				for rf := range reach(par) {
					if f := fx[rf]; f != nil {
						for l := range f.loads {
							deps[c][l] = true
						}
					}
				}
			}
		}
	}
	sort.Strings(cacheNames)
	// writers: functions with a direct membership store on a non-fresh object, exported API or reachable setters
	var writers []*ssa.Function
	for fn, f := range fx {
		if len(f.storeOnParam) > 0 && fn.Synthetic == "" {
			writers = append(writers, fn)
		}
	}
	sort.Slice(writers, func(i, j int) bool { return writers[i].String() < writers[j].String() })
	r.Extra["caches"] = cacheNames
	var wn []string
	for _, w := range writers {
		wn = append(wn, load.FuncName(w))
	}
	r.Extra["membership_writers"] = wn
	calleeInv := func(c string) func(fn *ssa.Function) bool {
		return func(fn *ssa.Function) bool {
			if f := fx[fn]; f != nil && f.cacheStores[c] {
				return true
			}
			for rf := range reach(fn) {
				if f := fx[rf]; f != nil && f.cacheStores[c] {
					return true
				}
			}
			return false
		}
	}
	directInv := func(c string) func(ins ssa.Instruction) bool {
		return func(ins ssa.Instruction) bool {
			// direct invalidation instruction of cache c in w
			switch x := ins.(type) {
			case *ssa.Store:
				if fa, ok := x.Addr.(*ssa.FieldAddr); ok {
					if ow := su.FieldOwner(fa); ow != nil && cacheOf(ow, su.FieldName(fa)) == c && (isResetValue(x.Val) || guardedByFieldTest(x, fa)) {
						return true
					}
				}
				if gl, ok := x.Addr.(*ssa.Global); ok && gl == nodeCache && c == "var nodeCache" {
					return true
				}
			case ssa.CallInstruction:
				cc := x.Common()
				if su.CalleeIs(cc, "sync", "Delete") || su.CalleeIs(cc, "sync", "Store") {
					switch a := cc.Args[0].(type) {
					case *ssa.FieldAddr:
						if ow := su.FieldOwner(a); ow != nil && cacheOf(ow, su.FieldName(a)) == c {
							return true
						}
					case *ssa.UnOp:
						if gl, ok := a.X.(*ssa.Global); ok && gl == nodeCache && c == "var nodeCache" && su.CalleeIs(cc, "sync", "Delete") && len(cc.Args) > 1 {
							if mi, isMI := cc.Args[1].(*ssa.MakeInterface); isMI {
								if _, isIface := mi.X.Type().Underlying().(*types.Interface); !isIface {
									return false
								}
							}
							return true
						}
					}
				}
			}
			return false
		}
	}
	for _, w := range writers {
		wr := reach(w)
		inval := map[string]bool{}
		for rf := range wr {
			if f := fx[rf]; f != nil {
				for c := range f.cacheStores {
					inval[c] = true
				}
			}
		}
		for _, c := range cacheNames {
			// does the cache depend on a field this writer stores?
			var hit []string
			for ref := range fx[w].storeOnParam {
				if deps[c][ref] {
					hit = append(hit, ref.owner+"."+ref.name)
				}
			}
			if len(hit) == 0 {
				continue
			}
			sort.Strings(hit)
			key := fmt.Sprintf("%s keeps %s coherent", load.FuncName(w), c)
			o := r.Add("R13.b", key, p.Pos(w.Pos()), fmt.Sprintf("%s stores %s, which the cache %s is computed from", load.FuncName(w), strings.Join(hit, ","), c))
			if inval[c] {
				// must-invalidate at the top level: some invalidation (direct, or a call that can reach one) is executed
				// whenever the membership store is - it dominates the store or lies on every path from it to a return
				if why := invalidationOnEveryPath(w, c, calleeInv(c), directInv(c), func(st *ssa.Store) bool {
					fa, ok := st.Addr.(*ssa.FieldAddr)
					if !ok {
						return false
					}
					ow := su.FieldOwner(fa)
					if ow == nil {
						return false
					}
					ref := fieldRef{ow.Obj().Name(), su.FieldName(fa)}
					if !membership[ref] || !deps[c][ref] {
						return false
					}
					if _, isAlloc := fa.X.(*ssa.Alloc); isAlloc || freshCall(fa.X) {
						return false
					}
					return true
				}); why != "" {
					o.Fail(fmt.Sprintf("%s changes %s but invalidates the cache %s only on some paths (%s): after an edit that takes the other path a view read before keeps returning the old nodes", load.FuncName(w), strings.Join(hit, ","), c, why))
				} else {
					o.OK("an invalidation of the cache is executed whenever the membership store is")
				}
			} else {
				o.Fail(fmt.Sprintf("%s changes %s but cannot reach any invalidation of the cache %s: a view that was read before the edit keeps returning the old nodes", load.FuncName(w), strings.Join(hit, ","), c))
			}
		}
	}
	// R13.d: wrappers. A function that calls a membership writer and compensates for what that writer cannot do (it
	// resets the caches of all individuals / families itself) must do so on every path after the call.
	isWriter := map[*ssa.Function]bool{}
	for _, w := range writers {
		isWriter[w] = true
	}
	var wrappers []*ssa.Function
	for _, fn := range p.Repo {
		if pkgPathOf(fn) != load.PkgRoot || fn.Synthetic != "" || len(fn.Blocks) == 0 || isWriter[fn] {
			continue
		}
		for _, ci := range su.Calls(fn) {
			if cal := ci.Common().StaticCallee(); cal != nil && isWriter[cal] {
				wrappers = append(wrappers, fn)
				break
			}
		}
	}
	sort.Slice(wrappers, func(i, j int) bool { return wrappers[i].String() < wrappers[j].String() })
	nWrap := 0
	for _, w := range wrappers {
		for _, c := range cacheNames {
			// the writer(s) w calls store a field the cache depends on
			dep := false
			for _, ci := range su.Calls(w) {
				if cal := ci.Common().StaticCallee(); cal != nil && isWriter[cal] {
					for ref := range fx[cal].storeOnParam {
						if deps[c][ref] {
							dep = true
						}
					}
				}
			}
			if !dep {
				continue
			}
			// w resets the cache of ALL holders itself: a loop whose body calls a pure reset function of c (stores to the
			// cache, reads no membership) - the pattern of AddIndividual / AddFamily
			hsW := loopHeaders(w)
			pureReset := func(cal *ssa.Function) bool {
				f := fx[cal]
				if f == nil || !f.cacheStores[c] || len(f.loads) != 0 || len(f.storeOnParam) != 0 {
					return false
				}
				// it only clears: no value is put into a sync.Map, every direct store writes a zero/constant
				for _, b := range cal.Blocks {
					for _, ins := range b.Instrs {
						switch x := ins.(type) {
						case ssa.CallInstruction:
							if su.CalleeIs(x.Common(), "sync", "Store") || su.CalleeIs(x.Common(), "sync", "LoadOrStore") || su.CalleeIs(x.Common(), "sync", "Swap") {
								return false
							}
						case *ssa.Store:
							if _, isFA := x.Addr.(*ssa.FieldAddr); isFA && !isResetValue(x.Val) {
								return false
							}
						}
					}
				}
				return true
			}
			// resetAll: a helper whose body is the reset loop (a loop calling a pure reset of c, no membership store)
			resetAll := func(cal *ssa.Function) bool {
				if cal == nil || len(cal.Blocks) == 0 || isWriter[cal] {
					return false
				}
				if f := fx[cal]; f != nil && len(f.storeOnParam) > 0 {
					return false
				}
				hsC := loopHeaders(cal)
				for _, ci := range su.Calls(cal) {
					if g := ci.Common().StaticCallee(); g != nil && pureReset(g) {
						for _, h := range hsC {
							if loopBlock(ci.Block(), h) {
								return true
							}
						}
					}
				}
				return false
			}
			inv := func(cal *ssa.Function) bool { return pureReset(cal) || resetAll(cal) }
			has := false
			for _, ci := range su.Calls(w) {
				cal := ci.Common().StaticCallee()
				if cal == nil || isWriter[cal] || cal == w {
					continue
				}
				if resetAll(cal) {
					has = true
				}
				if pureReset(cal) {
					for _, h := range hsW {
						if loopBlock(ci.Block(), h) {
							has = true
						}
					}
				}
			}
			dir := func(ssa.Instruction) bool { return false }
			if !has {
				continue
			}
			nWrap++
			key := fmt.Sprintf("%s compensates for %s", load.FuncName(w), c)
			o := r.Add("R13.d", key, p.Pos(w.Pos()), fmt.Sprintf("%s calls a membership writer and resets the cache %s itself", load.FuncName(w), c))
			why := invalidationAfter(w, c, func(fn *ssa.Function) bool { return !isWriter[fn] && inv(fn) }, dir, func(*ssa.Store) bool { return false }, func(ci ssa.CallInstruction) bool {
				cal := ci.Common().StaticCallee()
				return cal != nil && isWriter[cal]
			}, func(site ssa.Instruction) bool {
				ci, ok := site.(ssa.CallInstruction)
				return ok && resetAll(ci.Common().StaticCallee())
			})
			if why != "" {
				o.Fail(fmt.Sprintf("%s changes the node membership through a writer that cannot invalidate the cache %s and resets that cache itself, but not on every path (%s): after a call that takes the other path the views read before keep returning the old relations", load.FuncName(w), c, strings.Replace(why, "the store at line", "the call at line", 1)))
			} else {
				o.OK("the reset is executed on every path after the writer call")
			}
		}
	}
	r.Extra["compensating_wrappers"] = nWrap
}

func isResetValue(v ssa.Value) bool {
	switch x := v.(type) {
	case *ssa.Const:
		return true
	case *ssa.UnOp: // load of a fresh zero value: *new(sync.Map)
		if al, ok := x.X.(*ssa.Alloc); ok {
			n := 0
			for _, ref := range *al.Referrers() {
				if _, isStore := ref.(*ssa.Store); isStore {
					n++
				}
			}
			return n == 0
		}
	case *ssa.Alloc:
		return true
	}
	return false
}

// guardedByFieldTest: the store is dominated by a branch on `field != nil`
// (or a load of a bool flag field of the same object).
func guardedByFieldTest(st *ssa.Store, fa *ssa.FieldAddr) bool {
	fn := st.Parent()
	for _, b := range fn.Blocks {
		iff, ok := b.Instrs[len(b.Instrs)-1].(*ssa.If)
		if !ok || !b.Dominates(st.Block()) {
			continue
		}
		bo, ok := iff.Cond.(*ssa.BinOp)
		if !ok {
			continue
		}
		ld, ok := bo.X.(*ssa.UnOp)
		if !ok {
			continue
		}
		f2, ok := ld.X.(*ssa.FieldAddr)
		if !ok || f2.Field != fa.Field || f2.X != fa.X {
			continue
		}
		if k, isConst := bo.Y.(*ssa.Const); isConst && k.Value == nil && bo.Op.String() == "!=" && b.Succs[0].Dominates(st.Block()) {
			return true
		}
	}
	return false
}

// invalidationOnEveryPath: for every membership store of w some invalidation
// site of the cache (a direct invalidation instruction, or a call whose callee
// can reach one) is in a block that dominates the store's block, or lies on
// every path from the store to a return. Returns "" when that holds.
func invalidationOnEveryPath(w *ssa.Function, c string, calleeInvalidates func(*ssa.Function) bool, direct func(ssa.Instruction) bool, isMemberStore func(*ssa.Store) bool) string {
	return invalidationAfter(w, c, calleeInvalidates, direct, isMemberStore, nil)
}

// invalidationAfter: as invalidationOnEveryPath; mutationCall marks calls that change membership themselves (a
// wrapper around a writer). An invalidation site inside a loop counts when the loop's header lies on the path (a loop
// over all holders of the cache that runs zero times has nothing to invalidate).
func invalidationAfter(w *ssa.Function, c string, calleeInvalidates func(*ssa.Function) bool, direct func(ssa.Instruction) bool, isMemberStore func(*ssa.Store) bool, mutationCall func(ssa.CallInstruction) bool, wholeReset ...func(ssa.Instruction) bool) string {
	var wholeResetFn func(ssa.Instruction) bool
	if len(wholeReset) > 0 {
		wholeResetFn = wholeReset[0]
	}
	var sites []ssa.Instruction
	var stores []ssa.Instruction
	for _, b := range w.Blocks {
		for _, ins := range b.Instrs {
			if direct(ins) {
				sites = append(sites, ins)
				continue
			}
			if ci, ok := ins.(ssa.CallInstruction); ok {
				if _, isGo := ins.(*ssa.Go); isGo {
					continue
				}
				if mutationCall != nil && mutationCall(ci) {
					stores = append(stores, ins)
					continue
				}
				if cal := ci.Common().StaticCallee(); cal != nil && cal != w && calleeInvalidates(cal) {
					sites = append(sites, ins)
				}
			}
			if st, ok := ins.(*ssa.Store); ok && isMemberStore(st) {
				stores = append(stores, st)
			}
		}
	}
	if len(sites) == 0 {
		return "" // the invalidation happens in a caller-independent way this rule does not see (dynamic call); the may-rule decided
	}
	hs := loopHeaders(w)
	for _, st := range stores {
		ok := false
		for _, site := range sites {
			sb, tb := site.Block(), st.Block()
			// the region of the site: its block, and the headers of the loops it sits in
			region := map[*ssa.BasicBlock]bool{sb: true}
			if mutationCall != nil {
				for _, h := range hs {
					if loopBlock(sb, h) && !loopBlock(tb, h) {
						region[h] = true
					}
				}
				if len(region) == 1 && !(wholeResetFn != nil && wholeResetFn(site)) {
					continue // for a wrapper only a reset loop over all holders compensates (a constructor's own zeroing does not)
				}
			}
			if _, isDefer := site.(*ssa.Defer); isDefer && sb.Dominates(tb) {
				ok = true
				break
			}
			if sb == tb || sb.Dominates(tb) {
				ok = true
				break
			}
			// post-dominance: no return reachable from the store's block without passing the site's block
			var changedFlag ssa.Value
			if sst, isStore := st.(*ssa.Store); isStore {
				if ex, isEx := sst.Val.(*ssa.Extract); isEx {
					changedFlag = ex.Tuple
				}
			}
			escapes := false
			seen := map[*ssa.BasicBlock]bool{}
			var walk func(b *ssa.BasicBlock)
			walk = func(b *ssa.BasicBlock) {
				if seen[b] || region[b] || escapes {
					return
				}
				seen[b] = true
				if len(b.Succs) == 0 {
					if _, isRet := b.Instrs[len(b.Instrs)-1].(*ssa.Return); isRet {
						escapes = true
					}
					return
				}
				// "did anything change?" reported by the very call that produced the stored value
				// (nodes, didDelete = deleteNode(...)): only the changed side needs the invalidation
				if iff, isIf := b.Instrs[len(b.Instrs)-1].(*ssa.If); isIf && changedFlag != nil {
					cond := iff.Cond
					neg := false
					if u, isNot := cond.(*ssa.UnOp); isNot && u.Op == token.NOT {
						cond, neg = u.X, true
					}
					if ex, isEx := cond.(*ssa.Extract); isEx && ex.Tuple == changedFlag {
						if neg {
							walk(b.Succs[1])
						} else {
							walk(b.Succs[0])
						}
						return
					}
				}
				for _, s := range b.Succs {
					walk(s)
				}
			}
			walk(tb)
			if !escapes {
				ok = true
				break
			}
		}
		if !ok {
			return "the store at line " + fmt.Sprint(w.Prog.Fset.Position(st.Pos()).Line) + " can be followed by a return without any invalidation"
		}
	}
	return ""
}

// c13PointerFills (R13.c): the full rebuild and the incremental update of Document.pointerCache must agree.
func c13PointerFills(p *load.Prog, r *oblig.Run) {
	o := r.Add("R13.c", "store operations on Document.pointerCache", "-", "how the pointer index is filled")
	ops := map[string][]string{}
	for _, fn := range p.Repo {
		if pkgPathOf(fn) != load.PkgRoot {
			continue
		}
		for _, c := range su.Calls(fn) {
			cc := c.Common()
			if !(su.CalleeIs(cc, "sync", "Store") || su.CalleeIs(cc, "sync", "LoadOrStore") || su.CalleeIs(cc, "sync", "Swap")) || len(cc.Args) == 0 {
				continue
			}
			fa, ok := cc.Args[0].(*ssa.FieldAddr)
			if !ok {
				if ld, isLd := cc.Args[0].(*ssa.UnOp); isLd {
					fa, ok = ld.X.(*ssa.FieldAddr)
				}
			}
			if !ok || su.FieldName(fa) != "pointerCache" {
				continue
			}
			name := cc.StaticCallee().Name()
			ops[name] = append(ops[name], load.FuncName(fn))
		}
	}
	var names []string
	for n := range ops {
		names = append(names, n)
	}
	sort.Strings(names)
	switch len(names) {
	case 0:
		o.Unknown("no store into Document.pointerCache found")
	case 1:
		o.OK(fmt.Sprintf("all fills use %s (%d site(s))", names[0], len(ops[names[0]])))
	default:
		var parts []string
		for _, n := range names {
			sort.Strings(ops[n])
			parts = append(parts, n+" in "+strings.Join(ops[n], ", "))
		}
		o.Fail("the fills of the pointer index use different store operations (" + strings.Join(parts, "; ") + "): for a pointer used by two records one fill keeps the first record and the other the last, so NodeByPointer answers differently after a rebuild (DeleteNode, SetNodes) than after the incremental adds - and differently from a fresh decode")
	}
}

// c13FieldInventory (R13.e): every field of a node type or of Document that is assigned outside a constructor is
// classified: structural, a cache that the pairing rule knows, or listed here as plain state with a reason. A new field
// that a getter fills (an unreviewed memo) is reported instead of silently escaping the cache-pairing rule.
var plainNodeFields = map[string]string{}

func c13FieldInventory(p *load.Prog, r *oblig.Run) {
	r.Rule("R13.e", "every field of a node type or of Document that is assigned after construction is structural, a known cache, or reviewed plain state", 1)
	type site struct {
		pos string
		fn  string
	}
	found := map[string][]site{}
	for _, fn := range p.Repo {
		if pkgPathOf(fn) != load.PkgRoot || len(fn.Blocks) == 0 {
			continue
		}
		n := strings.ToLower(fn.Name())
		if strings.HasPrefix(n, "new") {
			continue
		}
		for _, b := range fn.Blocks {
			for _, ins := range b.Instrs {
				st, ok := ins.(*ssa.Store)
				if !ok {
					continue
				}
				fa, ok := st.Addr.(*ssa.FieldAddr)
				if !ok {
					continue
				}
				ow := su.FieldOwner(fa)
				if ow == nil || ow.Obj().Pkg() == nil || ow.Obj().Pkg().Path() != load.PkgRoot {
					continue
				}
				// node types (embed *SimpleNode or are SimpleNode) and Document
				stt, _ := ow.Underlying().(*types.Struct)
				isNode := ow.Obj().Name() == "SimpleNode" || ow.Obj().Name() == "Document"
				if stt != nil {
					for i := 0; i < stt.NumFields(); i++ {
						if stt.Field(i).Embedded() && strings.HasSuffix(stt.Field(i).Type().String(), "SimpleNode") {
							isNode = true
						}
					}
				}
				if !isNode {
					continue
				}
				if _, fresh := fa.X.(*ssa.Alloc); fresh {
					continue
				}
				name := ow.Obj().Name() + "." + su.FieldName(fa)
				if e4.FieldClass(ow, su.FieldName(fa)) != "" {
					continue
				}
				if _, ok := plainNodeFields[name]; ok {
					continue
				}
				found[name] = append(found[name], site{p.Pos(st.Pos()), load.FuncName(fn)})
			}
		}
	}
	var names []string
	for n := range found {
		names = append(names, n)
	}
	sort.Strings(names)
	if len(names) == 0 {
		r.Add("R13.e", "field inventory", "-", "fields assigned after construction").OK("all classified")
		return
	}
	for _, n := range names {
		s := found[n][0]
		r.Add("R13.e", "field "+n, s.pos, "assignment of an unclassified field").Fail(fmt.Sprintf("the field %s is assigned in %s (after construction) but is neither a structural field, a cache known to the pairing rule, nor reviewed plain state: if it remembers something computed from the document (a memo), no edit invalidates it and reads after an edit return what was true before", n, s.fn))
	}
}

// c13TagCacheKey (R13.f): the children-by-tag cache is keyed, inside a node's entry, by the tag it was asked for
// itself - a key computed from the tag (its descriptive name) lets two different tags share one entry, so a read for
// one tag changes what a later read for the other returns.
func c13TagCacheKey(p *load.Prog, r *oblig.Run) {
	r.Rule("R13.f", "the children-by-tag cache is keyed by the tag itself", 1)
	fn := p.Func(load.PkgRoot, "NodesWithTag")
	if fn == nil || len(fn.Params) != 2 {
		r.Add("R13.f", "anchor", "-", "anchor").Unknown("NodesWithTag(node, tag) not found")
		return
	}
	tag := fn.Params[1]
	isTag := func(v ssa.Value, in *ssa.Function) bool {
		mi, ok := v.(*ssa.MakeInterface)
		if !ok {
			return false
		}
		x := mi.X
		if x == ssa.Value(tag) {
			return true
		}
		ld, ok := x.(*ssa.UnOp)
		if !ok || ld.Op != token.MUL {
			return false
		}
		// the parameter's cell, or the free variable bound to it in the deferred closure
		cellOf := func(c ssa.Value) bool {
			al, ok := c.(*ssa.Alloc)
			if !ok {
				return false
			}
			n, good := 0, false
			for _, ref := range *al.Referrers() {
				if st, ok := ref.(*ssa.Store); ok && st.Addr == ssa.Value(al) {
					n++
					good = st.Val == ssa.Value(tag)
				}
			}
			return n == 1 && good
		}
		if cellOf(ld.X) {
			return true
		}
		if fv, ok := ld.X.(*ssa.FreeVar); ok && in.Parent() == fn {
			for _, b := range fn.Blocks {
				for _, ins := range b.Instrs {
					if mc, ok := ins.(*ssa.MakeClosure); ok && mc.Fn == in {
						for i, f := range in.FreeVars {
							if f == fv && cellOf(mc.Bindings[i]) {
								return true
							}
						}
					}
				}
			}
		}
		return false
	}
	n := 0
	for _, f := range append([]*ssa.Function{fn}, fn.AnonFuncs...) {
		for _, c := range su.Calls(f) {
			cc := c.Common()
			if !(su.CalleeIs(cc, "sync", "Load") || su.CalleeIs(cc, "sync", "Store") || su.CalleeIs(cc, "sync", "LoadOrStore")) || len(cc.Args) < 2 {
				continue
			}
			// the inner map: the receiver is asserted from the outer map's value
			if _, inner := cc.Args[0].(*ssa.TypeAssert); !inner {
				if ex, isEx := cc.Args[0].(*ssa.Extract); !isEx || ex == nil {
					continue
				} else if _, isTA := ex.Tuple.(*ssa.TypeAssert); !isTA {
					continue
				}
			}
			n++
			r.Check("R13.f", fmt.Sprintf("inner key %d in %s", n, load.FuncName(f)), p.Pos(c.Pos()), "key of the per-node map", isTag(cc.Args[1], f),
				"the tag parameter", "the per-node map of the children-by-tag cache is accessed with a key computed from the tag ("+cc.Args[1].String()+") instead of the tag itself: tags that differ but share that key (two tags with the same descriptive name, an unregistered tag spelled like a registered tag's name) share one cache entry, so reading one changes what the other returns")
		}
	}
	if n == 0 {
		r.Add("R13.f", "inner keys", p.Pos(fn.Pos()), "accesses of the per-node map").Unknown("NodesWithTag does not access a per-node sync.Map")
	}
}
