package props

import (
	"fmt"
	"go/types"

	"gedverif/internal/load"
	"gedverif/internal/su"

	"golang.org/x/tools/go/ssa"
)

func init() {
	debugHooks["errscan"] = func(p *load.Prog, parts []string) {
		errT := types.Universe.Lookup("error").Type()
		for _, fn := range p.Repo {
			for _, c := range su.Calls(fn) {
				cal := c.Common().StaticCallee()
				if cal == nil && !c.Common().IsInvoke() {
					continue
				}
				val, ok := c.(ssa.Value)
				if !ok {
					continue
				}
				var sig *types.Signature
				if cal != nil {
					sig = cal.Signature
					if !p.IsRepoFunc(cal) {
						continue
					}
				} else {
					sig = c.Common().Signature()
				}
				res := sig.Results()
				if res.Len() == 0 || !types.Identical(res.At(res.Len()-1).Type(), errT) {
					continue
				}
				used := false
				if res.Len() == 1 {
					used = val.Referrers() != nil && len(*val.Referrers()) > 0
				} else {
					for _, ref := range *val.Referrers() {
						if ex, ok := ref.(*ssa.Extract); ok && ex.Index == res.Len()-1 && len(*ex.Referrers()) > 0 {
							used = true
						}
					}
				}
				if !used {
					fmt.Println("DROPPED", p.Pos(c.Pos()), load.FuncName(fn), "->", c.Common().String())
				}
			}
		}
	}
}
