package props

import (
	"strings"
	"fmt"
	"go/token"

	"gedverif/internal/load"
	"gedverif/internal/oblig"
	"gedverif/internal/su"

	"golang.org/x/tools/go/ssa"
)

// c09Accounts (R09.e): MergeNodes accounts for every child of the right node:
// on every feasible path through an iteration of its loop over right.Nodes()
// the child is either merged into an equal child of the result (its children
// merged with MergeNodeSlices and the merged list stored with SetNodes) or
// added as a copy - unless the path established that the right child has no
// children of its own (nothing to merge in).
func c09Accounts(p *load.Prog, r *oblig.Run) {
	r.Rule("R09.e", "every child of the right node is merged into an equal child of the result (merged children stored) or added as a copy, on every path", 3)
	mn := p.Func(load.PkgRoot, "MergeNodes")
	ms := p.Func(load.PkgRoot, "MergeNodeSlices")
	dc := p.Func(load.PkgRoot, "DeepCopy")
	if mn == nil || ms == nil || dc == nil || len(mn.Params) < 2 {
		r.Add("R09.e", "anchors", "-", "anchor").Unknown("MergeNodes / MergeNodeSlices / DeepCopy not found")
		return
	}
	right := mn.Params[1]
	var kids ssa.Value
	for _, c := range su.Calls(mn) {
		cc := c.Common()
		if cc.IsInvoke() && cc.Method.Name() == "Nodes" && cc.Value == ssa.Value(right) {
			kids = c.Value()
		}
	}
	var loops []elementLoop
	if kids != nil {
		loops = findElementLoops(mn, kids)
	}
	if len(loops) != 1 {
		r.Add("R09.e", "loop over the right children", p.Pos(mn.Pos()), "MergeNodes walks right.Nodes() from the first to the last child").Fail(fmt.Sprintf("MergeNodes has %d loops over all of right.Nodes(): children of the right node are skipped or visited by a construct this rule cannot follow", len(loops)))
		return
	}
	loop := loops[0]
	r.Add("R09.e", "loop over the right children", p.Pos(kids.Pos()), "MergeNodes walks right.Nodes() from the first to the last child").OK("index runs over 0..len-1")
	// Nodes() of the right child
	childKids := func(v ssa.Value) bool {
		c, ok := v.(*ssa.Call)
		return ok && c.Call.IsInvoke() && c.Call.Method.Name() == "Nodes" && loop.elementOf(c.Call.Value)
	}
	// helperMerges: h(.., child, ..) bool merges the child into an equal child exactly when it answers true: every
	// path to `return true` merges the children of the parameter with MergeNodeSlices and stores the result with
	// SetNodes, every path to `return false` does neither
	helperMerges := func(c *ssa.Call) bool {
		h := c.Call.StaticCallee()
		if h == nil || !p.IsRepoFunc(h) || len(h.Blocks) == 0 || h == mn || h.Signature.Results().Len() != 1 {
			return false
		}
		var prm *ssa.Parameter
		for i, a := range c.Call.Args {
			if loop.elementOf(a) && i < len(h.Params) {
				prm = h.Params[i]
			}
		}
		if prm == nil {
			return false
		}
		prmKids := func(v ssa.Value) bool {
			k, ok := v.(*ssa.Call)
			return ok && k.Call.IsInvoke() && k.Call.Method.Name() == "Nodes" && k.Call.Value == ssa.Value(prm)
		}
		hp, capped := simplePaths(h.Blocks[0], map[*ssa.BasicBlock]bool{}, 2000)
		if capped {
			return false
		}
		nTrue := 0
		for _, path := range hp {
			last := path[len(path)-1]
			ret, ok := last.Instrs[len(last.Instrs)-1].(*ssa.Return)
			if !ok || len(ret.Results) != 1 || !pathConstFeasible(path) {
				continue
			}
			val, known := evalBoolOnPath(ret.Results[0], path, len(path)-1)
			if !known {
				return false
			}
			merged, stored := 0, 0
			var vals []ssa.Value
			for _, b := range path {
				for _, ins := range b.Instrs {
					k, ok := ins.(*ssa.Call)
					if !ok {
						continue
					}
					switch {
					case k.Call.StaticCallee() == ms && len(k.Call.Args) >= 2 && (prmKids(k.Call.Args[0]) || prmKids(k.Call.Args[1])):
						merged++
						vals = append(vals, k)
					case k.Call.IsInvoke() && k.Call.Method.Name() == "SetNodes" && len(k.Call.Args) == 1:
						for _, mv := range vals {
							if k.Call.Args[0] == mv {
								stored++
							}
						}
					}
				}
			}
			if val {
				nTrue++
				if merged != 1 || stored != 1 {
					return false
				}
			} else if merged != 0 {
				return false
			}
		}
		return nTrue > 0
	}
	paths, capped := simplePaths(loop.body, map[*ssa.BasicBlock]bool{loop.header: true}, 4000)
	if capped {
		r.Add("R09.e", "iteration paths", p.Pos(mn.Pos()), "paths").Unknown("more than 4000 paths through the loop body")
		return
	}
	k := 0
	for _, path := range paths {
		full := append([]*ssa.BasicBlock{loop.header}, path...)
		if !pathConstFeasible(full) || !feasible(full) {
			continue
		}
		last := path[len(path)-1]
		if last != loop.header {
			if ret, ok := last.Instrs[len(last.Instrs)-1].(*ssa.Return); ok && errorReturn(ret) {
				continue
			}
			if _, ok := last.Instrs[len(last.Instrs)-1].(*ssa.Panic); ok {
				continue
			}
			k++
			r.Add("R09.e", fmt.Sprintf("iteration path %d", k), p.Pos(last.Instrs[len(last.Instrs)-1].Pos()), "exit from the loop").Fail("MergeNodes leaves the loop over the right node's children on the path " + pathDesc(p, path) + " without an error: the remaining children of the right node are not in the result")
			continue
		}
		k++
		merged, stored, added, nothingToMerge, foundEqual := 0, 0, 0, false, false
		var mergedVals []ssa.Value
		for i, b := range path[:len(path)-1] {
			for _, ins := range b.Instrs {
				c, ok := ins.(*ssa.Call)
				if !ok {
					continue
				}
				cc := &c.Call
				switch {
				case helperMerges(c):
					// the helper merged the child iff it answered true: which side does the path take?
					if iff, ok := b.Instrs[len(b.Instrs)-1].(*ssa.If); ok && i+1 < len(path) {
						cond, neg := iff.Cond, false
						if u, isNot := cond.(*ssa.UnOp); isNot && u.Op == token.NOT {
							cond, neg = u.X, true
						}
						if cond == ssa.Value(c) {
							tookTrue := path[i+1] == b.Succs[0]
							if tookTrue != neg {
								merged++
								stored++
							}
							continue
						}
					}
					// the answer is not branched on here: count it as a merge that may or may not have happened
					merged += 2
				case cc.StaticCallee() == ms && len(cc.Args) >= 2 && (childKids(cc.Args[0]) || childKids(cc.Args[1])):
					merged++
					mergedVals = append(mergedVals, c)
				case cc.IsInvoke() && cc.Method.Name() == "SetNodes" && len(cc.Args) == 1:
					for _, mv := range mergedVals {
						if cc.Args[0] == mv {
							stored++
						}
					}
				case cc.IsInvoke() && cc.Method.Name() == "AddNode" && len(cc.Args) == 1:
					if d, ok := su.Strip(cc.Args[0]).(*ssa.Call); ok && d.Call.StaticCallee() == dc && loop.elementOf(d.Call.Args[0]) {
						added++
					}
				}
			}
			// an equal child of the result was found: n.Equals(child) taken on its true side
			if iff, ok := b.Instrs[len(b.Instrs)-1].(*ssa.If); ok && i+1 < len(path) {
				cond, neg := iff.Cond, false
				if u, isNot := cond.(*ssa.UnOp); isNot && u.Op == token.NOT {
					cond, neg = u.X, true
				}
				if ec, isCall := cond.(*ssa.Call); isCall && ec.Call.IsInvoke() && ec.Call.Method.Name() == "Equals" && len(ec.Call.Args) == 1 && loop.elementOf(ec.Call.Args[0]) {
					if (path[i+1] == b.Succs[0]) != neg {
						foundEqual = true
					}
				}
			}
			// the right child has no children: len(child.Nodes()) == 0 taken on its true side (or != 0 / > 0 on the false side)
			if iff, ok := b.Instrs[len(b.Instrs)-1].(*ssa.If); ok && i+1 < len(path) {
				if bo, ok := iff.Cond.(*ssa.BinOp); ok {
					if of, isLen := lenArg(bo.X); isLen && childKids(of) {
						if kk, isK := su.ConstInt(bo.Y); isK && kk == 0 {
							tookTrue := path[i+1] == b.Succs[0]
							if (bo.Op == token.EQL && tookTrue) || ((bo.Op == token.NEQ || bo.Op == token.GTR) && !tookTrue) {
								nothingToMerge = true
							}
						}
					}
				}
			}
		}
		o := r.Add("R09.e", fmt.Sprintf("iteration path %d", k), p.Pos(path[0].Instrs[0].Pos()), "iteration path "+pathDesc(p, path))
		switch {
		case merged == 1 && stored == 1 && added == 0:
			o.OK("merged into an equal child, merged children stored")
		case merged == 0 && added == 1:
			o.OK("added as a copy")
		case merged == 0 && added == 0 && nothingToMerge && foundEqual:
			o.OK("an equal child exists in the result and the right child has no children to merge in")
		case merged >= 1 && stored < merged:
			o.Fail("on the path " + pathDesc(p, path) + " the children of a right child are merged with MergeNodeSlices but the merged list is not stored into the matching child of the result: what the right side adds below that child is lost")
		case merged == 0 && added == 0:
			o.Fail("a child of the right node can pass through MergeNodes on the path " + pathDesc(p, path) + " without being merged into a child of the result and without being added: it (or what it carries below it) is missing from the merge")
		default:
			o.Fail(fmt.Sprintf("on the path %s a right child is handled %d time(s) by merging and %d time(s) by adding: it is represented more than once", pathDesc(p, path), merged, added))
		}
	}
	if k == 0 {
		r.Add("R09.e", "iteration paths", p.Pos(mn.Pos()), "paths").Unknown("no feasible path through the loop body")
	}
}

// c09KindOnlyEquals (R09.f): which node kinds are equal to every node of their kind. BIRT, DEAT, BAPM and BURI
// records of one individual describe one event - their content lives in their children - so their Equals answers
// true for the kind alone (reviewed list). Any other Equals method that can answer true on a path that compared
// nothing but kinds and nil-ness makes two nodes with different values "equal": a merge keeps only the left value
// (SEX U stays although the other file says SEX F) and a diff pairs them as unchanged.
func c09KindOnlyEquals(p *load.Prog, r *oblig.Run) {
	r.Rule("R09.f", "an Equals method answers true for the kind alone only for the reviewed event kinds (BIRT, DEAT, BAPM, BURI)", 5)
	reviewed := map[string]bool{"BirthNode": true, "DeathNode": true, "BaptismNode": true, "BurialNode": true}
	for _, fn := range p.Repo {
		if pkgPathOf(fn) != load.PkgRoot || fn.Name() != "Equals" || fn.Signature.Recv() == nil || fn.Synthetic != "" || len(fn.Blocks) == 0 {
			continue
		}
		tn := ""
		if n := load.NamedOf(fn.Signature.Recv().Type()); n != nil {
			tn = n.Obj().Name()
		}
		if !strings.HasSuffix(tn, "Node") {
			continue
		}
		env := &descEnv{p: p, params: map[*ssa.Parameter]string{}, noInline: true}
		kindOnly := ""
		for _, b := range fn.Blocks {
			ret, ok := b.Instrs[len(b.Instrs)-1].(*ssa.Return)
			if !ok || len(ret.Results) != 1 {
				continue
			}
			type cand struct{ blk *ssa.BasicBlock }
			var cands []*ssa.BasicBlock
			if k, isK := ret.Results[0].(*ssa.Const); isK && k.Value != nil && k.Value.ExactString() == "true" {
				cands = append(cands, b)
			}
			// `return ok` of a type assertion: true for the kind alone
			if ex, isEx := ret.Results[0].(*ssa.Extract); isEx && ex.Index == 1 {
				if ta, isTA := ex.Tuple.(*ssa.TypeAssert); isTA && ta.CommaOk {
					cands = append(cands, b)
				}
			}
			if ph, isPhi := ret.Results[0].(*ssa.Phi); isPhi && ph.Block() == b {
				for i, e := range ph.Edges {
					if k, isK := e.(*ssa.Const); isK && k.Value != nil && k.Value.ExactString() == "true" {
						cands = append(cands, b.Preds[i])
					}
					if ex, isEx := e.(*ssa.Extract); isEx && ex.Index == 1 {
						if ta, isTA := ex.Tuple.(*ssa.TypeAssert); isTA && ta.CommaOk {
							cands = append(cands, b.Preds[i])
						}
					}
				}
			}
			for _, cb := range cands {
				compares := false
				facts := env.blockFacts(cb, 0)
				if iff, isIf := cb.Instrs[len(cb.Instrs)-1].(*ssa.If); isIf && cb != b {
					facts = append(facts, env.condFacts(iff.Cond, cb.Succs[0] == b, 0)...)
				}
				for _, f := range facts {
					a := f.atom
					if strings.HasPrefix(a, "IsNil(") || strings.HasPrefix(a, "nil==") || strings.HasSuffix(a, "==nil") {
						continue
					}
					if strings.HasSuffix(a, "#1") && !strings.Contains(a, "(") {
						continue // the ok of a type assertion
					}
					if strings.Contains(a, "p0") && strings.Contains(a, "p1") {
						compares = true // some predicate over both operands (a helper such as anyDatesEqual(left.Dates(), right.Dates()))
					}
					if strings.Contains(a, "Value(") || strings.Contains(a, ".value") || strings.Contains(a, "Equals(") || strings.Contains(a, "DeepEqual") ||
						strings.Contains(a, "String(") || strings.Contains(a, "Pointer(") || strings.Contains(a, "==") || strings.Contains(a, "<") {
						compares = true
					}
				}
				if !compares {
					kindOnly = p.Pos(ret.Pos())
				}
			}
		}
		o := r.Add("R09.f", "kind-only equality of "+tn, p.Pos(fn.Pos()), "answers true without comparing values or children")
		switch {
		case kindOnly == "":
			o.OK("every true answer follows a comparison of values, pointers or children")
		case reviewed[tn]:
			o.OK("reviewed: all " + tn + " records of an individual describe the same event; their content is in their children")
		default:
			o.Fail("(*" + tn + ").Equals answers true (return at " + kindOnly + ") for any two nodes of its kind without comparing their values or children: nodes that record different values are 'equal' - MergeNodes keeps the left one and drops what the right one says, and a diff shows them as unchanged")
		}
	}
}
