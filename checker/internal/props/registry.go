// Package props holds one decision procedure per property.
package props

import (
	"gedverif/internal/load"
	"gedverif/internal/oblig"
)

// Registry maps property id to its check.
var Registry = map[string]func(p *load.Prog, r *oblig.Run){
	"C01": C01,
	"C02": C02,
	"C03": C03,
	"C04": C04,
	"C05": C05,
	"C06": C06,
	"C07": C07,
	"C08": C08,
	"C09": C09,
	"C10": C10,
	"C12": C12,
	"C20": C20,
	"C11": C11,
	"C13": C13,
	"C14": C14,
	"C15": C15,
	"C16": C16,
	"C17": C17,
	"C18": C18,
	"C19": C19,
}
