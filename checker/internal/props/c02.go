package props

import (
	"fmt"
	"go/token"
	"go/types"
	"strings"

	"gedverif/internal/load"
	"gedverif/internal/oblig"
	"gedverif/internal/su"

	"golang.org/x/tools/go/ssa"
)

// simplePaths enumerates simple block paths from `from` to any block in
// `stop` (inclusive), up to a cap. A path also ends at a block without
// successors (return/panic); those are reported with last == that block.
func simplePaths(from *ssa.BasicBlock, stop map[*ssa.BasicBlock]bool, limit int) (paths [][]*ssa.BasicBlock, capped bool) {
	var cur []*ssa.BasicBlock
	on := map[*ssa.BasicBlock]bool{}
	var walk func(b *ssa.BasicBlock)
	walk = func(b *ssa.BasicBlock) {
		if capped {
			return
		}
		cur = append(cur, b)
		on[b] = true
		defer func() { cur = cur[:len(cur)-1]; on[b] = false }()
		if (stop[b] && len(cur) > 1) || len(b.Succs) == 0 {
			if len(paths) >= limit {
				capped = true
				return
			}
			paths = append(paths, append([]*ssa.BasicBlock{}, cur...))
			return
		}
		for _, s := range b.Succs {
			if on[s] && !stop[s] {
				continue
			}
			if on[s] && stop[s] {
				// back edge to the stop block
				if len(paths) >= limit {
					capped = true
					return
				}
				paths = append(paths, append(append([]*ssa.BasicBlock{}, cur...), s))
				continue
			}
			walk(s)
		}
	}
	walk(from)
	return
}

// C02: decoding attaches every line exactly where its level says.
func C02(p *load.Prog, r *oblig.Run) {
	r.Explanation = "Path rules over the SSA control-flow graph of Decoder.Decode (E6). R02.a: on every simple path from the successful return of parseLine to the next loop iteration the parsed node is attached exactly once " +
		"(Document.AddNode for roots, AddNode on an open node otherwise) - never zero times (line dropped) and never twice (duplicated). R02.b: the parent of a non-root attach is the element of the stack of open nodes at (level-1), " +
		"and on every path to that attach the new node has been put on the stack at its own level (append / slot store after re-slicing to level+1). R02.c: a document is only returned after the pointer index was built (buildPointerCache) or every root went through Document.AddNode, " +
		"which indexes it. R02.d: the value of the previous node is trimmed before every attach and before the document is returned; R02.e: readLine ends a line at CR or LF and at nothing else, and blank lines are skipped before parsing. R02.i: every path that ends the read loop without an error (the loop flag becomes true, or a break to the successful return) passes the edge on which readLine's error is set - the loop never ends because of what a line contains."
	r.NotDecided = "equality of the built tree with a reference parser for all byte strings; the leniency modes' exact reference semantics; the re-encode fixpoint."
	r.Assumptions = []string{"go/ssa's control-flow graph of Decode; callees resolved by type information"}
	c02Rules(p, r)
	c02ReaderStateless(p, r)
	// the normal-form clause: the writer's line format and the encoder's traversal (C01's rules) are obligations here too
	r.Rule("R01.b", "the line writer emits exactly 'level [@ptr@] TAG [value]'", 12)
	c01Writer(p, r)
	c01Encoder(p, r)
	c01TagLookup(p, r)
	// the level, tag, pointer and value a line is attached with are what the reader cuts out of it: the reader's
	// pattern, group routing and conversions (C01's R01.a) and the kind registry's pass-through of value and pointer (R01.c)
	r.Rule("R01.a", "the line pattern's groups are routed to level (decimal), pointer (delimiters cut exactly), tag and value unchanged", 400)
	r.Rule("R01.c", "tag -> specialised kind registry agrees with the tag each kind's constructor hard-wires; value and pointer are passed through", 27)
	c01Reader(p, r)
	c01Registry(p, r)
	c01RegistryInvariant(p, r)
	c01DecodeErrors(p, r)
}

// c02Rules: the decoder-loop rules; C01 (encode/decode round trip) runs them
// as well, because a line the decoder drops or re-parents breaks the round trip.
func c02Rules(p *load.Prog, r *oblig.Run) {
	dec := p.Method(load.PkgRoot, "Decoder", "Decode")
	parse := p.Func(load.PkgRoot, "parseLine")
	if dec == nil || parse == nil {
		r.Add("R02.a", "anchors", "-", "anchor").Unknown("Decode/parseLine not found")
		return
	}
	r.Rule("R02.a", "every parsed line is attached exactly once on every path to the next iteration", 3)
	r.Rule("R02.b", "a non-root node is attached to the open node at level-1 and is itself put on the stack at its level first", 3)
	r.Rule("R02.c", "the returned document has its pointer index built after the last attach", 1)
	r.Rule("R02.d", "the previous node's value is trimmed before every attach and before returning", 3)
	r.Rule("R02.e", "lines end at CR or LF only; blank lines are skipped", 2)
	calls := su.CallsTo(dec, parse)
	if len(calls) != 1 {
		r.Add("R02.a", "parseLine call", p.Pos(dec.Pos()), "anchor").Unknown("expected one call of parseLine")
		return
	}
	pc := calls[0]
	var node, level, perr ssa.Value
	for _, ref := range *pc.Referrers() {
		if ex, ok := ref.(*ssa.Extract); ok {
			switch ex.Index {
			case 0:
				node = ex
			case 1:
				level = ex
			case 2:
				perr = ex
			}
		}
	}
	if node == nil || level == nil || perr == nil {
		r.Add("R02.a", "parseLine results", p.Pos(pc.Pos()), "anchor").Unknown("results of parseLine are not all used")
		return
	}
	// success block: false side of `err != nil`
	var success *ssa.BasicBlock
	for _, ref := range *perr.Referrers() {
		if bo, ok := ref.(*ssa.BinOp); ok && bo.Op == token.NEQ {
			for _, r2 := range *bo.Referrers() {
				if iff, ok := r2.(*ssa.If); ok {
					success = iff.Block().Succs[1]
				}
			}
		}
	}
	if success == nil {
		r.Add("R02.a", "success edge", p.Pos(pc.Pos()), "anchor").Unknown("no `err != nil` test of parseLine's error")
		return
	}
	// loop header: the block that dominates the parse call's block and is the target of a back edge
	var header *ssa.BasicBlock
	for _, b := range dec.Blocks {
		for _, pr := range b.Preds {
			if b.Dominates(pr) && b.Dominates(pc.Block()) {
				header = b
			}
		}
	}
	if header == nil {
		r.Add("R02.a", "loop", p.Pos(dec.Pos()), "anchor").Unknown("no loop around parseLine")
		return
	}
	isAttach := func(ins ssa.Instruction) (recv ssa.Value, ok bool) {
		c, isCall := ins.(ssa.CallInstruction)
		if !isCall {
			return nil, false
		}
		cc := c.Common()
		if cc.IsInvoke() && cc.Method.Name() == "AddNode" && len(cc.Args) == 1 && cc.Args[0] == node {
			return cc.Value, true
		}
		if cal := cc.StaticCallee(); cal != nil && cal.Name() == "AddNode" && len(cc.Args) == 2 && su.Strip(cc.Args[1]) == node {
			return cc.Args[0], true
		}
		return nil, false
	}
	paths, capped := simplePaths(success, map[*ssa.BasicBlock]bool{header: true}, 400)
	if capped {
		r.Add("R02.a", "paths", p.Pos(dec.Pos()), "path enumeration").Unknown("more than 400 paths through the loop body")
		return
	}
	r.Extra["loop_body_paths"] = len(paths)
	trim := p.Method(load.PkgRoot, "Decoder", "trimNodeValue")
	n := 0
	for _, path := range paths {
		last := path[len(path)-1]
		if last != header {
			continue // ends in return/panic: exempt
		}
		n++
		attaches := 0
		var recvs []ssa.Value
		var attachIns []ssa.Instruction
		trimmedBefore := true
		sawTrim := false
		for _, b := range path[:len(path)-1] {
			for _, ins := range b.Instrs {
				if c, ok := ins.(*ssa.Call); ok && trim != nil && c.Call.StaticCallee() == trim {
					sawTrim = true
				}
				if rv, ok := isAttach(ins); ok {
					attaches++
					recvs = append(recvs, rv)
					attachIns = append(attachIns, ins)
					if !sawTrim {
						trimmedBefore = false
					}
				}
			}
		}
		desc := pathDesc(p, path)
		key := fmt.Sprintf("path %d", n)
		o := r.Add("R02.a", key, p.Pos(path[0].Instrs[0].Pos()), "loop-body path "+desc)
		switch attaches {
		case 1:
			o.OK("attached once")
		case 0:
			o.Fail("on the path " + desc + " a successfully parsed line is never attached to the document or to a parent: the line is dropped")
		default:
			o.Fail(fmt.Sprintf("on the path %s the parsed node is attached %d times: the line is duplicated", desc, attaches))
		}
		if attaches >= 1 {
			r.Check("R02.d", key, p.Pos(attachIns[0].Pos()), "trim before attach on "+desc, trimmedBefore && trim != nil,
				"trimNodeValue(previousNode) precedes the attach", "on the path "+desc+" the previous node's value is not trimmed before the next node is attached: values keep surrounding whitespace (or the multi-line continuation is trimmed at the wrong time)")
		}
		// R02.b for non-root attaches
		for i, rv := range recvs {
			if _, isDoc := rv.Type().Underlying().(*types.Pointer); isDoc {
				continue // Document.AddNode (root)
			}
			ob := r.Add("R02.b", key, p.Pos(attachIns[i].Pos()), "parent of the non-root attach on "+desc)
			why := checkParentAndPush(rv, node, level, path, attachIns[i])
			if why == "" {
				ob.OK("parent is the open node at level-1; the node is on the stack at its level")
			} else {
				ob.Fail("on the path " + desc + ": " + why)
			}
		}
	}
	if n == 0 {
		r.Add("R02.a", "paths", p.Pos(dec.Pos()), "paths").Unknown("no path from a parsed line back to the loop header")
	}
	// R02.f: depth invariant; the effective level of a non-root line is the index expression (lvl-1) of its parent
	c02Depth(p, r, dec, header, level, paths, func(path []*ssa.BasicBlock) (ssa.Value, bool) {
		for _, b := range path[:len(path)-1] {
			for _, ins := range b.Instrs {
				rv, ok := isAttach(ins)
				if !ok {
					continue
				}
				if ld, ok := rv.(*ssa.UnOp); ok {
					if ia, ok := ld.X.(*ssa.IndexAddr); ok {
						if bo, ok := ia.Index.(*ssa.BinOp); ok && bo.Op == token.SUB {
							if k, isK := su.ConstInt(bo.Y); isK && k == 1 {
								return bo.X, true
							}
						}
					}
				}
			}
		}
		return nil, false
	})
	// R02.c / R02.d at returns of a document
	build := p.Method(load.PkgRoot, "Document", "buildPointerCache")
	for _, b := range dec.Blocks {
		ret, ok := b.Instrs[len(b.Instrs)-1].(*ssa.Return)
		if !ok || len(ret.Results) != 2 {
			continue
		}
		if k, isK := ret.Results[0].(*ssa.Const); isK && k.Value == nil {
			continue // error return
		}
		okBuild, okTrim := false, false
		for _, ins := range b.Instrs {
			if c, ok := ins.(*ssa.Call); ok {
				if build != nil && c.Call.StaticCallee() == build {
					okBuild = true
				}
				if trim != nil && c.Call.StaticCallee() == trim {
					okTrim = true
				}
			}
		}
		// dominating blocks count as well
		for _, d := range dec.Blocks {
			if d != b && d.Dominates(b) && !header.Dominates(d) {
				continue
			}
			if d != b && d.Dominates(b) {
				for _, ins := range d.Instrs {
					if c, ok := ins.(*ssa.Call); ok {
						if build != nil && c.Call.StaticCallee() == build && !loopBlock(d, header) {
							okBuild = true
						}
						if trim != nil && c.Call.StaticCallee() == trim && !loopBlock(d, header) {
							okTrim = true
						}
					}
				}
			}
		}
		r.Check("R02.c", "return of the document", p.Pos(ret.Pos()), "pointer index before returning", okBuild,
			"buildPointerCache after the loop", "Decode returns the document without building the pointer index after the last attach: NodeByPointer misses records")
		r.Check("R02.d", "return of the document", p.Pos(ret.Pos()), "trim of the last node", okTrim,
			"trimNodeValue(previousNode) after the loop", "the value of the last node of the file is never trimmed")
	}
	c02ReadLine(p, r)
	c02LoopEnds(p, r, dec, header)
	c02AttachOps(p, r)
	c02TrimOnlyEnds(p, r)
}

// loopBlock: b is inside the loop headed by header (header dominates b and b reaches header).
func loopBlock(b, header *ssa.BasicBlock) bool {
	return header.Dominates(b) && su.ReachableBlocks(b)[header] && b != header
}

func pathDesc(p *load.Prog, path []*ssa.BasicBlock) string {
	var parts []string
	for _, b := range path {
		if b.Comment != "" && (strings.HasPrefix(b.Comment, "switch.") || strings.HasPrefix(b.Comment, "if.")) {
			line := 0
			for _, ins := range b.Instrs {
				if ins.Pos().IsValid() {
					line = p.Fset.Position(ins.Pos()).Line
					break
				}
			}
			parts = append(parts, fmt.Sprintf("%s@%d", b.Comment, line))
		}
	}
	if len(parts) > 8 {
		parts = parts[len(parts)-8:]
	}
	return "[" + strings.Join(parts, " ") + "]"
}

// checkParentAndPush: recv must be *(&stack[level'-1]); on the path the node
// must be appended to / stored into the stack at level'.
func checkParentAndPush(recv, node, level ssa.Value, path []*ssa.BasicBlock, attach ssa.Instruction) string {
	ld, ok := recv.(*ssa.UnOp)
	if !ok {
		return "the parent is not an element of the stack of open nodes"
	}
	ia, ok := ld.X.(*ssa.IndexAddr)
	if !ok {
		return "the parent is not an element of the stack of open nodes"
	}
	derivesFromLevel := func(v ssa.Value) bool {
		for i := 0; i < 4; i++ {
			if v == level {
				return true
			}
			if ph, ok := v.(*ssa.Phi); ok {
				for _, e := range ph.Edges {
					if e == level {
						return true
					}
				}
				return false
			}
			return false
		}
		return false
	}
	bo, ok := ia.Index.(*ssa.BinOp)
	if !ok || bo.Op != token.SUB || !derivesFromLevel(bo.X) {
		return "the parent is not taken from the stack at (level - 1)"
	}
	if k, isK := su.ConstInt(bo.Y); !isK || k != 1 {
		return "the parent is not taken from the stack at (level - 1)"
	}
	lvl := bo.X
	stack := ia.X
	// push on the path: append(stackish, node) or store node into &stackish[lvl]
	pushed := false
	for _, b := range path {
		for _, ins := range b.Instrs {
			if ins == attach {
				break
			}
			switch x := ins.(type) {
			case *ssa.Call:
				if bi, ok := x.Call.Value.(*ssa.Builtin); ok && bi.Name() == "append" && len(x.Call.Args) == 2 {
					// append(stack, []Node{node}...)
					if sl, ok := x.Call.Args[1].(*ssa.Slice); ok {
						if al, ok := sl.X.(*ssa.Alloc); ok {
							for _, ref := range *al.Referrers() {
								if ia2, ok := ref.(*ssa.IndexAddr); ok {
									for _, r2 := range *ia2.Referrers() {
										if st, ok := r2.(*ssa.Store); ok && st.Val == node && x.Call.Args[0] == stack {
											pushed = true
										}
									}
								}
							}
						}
					}
				}
			case *ssa.Store:
				if x.Val == node {
					if ia2, ok := x.Addr.(*ssa.IndexAddr); ok && ia2.Index == lvl {
						// the slot's slice must be the stack itself or the stack re-sliced to lvl+1
						base := ia2.X
						if base == stack {
							pushed = true
						} else if sl, ok := base.(*ssa.Slice); ok && sl.X == stack {
							if hb, ok := sl.High.(*ssa.BinOp); ok && hb.Op == token.ADD && hb.X == lvl {
								if k, isK := su.ConstInt(hb.Y); isK && k == 1 {
									pushed = true
								}
							}
						}
					}
				}
			}
		}
	}
	if !pushed {
		return "the new node is not put on the stack of open nodes at its own level before it is attached: its children would be attached to the previous node at that level"
	}
	return ""
}

// c02ReadLine: the byte loop of readLine.
func c02ReadLine(p *load.Prog, r *oblig.Run) {
	rl := p.Method(load.PkgRoot, "Decoder", "readLine")
	dec := p.Method(load.PkgRoot, "Decoder", "Decode")
	if rl == nil {
		r.Add("R02.e", "readLine", "-", "anchor").Unknown("readLine not found")
		return
	}
	// terminators: byte comparisons against constants that lead out of the loop
	terms := map[int64]bool{}
	for _, b := range rl.Blocks {
		iff, ok := b.Instrs[len(b.Instrs)-1].(*ssa.If)
		if !ok {
			continue
		}
		bo, ok := iff.Cond.(*ssa.BinOp)
		if !ok || bo.Op != token.EQL {
			continue
		}
		if k, isK := su.ConstInt(bo.Y); isK {
			if bt, isB := bo.X.Type().Underlying().(*types.Basic); isB && bt.Kind() == types.Uint8 {
				terms[k] = true
			}
		}
	}
	o := r.Add("R02.e", "line terminators in readLine", p.Pos(rl.Pos()), "bytes that end a line")
	if len(terms) == 2 && terms[10] && terms[13] {
		o.OK("LF (10) and CR (13)")
	} else {
		var ks []string
		for k := range terms {
			ks = append(ks, fmt.Sprint(k))
		}
		o.Fail("readLine ends a line at the bytes {" + strings.Join(ks, ",") + "} instead of exactly CR (13) and LF (10)")
	}
	// no byte is pushed back (UnreadByte/Peek-free loop): every iteration consumes exactly one byte
	reads, unreads := 0, 0
	for _, c := range su.Calls(rl) {
		if cal := c.Common().StaticCallee(); cal != nil && cal.Pkg != nil && cal.Pkg.Pkg.Path() == "bufio" {
			switch cal.Name() {
			case "ReadByte":
				reads++
			case "UnreadByte", "UnreadRune":
				unreads++
			}
		}
	}
	o = r.Add("R02.e", "readLine consumes the stream", p.Pos(rl.Pos()), "every iteration consumes a byte and none is pushed back")
	if reads == 1 && unreads == 0 {
		o.OK("one ReadByte per iteration, nothing pushed back")
	} else {
		o.Fail(fmt.Sprintf("readLine uses %d ReadByte and %d UnreadByte calls: a byte that is pushed back can be read again for ever (no progress) or split a line differently", reads, unreads))
	}
	// blank lines skipped before parsing: the parse call is only reached when line != ""
	if dec != nil {
		parse := p.Func(load.PkgRoot, "parseLine")
		calls := su.CallsTo(dec, parse)
		o = r.Add("R02.e", "blank lines skipped", p.Pos(dec.Pos()), "parseLine is not called for an empty line")
		ok := false
		if len(calls) == 1 {
			lineArg := calls[0].Call.Args[0]
			for _, b := range dec.Blocks {
				iff, isIf := b.Instrs[len(b.Instrs)-1].(*ssa.If)
				if !isIf {
					continue
				}
				bo, isBo := iff.Cond.(*ssa.BinOp)
				if !isBo || bo.X != lineArg {
					continue
				}
				if s, isS := su.ConstString(bo.Y); isS && s == "" && bo.Op == token.EQL && !su.ReachableBlocksAvoiding(b.Succs[0], calls[0].Block(), b) {
					ok = true
				}
			}
		}
		if ok {
			o.OK("`line == \"\"` leaves the iteration before parseLine")
		} else {
			o.Fail("an empty line reaches parseLine: blank lines are reported as errors or become nodes")
		}
	}
}
