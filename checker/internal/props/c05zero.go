package props

import (
	"fmt"
	"go/token"
	"go/types"
	"sort"
	"strings"

	"gedverif/internal/load"
	"gedverif/internal/oblig"
	"gedverif/internal/su"

	"golang.org/x/tools/go/ssa"
)

// c05ZeroTime (R05.d): a time.Time computed from the components of a date
// (time.Parse / time.Date and what is derived from them, through returns and
// parameters of repository functions) never reaches (time.Time).IsZero.
// 1 January of the year 1 at 00:00 UTC - the start bound of a valid date - IS
// Go's zero time, so such a test treats that valid date as "no date".
func c05ZeroTime(p *load.Prog, r *oblig.Run) {
	r.Rule("R05.d", "no time computed from date components is tested with time.Time.IsZero (1 Jan 0001 00:00 UTC, a valid start bound, is the zero time)", 1)
	isTimeFn := func(c *ssa.CallCommon, names ...string) bool {
		cal := c.StaticCallee()
		if cal == nil || cal.Pkg == nil || cal.Pkg.Pkg.Path() != "time" {
			return false
		}
		for _, n := range names {
			if cal.Name() == n {
				return true
			}
		}
		return false
	}
	var fns []*ssa.Function
	for _, fn := range p.Repo {
		if pkgPathOf(fn) == load.PkgRoot && len(fn.Blocks) > 0 {
			fns = append(fns, fn)
		}
	}
	tainted := map[ssa.Value]bool{}
	retTainted := map[*ssa.Function]map[int]bool{} // function -> result indexes that can be date-derived times
	why := map[ssa.Value]string{}
	mark := func(v ssa.Value, reason string) bool {
		if tainted[v] {
			return false
		}
		tainted[v] = true
		why[v] = reason
		return true
	}
	changed := true
	for rounds := 0; changed && rounds < 50; rounds++ {
		changed = false
		for _, fn := range fns {
			for _, b := range fn.Blocks {
				for _, ins := range b.Instrs {
					switch x := ins.(type) {
					case *ssa.Call:
						cc := &x.Call
						switch {
						case isTimeFn(cc, "Parse", "ParseInLocation", "Date"):
							if mark(x, "time."+cc.StaticCallee().Name()+" at "+p.Pos(x.Pos())) {
								changed = true
							}
						case isTimeFn(cc, "AddDate", "Add", "Truncate", "UTC", "Round", "In", "Local"):
							if len(cc.Args) > 0 && tainted[cc.Args[0]] {
								if mark(x, why[cc.Args[0]]) {
									changed = true
								}
							}
						default:
							cal := cc.StaticCallee()
							if cal == nil {
								continue
							}
							if rt := retTainted[cal]; len(rt) > 0 {
								if mark(x, "the result of "+load.FuncName(cal)) {
									changed = true
								}
							}
							// arguments into repository functions
							if len(cal.Blocks) > 0 && pkgPathOf(cal) == load.PkgRoot {
								for i, a := range cc.Args {
									if tainted[a] && i < len(cal.Params) {
										if mark(cal.Params[i], why[a]+", passed to "+load.FuncName(cal)) {
											changed = true
										}
									}
								}
							}
						}
					case *ssa.Extract:
						if tainted[x.Tuple] {
							// for results of repository functions only the tainted indexes
							if c, ok := x.Tuple.(*ssa.Call); ok {
								if cal := c.Call.StaticCallee(); cal != nil && retTainted[cal] != nil && !retTainted[cal][x.Index] {
									continue
								}
								if isTimeFn(&c.Call, "Parse", "ParseInLocation") && x.Index != 0 {
									continue
								}
							}
							if mark(x, why[x.Tuple]) {
								changed = true
							}
						}
					case *ssa.Phi:
						for _, e := range x.Edges {
							if tainted[e] {
								if mark(x, why[e]) {
									changed = true
								}
							}
						}
					case *ssa.Return:
						for i, res := range x.Results {
							if tainted[res] {
								if retTainted[fn] == nil {
									retTainted[fn] = map[int]bool{}
								}
								if !retTainted[fn][i] {
									retTainted[fn][i] = true
									changed = true
								}
							}
						}
					}
				}
			}
		}
	}
	type finding struct{ pos, fn, src string }
	var finds []finding
	sites := 0
	for _, fn := range fns {
		for _, b := range fn.Blocks {
			for _, ins := range b.Instrs {
				c, ok := ins.(*ssa.Call)
				if !ok || !isTimeFn(&c.Call, "IsZero") || len(c.Call.Args) != 1 {
					continue
				}
				sites++
				if tainted[c.Call.Args[0]] {
					finds = append(finds, finding{p.Pos(c.Pos()), load.FuncName(fn), why[c.Call.Args[0]]})
				}
			}
		}
	}
	r.Extra["time_iszero_sites"] = sites
	r.Extra["date_derived_time_values"] = len(tainted)
	sort.Slice(finds, func(i, j int) bool { return finds[i].pos < finds[j].pos })
	if len(finds) == 0 {
		r.Add("R05.d", "zero-time tests", "-", fmt.Sprintf("%d calls of time.Time.IsZero in the library, %d date-derived time values", sites, len(tainted))).OK("no date-derived time reaches IsZero")
		return
	}
	seen := map[string]int{}
	for _, f := range finds {
		key := "IsZero in " + f.fn
		seen[key]++
		if seen[key] > 1 {
			key = fmt.Sprintf("%s #%d", key, seen[key])
		}
		r.Add("R05.d", key, f.pos, "receiver of time.Time.IsZero").Fail("a time computed from date components (" + f.src + ") is tested with IsZero in " + f.fn + ": 1 Jan 0001 00:00 UTC, the start of the valid date 1 Jan 0001 (and of Jan 0001 and of the year 0001), is the zero time, so that date is treated as missing or invalid")
	}
}

// c05LeapRule (R05.f): the date code has no leap-year rule of its own that is the Julian one. Today the calendar
// (month lengths, leap years) comes from package time alone; a function of the root package that takes the
// remainder of a year by 4 - a year being the Year field of a Date, the result of time.Time.Year(), or an int
// parameter named like a year - must take the remainders by 100 and by 400 of the same value as well. `year%4 == 0`
// alone makes 1700, 1800, 1900, 2100 ... (75 of the 9,999 supported years) one day longer than they are.
// The rule reads only which remainders are taken, not how they are combined.
func c05LeapRule(p *load.Prog, r *oblig.Run) {
	r.Rule("R05.f", "a function that takes a year modulo 4 also takes it modulo 100 and modulo 400 (no Julian leap rule in the date code)", 2)
	isYear := func(v ssa.Value) bool {
		for i := 0; i < 4; i++ {
			switch x := v.(type) {
			case *ssa.Convert:
				v = x.X
				continue
			case *ssa.ChangeType:
				v = x.X
				continue
			}
			break
		}
		switch x := v.(type) {
		case *ssa.Call:
			cal := x.Call.StaticCallee()
			return cal != nil && cal.Name() == "Year" && cal.Pkg != nil && cal.Pkg.Pkg.Path() == "time"
		case *ssa.UnOp:
			if fa, ok := x.X.(*ssa.FieldAddr); ok && x.Op == token.MUL {
				return su.FieldName(fa) == "Year"
			}
		case *ssa.Field:
			if st, ok := x.X.Type().Underlying().(*types.Struct); ok {
				return st.Field(x.Field).Name() == "Year"
			}
		case *ssa.Parameter:
			n := strings.ToLower(x.Name())
			return n == "y" || strings.Contains(n, "year")
		}
		return false
	}
	scanned, found := 0, 0
	for _, fn := range p.Repo {
		if pkgPathOf(fn) != load.PkgRoot || len(fn.Blocks) == 0 {
			continue
		}
		scanned++
		rem := map[ssa.Value]map[int64]token.Pos{}
		for _, b := range fn.Blocks {
			for _, ins := range b.Instrs {
				bo, ok := ins.(*ssa.BinOp)
				if !ok || bo.Op != token.REM {
					continue
				}
				k, isK := su.ConstInt(bo.Y)
				if !isK {
					continue
				}
				if rem[bo.X] == nil {
					rem[bo.X] = map[int64]token.Pos{}
				}
				rem[bo.X][k] = bo.Pos()
			}
		}
		for v, ks := range rem {
			pos, has4 := ks[4]
			if !has4 || !isYear(v) {
				continue
			}
			found++
			o := r.Add("R05.f", "leap rule in "+load.FuncName(fn), p.Pos(pos), "remainders taken of the year "+v.Name())
			_, h100 := ks[100]
			_, h400 := ks[400]
			if h100 && h400 {
				o.OK("the year is taken modulo 4, 100 and 400")
			} else {
				o.Fail("the year is taken modulo 4 but not modulo 100 and 400: century years that are not leap years (1700, 1800, 1900, 2100 ...) are given 366 days / a 29 February - their bounds and Years values leave the calendar")
			}
		}
	}
	for _, name := range []string{"Time", "Years"} {
		m := p.Method(load.PkgRoot, "Date", name)
		if m == nil {
			r.Add("R05.f", "anchor Date."+name, "-", "anchor").Unknown("method not found")
			continue
		}
		r.Add("R05.f", "calendar source of Date."+name, p.Pos(m.Pos()), "own leap rules in the root package").OK(fmt.Sprintf("%d functions scanned, %d take a year modulo 4 (each judged above)", scanned, found))
	}
}
