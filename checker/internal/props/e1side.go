package props

import (
	"fmt"
	"go/token"
	"go/types"
	"regexp"
	"strings"

	"gedverif/internal/e1"
	"gedverif/internal/load"
	"gedverif/internal/oblig"
	"gedverif/internal/su"

	"golang.org/x/tools/go/ssa"
)

// Side conditions of reviewed table entries whose reason is an arithmetic
// relation between an index and a length: the relation is re-established on
// the current source, so an edit that changes one side of it (a length taken
// from a different value, a bound from a different helper) brings the site
// back as a violation.

func lenArg(v ssa.Value) (ssa.Value, bool) {
	c, ok := v.(*ssa.Call)
	if !ok {
		return nil, false
	}
	bi, ok := c.Call.Value.(*ssa.Builtin)
	if !ok || bi.Name() != "len" || len(c.Call.Args) != 1 {
		return nil, false
	}
	return c.Call.Args[0], true
}

func floatLenArg(v ssa.Value) (ssa.Value, bool) {
	cv, ok := v.(*ssa.Convert)
	if !ok {
		return nil, false
	}
	return lenArg(cv.X)
}

// countingPhi: v is a loop counter phi that starts at `init` (checked by the
// caller) and is only ever incremented by the constant 1; returns the initial
// values.
func countingPhi(v ssa.Value) (inits []ssa.Value, ok bool) {
	ph, isPhi := v.(*ssa.Phi)
	if !isPhi {
		return nil, false
	}
	for _, e := range ph.Edges {
		if bo, isBo := e.(*ssa.BinOp); isBo && bo.Op == token.ADD && bo.X == ssa.Value(ph) {
			if k, isK := su.ConstInt(bo.Y); isK && k == 1 {
				continue
			}
			return nil, false
		}
		inits = append(inits, e)
	}
	return inits, true
}

// dominatingBound: the instruction is dominated by the true side of
// `idx < bound` (strict) or `idx <= bound` (!strict); returns bound.
func dominatingBound(ins ssa.Instruction, idx ssa.Value) (bound ssa.Value, strict bool, ok bool) {
	fn := ins.Parent()
	for _, b := range fn.Blocks {
		iff, isIf := b.Instrs[len(b.Instrs)-1].(*ssa.If)
		if !isIf {
			continue
		}
		bo, isBo := iff.Cond.(*ssa.BinOp)
		if !isBo || bo.X != idx || (bo.Op != token.LSS && bo.Op != token.LEQ) {
			continue
		}
		t := b.Succs[0]
		if len(t.Preds) == 1 && t.Dominates(ins.Block()) {
			return bo.Y, bo.Op == token.LSS, true
		}
	}
	return nil, false, false
}

// jaroWindow: transposed[j] in jaro. The slice has len(S) elements and j runs
// from int(max(0, ..)) while j <= int(min(float64(len(S))-1, ..)) for the same S.
func jaroWindow(p *load.Prog) (bool, string) {
	fn := p.Func(load.PkgRoot, "jaro")
	if fn == nil {
		return false, "jaro not found"
	}
	n := 0
	for _, b := range fn.Blocks {
		for _, ins := range b.Instrs {
			ia, ok := ins.(*ssa.IndexAddr)
			if !ok {
				continue
			}
			st, ok := ia.X.Type().Underlying().(*types.Slice)
			if !ok || !types.Identical(st.Elem(), types.Typ[types.Bool]) {
				continue
			}
			n++
			mk, ok := ia.X.(*ssa.MakeSlice)
			if !ok {
				return false, "the flag slice indexed in jaro is not made in jaro"
			}
			of, ok := lenArg(mk.Len)
			if !ok {
				return false, "the flag slice of jaro is not made with the length of one of the compared values"
			}
			inits, ok := countingPhi(ia.Index)
			if !ok {
				return false, "the index of the flag slice is not a counter that steps by one"
			}
			for _, in := range inits {
				cv, ok := in.(*ssa.Convert)
				var mx *ssa.Call
				if ok {
					mx, _ = cv.X.(*ssa.Call)
				}
				if mx == nil || !su.CalleeIs(&mx.Call, "math", "Max") {
					return false, "the window's first index is not int(math.Max(0, ..))"
				}
				z0, ok0 := mx.Call.Args[0].(*ssa.Const)
				z1, ok1 := mx.Call.Args[1].(*ssa.Const)
				if !(ok0 && z0.Value != nil && z0.Value.ExactString() == "0") && !(ok1 && z1.Value != nil && z1.Value.ExactString() == "0") {
					return false, "the window's first index is not clamped at 0"
				}
			}
			bound, strict, ok := dominatingBound(ia, ia.Index)
			if !ok {
				return false, "the index of the flag slice is not tested against the window's last index"
			}
			cv, ok := bound.(*ssa.Convert)
			var mn *ssa.Call
			if ok {
				mn, _ = cv.X.(*ssa.Call)
			}
			if mn == nil || !su.CalleeIs(&mn.Call, "math", "Min") {
				return false, "the window's last index is not int(math.Min(length-1, ..))"
			}
			good := false
			for _, a := range mn.Call.Args {
				switch x := a.(type) {
				case *ssa.BinOp:
					// float64(len(S)) - 1 with j <= .., or float64(len(S)) with j < ..
					k, isK := x.Y.(*ssa.Const)
					if x.Op == token.SUB && isK && k.Value != nil && k.Value.ExactString() == "1" {
						if s2, ok := floatLenArg(x.X); ok && s2 == of {
							good = true
						}
					}
				case *ssa.Convert:
					if s2, ok := lenArg(x.X); ok && s2 == of && strict {
						good = true
					}
				}
			}
			if !good {
				return false, fmt.Sprintf("the flag slice has len(%s) elements but the window's last index is not bounded by len(%s)-1: when the two lengths differ (a length counted in other units, the other operand's length) the index runs past the slice", of.Name(), of.Name())
			}
		}
	}
	if n == 0 {
		return false, "no []bool index found in jaro"
	}
	return true, ""
}

// jaroWinklerPrefix: a[i], b[i] in JaroWinkler with 0 <= i < minInt(.., len(a), len(b)).
func jaroWinklerPrefix(p *load.Prog) (bool, string) {
	fn := p.Func(load.PkgRoot, "JaroWinkler")
	minInt := p.Func(load.PkgRoot, "minInt")
	if fn == nil || minInt == nil {
		return false, "JaroWinkler / minInt not found"
	}
	n := 0
	for _, b := range fn.Blocks {
		for _, ins := range b.Instrs {
			ix, ok := ins.(*ssa.Index)
			if !ok {
				continue
			}
			if bt, ok := ix.X.Type().Underlying().(*types.Basic); !ok || bt.Info()&types.IsString == 0 {
				continue
			}
			n++
			inits, ok := countingPhi(ix.Index)
			if !ok {
				return false, "the prefix index is not a counter that steps by one"
			}
			for _, in := range inits {
				if k, isK := su.ConstInt(in); !isK || k < 0 {
					return false, "the prefix index does not start at a non-negative constant"
				}
			}
			bound, strict, ok := dominatingBound(ix, ix.Index)
			if !ok || !strict {
				return false, "the prefix index is not tested with i < prefix size"
			}
			mc, ok := bound.(*ssa.Call)
			if !ok || mc.Call.StaticCallee() != minInt {
				return false, "the prefix size is not minInt(.., len(a), len(b))"
			}
			elems, ok := variadicElems(mc.Call.Args[0])
			if !ok {
				return false, "cannot read the arguments of minInt"
			}
			covered := false
			for _, e := range elems {
				if s, ok := lenArg(e); ok && s == ix.X {
					covered = true
				}
			}
			if !covered {
				return false, fmt.Sprintf("the prefix size is not limited by len(%s), the string that is indexed", ix.X.Name())
			}
		}
	}
	if n == 0 {
		return false, "no string index found in JaroWinkler"
	}
	return true, ""
}

// stridedWorkerIndex: left[leftI] in the worker closure of fnName, with the
// loop test leftI < len(left) on the same captured, never reassigned slice and
// leftI starting at the worker number.
func stridedWorkerIndex(fnName string) func(p *load.Prog) (bool, string) {
	return func(p *load.Prog) (bool, string) {
		fn := p.Func(load.PkgRoot, fnName)
		if fn == nil {
			return false, fnName + " not found"
		}
		n := 0
		for _, an := range fn.AnonFuncs {
			for _, b := range an.Blocks {
				for _, ins := range b.Instrs {
					ia, ok := ins.(*ssa.IndexAddr)
					if !ok {
						continue
					}
					if _, isK := ia.Index.(*ssa.Const); isK {
						continue // a constant index is not the strided one
					}
					n++
					// the slice: a free variable (captured by value) or a load of a captured variable
					var fv *ssa.FreeVar
					switch x := ia.X.(type) {
					case *ssa.FreeVar:
						fv = x
					case *ssa.UnOp:
						fv, _ = x.X.(*ssa.FreeVar)
					}
					if fv == nil {
						return false, "the indexed slice is not the captured list"
					}
					for _, ref := range *fv.Referrers() {
						if st, ok := ref.(*ssa.Store); ok && st.Addr == ssa.Value(fv) {
							return false, "the captured list is reassigned inside the worker"
						}
					}
					bound, strict, ok := dominatingBound(ia, ia.Index)
					if !ok || !strict {
						return false, "the worker's index is not tested with index < len(list)"
					}
					of, ok := lenArg(bound)
					if !ok {
						return false, "the worker's index is not tested against a length"
					}
					same := of == ia.X
					if l1, ok := of.(*ssa.UnOp); ok {
						if l2, ok := ia.X.(*ssa.UnOp); ok && l1.X == l2.X {
							same = true
						}
					}
					if !same {
						return false, "the worker's index is tested against the length of a different list than the one it indexes"
					}
					ph, ok := ia.Index.(*ssa.Phi)
					if !ok {
						return false, "the worker's index is not a loop counter"
					}
					for _, e := range ph.Edges {
						if _, isParam := e.(*ssa.Parameter); isParam {
							continue
						}
						if bo, ok := e.(*ssa.BinOp); ok && bo.Op == token.ADD && bo.X == ssa.Value(ph) {
							continue
						}
						return false, "the worker's index does not start at the worker number and advance by the stride"
					}
				}
			}
		}
		if n == 0 {
			return false, "no index in the worker closure of " + fnName
		}
		return true, ""
	}
}

// monthNameGroup: parts[monthPos] in parseMonthName. Every caller passes the
// submatch of a constant pattern and a constant group number the pattern has;
// the function leaves before the index when the submatch is empty (no match).
func monthNameGroup(p *load.Prog) (bool, string) {
	fn := p.Func(load.PkgRoot, "parseMonthName")
	if fn == nil || len(fn.Params) != 2 {
		return false, "parseMonthName(parts, monthPos) not found"
	}
	// the emptiness exit dominates the index
	guarded := false
	for _, b := range fn.Blocks {
		for _, ins := range b.Instrs {
			ia, ok := ins.(*ssa.IndexAddr)
			if !ok || ia.X != ssa.Value(fn.Params[0]) {
				continue
			}
			for _, d := range fn.Blocks {
				iff, ok := d.Instrs[len(d.Instrs)-1].(*ssa.If)
				if !ok {
					continue
				}
				bo, ok := iff.Cond.(*ssa.BinOp)
				if !ok || bo.Op != token.EQL {
					continue
				}
				if of, ok := lenArg(bo.X); !ok || of != ssa.Value(fn.Params[0]) {
					continue
				}
				if k, isK := su.ConstInt(bo.Y); !isK || k != 0 {
					continue
				}
				if len(d.Succs[1].Preds) == 1 && d.Succs[1].Dominates(b) {
					guarded = true
				}
			}
		}
	}
	if !guarded {
		return false, "parseMonthName no longer leaves before the index when the submatch is empty"
	}
	n := 0
	for _, caller := range p.Repo {
		for _, c := range su.CallsTo(caller, fn) {
			n++
			k, isK := su.ConstInt(c.Call.Args[1])
			if !isK || k < 0 {
				return false, "parseMonthName is called with a computed group number in " + load.FuncName(caller)
			}
			pat, _, sub, err := regexpUsedIn(p, caller, "FindStringSubmatch")
			if err != nil || ssa.Value(sub) != c.Call.Args[0] {
				return false, "parseMonthName is not called with the submatch of a constant pattern in " + load.FuncName(caller)
			}
			re, err := regexp.Compile(pat)
			if err != nil {
				return false, "pattern does not compile"
			}
			if int(k) > re.NumSubexp() {
				return false, fmt.Sprintf("parseMonthName is asked for group %d but the date pattern has %d groups", k, re.NumSubexp())
			}
		}
	}
	if n == 0 {
		return false, "parseMonthName has no callers"
	}
	return true, ""
}

// monthAbbreviation: date.Month.String()[:3] - the sliced value is the result of
// time.Month.String (at least three bytes for every value) and at most three bytes are taken.
func monthAbbreviation(p *load.Prog) (bool, string) {
	fn := p.Method(load.PkgRoot, "Date", "String")
	if fn == nil {
		return false, "Date.String not found"
	}
	n := 0
	for _, b := range fn.Blocks {
		for _, ins := range b.Instrs {
			sl, ok := ins.(*ssa.Slice)
			if !ok {
				continue
			}
			if bt, isB := sl.X.Type().Underlying().(*types.Basic); !isB || bt.Info()&types.IsString == 0 {
				continue // the backing array of a variadic call
			}
			n++
			c, ok := sl.X.(*ssa.Call)
			cal := (*ssa.Function)(nil)
			if ok {
				cal = c.Call.StaticCallee()
			}
			if cal == nil || cal.Pkg == nil || cal.Pkg.Pkg.Path() != "time" || cal.Name() != "String" || cal.Signature.Recv() == nil || !strings.HasSuffix(cal.Signature.Recv().Type().String(), "time.Month") {
				return false, "the abbreviated value is not the result of time.Month.String()"
			}
			hi, isK := int64(0), false
			if sl.High != nil {
				hi, isK = su.ConstInt(sl.High)
			}
			lo := int64(0)
			if sl.Low != nil {
				l, ok := su.ConstInt(sl.Low)
				if !ok {
					return false, "computed lower bound"
				}
				lo = l
			}
			if !isK || hi > 3 || lo > hi {
				return false, fmt.Sprintf("the month name is cut at [%d:%d]: the shortest names time.Month.String can return (\"May\") have three bytes", lo, hi)
			}
		}
	}
	if n == 0 {
		return false, "no slice in Date.String"
	}
	return true, ""
}

// goSyntaxPrefix: s[25:len(s)-1] of fmt.Sprintf("%#v", options): the Go-syntax form of a struct value
// starts with "<package>.<Type>{" and ends with "}"; the lower bound must not exceed that prefix.
func goSyntaxPrefix(p *load.Prog) (bool, string) {
	fn := p.Method(load.PkgRoot, "SimilarityOptions", "String")
	if fn == nil {
		return false, "SimilarityOptions.String not found"
	}
	n := 0
	for _, b := range fn.Blocks {
		for _, ins := range b.Instrs {
			sl, ok := ins.(*ssa.Slice)
			if !ok {
				continue
			}
			if bt, isB := sl.X.Type().Underlying().(*types.Basic); !isB || bt.Info()&types.IsString == 0 {
				continue // the backing array of a variadic call
			}
			n++
			c, ok := sl.X.(*ssa.Call)
			if !ok || !su.CalleeIs(&c.Call, "fmt", "Sprintf") {
				return false, "the sliced value is not the result of fmt.Sprintf"
			}
			if f, isK := su.ConstString(c.Call.Args[0]); !isK || f != "%#v" {
				return false, "the format is not %#v"
			}
			elems, ok := variadicElems(c.Call.Args[1])
			if !ok || len(elems) != 1 {
				return false, "cannot read the argument of Sprintf"
			}
			mi, ok := elems[0].(*ssa.MakeInterface)
			if !ok {
				return false, "cannot read the argument of Sprintf"
			}
			named := load.NamedOf(mi.X.Type())
			if named == nil {
				return false, "the printed value is not of a named struct type"
			}
			if _, isStruct := named.Underlying().(*types.Struct); !isStruct {
				return false, "the printed value is not a struct"
			}
			if _, isPtr := mi.X.Type().(*types.Pointer); isPtr {
				return false, "the printed value is a pointer (its Go-syntax form starts with &)"
			}
			prefix := named.Obj().Pkg().Name() + "." + named.Obj().Name() + "{"
			lo, isK := int64(0), true
			if sl.Low != nil {
				lo, isK = su.ConstInt(sl.Low)
			}
			if !isK || lo > int64(len(prefix))+1 {
				return false, fmt.Sprintf("the slice starts at %d but the Go-syntax form of an empty %s is only %d bytes long", lo, prefix+"}", len(prefix)+1)
			}
			// upper bound len(s)-1 of the same string
			bo, ok := sl.High.(*ssa.BinOp)
			if !ok || bo.Op != token.SUB {
				return false, "the slice does not end at len(s)-1"
			}
			if of, ok := lenArg(bo.X); !ok || of != sl.X {
				return false, "the slice does not end at len(s)-1 of the same string"
			}
			if k, isK := su.ConstInt(bo.Y); !isK || k != 1 {
				return false, "the slice does not end at len(s)-1"
			}
			// low <= high needs len(s)-1 >= lo: the form has at least len(prefix)+1 bytes
			if lo > int64(len(prefix)) {
				return false, fmt.Sprintf("the slice starts at %d, after the %d-byte prefix %q: for a struct without fields the bounds cross", lo, len(prefix), prefix)
			}
		}
	}
	if n == 0 {
		return false, "no slice in SimilarityOptions.String"
	}
	return true, ""
}

// recoverObligations: every recovering frame reachable from the entries hands
// the recovered panic to its caller as an error (rule <prefix>.v).
func recoverObligations(p *load.Prog, r *oblig.Run, prefix string, entries []*ssa.Function, floor int) {
	rule := prefix + ".v"
	r.Rule(rule, "a frame that recovers from a panic reports it: the recovering closure assigns the function's named error result, which is what the function returns after the recovery", floor)
	for _, fn := range reachSet(p, entries) {
		if fn.Synthetic != "" || len(fn.Blocks) == 0 {
			continue
		}
		d := e1.Recovers(fn)
		if d == nil {
			continue
		}
		// a function without an error result that recovers swallows on purpose (a probe that answers nil, a notification
		// that may find its channel closed); the rule is about functions whose contract is "a value or an error"
		hasErr := false
		for i := 0; i < fn.Signature.Results().Len(); i++ {
			if types.Identical(fn.Signature.Results().At(i).Type(), types.Universe.Lookup("error").Type()) {
				hasErr = true
			}
		}
		if !hasErr {
			continue
		}
		o := r.Add(rule, "recover in "+load.FuncName(fn), p.Pos(d.Pos()), "what "+load.FuncName(fn)+" returns after a recovered panic")
		if ok, why := e1.RecoverReports(fn, d); ok {
			o.OK("the closure assigns the named error result")
		} else {
			o.Fail(load.FuncName(fn) + " recovers from panics but does not report them: " + why + " - the caller continues with a nil/zero result as if nothing had happened")
		}
	}
}
