package props

import (
	"fmt"
	"go/constant"
	"regexp/syntax"
	"sort"
	"strings"

	"gedverif/internal/absint"
	"gedverif/internal/cg"
	"gedverif/internal/e2"
	"gedverif/internal/load"
	"gedverif/internal/oblig"
	"gedverif/internal/su"

	"golang.org/x/tools/go/ssa"
)

var fileTextCells = map[string]string{
	"gedcom.SimpleNode.value":         "node value",
	"gedcom.SimpleNode.pointer":       "node pointer",
	"gedcom.SimpleNode.tag":           "node tag",
	"gedcom.Tag.tag":                  "tag text",
	"gedcom.Tag.name":                 "tag name",
	"gedcom.DateRange.originalString": "date text",
}

// safeReplace: (*regexp.Regexp).ReplaceAllString on a package-level regexp
// whose constant pattern is a negated character class over an alphabet without
// the forbidden characters, with a constant replacement inside that alphabet.
func safeReplace(site ssa.CallInstruction, callee *ssa.Function, forbidden string) bool {
	if callee == nil || callee.Pkg == nil || callee.Pkg.Pkg.Path() != "regexp" || callee.Name() != "ReplaceAllString" {
		return false
	}
	cc := site.Common()
	g := su.GlobalLoaded(cc.Args[0])
	if g == nil {
		return false
	}
	pat, err := absint.FoldGlobalRegexp(g)
	if err != nil {
		return false
	}
	repl, ok := su.ConstString(cc.Args[2])
	if !ok || strings.ContainsAny(repl, forbidden) {
		return false
	}
	re, err := syntax.Parse(pat, syntax.Perl)
	if err != nil {
		return false
	}
	// the pattern must match every forbidden character as a single-character class (so all of them are replaced)
	for re.Op == syntax.OpCapture {
		re = re.Sub[0]
	}
	if re.Op == syntax.OpPlus || re.Op == syntax.OpStar {
		re = re.Sub[0]
	}
	if re.Op != syntax.OpCharClass {
		return false
	}
	in := func(c rune) bool {
		for i := 0; i+1 < len(re.Rune); i += 2 {
			if c >= re.Rune[i] && c <= re.Rune[i+1] {
				return true
			}
		}
		return false
	}
	for _, c := range forbidden {
		if !in(c) {
			return false
		}
	}
	return true
}

func isPkgFunc(f *ssa.Function, pkg string, names ...string) bool {
	if f == nil || f.Pkg == nil || f.Pkg.Pkg.Path() != pkg {
		return false
	}
	for _, n := range names {
		if f.Name() == n {
			return true
		}
	}
	return false
}

// htmlSinkScope: functions reachable from every WriteHTMLTo method of the
// repository, q.HTMLFormatter.Write and gedcom.Warnings.WriteHTMLTo.
func htmlSinkScope(p *load.Prog, g *cg.Graph) (map[*ssa.Function]bool, int) {
	var roots []cg.Target
	for _, fn := range p.Repo {
		if fn.Name() == "WriteHTMLTo" && fn.Signature.Recv() != nil {
			roots = append(roots, cg.Target{Fn: fn})
		}
	}
	if f := p.Method(load.PkgQ, "HTMLFormatter", "Write"); f != nil {
		roots = append(roots, cg.Target{Fn: f})
	}
	r := g.ReachFrom(roots, cg.Options{})
	// functions of the root package write into their own buffers (Encoder -> bytes.Buffer), whose content then flows on
	// as a value; only its WriteHTMLTo methods write to the page
	out := map[*ssa.Function]bool{}
	for f := range r.Funcs {
		pkg := ""
		if f.Pkg != nil {
			pkg = f.Pkg.Pkg.Path()
		} else if f.Parent() != nil && f.Parent().Pkg != nil {
			pkg = f.Parent().Pkg.Pkg.Path()
		}
		if pkg == load.PkgRoot && f.Name() != "WriteHTMLTo" {
			continue
		}
		out[f] = true
	}
	return out, len(roots)
}

// escapeHTMLDisabled: some json.Encoder in the repository has HTML escaping
// switched off.
func escapeHTMLDisabled(p *load.Prog) string {
	for _, fn := range p.Repo {
		for _, c := range su.Calls(fn) {
			cal := c.Common().StaticCallee()
			if cal != nil && cal.Pkg != nil && cal.Pkg.Pkg.Path() == "encoding/json" && cal.Name() == "SetEscapeHTML" {
				if k, ok := c.Common().Args[1].(*ssa.Const); ok && k.Value != nil && k.Value.Kind() == constant.Bool && !constant.BoolVal(k.Value) {
					return p.Pos(c.Pos())
				}
				if _, isConst := c.Common().Args[1].(*ssa.Const); !isConst {
					return p.Pos(c.Pos())
				}
			}
		}
	}
	return ""
}

// C18: file content can never change the structure of a published page.
func C18(p *load.Prog, r *oblig.Run) {
	r.Explanation = "Taint analysis (E2). Sources: loads of the node fields that hold file text (value, pointer, tag; Tag.tag/name; DateRange.originalString) anywhere in the repository. Sinks: every io.Writer.Write / io.WriteString / fmt.Fprint* " +
		"in a function reachable from any WriteHTMLTo method, from q.HTMLFormatter.Write or from Warnings.WriteHTMLTo. Sanitizers, recognised by resolved callee: html.EscapeString, encoding/json Marshal/MarshalIndent/Encoder.Encode (unless SetEscapeHTML(false) occurs anywhere), " +
		"numeric formatting (non-text types carry nothing), and ReplaceAllString with a constant negated-class pattern that removes < > & \" '. Function summaries (what results, written cells and reached sinks depend on) are instantiated per call site; heap cells are field-based. " +
		"An obligation is every place where a value whose dependencies are fully known (no open parameter) enters a raw path: a sink call, or a store/constructor call that fills a component field from which a sink is reached without a sanitizer. It is violated when those dependencies include file text."
	r.NotDecided = "that the constant HTML skeleton itself is well nested (only R18.n's constant-pair scan), JavaScript/CSS contexts inside attributes, implicit flows."
	r.Assumptions = []string{"no unsafe and no reflection-based copying of strings between nodes and components", "library calls: every text result depends on every text argument; methods named Write*/Set*/Store/Add mutate their pointer receiver",
		"field-based heap: all instances of a component type share one cell per field", "text-carrying types: string, byte, rune, containers and by-value structs of them, interfaces, pointers to library structs; pointers to repository structs carry nothing (their fields are cells)"}
	r.Rule("R18.a", "no file text reaches an HTML sink without passing an escaping function", 60)
	r.Rule("R18.j", "JSON written into HTML keeps encoding/json's HTML escaping", 1)
	g := cg.New(p, false)
	scope, nroots := htmlSinkScope(p, g)
	r.Extra["sink_scope_functions"] = len(scope)
	r.Extra["sink_scope_roots"] = nroots
	noEscape := escapeHTMLDisabled(p)
	cfg := e2.Config{
		SourceCell: func(cell string) (string, bool) {
			l, ok := fileTextCells[cell]
			return l + " (" + cell + ")", ok
		},
		Sanitizer: func(site ssa.CallInstruction, callee *ssa.Function) bool {
			switch {
			case isPkgFunc(callee, "html", "EscapeString"):
				return true
			case isPkgFunc(callee, "encoding/json", "Marshal", "MarshalIndent", "Encode"):
				return noEscape == ""
			case isPkgFunc(callee, "net/url", "QueryEscape", "PathEscape"):
				return true
			case isPkgFunc(callee, "strconv", "Itoa", "FormatInt", "FormatFloat", "Quote"):
				return callee.Name() != "Quote"
			}
			return safeReplace(site, callee, "<>&\"'")
		},
		SinkArg: func(site ssa.CallInstruction, callee *ssa.Function, inScope bool) []int {
			if !inScope {
				return nil
			}
			cc := site.Common()
			if cc.IsInvoke() {
				return nil
			}
			switch {
			case isPkgFunc(callee, "io", "WriteString"):
				return []int{1}
			case isPkgFunc(callee, "fmt", "Fprintf", "Fprint", "Fprintln"):
				var idx []int
				for i := 1; i < len(cc.Args); i++ {
					idx = append(idx, i)
				}
				return idx
			}
			return nil
		},
		SinkScope: scope,
	}
	// io.Writer.Write is an interface method: model it through SinkArg on invoke
	base := cfg.SinkArg
	cfg.SinkArg = func(site ssa.CallInstruction, callee *ssa.Function, inScope bool) []int {
		return base(site, callee, inScope)
	}
	a := e2.NewWithInvokeSink(p, g, cfg, func(site ssa.CallInstruction, inScope bool) []int {
		cc := site.Common()
		if inScope && cc.IsInvoke() && cc.Method.Name() == "Write" && len(cc.Args) == 1 {
			return []int{0}
		}
		return nil
	})
	r.Extra["tainted_cells"] = len(a.Taint)
	r.Extra["raw_cells"] = len(a.Raw)
	var raw []string
	for c := range a.Raw {
		if !strings.HasPrefix(c, "local:") && !strings.HasPrefix(c, "fv:") && !strings.HasPrefix(c, "cbparam:") {
			raw = append(raw, c)
		}
	}
	sort.Strings(raw)
	r.Extra["raw_reaching_component_fields"] = raw
	// obligations: closed sinks and closed writes into raw cells
	var effs []*e2.Effect
	for _, e := range a.Closed {
		if e.Kind == "sink" || (e.Kind == "write" && a.Raw[e.Cell] && !e2.Transparent(e.Cell)) {
			effs = append(effs, e)
		}
	}
	sort.Slice(effs, func(i, j int) bool { return effKey(p, effs[i]) < effKey(p, effs[j]) })
	for _, e := range effs {
		site, where := frontier(e)
		key := effKey(p, e)
		what := fmt.Sprintf("text entering a raw HTML path at %s", where)
		o := r.Add("R18.a", key, p.Pos(site.Pos()), what)
		tainted := a.TaintedDeps(e.Deps)
		// primary reports only: the value itself stems from a marked origin (or from a variable cell that does); a
		// dependency on a tainted component field is the consequence of the store that tainted it, which is reported there
		primary := a.Primary(e.Deps)
		if len(tainted) == 0 {
			o.OK("no file text among its dependencies")
			continue
		}
		if !primary {
			o.OK("depends on file text only through component fields whose tainting stores are reported as their own obligations: " + strings.Join(tainted, "; "))
			continue
		}
		wit := []string{"file text reaching it: " + strings.Join(tainted, "; ")}
		if e.Kind == "write" {
			wit = append(wit, "raw path: the value is stored into "+e.Cell+" at "+p.Pos(e.Instr.Pos())+" ("+load.FuncName(e.Fn)+"), which is written to the page without escaping")
		} else {
			wit = append(wit, "raw path: it is "+e.Arg+" at "+p.Pos(e.Instr.Pos())+" in "+load.FuncName(e.Fn))
		}
		for i := len(e.Via) - 1; i >= 0; i-- {
			wit = append(wit, "  via call at "+p.Pos(e.Via[i].Pos())+" in "+load.FuncName(e.Via[i].Parent()))
		}
		o.Fail("text taken from the GEDCOM file is written into the page without HTML escaping ("+where+")", wit...)
	}
	o := r.Add("R18.j", "json html escaping", "-", "encoding/json HTML escaping is left on")
	if noEscape == "" {
		o.OK("no SetEscapeHTML(false) in the repository")
	} else {
		o.Pos = noEscape
		o.Fail("HTML escaping of encoding/json is switched off at " + noEscape + ": JSON output that is embedded into an HTML page (HTMLFormatter's <pre> fallback) can then contain raw < > &")
	}
}

// frontier returns the outermost site of an effect and a description.
func frontier(e *e2.Effect) (ssa.Instruction, string) {
	if len(e.Via) > 0 {
		site := e.Via[len(e.Via)-1]
		name := "a function value"
		if cal := site.Common().StaticCallee(); cal != nil {
			name = load.FuncName(cal)
		} else if site.Common().IsInvoke() {
			name = site.Common().Method.Name()
		}
		return site, "the call of " + name + " in " + load.FuncName(site.Parent())
	}
	if e.Kind == "write" {
		return e.Instr, "the store into " + e.Cell + " in " + load.FuncName(e.Fn)
	}
	return e.Instr, e.Arg + " in " + load.FuncName(e.Fn)
}

func effKey(p *load.Prog, e *e2.Effect) string {
	site, _ := frontier(e)
	callee := ""
	if ci, ok := site.(ssa.CallInstruction); ok {
		if cal := ci.Common().StaticCallee(); cal != nil {
			callee = " " + load.FuncName(cal)
		} else if ci.Common().IsInvoke() {
			callee = " ." + ci.Common().Method.Name()
		}
	}
	target := e.Cell
	if e.Kind == "sink" {
		target = "sink " + load.FuncName(e.Fn)
	}
	return fmt.Sprintf("%s%s in %s -> %s", e.Kind, callee, load.FuncName(site.Parent()), target)
}
