package props

import (
	"fmt"
	"go/constant"
	"go/token"
	"go/types"
	"os"
	"sort"
	"strings"

	"gedverif/internal/cg"
	"gedverif/internal/e2"
	"gedverif/internal/load"
	"gedverif/internal/oblig"
	"gedverif/internal/su"

	"golang.org/x/tools/go/ssa"
)

// e3 is the living-guard analysis (DESIGN.md 3, E3).
type e3 struct {
	p         *load.Prog
	scope     map[*ssa.Function]bool // functions reachable from Publisher.Publish / Files
	isLiving  *ssa.Function
	visType   types.Type
	visConst  map[string]string // constant value (exact string) -> "show" | "hide" | "placeholder"
	callers   map[*ssa.Function][]ssa.CallInstruction
	stores    map[string][]*ssa.Store // field key -> stores
	preFalse  map[string]bool         // falsified preconditions ("P:<fn>#i" / "F:<field>")
	preUsed   map[string]bool
	guardMemo map[string]bool
	capped    []string
	// mode "name": names/identifiers must be protected in hide and placeholder mode;
	// mode "data": other personal text (dates, places, notes) must be protected in hide mode only
	mode    string
	ownerOf *ssa.Function // html.individualForNode
	// edgeSucc: when set, a guard asked for at the terminator of a block is asked for on the edge to this successor
	// (the outcome of the block's own branch test counts) - used for values flowing into a phi
	edgeSucc *ssa.BasicBlock
	visMemo  map[string]pathFacts
}

func nodeType(t types.Type) (named *types.Named, ok bool) {
	n := load.NamedOf(t)
	if n == nil || n.Obj().Pkg() == nil || n.Obj().Pkg().Path() != load.PkgRoot {
		return nil, false
	}
	name := n.Obj().Name()
	if name == "Node" || strings.HasSuffix(name, "Node") {
		return n, true
	}
	return nil, false
}

func isIndividual(t types.Type) bool {
	n, ok := nodeType(t)
	if !ok || n.Obj().Name() != "IndividualNode" {
		return false
	}
	_, isPtr := t.Underlying().(*types.Pointer)
	return isPtr
}

// indKey: canonical access path of a value (for recognising that a guard and
// a use talk about the same individual).
func indKey(v ssa.Value) string {
	for i := 0; i < 8; i++ {
		switch x := v.(type) {
		case *ssa.ChangeInterface:
			v = x.X
			continue
		case *ssa.MakeInterface:
			v = x.X
			continue
		case *ssa.ChangeType:
			v = x.X
			continue
		case *ssa.UnOp:
			if x.Op == token.MUL {
				switch ad := x.X.(type) {
				case *ssa.FieldAddr:
					return indKey(ad.X) + "." + su.FieldName(ad)
				case *ssa.Alloc:
					// a local variable cell assigned once
					n := 0
					for _, ref := range *ad.Referrers() {
						if st, ok := ref.(*ssa.Store); ok && st.Addr == ssa.Value(ad) {
							n++
						}
					}
					if n <= 1 {
						return fmt.Sprintf("cell:%p", ad)
					}
				case *ssa.FreeVar:
					return fmt.Sprintf("fv:%p", ad)
				}
			}
		}
		break
	}
	return fmt.Sprintf("v:%p", v)
}

type pathFacts struct {
	notLiving, eqShow, eqPlaceholder, neHide, nePlaceholder bool
	data                                                    bool
	byHelper                                                bool // a boolean helper's answer implies the guard
}

func (f pathFacts) guarded() bool {
	if f.byHelper {
		return true
	}
	if f.data {
		return f.notLiving || f.eqShow || f.eqPlaceholder || f.neHide
	}
	return f.notLiving || f.eqShow || (f.neHide && f.nePlaceholder)
}

// condFacts applies the facts of taking the edge (outcome) of cond.
func (e *e3) condFacts(cond ssa.Value, outcome bool, key string, f *pathFacts) {
	switch c := cond.(type) {
	case *ssa.UnOp:
		if c.Op == token.NOT {
			e.condFacts(c.X, !outcome, key, f)
		}
	case *ssa.Call:
		if c.Call.StaticCallee() == e.isLiving && len(c.Call.Args) == 1 && indKey(c.Call.Args[0]) == key {
			if !outcome {
				f.notLiving = true
			}
			return
		}
		// a boolean helper of the publisher that was handed this individual (the guard extracted into a predicate)
		if cal := c.Call.StaticCallee(); cal != nil && len(cal.Blocks) > 0 && strings.HasPrefix(pkgPathOf(cal), load.PkgHTML) && cal.Signature.Results().Len() == 1 {
			if b, isB := cal.Signature.Results().At(0).Type().Underlying().(*types.Basic); isB && b.Kind() == types.Bool {
				matched := false
				for i, a := range c.Call.Args {
					if indKey(su.Strip(a)) == key && i < len(cal.Params) {
						matched = true
						if e.predicateImplies(cal, i, outcome) {
							f.byHelper = true
						}
					}
				}
				// a helper that does not get the individual (hidesLiving()): what its answer says about the mode
				if !matched {
					vf := e.predicateVisibility(cal, outcome)
					f.eqShow = f.eqShow || vf.eqShow
					f.eqPlaceholder = f.eqPlaceholder || vf.eqPlaceholder
					f.neHide = f.neHide || vf.neHide
					f.nePlaceholder = f.nePlaceholder || vf.nePlaceholder
				}
			}
		}
	case *ssa.BinOp:
		if c.Op != token.EQL && c.Op != token.NEQ {
			return
		}
		eq := (c.Op == token.EQL) == outcome
		// nil test of the individual
		if k, isK := c.Y.(*ssa.Const); isK && k.Value == nil && indKey(c.X) == key {
			if eq {
				f.notLiving = true // a nil individual has no data
			}
			return
		}
		// visibility comparison
		var kv ssa.Value
		var other ssa.Value
		if _, isK := c.Y.(*ssa.Const); isK {
			kv, other = c.Y, c.X
		} else if _, isK := c.X.(*ssa.Const); isK {
			kv, other = c.X, c.Y
		}
		if kv == nil || !types.Identical(other.Type(), e.visType) {
			return
		}
		kc := kv.(*ssa.Const)
		if kc.Value == nil {
			return
		}
		switch e.visConst[kc.Value.ExactString()] {
		case "show":
			if eq {
				f.eqShow = true
			}
		case "hide":
			if !eq {
				f.neHide = true
			}
		case "placeholder":
			if !eq {
				f.nePlaceholder = true
			} else {
				f.eqPlaceholder = true
			}
		}
	}
}

func constInt64(c *ssa.Const) (int64, bool) {
	if c.Value == nil {
		return 0, true
	}
	if c.Value.Kind() == constant.Int {
		return constant.Int64Val(c.Value)
	}
	if c.Value.Kind() == constant.String {
		// string-typed enumeration: hash by content through the table lookup (handled by caller)
		return 0, false
	}
	return 0, false
}

// predicateImplies: when the boolean function fn, called with the individual as argument #idx, answers `outcome`,
// the living/visibility guard holds for that individual - decided by enumerating fn's paths to its returns.
func (e *e3) predicateImplies(fn *ssa.Function, idx int, outcome bool) bool {
	mk := fmt.Sprintf("pred|%s|%s|%d|%v", e.mode, fn.String(), idx, outcome)
	if r, ok := e.guardMemo[mk]; ok {
		return r
	}
	e.guardMemo[mk] = false // recursion guard
	key := indKey(fn.Params[idx])
	// a predicate over a NODE (isPlaceOfHiddenIndividual(placeTag)): the person it talks about is the owner the helper
	// looks up for that node with individualForNode; the guard facts inside the helper are about that person
	if !isIndividual(fn.Params[idx].Type()) && e.ownerOf != nil {
		for _, c := range su.Calls(fn) {
			cc := c.Common()
			if cc.StaticCallee() == e.ownerOf && len(cc.Args) == 2 && su.Strip(cc.Args[1]) == ssa.Value(fn.Params[idx]) {
				if val, ok := c.(ssa.Value); ok {
					key = indKey(val)
				}
			}
		}
	}
	pathPred := map[*ssa.BasicBlock]*ssa.BasicBlock{}
	resolve := func(v ssa.Value) ssa.Value {
		for i := 0; i < 10; i++ {
			ph, ok := v.(*ssa.Phi)
			if !ok {
				return v
			}
			pr := pathPred[ph.Block()]
			moved := false
			for j, q := range ph.Block().Preds {
				if q == pr && j < len(ph.Edges) {
					v, moved = ph.Edges[j], true
					break
				}
			}
			if !moved {
				return v
			}
		}
		return v
	}
	ok := true
	count := 0
	var walk func(b *ssa.BasicBlock, f pathFacts, on map[*ssa.BasicBlock]bool)
	walk = func(b *ssa.BasicBlock, f pathFacts, on map[*ssa.BasicBlock]bool) {
		if !ok {
			return
		}
		count++
		if count > 20000 {
			ok = false
			return
		}
		last := b.Instrs[len(b.Instrs)-1]
		if ret, isRet := last.(*ssa.Return); isRet {
			v := resolve(ret.Results[0])
			if k, isK := v.(*ssa.Const); isK && k.Value != nil && k.Value.Kind() == constant.Bool {
				if constant.BoolVal(k.Value) == outcome && !f.guarded() {
					ok = false
				}
				return
			}
			nf := f
			e.condFacts(v, outcome, key, &nf)
			if !nf.guarded() {
				ok = false
			}
			return
		}
		on[b] = true
		defer func() { on[b] = false }()
		if iff, isIf := last.(*ssa.If); isIf {
			cond := iff.Cond
			neg := false
			for {
				if u, isNot := cond.(*ssa.UnOp); isNot && u.Op == token.NOT {
					cond, neg = u.X, !neg
					continue
				}
				break
			}
			cond = resolve(cond)
			for i, s := range b.Succs {
				if on[s] {
					continue
				}
				out := (i == 0) != neg
				if k, isK := cond.(*ssa.Const); isK && k.Value != nil && k.Value.Kind() == constant.Bool && constant.BoolVal(k.Value) != out {
					continue
				}
				nf := f
				e.condFacts(cond, out, key, &nf)
				old := pathPred[s]
				pathPred[s] = b
				walk(s, nf, on)
				pathPred[s] = old
			}
			return
		}
		for _, s := range b.Succs {
			if !on[s] {
				old := pathPred[s]
				pathPred[s] = b
				walk(s, f, on)
				pathPred[s] = old
			}
		}
	}
	walk(fn.Blocks[0], pathFacts{data: e.mode == "data"}, map[*ssa.BasicBlock]bool{})
	e.guardMemo[mk] = ok
	return ok
}

// predicateVisibility: the visibility facts that hold on every path on which the boolean function fn answers
// `outcome` (intersection over the paths); no fact when fn never answers that, or the enumeration is capped.
func (e *e3) predicateVisibility(fn *ssa.Function, outcome bool) pathFacts {
	if e.visMemo == nil {
		e.visMemo = map[string]pathFacts{}
	}
	mk := fmt.Sprintf("%s|%v", fn.String(), outcome)
	if r, ok := e.visMemo[mk]; ok {
		return r
	}
	e.visMemo[mk] = pathFacts{}
	pathPred := map[*ssa.BasicBlock]*ssa.BasicBlock{}
	resolve := func(v ssa.Value) ssa.Value {
		for i := 0; i < 10; i++ {
			ph, ok := v.(*ssa.Phi)
			if !ok {
				return v
			}
			pr := pathPred[ph.Block()]
			moved := false
			for j, q := range ph.Block().Preds {
				if q == pr && j < len(ph.Edges) {
					v, moved = ph.Edges[j], true
					break
				}
			}
			if !moved {
				return v
			}
		}
		return v
	}
	acc := pathFacts{eqShow: true, eqPlaceholder: true, neHide: true, nePlaceholder: true}
	n, count, capped := 0, 0, false
	var walk func(b *ssa.BasicBlock, f pathFacts, on map[*ssa.BasicBlock]bool)
	walk = func(b *ssa.BasicBlock, f pathFacts, on map[*ssa.BasicBlock]bool) {
		count++
		if count > 20000 {
			capped = true
			return
		}
		last := b.Instrs[len(b.Instrs)-1]
		if ret, isRet := last.(*ssa.Return); isRet {
			if len(ret.Results) != 1 {
				return
			}
			v := resolve(ret.Results[0])
			nf := f
			if k, isK := v.(*ssa.Const); isK && k.Value != nil && k.Value.Kind() == constant.Bool {
				if constant.BoolVal(k.Value) != outcome {
					return
				}
			} else {
				e.condFacts(v, outcome, "-no person-", &nf)
			}
			n++
			acc.eqShow = acc.eqShow && nf.eqShow
			acc.eqPlaceholder = acc.eqPlaceholder && nf.eqPlaceholder
			acc.neHide = acc.neHide && nf.neHide
			acc.nePlaceholder = acc.nePlaceholder && nf.nePlaceholder
			return
		}
		on[b] = true
		defer func() { on[b] = false }()
		if iff, isIf := last.(*ssa.If); isIf {
			cond := iff.Cond
			neg := false
			for {
				if u, isNot := cond.(*ssa.UnOp); isNot && u.Op == token.NOT {
					cond, neg = u.X, !neg
					continue
				}
				break
			}
			cond = resolve(cond)
			for i, s := range b.Succs {
				if on[s] {
					continue
				}
				out := (i == 0) != neg
				if k, isK := cond.(*ssa.Const); isK && k.Value != nil && k.Value.Kind() == constant.Bool && constant.BoolVal(k.Value) != out {
					continue
				}
				nf := f
				e.condFacts(cond, out, "-no person-", &nf)
				old := pathPred[s]
				pathPred[s] = b
				walk(s, nf, on)
				pathPred[s] = old
			}
			return
		}
		for _, s := range b.Succs {
			if !on[s] {
				old := pathPred[s]
				pathPred[s] = b
				walk(s, f, on)
				pathPred[s] = old
			}
		}
	}
	walk(fn.Blocks[0], pathFacts{}, map[*ssa.BasicBlock]bool{})
	if n == 0 || capped {
		acc = pathFacts{}
	}
	e.visMemo[mk] = acc
	return acc
}

// guardedAt: on every CFG path from the function entry to ins, the guard
// G(v) = notLiving(v) or mode==show or (mode!=hide and mode!=placeholder) holds.
func (e *e3) guardedAt(v ssa.Value, ins ssa.Instruction) bool {
	return e.guardedKey(indKey(v), ins)
}

func (e *e3) guardedKey(key string, ins ssa.Instruction) bool {
	fn := ins.Parent()
	mk := fmt.Sprintf("%s|%s|%p|%p", e.mode, key, ins.Block(), e.edgeSucc)
	edgeSucc := e.edgeSucc
	if edgeSucc != nil && ins != ins.Block().Instrs[len(ins.Block().Instrs)-1] {
		edgeSucc = nil
	}
	if r, ok := e.guardMemo[mk]; ok {
		return r
	}
	target := ins.Block()
	// the individual's defining block bounds the search: facts before its definition cannot concern it
	count := 0
	ok := true
	pathPred := map[*ssa.BasicBlock]*ssa.BasicBlock{}
	// phiEdge: the value a phi has on the current path
	phiEdge := func(ph *ssa.Phi) ssa.Value {
		pb := ph.Block()
		pr := pathPred[pb]
		for i, q := range pb.Preds {
			if q == pr && i < len(ph.Edges) {
				return ph.Edges[i]
			}
		}
		return nil
	}
	var walk func(b *ssa.BasicBlock, f pathFacts, on map[*ssa.BasicBlock]bool)
	walk = func(b *ssa.BasicBlock, f pathFacts, on map[*ssa.BasicBlock]bool) {
		if !ok {
			return
		}
		if b == target {
			count++
			if count > 20000 {
				ok = false
				e.capped = append(e.capped, load.FuncName(fn))
				return
			}
			if edgeSucc != nil {
				if iff, isIf := b.Instrs[len(b.Instrs)-1].(*ssa.If); isIf && b.Succs[0] != b.Succs[1] {
					cond := iff.Cond
					if ph, isPhi := cond.(*ssa.Phi); isPhi {
						if ev := phiEdge(ph); ev != nil {
							cond = ev
						}
					}
					e.condFacts(cond, b.Succs[0] == edgeSucc, key, &f)
				}
			}
			if !f.guarded() {
				ok = false
			}
			return
		}
		if f.guarded() {
			// already established on this path: every continuation is fine (facts are never retracted)
			if su.ReachableBlocks(b)[target] {
				count++
			}
			return
		}
		on[b] = true
		defer func() { on[b] = false }()
		if iff, isIf := b.Instrs[len(b.Instrs)-1].(*ssa.If); isIf {
			cond := iff.Cond
			neg := false
			for {
				if u, isNot := cond.(*ssa.UnOp); isNot && u.Op == token.NOT {
					cond, neg = u.X, !neg
					continue
				}
				break
			}
			if ph, isPhi := cond.(*ssa.Phi); isPhi && (on[ph.Block()] || ph.Block() == b) {
				// a boolean merged from several tests (a && b): on this path it has the value of the edge taken
				if ev := phiEdge(ph); ev != nil {
					cond = ev
				}
			}
			for i, s := range b.Succs {
				if on[s] {
					continue
				}
				outcome := (i == 0) != neg
				if k, isK := cond.(*ssa.Const); isK && k.Value != nil && k.Value.Kind() == constant.Bool {
					if constant.BoolVal(k.Value) != outcome {
						continue // infeasible on this path
					}
				}
				nf := f
				e.condFacts(cond, outcome, key, &nf)
				old := pathPred[s]
				pathPred[s] = b
				walk(s, nf, on)
				pathPred[s] = old
			}
			return
		}
		for _, s := range b.Succs {
			if !on[s] {
				old := pathPred[s]
				pathPred[s] = b
				walk(s, f, on)
				pathPred[s] = old
			}
		}
	}
	walk(fn.Blocks[0], pathFacts{data: e.mode == "data"}, map[*ssa.BasicBlock]bool{})
	if count == 0 {
		ok = false
	}
	e.guardMemo[mk] = ok
	return ok
}

// safe: the node-typed value v, used at ins, cannot expose a living person in
// hide/placeholder mode. kind explains the verdict.
func (e *e3) safe(v ssa.Value, ins ssa.Instruction, depth int) (bool, string) {
	if depth > 12 {
		return false, "derivation too deep"
	}
	v = su.Strip(v)
	if isIndividual(v.Type()) {
		if e.guardedAt(v, ins) {
			return true, "guarded by the living/visibility test"
		}
		return e.rootSafe(v, ins, depth)
	}
	if e.ownerGuarded(v, ins) {
		return true, "the person owning the node (individualForNode) passed the living/visibility test"
	}
	if _, isNode := nodeType(v.Type()); !isNode {
		// a slice of nodes etc.
		switch x := v.(type) {
		case *ssa.Call:
			return e.callResultSafe(x, ins, depth)
		}
		return e.rootSafe(v, ins, depth)
	}
	return e.rootSafe(v, ins, depth)
}

// ownerGuarded: p := individualForNode(doc, n) was called for this node in the same function and p is guarded at ins.
func (e *e3) ownerGuarded(v ssa.Value, ins ssa.Instruction) bool {
	if e.ownerOf == nil {
		return false
	}
	key := indKey(v)
	for _, c := range su.Calls(ins.Parent()) {
		cc := c.Common()
		if cc.StaticCallee() != e.ownerOf || len(cc.Args) != 2 {
			continue
		}
		if indKey(su.Strip(cc.Args[1])) != key {
			continue
		}
		if val, ok := c.(ssa.Value); ok && e.guardedKey(indKey(val), ins) {
			return true
		}
	}
	// the owner test extracted into a boolean helper that is handed the node itself
	if _, isNode := nodeType(v.Type()); isNode && e.guardedKey(key, ins) {
		return true
	}
	return false
}

// escapePoints: the instructions through which the value of a read leaves the function (arguments of repository
// calls, interface calls, writer calls, returns, stores into non-local memory). A read whose every escape point is
// protected is protected, wherever the read itself happens (read-first, test-later idiom).
func (e *e3) escapePoints(v ssa.Value) []ssa.Instruction {
	seen := map[ssa.Value]bool{}
	var out []ssa.Instruction
	var follow func(v ssa.Value)
	localAlloc := func(a ssa.Value) *ssa.Alloc {
		for i := 0; i < 6; i++ {
			switch x := a.(type) {
			case *ssa.Alloc:
				if !x.Heap {
					return x
				}
				// heap allocs that are only used locally (array backing of variadic calls)
				return x
			case *ssa.IndexAddr:
				a = x.X
			case *ssa.FieldAddr:
				a = x.X
			case *ssa.Slice:
				a = x.X
			default:
				return nil
			}
		}
		return nil
	}
	follow = func(v ssa.Value) {
		if seen[v] {
			return
		}
		seen[v] = true
		refs := v.Referrers()
		if refs == nil {
			return
		}
		for _, ref := range *refs {
			switch x := ref.(type) {
			case *ssa.Phi, *ssa.BinOp, *ssa.Slice, *ssa.Convert, *ssa.ChangeType, *ssa.ChangeInterface, *ssa.MakeInterface, *ssa.Extract, *ssa.Field, *ssa.Index, *ssa.Lookup, *ssa.TypeAssert, *ssa.Range, *ssa.Next, *ssa.IndexAddr, *ssa.FieldAddr:
				if bo, isB := x.(*ssa.BinOp); isB && bo.Op != token.ADD {
					// a comparison produces no text, but its outcome steers what is written: the published
					// bytes then depend on the person's text (implicit flow) - the comparison itself is an
					// escape point and must be protected like a write
					switch bo.Op {
					case token.EQL, token.NEQ, token.LSS, token.LEQ, token.GTR, token.GEQ:
						if bt, isBasic := bo.X.Type().Underlying().(*types.Basic); !isBasic || bt.Info()&types.IsString == 0 {
							break // only comparisons of text; counters are decided by their own rule
						}
						if k, isK := bo.Y.(*ssa.Const); !isK || k.Value != nil {
							if k2, isK2 := bo.X.(*ssa.Const); !isK2 || k2.Value != nil {
								out = append(out, bo)
							}
						}
					}
					continue
				}
				follow(x.(ssa.Value))
			case *ssa.UnOp:
				follow(x)
			case *ssa.Store:
				if x.Val != v {
					continue
				}
				if al := localAlloc(x.Addr); al != nil && !e.allocEscapes(al) {
					follow(al)
					continue
				}
				out = append(out, x)
			case *ssa.MapUpdate:
				if mm, isMake := x.Map.(*ssa.MakeMap); isMake {
					follow(mm)
					continue
				}
				out = append(out, x)
			case *ssa.Return, *ssa.Send, *ssa.MakeClosure, *ssa.Go, *ssa.Defer, *ssa.Panic:
				out = append(out, x)
			case *ssa.Call:
				cal := x.Call.StaticCallee()
				if cal != nil && e.p.IsRepoFunc(cal) && !strings.HasPrefix(pkgPathOf(cal), load.PkgHTML) && cal.Signature.Results().Len() > 0 {
					follow(x) // accessor of the library package: its result carries the text, nothing is published there
					for _, a := range x.Call.Args {
						// ... and so does a container it may have been put into (StringSet.Add)
						if seen[a] {
							continue
						}
						if _, isNode := nodeType(su.Strip(a).Type()); isNode {
							continue
						}
						switch a.Type().Underlying().(type) {
						case *types.Pointer, *types.Map, *types.Slice, *types.Interface:
							if _, isK := a.(*ssa.Const); !isK {
								follow(a)
							}
						}
					}
					continue
				}
				if cal != nil && !e.p.IsRepoFunc(cal) {
					n := cal.Name()
					if strings.HasPrefix(n, "Fprint") || strings.HasPrefix(n, "Write") || cal.Signature.Results().Len() == 0 {
						out = append(out, x)
						continue
					}
					follow(x) // pure library function: its result carries the text
					continue
				}
				if _, isB := x.Call.Value.(*ssa.Builtin); isB {
					follow(x)
					continue
				}
				out = append(out, x)
			}
		}
	}
	follow(v)
	return out
}

// visibilityGuarded: on every path to ins the visibility facts alone (mode == show, mode != hide, ...) make the
// guard hold, whoever the person is.
func (e *e3) visibilityGuarded(ins ssa.Instruction) bool {
	return e.guardedKey("-no person-", ins)
}

// c17Visibility (R17.c): the option parser hands out only the three documented visibilities. The guards of the
// publisher have no default branch: any other value that got through would be treated as "show".
func c17Visibility(p *load.Prog, r *oblig.Run, e *e3) {
	r.Rule("R17.c", "NewLivingVisibility returns only show, hide or placeholder (anything else does not return)", 1)
	fn := p.Func(load.PkgHTML, "NewLivingVisibility")
	o := r.Add("R17.c", "values returned by NewLivingVisibility", "-", "visibility values that can reach the publisher")
	if fn == nil || len(fn.Blocks) == 0 {
		o.Unknown("html.NewLivingVisibility not found")
		return
	}
	o.Pos = p.Pos(fn.Pos())
	paths, capped := simplePaths(fn.Blocks[0], map[*ssa.BasicBlock]bool{}, 2000)
	if capped {
		o.Unknown("too many paths")
		return
	}
	bad, n := "", 0
	for _, path := range paths {
		last := path[len(path)-1]
		ret, ok := last.Instrs[len(last.Instrs)-1].(*ssa.Return)
		if !ok || len(ret.Results) != 1 || !feasible(path) {
			continue
		}
		n++
		v := ret.Results[0]
		if ph, isPhi := v.(*ssa.Phi); isPhi && ph.Block() == last && len(path) >= 2 {
			for i, q := range last.Preds {
				if q == path[len(path)-2] {
					v = ph.Edges[i]
				}
			}
		}
		if k, isK := v.(*ssa.Const); isK && k.Value != nil {
			if _, known := e.visConst[k.Value.ExactString()]; known {
				continue
			}
			bad = "returns the constant " + k.Value.ExactString()
			continue
		}
		// a non-constant value must have been compared equal to one of the constants on this path
		eq := false
		for i, b := range path[:len(path)-1] {
			iff, ok := b.Instrs[len(b.Instrs)-1].(*ssa.If)
			if !ok {
				continue
			}
			bo, ok := iff.Cond.(*ssa.BinOp)
			if !ok || bo.Op != token.EQL || path[i+1] != b.Succs[0] {
				continue
			}
			k, isK := bo.Y.(*ssa.Const)
			if !isK || k.Value == nil {
				continue
			}
			strip := func(x ssa.Value) ssa.Value {
				for {
					switch y := x.(type) {
					case *ssa.ChangeType:
						x = y.X
					case *ssa.Convert:
						x = y.X
					default:
						return x
					}
				}
			}
			if _, known := e.visConst[k.Value.ExactString()]; known && strip(bo.X) == strip(v) {
				eq = true
			}
		}
		if !eq {
			bad = "returns " + v.String() + " on a path on which that very value was not found equal to one of the three constants"
		}
	}
	switch {
	case n == 0:
		o.Unknown("NewLivingVisibility never returns")
	case bad != "":
		o.Fail("NewLivingVisibility " + bad + ": a spelling such as \"Hide\" is accepted and then equals none of the constants the publisher's guards test for, so it behaves like show and living people are published although the user asked to hide them")
	default:
		o.OK(fmt.Sprintf("%d returning path(s), each returns a value just found equal to one of the three constants", n))
	}
}

// flowProtected: every way the value leaves the function is protected. guard(ins) tells whether the person's guard
// holds at ins. Where the value is merged with alternatives (phi) or wrapped into a component by a constructor, it is
// enough that the guard holds on the incoming edge / at the constructor call, OR that everything downstream is
// protected (a row built first and replaced by nil in hide mode before the page is assembled).
func (e *e3) flowProtected(v ssa.Value, guard func(ssa.Instruction) bool) (bool, int) {
	seen := map[ssa.Value]bool{}
	nEsc := 0
	localAlloc := func(a ssa.Value) *ssa.Alloc {
		for i := 0; i < 6; i++ {
			switch x := a.(type) {
			case *ssa.Alloc:
				return x
			case *ssa.IndexAddr:
				a = x.X
			case *ssa.FieldAddr:
				a = x.X
			case *ssa.Slice:
				a = x.X
			default:
				return nil
			}
		}
		return nil
	}
	var follow func(v ssa.Value) bool
	follow = func(v ssa.Value) bool {
		if seen[v] {
			return true
		}
		seen[v] = true
		refs := v.Referrers()
		if refs == nil {
			return true
		}
		ok := true
		esc := func(ins ssa.Instruction) {
			nEsc++
			if !guard(ins) {
				ok = false
			}
		}
		for _, ref := range *refs {
			switch x := ref.(type) {
			case *ssa.Phi:
				// the edge this value comes in on
				edgeOK := true
				for i, ed := range x.Edges {
					if ed != v || i >= len(x.Block().Preds) {
						continue
					}
					pr := x.Block().Preds[i]
					e.edgeSucc = x.Block()
					g := guard(pr.Instrs[len(pr.Instrs)-1])
					e.edgeSucc = nil
					if !g {
						edgeOK = false
					}
				}
				nEsc++
				if edgeOK {
					continue
				}
				nEsc--
				if !follow(x) {
					ok = false
				}
			case *ssa.BinOp, *ssa.Slice, *ssa.Convert, *ssa.ChangeType, *ssa.ChangeInterface, *ssa.MakeInterface, *ssa.Extract, *ssa.Field, *ssa.Index, *ssa.Lookup, *ssa.TypeAssert, *ssa.Range, *ssa.Next, *ssa.IndexAddr, *ssa.FieldAddr:
				if bo, isB := x.(*ssa.BinOp); isB && bo.Op != token.ADD {
					// a comparison produces no text, but its outcome steers what is written: the published
					// bytes then depend on the person's text (implicit flow) - the comparison itself is an
					// escape point and must be protected like a write
					switch bo.Op {
					case token.EQL, token.NEQ, token.LSS, token.LEQ, token.GTR, token.GEQ:
						if bt, isBasic := bo.X.Type().Underlying().(*types.Basic); !isBasic || bt.Info()&types.IsString == 0 {
							break // only comparisons of text; counters are decided by their own rule
						}
						if k, isK := bo.Y.(*ssa.Const); !isK || k.Value != nil {
							if k2, isK2 := bo.X.(*ssa.Const); !isK2 || k2.Value != nil {
								esc(bo)
							}
						}
					}
					continue
				}
				if !follow(x.(ssa.Value)) {
					ok = false
				}
			case *ssa.UnOp:
				if !follow(x) {
					ok = false
				}
			case *ssa.Store:
				if x.Val != v {
					continue
				}
				if al := localAlloc(x.Addr); al != nil && !e.allocEscapes(al) {
					if !follow(al) {
						ok = false
					}
					continue
				}
				esc(x)
			case *ssa.MapUpdate:
				if mm, isMake := x.Map.(*ssa.MakeMap); isMake {
					if !follow(mm) {
						ok = false
					}
					continue
				}
				esc(x)
			case *ssa.Return, *ssa.Send, *ssa.MakeClosure, *ssa.Go, *ssa.Defer, *ssa.Panic:
				esc(x)
			case *ssa.Call:
				cal := x.Call.StaticCallee()
				if cal != nil && e.p.IsRepoFunc(cal) && !strings.HasPrefix(pkgPathOf(cal), load.PkgHTML) && cal.Signature.Results().Len() > 0 {
					if !follow(x) {
						ok = false
					}
					for _, a := range x.Call.Args {
						if seen[a] {
							continue
						}
						if _, isNode := nodeType(su.Strip(a).Type()); isNode {
							continue
						}
						switch a.Type().Underlying().(type) {
						case *types.Pointer, *types.Map, *types.Slice, *types.Interface:
							if _, isK := a.(*ssa.Const); !isK {
								if !follow(a) {
									ok = false
								}
							}
						}
					}
					continue
				}
				if cal != nil && !e.p.IsRepoFunc(cal) {
					n := cal.Name()
					if strings.HasPrefix(n, "Fprint") || strings.HasPrefix(n, "Write") || cal.Signature.Results().Len() == 0 {
						esc(x)
						continue
					}
					if !follow(x) {
						ok = false
					}
					continue
				}
				if _, isB := x.Call.Value.(*ssa.Builtin); isB {
					if !follow(x) {
						ok = false
					}
					continue
				}
				// a component constructor of package html / html/core wraps the text: protected here, or downstream
				if cal != nil && cal.Signature.Results().Len() == 1 && strings.HasPrefix(pkgPathOf(cal), load.PkgHTML) {
					if _, isPtr := cal.Signature.Results().At(0).Type().Underlying().(*types.Pointer); isPtr {
						nEsc++
						if guard(x) {
							continue
						}
						nEsc--
						if !follow(x) {
							ok = false
						}
						continue
					}
				}
				esc(x)
			}
		}
		return ok
	}
	res := follow(v)
	return res, nEsc
}

// sameFn: the place where the test must hold is the use (ins) when the intermediate step is in the same function
// (facts about a person are path facts; the test may come after the value was derived or stored).
func sameFn(ins, step ssa.Instruction) ssa.Instruction {
	if ins != nil && ins.Parent() == step.Parent() {
		return ins
	}
	return step
}

func pkgPathOf(f *ssa.Function) string {
	if f.Pkg != nil {
		return f.Pkg.Pkg.Path()
	}
	if f.Signature.Recv() != nil {
		if n := load.NamedOf(f.Signature.Recv().Type()); n != nil && n.Obj().Pkg() != nil {
			return n.Obj().Pkg().Path()
		}
	}
	if f.Parent() != nil {
		return pkgPathOf(f.Parent())
	}
	return ""
}

// allocEscapes: the local cell is passed somewhere other than loads, stores, indexing and slicing.
func (e *e3) allocEscapes(al *ssa.Alloc) bool {
	var esc func(v ssa.Value, d int) bool
	esc = func(v ssa.Value, d int) bool {
		if d > 4 || v.Referrers() == nil {
			return true
		}
		for _, ref := range *v.Referrers() {
			switch x := ref.(type) {
			case *ssa.Store:
				if x.Val == v {
					return true
				}
			case *ssa.UnOp:
			case *ssa.IndexAddr:
				if esc(x, d+1) {
					return true
				}
			case *ssa.FieldAddr:
				if esc(x, d+1) {
					return true
				}
			case *ssa.Slice:
				// the slice of a local array is followed as a value by escapePoints
			default:
				return true
			}
		}
		return false
	}
	return esc(al, 0)
}

func (e *e3) callResultSafe(c *ssa.Call, ins ssa.Instruction, depth int) (bool, string) {
	cal := c.Call.StaticCallee()
	name := ""
	if cal != nil {
		name = cal.Name()
		if cal.Signature.Recv() != nil {
			if n := load.NamedOf(cal.Signature.Recv().Type()); n != nil {
				name = n.Obj().Name() + "." + name
			}
		}
	} else if c.Call.IsInvoke() {
		name = c.Call.Method.Name()
	}
	// bulk accessors that reach people's nodes without going through the person
	switch name {
	case "Document.Places", "Document.Nodes":
		return false, "bulk accessor " + name + "() reaches every person's nodes without a living test"
	case "Document.Individuals":
		return false, "element of Document.Individuals() (every person, living or not)"
	case "Document.Families", "Document.Sources", "Document.NodeByPointer":
		if name == "Document.NodeByPointer" {
			return false, "record looked up by pointer"
		}
		return true, "not a person's record"
	}
	// derived from the receiver / node arguments: safe iff those are
	var operands []ssa.Value
	if c.Call.IsInvoke() {
		operands = append(operands, c.Call.Value)
	}
	operands = append(operands, c.Call.Args...)
	sawNode := false
	for _, a := range operands {
		a = su.Strip(a)
		_, isNode := nodeType(a.Type())
		if !isNode && !isNodeSlice(a.Type()) {
			continue
		}
		sawNode = true
		// results that are OTHER people need their own guard: an individual-typed result of a call is a new root
		at := ssa.Instruction(c)
		if ins != nil && ins.Parent() == c.Parent() {
			at = ins // the test may come after the derivation (read first, test later)
		}
		if ok, why := e.safe(a, at, depth+1); !ok {
			return false, why
		}
	}
	if isIndividual(c.Type()) || isIndividualSlice(c.Type()) {
		return false, "another person obtained from " + name + "() (needs its own living test)"
	}
	if !sawNode {
		// e.g. map lookups of html-level structures are handled by rootSafe of their elements
		return true, "not derived from a node"
	}
	return true, "derived from guarded nodes"
}

func isNodeSlice(t types.Type) bool {
	switch u := t.Underlying().(type) {
	case *types.Slice:
		_, ok := nodeType(u.Elem())
		return ok
	case *types.Map:
		_, ok1 := nodeType(u.Key())
		_, ok2 := nodeType(u.Elem())
		return ok1 || ok2
	}
	return false
}

func isIndividualSlice(t types.Type) bool {
	switch u := t.Underlying().(type) {
	case *types.Slice:
		return isIndividual(u.Elem())
	case *types.Map:
		return isIndividual(u.Elem()) || isIndividual(u.Key())
	}
	return false
}

// rootSafe decides by where the value comes from.
func (e *e3) rootSafe(v ssa.Value, ins ssa.Instruction, depth int) (bool, string) {
	switch x := v.(type) {
	case *ssa.Parameter:
		fn := x.Parent()
		for i, q := range fn.Params {
			if q == x {
				k := fmt.Sprintf("P:%s#%d", fn.String(), i)
				e.preUsed[k] = true
				if e.preFalse[k] {
					return false, "parameter " + x.Name() + " of " + load.FuncName(fn) + " receives unguarded people from a caller"
				}
				return true, "every caller passes a guarded value"
			}
		}
	case *ssa.FreeVar:
		// captured variable: resolve through the binding in the parent
		fn := x.Parent()
		par := fn.Parent()
		if par != nil {
			for _, b := range par.Blocks {
				for _, i2 := range b.Instrs {
					if mc, ok := i2.(*ssa.MakeClosure); ok && mc.Fn == fn {
						for j, fv := range fn.FreeVars {
							if fv == x {
								return e.safe(mc.Bindings[j], mc, depth+1)
							}
						}
					}
				}
			}
		}
	case *ssa.UnOp:
		if x.Op == token.MUL {
			switch ad := x.X.(type) {
			case *ssa.FieldAddr:
				// an embedded part of a node (promoted methods) belongs to the same record
				if o := su.FieldOwner(ad); o != nil {
					if _, isNode := nodeType(o); isNode {
						return e.safe(ad.X, ins, depth+1)
					}
				}
				// receiver-field path: every caller of this method has the guard for recv.field
				k := "F:" + fieldKeyOf(ad)
				e.preUsed[k] = true
				if par, isPar := ad.X.(*ssa.Parameter); isPar && par.Parent().Signature.Recv() != nil && len(par.Parent().Params) > 0 && par.Parent().Params[0] == par {
					rk := "R:" + par.Parent().String() + "#" + su.FieldName(ad)
					e.preUsed[rk] = true
					if !e.preFalse[rk] {
						return true, "every caller of the method holds the guard for the receiver's " + su.FieldName(ad)
					}
				}
				if e.preFalse[k] {
					return false, "field " + fieldKeyOf(ad) + " can hold an unguarded person"
				}
				return true, "every store into the field stores a guarded value"
			case *ssa.IndexAddr:
				return e.safe(ad.X, ins, depth+1)
			case *ssa.Alloc:
				// local variable: every store must be safe at its own site
				all := true
				why := ""
				n := 0
				for _, ref := range *ad.Referrers() {
					if st, ok := ref.(*ssa.Store); ok && st.Addr == ssa.Value(ad) {
						n++
						if ok2, w := e.safe(st.Val, sameFn(ins, st), depth+1); !ok2 {
							all, why = false, w
						}
					}
				}
				if n == 0 {
					return true, "never assigned"
				}
				return all, why
			case *ssa.FreeVar:
				return e.rootSafe(ad, ins, depth+1)
			}
		}
	case *ssa.Call:
		return e.callResultSafe(x, ins, depth)
	case *ssa.Phi:
		for _, ed := range x.Edges {
			if k, isK := ed.(*ssa.Const); isK && k.Value == nil {
				continue
			}
			if ok, why := e.safe(ed, ins, depth+1); !ok {
				return false, why
			}
		}
		return true, "all incoming values are guarded"
	case *ssa.Extract:
		if c, ok := x.Tuple.(*ssa.Call); ok {
			return e.callResultSafe(c, ins, depth)
		}
		if nx, ok := x.Tuple.(*ssa.Next); ok {
			if rg, ok := nx.Iter.(*ssa.Range); ok {
				return e.safe(rg.X, ins, depth+1)
			}
		}
		if ta, ok := x.Tuple.(*ssa.TypeAssert); ok {
			return e.safe(ta.X, ins, depth+1)
		}
		if lk, ok := x.Tuple.(*ssa.Lookup); ok {
			return e.safe(lk.X, ins, depth+1)
		}
	case *ssa.Lookup:
		return e.safe(x.X, ins, depth+1)
	case *ssa.TypeAssert:
		return e.safe(x.X, ins, depth+1)
	case *ssa.Slice:
		return e.safe(x.X, ins, depth+1)
	case *ssa.Const:
		return true, "constant"
	case *ssa.Field:
		return e.safe(x.X, ins, depth+1)
	case *ssa.Alloc, *ssa.MakeMap, *ssa.MakeSlice:
		// fresh container: every value put into it must be safe where it is put
		for _, ref := range *x.Referrers() {
			switch u := ref.(type) {
			case *ssa.IndexAddr:
				for _, r2 := range *u.Referrers() {
					if st, ok := r2.(*ssa.Store); ok && st.Addr == ssa.Value(u) {
						if ok2, w := e.safe(st.Val, sameFn(ins, st), depth+1); !ok2 {
							return false, w
						}
					}
				}
			case *ssa.MapUpdate:
				for _, kv := range []ssa.Value{u.Key, u.Value} {
					kv = su.Strip(kv)
					if _, isNode := nodeType(kv.Type()); isNode || isNodeSlice(kv.Type()) {
						if ok2, w := e.safe(kv, sameFn(ins, u), depth+1); !ok2 {
							return false, w
						}
					}
				}
			case *ssa.Store:
				if u.Addr == x {
					if ok2, w := e.safe(u.Val, sameFn(ins, u), depth+1); !ok2 {
						return false, w
					}
				}
			}
		}
		return true, "fresh container filled with guarded values"
	}
	return false, fmt.Sprintf("origin not recognised (%T)", v)
}

func fieldKeyOf(fa *ssa.FieldAddr) string {
	o := su.FieldOwner(fa)
	n := "?"
	if o != nil {
		n = o.Obj().Name()
	}
	return n + "." + su.FieldName(fa)
}

// solvePre computes the greatest fixpoint of the preconditions.
func (e *e3) solvePre() {
	for iter := 0; iter < 50; iter++ {
		changed := false
		usedBefore := len(e.preUsed)
		var keys []string
		for k := range e.preUsed {
			keys = append(keys, k)
		}
		sort.Strings(keys)
		for _, k := range keys {
			if e.preFalse[k] {
				continue
			}
			ok := true
			if strings.HasPrefix(k, "P:") {
				var fnName string
				var idx int
				i := strings.LastIndex(k, "#")
				fnName = k[2:i]
				fmt.Sscanf(k[i+1:], "%d", &idx)
				var fn *ssa.Function
				for f := range e.callers {
					if f.String() == fnName {
						fn = f
					}
				}
				n := 0
				if fn != nil {
					for _, c := range e.callers[fn] {
						if !e.scope[c.Parent()] {
							continue
						}
						n++
						cc := c.Common()
						if idx < len(cc.Args) {
							e.guardMemo = map[string]bool{}
							s, w := e.safe(cc.Args[idx], c, 0)
							if !s {
								ok = false
							}
							if os.Getenv("C17_TRACE") != "" && strings.Contains(k, os.Getenv("C17_TRACE")) {
								fmt.Println("TRACE", e.mode, k, "caller", c.Parent(), "->", s, w)
							}
						}
					}
				}
				_ = n
			} else if strings.HasPrefix(k, "R:") {
				i := strings.LastIndex(k, "#")
				fnName, field := k[2:i], k[i+1:]
				var fn *ssa.Function
				for f := range e.scope {
					if f.String() == fnName {
						fn = f
					}
				}
				n := 0
				if fn != nil {
					for _, c := range e.callers[fn] {
						if !e.scope[c.Parent()] {
							continue
						}
						n++
						cc := c.Common()
						if len(cc.Args) == 0 {
							ok = false
							continue
						}
						recv := su.Strip(cc.Args[0])
						e.guardMemo = map[string]bool{}
						if e.guardedKey(indKey(recv)+"."+field, c) {
							continue
						}
						// the caller is itself a method on the same receiver: inherit its precondition
						if par, isPar := recv.(*ssa.Parameter); isPar && par.Parent().Signature.Recv() != nil && par.Parent().Params[0] == par {
							rk := "R:" + par.Parent().String() + "#" + field
							if !e.preUsed[rk] {
								e.preUsed[rk] = true
								changed = true
							}
							if !e.preFalse[rk] {
								continue
							}
						}
						ok = false
					}
				}
				if n == 0 {
					// only called dynamically (interface method, callback): no caller-side guard is known
					ok = false
				}
			} else {
				for _, st := range e.stores[k[2:]] {
					if !e.scope[st.Parent()] {
						continue
					}
					e.guardMemo = map[string]bool{}
					s, w := e.safe(st.Val, st, 0)
					if !s {
						ok = false
					}
					if os.Getenv("C17_TRACE") != "" && strings.Contains(k, os.Getenv("C17_TRACE")) {
						fmt.Println("TRACE", e.mode, k, "store in", st.Parent(), "->", s, w)
					}
				}
			}
			if !ok {
				e.preFalse[k] = true
				changed = true
			}
		}
		if !changed && len(e.preUsed) == usedBefore {
			break
		}
	}
	e.guardMemo = map[string]bool{}
}

// C17: published sites reveal nothing about living people.
func C17(p *load.Prog, r *oblig.Run) {
	r.Explanation = "Living-guard qualified taint analysis (E3). In every function of package html reachable from Publisher.Publish, each call that returns text and takes a node of the library package (receiver or argument) is a person-data read. " +
		"The person behind the node is found by following the receiver/argument chain; the read is protected when, on every control-flow path to it, the living/visibility guard holds for that person " +
		"(false edge of p.IsLiving(), p == nil, mode == show, or mode != hide and mode != placeholder - decided by path enumeration over the SSA control-flow graph), or when the person comes from a parameter or component field whose every caller/store " +
		"passes a protected person (greatest fixpoint over call sites and stores). Elements of Document.Individuals(), people obtained from Spouses()/Parents()/Children()/Husband()/Wife(), records looked up by pointer and the bulk accessors Document.Places()/Nodes() are unprotected by origin. " +
		"Every unprotected read is then propagated with the value-flow machinery of E2 (explicit flows, no sanitizer) to the bytes written by any WriteHTMLTo reachable from Publish and to file names; an unprotected read that reaches such a sink is a violation."
	r.NotDecided = "implicit flows (counts, presence, ordering - e.g. the per-surname count), the IsLiving rule itself (age rule, clock), byte-for-byte equality of two publish runs; the diff report (always 'show')."
	r.Assumptions = []string{"every value of type html.LivingVisibility is a copy of the one publish option", "methods called on a nil *IndividualNode reveal nothing", "E2 flow assumptions as for C18"}
	r.Rule("R17.a", "no text read from a possibly living person's record reaches a page, a link or a file name outside the living/visibility guard", 55)
	c17OwnerLookup(p, r)
	c17VisibilityFields(p, r)
	g := cg.New(p, false)
	var roots []cg.Target
	for _, n := range []string{"Publish", "Files"} {
		if f := p.Method(load.PkgHTML, "Publisher", n); f != nil {
			roots = append(roots, cg.Target{Fn: f})
		}
	}
	if f := p.Func(load.PkgHTML, "NewPublisher"); f != nil {
		roots = append(roots, cg.Target{Fn: f})
	}
	// rapid-type-analysis refinement: a component method reached only through an interface call counts only
	// when its type is instantiated somewhere in the publish scope (the diff report's components are not)
	inst := map[string]bool{}
	live := map[*ssa.Function]bool{}
	var reach *cg.Reach
	for iter := 0; iter < 20; iter++ {
		reach = g.ReachFrom(roots, cg.Options{SkipEdge: func(from cg.Target, ed cg.Edge) bool {
			// a closure exists only if its enclosing function ran
			if ed.Kind == "dynamic" && ed.Callee.Fn != nil && ed.Callee.Fn.Parent() != nil && !live[ed.Callee.Fn.Parent()] {
				return true
			}
			if ed.Kind != "invoke" || ed.Callee.Fn == nil || ed.Callee.Fn.Signature.Recv() == nil {
				return false
			}
			n := load.NamedOf(ed.Callee.Fn.Signature.Recv().Type())
			if n == nil || n.Obj().Pkg() == nil || n.Obj().Pkg().Path() != load.PkgHTML {
				return false
			}
			return !inst[n.Obj().Name()]
		}})
		grew := false
		for f := range reach.Funcs {
			if !live[f] {
				live[f] = true
				grew = true
			}
			for _, b := range f.Blocks {
				for _, ins := range b.Instrs {
					var t types.Type
					switch x := ins.(type) {
					case *ssa.Alloc:
						t = x.Type().(*types.Pointer).Elem()
					case *ssa.MakeInterface:
						t = x.X.Type()
					default:
						continue
					}
					if n := load.NamedOf(t); n != nil && n.Obj().Pkg() != nil && n.Obj().Pkg().Path() == load.PkgHTML && !inst[n.Obj().Name()] {
						inst[n.Obj().Name()] = true
						grew = true
					}
				}
			}
		}
		if !grew {
			break
		}
	}
	r.Extra["instantiated_component_types"] = len(inst)
	if os.Getenv("C17_DEBUG") != "" {
		for f := range reach.Funcs {
			if strings.Contains(f.String(), os.Getenv("C17_DEBUG")) {
				fmt.Println("PATH", f, reach.Path(f))
			}
		}
	}
	e := &e3{p: p, scope: reach.Funcs, isLiving: p.Method(load.PkgRoot, "IndividualNode", "IsLiving"), visConst: map[string]string{},
		callers: map[*ssa.Function][]ssa.CallInstruction{}, stores: map[string][]*ssa.Store{}, preFalse: map[string]bool{}, preUsed: map[string]bool{}, guardMemo: map[string]bool{}}
	e.ownerOf = p.Func(load.PkgHTML, "individualForNode")
	hp := p.ByPath[load.PkgHTML]
	vt := hp.Types.Scope().Lookup("LivingVisibility")
	if vt == nil || e.isLiving == nil {
		r.Add("R17.a", "anchors", "-", "anchor").Unknown("html.LivingVisibility / IndividualNode.IsLiving not found")
		return
	}
	e.visType = vt.Type()
	for _, nm := range []struct{ c, k string }{{"LivingVisibilityShow", "show"}, {"LivingVisibilityHide", "hide"}, {"LivingVisibilityPlaceholder", "placeholder"}} {
		c, _ := hp.Types.Scope().Lookup(nm.c).(*types.Const)
		if c == nil {
			r.Add("R17.a", "anchors", "-", "anchor").Unknown(nm.c + " not found")
			return
		}
		e.visConst[c.Val().ExactString()] = nm.k
	}
	for _, fn := range p.Repo {
		for _, b := range fn.Blocks {
			for _, ins := range b.Instrs {
				switch x := ins.(type) {
				case ssa.CallInstruction:
					if cal := x.Common().StaticCallee(); cal != nil {
						e.callers[cal] = append(e.callers[cal], x)
					}
				case *ssa.Store:
					if fa, ok := x.Addr.(*ssa.FieldAddr); ok {
						e.stores[fieldKeyOf(fa)] = append(e.stores[fieldKeyOf(fa)], x)
					}
				}
			}
		}
	}
	// candidate reads
	type read struct {
		site ssa.CallInstruction
		node ssa.Value
		cat  string
	}
	category := func(c ssa.CallInstruction, node ssa.Value) string {
		cc := c.Common()
		isName := func(t types.Type) bool {
			n, ok := nodeType(t)
			return ok && (n.Obj().Name() == "NameNode" || n.Obj().Name() == "IndividualNode")
		}
		if cal := cc.StaticCallee(); cal != nil && cal.Signature.Recv() != nil && isName(cal.Signature.Recv().Type()) {
			return "name"
		}
		if isName(node.Type()) {
			return "name"
		}
		mname := ""
		if cc.IsInvoke() {
			mname = cc.Method.Name()
		} else if cal := cc.StaticCallee(); cal != nil {
			mname = cal.Name()
		}
		if mname == "Pointer" || mname == "Identifier" {
			return "name"
		}
		return "data"
	}
	var reads []read
	var fns []*ssa.Function
	for f := range reach.Funcs {
		pkg := ""
		if f.Pkg != nil {
			pkg = f.Pkg.Pkg.Path()
		} else if f.Parent() != nil && f.Parent().Pkg != nil {
			pkg = f.Parent().Pkg.Pkg.Path()
		}
		if pkg == load.PkgHTML && f.Synthetic == "" {
			fns = append(fns, f)
		}
	}
	sort.Slice(fns, func(i, j int) bool { return fns[i].String() < fns[j].String() })
	for _, fn := range fns {
		for _, c := range su.Calls(fn) {
			val, isVal := c.(ssa.Value)
			if !isVal || !e2.Carrier(val.Type()) {
				continue
			}
			if _, isPtr := val.Type().Underlying().(*types.Pointer); isPtr {
				continue
			}
			if _, isIface := val.Type().Underlying().(*types.Interface); isIface {
				continue
			}
			if isNodeSlice(val.Type()) {
				continue
			}
			cc := c.Common()
			// the accessor itself: a function of the library package, an interface method, or a standard-library
			// formatter handed a node. Helpers of package html are analysed through their own bodies.
			if cal := cc.StaticCallee(); cal != nil {
				cp := ""
				if cal.Pkg != nil {
					cp = cal.Pkg.Pkg.Path()
				} else if cal.Signature.Recv() != nil {
					if n := load.NamedOf(cal.Signature.Recv().Type()); n != nil && n.Obj().Pkg() != nil {
						cp = n.Obj().Pkg().Path()
					}
				}
				if cp == load.PkgHTML || (p.IsRepoFunc(cal) && cp != load.PkgRoot) {
					continue
				}
			} else if !cc.IsInvoke() {
				continue
			}
			var operands []ssa.Value
			if cc.IsInvoke() {
				operands = append(operands, cc.Value)
			}
			operands = append(operands, cc.Args...)
			for _, a := range operands {
				a2 := su.Strip(a)
				if _, isNode := nodeType(a2.Type()); isNode || isNodeSlice(a2.Type()) {
					reads = append(reads, read{c, a2, category(c, a2)})
					break
				}
			}
		}
	}
	// first pass registers the preconditions that are used, then solve, then decide
	// counters of living people: x++ executed only when some individual is living reveals how many there are
	// (the per-letter "N individuals are hidden" row); treated like other personal data: protected in hide mode
	type counter struct {
		ins  *ssa.BinOp
		node ssa.Value
	}
	var counters []counter
	for _, fn := range fns {
		for _, b := range fn.Blocks {
			iff, ok := b.Instrs[len(b.Instrs)-1].(*ssa.If)
			if !ok {
				continue
			}
			c, ok := iff.Cond.(*ssa.Call)
			if !ok || c.Call.StaticCallee() != e.isLiving || len(c.Call.Args) != 1 {
				continue
			}
			ts := b.Succs[0]
			if len(ts.Preds) != 1 {
				continue
			}
			for _, b2 := range fn.Blocks {
				if !(b2 == ts || ts.Dominates(b2)) {
					continue
				}
				for _, ins := range b2.Instrs {
					bo, ok := ins.(*ssa.BinOp)
					if !ok || bo.Op != token.ADD {
						continue
					}
					if bt, isB := bo.Type().Underlying().(*types.Basic); !isB || bt.Info()&types.IsInteger == 0 {
						continue
					}
					_, xphi := bo.X.(*ssa.Phi)
					k, isK := su.ConstInt(bo.Y)
					if xphi && isK && k > 0 {
						counters = append(counters, counter{bo, c.Call.Args[0]})
					}
				}
			}
		}
	}
	counterBad := map[*ssa.BinOp]string{}
	counterEsc := map[*ssa.BinOp]int{}
	unsafe := map[ssa.CallInstruction]string{}
	catOf := map[ssa.CallInstruction]string{}
	safeWhy := map[ssa.CallInstruction]string{}
	var falsified []string
	for _, mode := range []string{"name", "data"} {
		e.mode = mode
		e.preUsed, e.preFalse, e.guardMemo = map[string]bool{}, map[string]bool{}, map[string]bool{}
		for _, rd := range reads {
			if rd.cat == mode {
				e.safe(rd.node, rd.site, 0)
				e.flowProtected(rd.site.(ssa.Value), func(x ssa.Instruction) bool {
					e.safe(rd.node, x, 0) // registers the preconditions used at this point
					return false          // explore everything
				})
			}
		}
		if mode == "data" {
			for _, ct := range counters {
				e.flowProtected(ct.ins, func(x ssa.Instruction) bool { e.visibilityGuarded(x); return false })
			}
		}
		e.solvePre()
		if mode == "data" {
			for _, ct := range counters {
				e.guardMemo = map[string]bool{}
				all, nesc := e.flowProtected(ct.ins, func(x ssa.Instruction) bool { return e.visibilityGuarded(x) })
				counterEsc[ct.ins] = nesc
				if !all {
					counterBad[ct.ins] = "the count leaves the function at a point that is reached in hide mode"
				}
			}
		}
		for _, rd := range reads {
			if rd.cat != mode {
				continue
			}
			catOf[rd.site] = mode
			e.guardMemo = map[string]bool{}
			ok, why := e.safe(rd.node, rd.site, 0)
			if !ok {
				// read first, test later: protected when every point where the text leaves the function is protected
				all, nesc := e.flowProtected(rd.site.(ssa.Value), func(x ssa.Instruction) bool {
					ok2, w2 := e.safe(rd.node, x, 0)
					if os.Getenv("C17_ESC") != "" && strings.Contains(p.Pos(rd.site.Pos()), os.Getenv("C17_ESC")) {
						fmt.Println("ESC", p.Pos(rd.site.Pos()), "->", p.Pos(x.Pos()), x, ok2, w2)
					}
					return ok2
				})
				if all {
					ok, why = true, fmt.Sprintf("read before the test, but each of the %d points where its text leaves the function is protected", nesc)
					if nesc == 0 {
						why = "its text never leaves the function (it is only compared)"
					}
				}
			}
			if !ok {
				unsafe[rd.site] = why
			} else {
				safeWhy[rd.site] = why
			}
		}
		for k := range e.preFalse {
			falsified = append(falsified, mode+" "+k)
		}
	}
	r.Extra["person_data_reads"] = len(reads)
	r.Extra["unprotected_reads"] = len(unsafe)
	r.Extra["publish_scope_functions"] = len(reach.Funcs)
	sort.Strings(falsified)
	r.Extra["falsified_preconditions"] = falsified
	// propagate the unprotected reads
	scope, _ := htmlSinkScope(p, g)
	pubScope := map[*ssa.Function]bool{}
	for f := range scope {
		if reach.Funcs[f] {
			pubScope[f] = true
		}
	}
	newFile := p.Func(load.PkgCore, "NewFile")
	label := func(c ssa.CallInstruction) string {
		return fmt.Sprintf("read at %s in %s", p.Pos(c.Pos()), load.FuncName(c.Parent()))
	}
	cfg := e2.Config{
		OriginCall: func(site ssa.CallInstruction, callee *ssa.Function) (string, bool) {
			if _, ok := unsafe[site]; ok {
				return label(site), true
			}
			return "", false
		},
		SinkArg: func(site ssa.CallInstruction, callee *ssa.Function, inScope bool) []int {
			cc := site.Common()
			if callee == newFile && newFile != nil {
				return []int{0}
			}
			if !inScope || cc.IsInvoke() {
				return nil
			}
			switch {
			case isPkgFunc(callee, "io", "WriteString"):
				return []int{1}
			case isPkgFunc(callee, "fmt", "Fprintf", "Fprint", "Fprintln"):
				var idx []int
				for i := 1; i < len(cc.Args); i++ {
					idx = append(idx, i)
				}
				return idx
			}
			return nil
		},
		SinkScope: pubScope,
	}
	a := e2.NewWithInvokeSink(p, g, cfg, func(site ssa.CallInstruction, inScope bool) []int {
		cc := site.Common()
		if inScope && cc.IsInvoke() && cc.Method.Name() == "Write" && len(cc.Args) == 1 {
			return []int{0}
		}
		return nil
	})
	if d := os.Getenv("C17_SUM"); d != "" {
		for _, f := range p.Repo {
			if strings.Contains(f.String(), d) {
				if sm := a.Sum[f]; sm != nil {
					fmt.Println("SUM", f, "res:", sm.Res, "origins:", a.Origins(sm.Res[0]))
				}
			}
		}
	}
	// which origins reach a sink
	reaching := map[string][]string{}
	originsOf := func(d e2.Deps) []string { return a.Origins(d) }
	for _, ef := range a.Closed {
		if ef.Kind != "sink" {
			continue
		}
		for _, o := range originsOf(ef.Deps) {
			where := ef.Arg + " at " + p.Pos(ef.Instr.Pos()) + " in " + load.FuncName(ef.Fn)
			if len(reaching[o]) < 3 {
				reaching[o] = append(reaching[o], where)
			}
		}
	}
	var sites []ssa.CallInstruction
	for _, rd := range reads {
		sites = append(sites, rd.site)
	}
	sort.Slice(sites, func(i, j int) bool { return p.Pos(sites[i].Pos()) < p.Pos(sites[j].Pos()) })
	seen := map[ssa.CallInstruction]bool{}
	for _, s := range sites {
		if seen[s] {
			continue
		}
		seen[s] = true
		name := "call"
		if cal := s.Common().StaticCallee(); cal != nil {
			name = load.FuncName(cal)
		} else if s.Common().IsInvoke() {
			name = "." + s.Common().Method.Name()
		}
		key := fmt.Sprintf("read %s in %s", name, load.FuncName(s.Parent()))
		o := r.Add("R17.a", key, p.Pos(s.Pos()), map[string]string{"name": "read of a name/identifier (must be protected in hide and placeholder mode) ", "data": "read of other personal text (must be protected in hide mode) "}[catOf[s]]+name)
		why, isUnsafe := unsafe[s]
		if !isUnsafe {
			o.OK("protected: " + safeWhy[s])
			continue
		}
		sinks := reaching[label(s)]
		if len(sinks) == 0 {
			if os.Getenv("C17_STEER") != "" {
				fmt.Println("STEER", key, p.Pos(s.Pos()), why)
			}
			o.OK("not protected (" + why + ") but its result does not reach any page, link or file name (it only steers control)")
			continue
		}
		o.Fail("text read from a possibly living person's record reaches the published site in hide/placeholder mode: the read is not protected ("+why+")",
			append([]string{"reaches:"}, sinks...)...)
	}
	cord := map[string]int{}
	for _, ct := range counters {
		key := "count of living individuals in " + load.FuncName(ct.ins.Parent())
		cord[key]++
		if cord[key] > 1 {
			key = fmt.Sprintf("%s #%d", key, cord[key])
		}
		o := r.Add("R17.a", key, p.Pos(ct.ins.Pos()), "counter incremented only for living individuals (reveals how many there are; must be protected in hide mode)")
		if why, bad := counterBad[ct.ins]; bad {
			o.Fail("a number that counts living individuals is published in hide mode: " + why + " - the page then depends on living people's data (e.g. how many of them share a surname letter)")
		} else if counterEsc[ct.ins] == 0 {
			o.OK("the count never leaves the function")
		} else {
			o.OK(fmt.Sprintf("each of the %d points where the count leaves the function is reached only when the mode is not hide", counterEsc[ct.ins]))
		}
	}
	if len(e.capped) > 0 {
		r.Note("path enumeration capped in: %s", strings.Join(e.capped, ", "))
	}
	c17Visibility(p, r, e)
	c17Living(p, r, e.isLiving)
}

// relZero interprets "x op k" taken with the given outcome for a numeric constant k:
// +1 when it implies x != 0 (for x >= 0), -1 when it implies x == 0, 0 otherwise.
func relZero(op token.Token, k float64, outcome bool) int {
	if !outcome {
		switch op {
		case token.EQL:
			op = token.NEQ
		case token.NEQ:
			op = token.EQL
		case token.LSS:
			op = token.GEQ
		case token.LEQ:
			op = token.GTR
		case token.GTR:
			op = token.LEQ
		case token.GEQ:
			op = token.LSS
		}
	}
	switch {
	case op == token.NEQ && k == 0, op == token.GTR && k >= 0, op == token.GEQ && k > 0:
		return 1
	case op == token.EQL && k == 0, op == token.LEQ && k <= 0, op == token.LSS && k > 0 && k <= 1:
		return -1
	case op == token.EQL && k != 0:
		return 1
	}
	return 0
}

// c17Living: structural clauses of the living rule (R17.b).
func c17Living(p *load.Prog, r *oblig.Run, fn *ssa.Function) {
	r.Rule("R17.b", "IsLiving answers 'not living' only for a nil individual, a recorded death, or an age above a non-zero MaxLivingAge computed from a non-zero (known) birth year", 3)
	if fn == nil || len(fn.Blocks) == 0 {
		r.Add("R17.b", "IsLiving", "-", "anchor").Unknown("IsLiving not found")
		return
	}
	strip := func(v ssa.Value) ssa.Value {
		for {
			switch x := v.(type) {
			case *ssa.Convert:
				v = x.X
			case *ssa.ChangeType:
				v = x.X
			default:
				return v
			}
		}
	}
	classify := func(v ssa.Value) string {
		v = strip(v)
		switch x := v.(type) {
		case *ssa.Parameter:
			if par := x.Parent(); par != nil && len(par.Params) > 0 && x == par.Params[0] {
				return "recv"
			}
		case *ssa.Call:
			if b, ok := x.Call.Value.(*ssa.Builtin); ok && b.Name() == "len" {
				if c, ok := strip(x.Call.Args[0]).(*ssa.Call); ok {
					if cal := c.Call.StaticCallee(); cal != nil && cal.Name() == "Deaths" {
						return "deaths"
					}
				}
			}
			if cal := x.Call.StaticCallee(); cal != nil && cal.Name() == "Years" {
				return "year"
			}
		case *ssa.UnOp:
			if fa, ok := x.X.(*ssa.FieldAddr); ok && x.Op == token.MUL && su.FieldName(fa) == "MaxLivingAge" {
				return "max"
			}
		}
		return ""
	}
	// pathsBad: for function f (IsLiving itself, or a helper it returns the answer of) and the facts the caller's path
	// has already established, the reason why some path to return rt can answer "not living" unjustified ("" if none)
	var pathsBad func(f *ssa.Function, rt *ssa.Return, inherited map[string]int, depth int) (int, string)
	pathsBad = func(f *ssa.Function, rt *ssa.Return, inherited map[string]int, depth int) (int, string) {
		paths, capped := simplePaths(f.Blocks[0], map[*ssa.BasicBlock]bool{}, 5000)
		if capped {
			return 1, "more than 5000 paths through " + load.FuncName(f)
		}
		bad := ""
		n := 0
		for _, path := range paths {
			if path[len(path)-1] != rt.Block() || !feasible(path) {
				continue
			}
			n++
			facts := map[string]int{}
			for k, v := range inherited {
				facts[k] = v
			}
			for i, b := range path[:len(path)-1] {
				iff, ok := b.Instrs[len(b.Instrs)-1].(*ssa.If)
				if !ok {
					continue
				}
				outcome := path[i+1] == b.Succs[0]
				cond := iff.Cond
				for {
					if u, isNot := cond.(*ssa.UnOp); isNot && u.Op == token.NOT {
						cond, outcome = u.X, !outcome
						continue
					}
					break
				}
				bo, ok := cond.(*ssa.BinOp)
				if !ok {
					continue
				}
				x, y, op := bo.X, bo.Y, bo.Op
				if _, isK := x.(*ssa.Const); isK {
					x, y = y, x
					switch op {
					case token.LSS:
						op = token.GTR
					case token.GTR:
						op = token.LSS
					case token.LEQ:
						op = token.GEQ
					case token.GEQ:
						op = token.LEQ
					}
				}
				kc, isK := y.(*ssa.Const)
				if !isK {
					continue
				}
				what := classify(x)
				if what == "" {
					continue
				}
				if what == "recv" {
					if kc.Value == nil && ((op == token.EQL) == outcome) {
						facts["recv-nil"] = 1
					}
					continue
				}
				var k float64
				if f, isF := floatConst(kc); isF {
					k = f
				} else if iv, isI := su.ConstInt(kc); isI {
					k = float64(iv)
				} else {
					continue
				}
				if z := relZero(op, k, outcome); z != 0 {
					facts[what] = z
				}
			}
			// the answer on this path
			val := rt.Results[0]
			if ph, isPhi := val.(*ssa.Phi); isPhi && ph.Block() == rt.Block() && len(path) >= 2 {
				prev := path[len(path)-2]
				for i, q := range ph.Block().Preds {
					if q == prev {
						val = ph.Edges[i]
					}
				}
			}
			if kc, isK := val.(*ssa.Const); isK && kc.Value != nil && kc.Value.Kind() == constant.Bool && constant.BoolVal(kc.Value) {
				continue // "living" is always a safe answer
			}
			if facts["recv-nil"] == 1 || facts["deaths"] == 1 || (facts["max"] == 1 && facts["year"] == 1) {
				continue
			}
			// the answer of a helper method of the same individual: its paths, with what this path established
			if hc, isCall := val.(*ssa.Call); isCall && depth < 2 {
				h := hc.Call.StaticCallee()
				if h != nil && p.IsRepoFunc(h) && len(h.Blocks) > 0 && h != f && len(hc.Call.Args) > 0 && strip(hc.Call.Args[0]) == ssa.Value(f.Params[0]) {
					hbad := ""
					for _, hb := range h.Blocks {
						if hrt, ok := hb.Instrs[len(hb.Instrs)-1].(*ssa.Return); ok && len(hrt.Results) == 1 {
							if _, b2 := pathsBad(h, hrt, facts, depth+1); b2 != "" {
								hbad = b2
							}
						}
					}
					if hbad != "" {
						bad = hbad
					}
					continue
				}
			}
			var miss []string
			if facts["max"] != 1 {
				miss = append(miss, "MaxLivingAge may be 0 (which means: only an explicit death ends a life)")
			}
			if facts["year"] != 1 {
				miss = append(miss, "the estimated birth year may be 0 (no usable birth date: the person must be presumed living)")
			}
			bad = "a path can answer 'not living' without a death although " + strings.Join(miss, " and ")
		}
		return n, bad
	}
	var rets []*ssa.Return
	for _, b := range fn.Blocks {
		if rt, ok := b.Instrs[len(b.Instrs)-1].(*ssa.Return); ok {
			rets = append(rets, rt)
		}
	}
	for ri, rt := range rets {
		key := fmt.Sprintf("IsLiving answer #%d", ri+1)
		o := r.Add("R17.b", key, p.Pos(rt.Pos()), "return of IsLiving")
		n, bad := pathsBad(fn, rt, nil, 0)
		switch {
		case n == 0:
			o.OK("unreachable")
		case bad != "":
			o.Fail(bad)
		default:
			o.OK(fmt.Sprintf("%d paths: every answer that can be 'not living' follows a nil receiver, a recorded death, or non-zero MaxLivingAge and birth year tests", n))
		}
	}
}
