package props

import (
	"encoding/json"
	"fmt"
	"os"
	"path/filepath"
	"sort"
	"strings"

	"gedverif/internal/cg"
	"gedverif/internal/e4"
	"gedverif/internal/load"
	"gedverif/internal/oblig"
	"gedverif/internal/su"

	"golang.org/x/tools/go/ssa"
)

func loadRaceTable() map[string]string {
	b, err := os.ReadFile(filepath.Join(oblig.VerifDir(), "tables", "race.json"))
	if err != nil {
		load.Fatal("tables/race.json: %v", err)
	}
	var es []e1Entry
	if err := json.Unmarshal(b, &es); err != nil {
		load.Fatal("tables/race.json: %v", err)
	}
	m := map[string]string{}
	for _, e := range es {
		m[e.Key] = e.Reason
	}
	return m
}

// touchedAfterSpawn: the closure fn captures variable fv; does the function
// that creates fn touch the same variable on some path after the go statement
// that starts it (other than through the closure itself)?
func touchedAfterSpawn(fn *ssa.Function, fvName string) bool {
	par := fn.Parent()
	if par == nil {
		return true
	}
	idx := -1
	for i, fv := range fn.FreeVars {
		if fv.Name() == fvName {
			idx = i
		}
	}
	if idx < 0 {
		return true
	}
	for _, b := range par.Blocks {
		for _, ins := range b.Instrs {
			mc, ok := ins.(*ssa.MakeClosure)
			if !ok || mc.Fn != fn {
				continue
			}
			cell := mc.Bindings[idx]
			// the go statement using this closure
			var goIns ssa.Instruction
			for _, ref := range *mc.Referrers() {
				if g, ok := ref.(*ssa.Go); ok {
					goIns = g
				}
			}
			if goIns == nil {
				return true // not started by a go statement here (passed on): be conservative
			}
			refs := cell.Referrers()
			if refs == nil {
				return true
			}
			for _, ref := range *refs {
				if ref == ssa.Instruction(mc) {
					continue
				}
				if _, isDbg := ref.(*ssa.DebugRef); isDbg {
					continue
				}
				// is ref reachable after goIns?
				if ref.Block() == goIns.Block() {
					after := false
					for _, i2 := range b.Instrs {
						if i2 == goIns {
							after = true
						} else if after && i2 == ref {
							return true
						}
					}
					continue
				}
				for _, sc := range goIns.Block().Succs {
					if su.ReachableBlocks(sc)[ref.Block()] {
						return true
					}
				}
			}
			return false
		}
	}
	return true
}

// raceObligations enumerates the stores made inside concurrent regions of the
// query and discharges those that are synchronised.
func raceObligations(p *load.Prog, r *oblig.Run, rule string, a *e4.Analysis, table map[string]string, rootName string) int {
	// One obligation per written field (or variable) and root: all stores to it from concurrent regions must be
	// synchronised. Keys name the field, not the function that happens to contain the store - moving the store
	// (extracting a helper, replacing a deferred closure by straight-line code) must not change the verdict.
	type group struct {
		field string
		ws    []*e4.Write
	}
	groups := map[string]*group{}
	var order []string
	for _, w := range a.SortedWrites() {
		if !w.InGo {
			continue
		}
		g := groups[w.Field]
		if g == nil {
			g = &group{field: w.Field}
			groups[w.Field] = g
			order = append(order, w.Field)
		}
		g.ws = append(g.ws, w)
	}
	n := 0
	for _, f := range order {
		g := groups[f]
		n++
		key := fmt.Sprintf("stores to %s (reached from %s)", g.field, rootName)
		o := r.Add(rule, key, p.Pos(g.ws[0].Instr.Pos()), "stores executed inside a concurrent region: "+g.field)
		var okWhy []string
		var bad []string
		var wit []string
		for _, w := range g.ws {
			site := fmt.Sprintf("store %s in %s (reached from %s)", w.Field, load.FuncName(w.Fn), rootName)
			var ts []string
			for _, ob := range w.Target.List() {
				if ob.Kind != "U" || w.Class != "captured" {
					ts = append(ts, a.Describe(ob))
				}
			}
			sort.Strings(ts)
			switch {
			case strings.Contains(w.Field, "(sync.Map)"):
				okWhy = append(okWhy, "through sync.Map")
			case w.Locked:
				okWhy = append(okWhy, "between Lock and Unlock of a mutex in "+load.FuncName(w.Fn))
			case w.Class == "captured" && !w.Multi && !touchedAfterSpawn(w.Fn, w.Var):
				okWhy = append(okWhy, "captured by a single goroutine body and not touched by its creator after the go statement")
			case !w.Multi && rootName == "IndividualNodes.Compare" && singleProducerInit(p, w.Fn, w.Instr):
				// only for one Compare run on its own: when several runs share one options object (the diff page's workers)
				// each run has its own producer goroutine and the stores race with each other
				okWhy = append(okWhy, "initialisation by the single producer goroutine before it calls anything; every other access to the field is under a mutex")
			default:
				if why, ok := table[site]; ok {
					okWhy = append(okWhy, "table ("+load.FuncName(w.Fn)+"): "+why)
					continue
				}
				kind := "a goroutine"
				if w.Multi {
					kind = "a worker-pool body that runs in several goroutines at once"
				}
				what := "shared state (" + strings.Join(ts, "; ") + ")"
				if w.Class == "captured" {
					what = "a variable of the enclosing function"
				}
				bad = append(bad, fmt.Sprintf("in %s at %s from %s: %s", load.FuncName(w.Fn), p.Pos(w.Instr.Pos()), kind, what))
				if len(wit) == 0 {
					wit = append([]string{"call chain into the concurrent region:"}, w.Stack...)
				}
			}
		}
		if len(bad) == 0 {
			sort.Strings(okWhy)
			o.OK(fmt.Sprintf("%d store site(s), all synchronised: %s", len(g.ws), strings.Join(dedupe(okWhy), "; ")))
			continue
		}
		o.Fail(fmt.Sprintf("unsynchronised store to %s - written without a lock, sync.Map, atomic or channel: a data race as soon as more than one job runs (%s)", g.field, strings.Join(bad, " | ")), wit...)
	}
	return n
}

func dedupe(s []string) []string {
	var out []string
	for i, v := range s {
		if i == 0 || v != s[i-1] {
			out = append(out, v)
		}
	}
	return out
}

// C11: matching individuals (race clause + structure).
func C11(p *load.Prog, r *oblig.Run) {
	r.Explanation = "Concurrent-region effect analysis (E4 Q-race) rooted at IndividualNodes.Compare: the interpreter marks everything executed inside a go statement or inside the function handed to util.WorkerPool (several instances at once) " +
		"and records every store made there to a field of an object that was not allocated by the query (document/node state reachable from the compared individuals, the options object), to a package variable, or to a variable captured from an enclosing frame. " +
		"A store is discharged when it goes through sync.Map, sits between Lock/Unlock of a mutex, is a captured variable private to one goroutine, or has a reviewed table entry; anything else is a data race for Jobs > 1. " +
		"R11.c: every channel made by the pipeline stages is closed by its producer on every path."
	r.NotDecided = "that the result is a valid one-to-one matching, thresholds, tie behaviour, equality with the sequential result; races on objects allocated by the query itself and handed between stages (assumed owned by the receiver)."
	r.Assumptions = append(e4Assumptions(), "objects received from a channel are owned by the receiver", "reads are not enumerated: a write/read race is reported through its write")
	r.Rule("R11.a", "no unsynchronised store to shared state from the concurrent regions of Compare", 15)
	r.Rule("R11.c", "every pipeline channel is closed by its producer on every path", 4)
	g := cg.New(p, false)
	root := p.MustMethod(load.PkgRoot, "IndividualNodes", "Compare")
	a := e4.New(p, g, root)
	a.MarkGo = true
	a.Run(nil)
	if a.Over {
		r.Add("R11.a", "analysis", p.Pos(root.Pos()), "budget").Unknown("analysis budget exceeded")
	}
	raceObligations(p, r, "R11.a", a, loadRaceTable(), "IndividualNodes.Compare")
	// certain matches rest on unique identifiers: an identifier used while its parse error is thrown away pairs
	// everybody whose identifier is malformed (C10's R10.b over the same pipeline)
	c10Errors(p, r)
	r.Rule("R11.b", "a field written under a mutex by the concurrent workers is only read under a mutex there", 3)
	lockConsistency(p, r, "R11.b", a, g, root)
	pipelineStructure(p, r, g, root)
}

// pipelineStructure: the structural rules of the matching pipeline (shared by C11 and, because a document merge runs
// the same pipeline and hangs or mis-pairs with it, by C10).
func pipelineStructure(p *load.Prog, r *oblig.Run, g *cg.Graph, root *ssa.Function) {
	r.Rule("R11.c", "every pipeline channel is closed by its producer on every path", 4)
	r.Rule("R11.d", "each already-sent map is keyed only by individuals of the side it stands for", 6)
	r.Rule("R11.e", "a job producer that tests one already-sent map before sending tests every map it marks", 1)
	sentSides(p, r, "R11.d", "R11.e", concurrentRegion(g, root))
	r.Rule("R11.i", "every mutex taken in the matching pipeline is released on every path", 1)
	lockPairing(p, r, "R11.i", map[string]bool{load.PkgRoot: true, load.PkgUtil: true})
	r.Rule("R11.j", "a loop that starts at the worker number advances by the number of workers", 2)
	strideMatchesWorkers(p, r, "R11.j", concurrentRegion(g, root))
	r.Rule("R11.f", "util.WorkerPool starts exactly the requested number of workers", 1)
	workerCount(p, r, "R11.f")
	r.Rule("R11.g", "a pipeline stage's goroutine does nothing after closing the channel the stage returned", 3)
	r.Rule("R11.k", "a job producer that does not consult the already-sent maps runs before every producer that marks individuals as sent", 2)
	producerOrder(p, r, "R11.k")
	r.Rule("R11.h", "the Left (Right) of every comparison the pipeline builds is an individual of the left (right) list", 4)
	listSides(p, r, "R11.h", root, concurrentRegion(g, root))
	winnerSends(p, r, "R11.m")
	flagLast(p, r, "R11.n")
	r.Rule("R11.l", "a lookup on a list of individuals that the pipeline uses answers only with individuals of that list", 2)
	listLookups(p, r, "R11.l", root, concurrentRegion(g, root))
	stages := []*ssa.Function{p.Func(load.PkgRoot, "createJobs"), p.Method(load.PkgRoot, "IndividualNodesCompareOptions", "processJobs"),
		p.Method(load.PkgRoot, "IndividualNodesCompareOptions", "collectResults"), p.Method(load.PkgRoot, "IndividualNodesCompareOptions", "calculateWinners")}
	nothingAfterClose(p, r, "R11.g", stages)
	channelsClosed(p, r, "R11.c", []*ssa.Function{p.Func(load.PkgRoot, "createJobs"), p.Method(load.PkgRoot, "IndividualNodesCompareOptions", "processJobs"),
		p.Method(load.PkgRoot, "IndividualNodesCompareOptions", "collectResults"), p.Method(load.PkgRoot, "IndividualNodesCompareOptions", "calculateWinners"), root})
}

// channelsClosed: for every `make(chan)` in the listed functions, a close of
// that channel exists in the function or in a goroutine body it starts, and it
// post-dominates that body's entry (reached on every path that terminates).
func channelsClosed(p *load.Prog, r *oblig.Run, rule string, fns []*ssa.Function) {
	for _, fn := range fns {
		if fn == nil {
			continue
		}
		for _, b := range fn.Blocks {
			for _, ins := range b.Instrs {
				mk, ok := ins.(*ssa.MakeChan)
				if !ok {
					continue
				}
				key := "channel made in " + load.FuncName(fn)
				o := r.Add(rule, key, p.Pos(mk.Pos()), "channel created by a pipeline stage")
				// closes: in fn or in its anonymous functions, on the channel value or the captured variable holding it
				closed, everyPath := false, false
				check := func(f *ssa.Function) {
					for _, bb := range f.Blocks {
						for _, i2 := range bb.Instrs {
							c, ok := i2.(*ssa.Call)
							if !ok {
								continue
							}
							bi, ok := c.Call.Value.(*ssa.Builtin)
							if !ok || bi.Name() != "close" {
								continue
							}
							if !sameChannel(c.Call.Args[0], mk, f) {
								continue
							}
							closed = true
							// on every terminating path: the close block post-dominates the entry = every return is reachable only through it
							if allReturnsThrough(f, bb) {
								everyPath = true
							}
						}
					}
				}
				check(fn)
				for _, an := range fn.AnonFuncs {
					check(an)
					for _, an2 := range an.AnonFuncs {
						check(an2)
					}
				}
				// the producer is a named function started with `go` (or called) that is handed the channel: it must close
				// that parameter on every terminating path
				if !closed {
					scan := []*ssa.Function{fn}
					scan = append(scan, fn.AnonFuncs...)
					for _, f := range scan {
						for _, ci := range su.Calls(f) {
							h := ci.Common().StaticCallee()
							if h == nil || !p.IsRepoFunc(h) || len(h.Blocks) == 0 {
								continue
							}
							for ai, a := range ci.Common().Args {
								if !sameChannel(a, mk, f) || ai >= len(h.Params) {
									continue
								}
								prm := h.Params[ai]
								for _, bb := range h.Blocks {
									for _, i2 := range bb.Instrs {
										c, ok := i2.(*ssa.Call)
										if !ok {
											continue
										}
										if bi, isB := c.Call.Value.(*ssa.Builtin); !isB || bi.Name() != "close" || c.Call.Args[0] != ssa.Value(prm) {
											continue
										}
										closed = true
										if allReturnsThrough(h, bb) {
											everyPath = true
										}
									}
								}
							}
						}
					}
				}
				switch {
				case !closed:
					o.Fail("the channel is never closed: the stage that ranges over it never finishes")
				case !everyPath:
					o.Fail("the channel is not closed on every path of its producer: a consumer can wait for ever")
				default:
					o.OK("closed by its producer on every terminating path")
				}
			}
		}
	}
}

func sameChannel(v ssa.Value, mk *ssa.MakeChan, in *ssa.Function) bool {
	if v == ssa.Value(mk) {
		return true
	}
	// load of a captured variable / local cell that holds the channel
	if ld, ok := v.(*ssa.UnOp); ok {
		var cell ssa.Value = ld.X
		if fv, ok := cell.(*ssa.FreeVar); ok {
			// find binding
			par := in.Parent()
			if par == nil {
				return false
			}
			for _, b := range par.Blocks {
				for _, ins := range b.Instrs {
					if mc, ok := ins.(*ssa.MakeClosure); ok && mc.Fn == in {
						for i, f := range in.FreeVars {
							if f == fv {
								cell = mc.Bindings[i]
							}
						}
					}
				}
			}
		}
		if refs := cell.Referrers(); refs != nil {
			for _, ref := range *refs {
				if st, ok := ref.(*ssa.Store); ok && st.Val == ssa.Value(mk) {
					return true
				}
			}
		}
	}
	if fv, ok := v.(*ssa.FreeVar); ok {
		par := in.Parent()
		if par != nil {
			for _, b := range par.Blocks {
				for _, ins := range b.Instrs {
					if mc, ok := ins.(*ssa.MakeClosure); ok && mc.Fn == in {
						for i, f := range in.FreeVars {
							if f == fv && mc.Bindings[i] == ssa.Value(mk) {
								return true
							}
						}
					}
				}
			}
		}
	}
	return false
}

// allReturnsThrough: every path from the entry to a return passes block via.
func allReturnsThrough(f *ssa.Function, via *ssa.BasicBlock) bool {
	seen := map[*ssa.BasicBlock]bool{}
	var walk func(b *ssa.BasicBlock) bool // true if a return is reachable without via
	walk = func(b *ssa.BasicBlock) bool {
		if b == via || seen[b] {
			return false
		}
		seen[b] = true
		if _, isRet := b.Instrs[len(b.Instrs)-1].(*ssa.Return); isRet {
			return true
		}
		for _, s := range b.Succs {
			if walk(s) {
				return true
			}
		}
		return false
	}
	return !walk(f.Blocks[0])
}

// singleProducerInit: the store initialises a field at the start of a goroutine body that is started exactly once
// (one go statement, outside any loop, and no other caller), before that body calls anything; every other access to
// the field anywhere in the repository sits between Lock and Unlock of a mutex. The goroutines that later touch the
// field are all started (directly or indirectly) by this body after the store, so the start happens-after it.
func singleProducerInit(p *load.Prog, fn *ssa.Function, ins ssa.Instruction) bool {
	st, ok := ins.(*ssa.Store)
	if !ok {
		return false
	}
	fa, ok := st.Addr.(*ssa.FieldAddr)
	if !ok {
		return false
	}
	owner := su.FieldOwner(fa)
	if owner == nil {
		return false
	}
	// 1. started once as a goroutine, never called otherwise
	starts := 0
	for _, g := range p.Repo {
		hs := loopHeaders(g)
		for _, b := range g.Blocks {
			for _, i2 := range b.Instrs {
				ci, isCall := i2.(ssa.CallInstruction)
				if !isCall {
					continue
				}
				target := ci.Common().StaticCallee()
				if mc, isMC := ci.Common().Value.(*ssa.MakeClosure); isMC {
					target, _ = mc.Fn.(*ssa.Function)
				}
				if target != fn {
					continue
				}
				if _, isGo := i2.(*ssa.Go); !isGo {
					return false // also called synchronously
				}
				for _, h := range hs {
					if loopBlock(b, h) || b == h {
						return false // started in a loop: several instances
					}
				}
				starts++
			}
		}
	}
	if starts != 1 {
		return false
	}
	// 2. before the body calls anything
	for _, b := range fn.Blocks {
		for _, i2 := range b.Instrs {
			ci, isCall := i2.(ssa.CallInstruction)
			if !isCall {
				continue
			}
			if _, isBuiltin := ci.Common().Value.(*ssa.Builtin); isBuiltin {
				continue
			}
			if !su.Dominates(st, i2) {
				return false
			}
		}
	}
	// 3. every other access is under a mutex
	for _, g := range p.Repo {
		for _, b := range g.Blocks {
			for _, i2 := range b.Instrs {
				fa2, isFA := i2.(*ssa.FieldAddr)
				if !isFA || fa2.Field != fa.Field || su.FieldOwner(fa2) != owner {
					continue
				}
				if g == fn {
					continue
				}
				for _, ref := range *fa2.Referrers() {
					if !e4.LockedAt(ref) {
						return false
					}
				}
			}
		}
	}
	return true
}
