package props

import (
	"fmt"
	"sort"
	"strings"

	"gedverif/internal/cg"
	"gedverif/internal/e2"
	"gedverif/internal/load"
)

func init() {
	debugHooks["taint"] = func(p *load.Prog, parts []string) {
		g := cg.New(p, false)
		cfg := e2.Config{SourceCell: func(cell string) (string, bool) { l, ok := fileTextCells[cell]; return l, ok }}
		a := e2.New(p, g, cfg)
		var cells []string
		for c, why := range a.Taint {
			if len(parts) < 2 || strings.Contains(c, parts[1]) {
				cells = append(cells, c+"  <= "+why)
			}
		}
		sort.Strings(cells)
		for _, c := range cells {
			fmt.Println(c)
		}
		if len(parts) > 2 {
			fn := lookupFunc(p, parts[2], parts[3])
			s := a.Sum[fn]
			fmt.Println("summary of", fn, "res:", s.Res)
			for _, e := range s.Open {
				fmt.Println("  open", e.Kind, e.Cell, e.Deps, p.Pos(e.Instr.Pos()))
			}
		}
	}
}
