package props

import (
	"fmt"
	"go/token"
	"go/types"
	"regexp"
	"sort"
	"strings"

	"gedverif/internal/absint"
	"gedverif/internal/load"
	"gedverif/internal/oblig"
	"gedverif/internal/relang"
	"gedverif/internal/su"

	"golang.org/x/tools/go/ssa"
)

// nodeKinds lists the concrete node struct types of the root package: named
// struct types T such that *T implements gedcom.Node.
func nodeKinds(p *load.Prog) []*types.Named {
	pk := p.ByPath[load.PkgRoot]
	nodeObj := pk.Types.Scope().Lookup("Node")
	if nodeObj == nil {
		return nil
	}
	iface, _ := nodeObj.Type().Underlying().(*types.Interface)
	if iface == nil {
		return nil
	}
	var out []*types.Named
	for _, n := range pk.Types.Scope().Names() {
		tn, ok := pk.Types.Scope().Lookup(n).(*types.TypeName)
		if !ok || tn.IsAlias() {
			continue
		}
		named, ok := tn.Type().(*types.Named)
		if !ok {
			continue
		}
		if _, isStruct := named.Underlying().(*types.Struct); !isStruct {
			continue
		}
		if types.Implements(types.NewPointer(named), iface) {
			out = append(out, named)
		}
	}
	sort.Slice(out, func(i, j int) bool { return out[i].Obj().Name() < out[j].Obj().Name() })
	return out
}

// src describes where a constructor's SimpleNode field value comes from.
type src struct {
	kind   string // "param", "global", "const", "unknown"
	param  int
	global *ssa.Global
	konst  string
}

func (s src) String() string {
	switch s.kind {
	case "param":
		return fmt.Sprintf("param#%d", s.param)
	case "global":
		return "var " + s.global.Name()
	case "const":
		return fmt.Sprintf("%q", s.konst)
	}
	return "unknown"
}

func valueSrc(fn *ssa.Function, v ssa.Value) src {
	v = su.Strip(v)
	if pr, ok := v.(*ssa.Parameter); ok {
		for i, q := range fn.Params {
			if q == pr {
				return src{kind: "param", param: i}
			}
		}
	}
	if g := su.GlobalLoaded(v); g != nil {
		return src{kind: "global", global: g}
	}
	if s, ok := su.ConstString(v); ok {
		return src{kind: "const", konst: s}
	}
	return src{kind: "unknown"}
}

// ctorSummary: for a constructor function, the sources of the tag, value and
// pointer fields of the SimpleNode it builds.
type ctorSummary struct{ tag, value, pointer src }

func simpleNodeCtorSummary(p *load.Prog, fn *ssa.Function, memo map[*ssa.Function]*ctorSummary, depth int) *ctorSummary {
	if s, ok := memo[fn]; ok {
		return s
	}
	memo[fn] = nil
	if fn.Blocks == nil || depth > 4 {
		return nil
	}
	// base case: allocates a SimpleNode and stores its tag/value/pointer fields
	sum := &ctorSummary{}
	found := 0
	for _, b := range fn.Blocks {
		for _, ins := range b.Instrs {
			st, ok := ins.(*ssa.Store)
			if !ok {
				continue
			}
			fa, ok := st.Addr.(*ssa.FieldAddr)
			if !ok {
				continue
			}
			if _, isAlloc := fa.X.(*ssa.Alloc); !isAlloc {
				continue
			}
			owner := su.FieldOwner(fa)
			if owner == nil || owner.Obj().Name() != "SimpleNode" || owner.Obj().Pkg().Path() != load.PkgRoot {
				continue
			}
			switch su.FieldName(fa) {
			case "tag":
				sum.tag = valueSrc(fn, st.Val)
				found++
			case "value":
				sum.value = valueSrc(fn, st.Val)
				found++
			case "pointer":
				sum.pointer = valueSrc(fn, st.Val)
				found++
			}
		}
	}
	if found == 3 {
		memo[fn] = sum
		return sum
	}
	// recursive case: exactly one call to a function with a summary
	var res *ctorSummary
	n := 0
	for _, c := range su.Calls(fn) {
		callee := c.Common().StaticCallee()
		if callee == nil || !p.InRepo(callee) || callee == fn {
			continue
		}
		cs := simpleNodeCtorSummary(p, callee, memo, depth+1)
		if cs == nil {
			continue
		}
		n++
		comp := func(s src) src {
			if s.kind == "param" {
				if s.param < len(c.Common().Args) {
					return valueSrc(fn, c.Common().Args[s.param])
				}
				return src{kind: "unknown"}
			}
			return s
		}
		res = &ctorSummary{tag: comp(cs.tag), value: comp(cs.value), pointer: comp(cs.pointer)}
	}
	if n == 1 {
		memo[fn] = res
		return res
	}
	return nil
}

// C01 decides the structural clauses of the encode/decode round trip.
func C01(p *load.Prog, r *oblig.Run) {
	r.Explanation = "Static agreement of the writer's and the reader's tables. (R01.a) The constant pattern of the regexp whose submatch parseLine uses is folded from the source, " +
		"the roles of its capture groups are resolved by dataflow (which group reaches strconv.Atoi/the returned level, TagFromString, and the value/pointer arguments of the node constructor, incl. the " +
		"[1:len-2] trimming of the pointer group), the groups' languages are checked with regexp/syntax (level: any number of digits; tag: at least [A-Za-z0-9_]+) and the pattern is applied, as a constant, " +
		"to the 400-line covering set of the documented grammar 'level [@ptr@] TAG [value]'. (R01.b) SimpleNode.GEDCOMLine is evaluated abstractly (placeholders for pointer/tag/value, empty and non-empty, " +
		"indent <0, 1 and 2 digits) and the resulting templates must be exactly that grammar. (R01.c) The tag->kind cascade of newNodeWithChildren is extracted from SSA and compared with the tag each kind's " +
		"constructor hard-wires (27 kinds), value/pointer arguments must be the decoder's own value/pointer, the fallback must be the plain node with the same tag/value/pointer and the pointer store must cover every specialised kind. " +
		"(R01.d) The BOM write under HasBOM dominates every node write in Encode, and Decode stores the consumed BOM flag before reading lines. " +
		"(R01.f) Path rule over Encoder.renderNode and Encoder.Encode: every successful path writes node.GEDCOMLine(level) exactly once before a loop that walks all of node.Nodes() in index order, every iteration path recurses into the element once at level+1 (or NoIndent), the loops are only left early with an error; Encode does the same over document.Nodes(). The line value reaches the node constructor from its capture group without passing through a call (R01.a)."
	r.NotDecided = "equality of values, child order and nesting for all forests as a whole (decided here are the structural halves: the encoder's traversal R01.f and the decoder's attach discipline R02.*, which this check runs too); line-break handling."
	r.Assumptions = []string{"regexp/syntax and Go's regexp agree on the extracted constant pattern", "fmt.Sprintf on the extracted constant formats behaves as documented"}
	r.Rule("R01.a", "the line reader's pattern accepts the documented line grammar and parseLine routes each group to the right field", 400)
	r.Rule("R01.b", "the line writer emits exactly 'level [@ptr@] TAG [value]'", 12)
	r.Rule("R01.c", "tag -> specialised kind registry agrees with the tag each kind's constructor hard-wires; value and pointer are passed through", 27)
	c01RegistryInvariant(p, r)
	r.Rule("R01.d", "BOM flag is restored before any node on encode and recorded before any line on decode", 3)

	r.Rule("R01.e", "the decoder's current family is updated for every decoded family line and never reset, so family-role lines the encoder wrote are accepted wherever they appear", 1)
	c01Reader(p, r)
	c01DecodeErrors(p, r)
	c01Writer(p, r)
	c01Registry(p, r)
	c01BOM(p, r)
	c01Family(p, r)
	c01Encoder(p, r)
	c01TagLookup(p, r)
	// the decoder half of the round trip: C02's loop rules (R02.*) are obligations of C01 as well
	c02Rules(p, r)
	c02ReaderStateless(p, r)
}

// c01Family: in Decode, the *FamilyNode handed to parseLine is a loop-carried
// variable. Every value that can flow into it must be the previous value or
// the decoded node asserted to *FamilyNode under a successful comma-ok test,
// and that assertion must be made for every successfully parsed line (it
// dominates every attach call).
func c01Family(p *load.Prog, r *oblig.Run) {
	dec := p.Method(load.PkgRoot, "Decoder", "Decode")
	parse := p.Func(load.PkgRoot, "parseLine")
	o := r.Add("R01.e", "family tracking in Decode", "-", "current-family variable of the decoder")
	if dec == nil || parse == nil {
		o.Unknown("Decode/parseLine not found")
		return
	}
	o.Pos = p.Pos(dec.Pos())
	calls := su.CallsTo(dec, parse)
	if len(calls) != 1 {
		o.Unknown("expected one call of parseLine in Decode")
		return
	}
	var famIdx = -1
	for i, q := range parse.Params {
		if n := load.NamedOf(q.Type()); n != nil && n.Obj().Name() == "FamilyNode" {
			famIdx = i
		}
	}
	if famIdx < 0 {
		o.Unknown("parseLine has no *FamilyNode parameter")
		return
	}
	fam := calls[0].Call.Args[famIdx]
	phi, ok := fam.(*ssa.Phi)
	if !ok {
		o.Unknown("the family passed to parseLine is not a loop-carried variable")
		return
	}
	var node ssa.Value
	for _, ref := range *calls[0].Referrers() {
		if ex, ok := ref.(*ssa.Extract); ok && ex.Index == 0 {
			node = ex
		}
	}
	// collect the values flowing into the variable (through nested phis)
	seen := map[ssa.Value]bool{}
	var leaves []ssa.Value
	var walk func(v ssa.Value)
	walk = func(v ssa.Value) {
		if seen[v] {
			return
		}
		seen[v] = true
		if ph, ok := v.(*ssa.Phi); ok {
			for _, e := range ph.Edges {
				walk(e)
			}
			return
		}
		leaves = append(leaves, v)
	}
	walk(phi)
	nilEdges, asserts := 0, 0
	var assertIns *ssa.TypeAssert
	for _, l := range leaves {
		switch x := l.(type) {
		case *ssa.Const:
			if x.Value == nil {
				nilEdges++
				continue
			}
		case *ssa.Extract:
			if ta, ok := x.Tuple.(*ssa.TypeAssert); ok && ta.CommaOk && x.Index == 0 && ta.X == node {
				// the extracted value may only flow in over the edge on which ok is true
				okGuard := false
				for _, ref := range *ta.Referrers() {
					if ex2, ok := ref.(*ssa.Extract); ok && ex2.Index == 1 {
						for _, r2 := range *ex2.Referrers() {
							if iff, ok := r2.(*ssa.If); ok {
								// the phi edge carrying x must come from the true successor's region
								tb := iff.Block().Succs[0]
								for _, ph := range phisUsing(dec, x) {
									for i, e := range ph.Edges {
										if e == ssa.Value(x) && (ph.Block().Preds[i] == tb || tb.Dominates(ph.Block().Preds[i])) {
											okGuard = true
										}
									}
								}
							}
						}
					}
				}
				if !okGuard {
					o.Fail("the decoder's current family is overwritten with the result of a failed type assertion: a record that is not a family resets it to nil, so HUSB/WIFE/CHIL lines the encoder wrote after such a record are rejected ('cannot create Husband without a family')")
					return
				}
				asserts++
				assertIns = ta
				continue
			}
		}
		o.Fail("a value other than the decoded family node flows into the decoder's current family: " + l.String())
		return
	}
	if asserts == 0 || nilEdges > 1 {
		o.Fail(fmt.Sprintf("the decoder's current family is not maintained from the decoded nodes (%d assertion edges, %d nil edges)", asserts, nilEdges))
		return
	}
	// the assertion must be evaluated for every parsed line: it dominates every attach (AddNode) call
	for _, c := range su.Calls(dec) {
		name := ""
		if c.Common().IsInvoke() {
			name = c.Common().Method.Name()
		} else if cal := c.Common().StaticCallee(); cal != nil {
			name = cal.Name()
		}
		if name == "AddNode" && !su.Dominates(assertIns, c) {
			o.Fail("the family assertion is not made for every decoded line (it does not dominate the attach at " + p.Pos(c.Pos()) + "): a FAM line at that position does not become the current family")
			return
		}
	}
	o.OK("updated from every decoded *FamilyNode under its ok test; never reset")
}

func phisUsing(fn *ssa.Function, v ssa.Value) []*ssa.Phi {
	var out []*ssa.Phi
	for _, b := range fn.Blocks {
		for _, ins := range b.Instrs {
			if ph, ok := ins.(*ssa.Phi); ok {
				for _, e := range ph.Edges {
					if e == v {
						out = append(out, ph)
						break
					}
				}
			}
		}
	}
	return out
}

type lineGroups struct{ level, pointer, tag, value int }

// resolveLineGroups finds by dataflow which submatch group of parseLine feeds
// the level, pointer, tag and value.
func resolveLineGroups(p *load.Prog, parse *ssa.Function, sub *ssa.Call) (lineGroups, string) {
	g := lineGroups{}
	newNode := p.Func(load.PkgRoot, "newNode")
	tagFrom := p.Func(load.PkgRoot, "TagFromString")
	if newNode == nil || tagFrom == nil {
		return g, "newNode/TagFromString not found"
	}
	calls := su.CallsTo(parse, newNode)
	if len(calls) != 1 {
		return g, fmt.Sprintf("expected exactly one call of newNode in parseLine, found %d", len(calls))
	}
	nn := calls[0]
	// newNode(document, family, tag, value, pointer): locate by parameter types/names of the callee
	idx := map[string]int{}
	for i, prm := range newNode.Params {
		idx[prm.Name()] = i
	}
	ti, ok1 := idx["tag"]
	vi, ok2 := idx["value"]
	pi, ok3 := idx["pointer"]
	if !ok1 || !ok2 || !ok3 {
		return g, "newNode no longer has parameters tag, value, pointer"
	}
	// tag
	// the tag: TagFromString(group) - on every way the value can come about (a phi of several lookups is a lookup
	// under a rewritten spelling on one of its edges)
	tagVals := []ssa.Value{nn.Call.Args[ti]}
	if ph, isPhi := nn.Call.Args[ti].(*ssa.Phi); isPhi {
		tagVals = ph.Edges
	}
	var base ssa.Value
	var k int64
	var ok bool
	for _, tv := range tagVals {
		tc, isCall := tv.(*ssa.Call)
		// a one-parameter helper whose every return is TagFromString of its unmodified parameter stands for it
		if isCall && tc.Call.StaticCallee() != tagFrom {
			if h := tc.Call.StaticCallee(); h != nil && p.IsRepoFunc(h) && len(h.Blocks) > 0 && len(h.Params) == 1 && len(tc.Call.Args) == 1 {
				all, n := true, 0
				for _, hb := range h.Blocks {
					if hr, isRet := hb.Instrs[len(hb.Instrs)-1].(*ssa.Return); isRet && len(hr.Results) == 1 {
						n++
						ic, isC := hr.Results[0].(*ssa.Call)
						if !isC || ic.Call.StaticCallee() != tagFrom || ic.Call.Args[0] != ssa.Value(h.Params[0]) {
							all = false
						}
					}
				}
				if all && n > 0 {
					b0, k0, ok0 := su.ElemOf(tc.Call.Args[0])
					if ok0 && b0 == ssa.Value(sub) {
						if g.tag != 0 && g.tag != int(k0) {
							return g, "the tag is taken from two different groups"
						}
						g.tag = int(k0)
						continue
					}
				}
			}
		}
		if !isCall || tc.Call.StaticCallee() != tagFrom {
			return g, "tag argument of newNode is not TagFromString(group)"
		}
		b0, k0, ok0 := su.ElemOf(tc.Call.Args[0])
		if !ok0 || b0 != ssa.Value(sub) {
			if vc, isC := tc.Call.Args[0].(*ssa.Call); isC {
				for _, a := range vc.Call.Args {
					if b2, k2, ok2 := su.ElemOf(a); ok2 && b2 == ssa.Value(sub) {
						name := "a function value"
						if cal := vc.Call.StaticCallee(); cal != nil {
							name = cal.String()
						}
						return g, fmt.Sprintf("TAG:group %d passes through %s before the tag is looked up", k2, name)
					}
				}
			}
			return g, "TagFromString is not applied to a submatch group"
		}
		if g.tag != 0 && g.tag != int(k0) {
			return g, "the tag is taken from two different groups"
		}
		g.tag = int(k0)
	}
	_, _, _ = base, k, ok
	// value
	base, k, ok = su.ElemOf(nn.Call.Args[vi])
	if !ok || base != ssa.Value(sub) {
		// a call applied to a submatch group: the value is rewritten between the pattern and the constructor
		if vc, isCall := nn.Call.Args[vi].(*ssa.Call); isCall {
			for _, a := range vc.Call.Args {
				if b2, k2, ok2 := su.ElemOf(a); ok2 && b2 == ssa.Value(sub) {
					name := "a function value"
					if cal := vc.Call.StaticCallee(); cal != nil {
						name = cal.String()
					}
					return g, fmt.Sprintf("VALUE:group %d passes through %s before it reaches the node constructor", k2, name)
				}
			}
		}
		return g, "value argument of newNode is not a submatch group"
	}
	g.value = int(k)
	// pointer: "" or group[kp][1 : len(group[kp])-2], chosen by a phi in parseLine or computed by a small helper
	// that receives the group
	var analyse func(v ssa.Value, groupOf func(ssa.Value) (int64, bool), depth int) string
	analyse = func(v ssa.Value, groupOf func(ssa.Value) (int64, bool), depth int) string {
		if depth > 3 {
			return "pointer argument of newNode is not the optional trimmed group"
		}
		if s, ok := su.ConstString(v); ok {
			if s != "" {
				return "pointer default is not the empty string"
			}
			return ""
		}
		switch x := v.(type) {
		case *ssa.Phi:
			for _, e := range x.Edges {
				if why := analyse(e, groupOf, depth); why != "" {
					return why
				}
			}
			return ""
		case *ssa.Slice:
			k, ok := groupOf(x.X)
			if !ok {
				return "pointer is not a slice of a submatch group"
			}
			g.pointer = int(k)
			lo, okLo := su.ConstInt(x.Low)
			hiOK := false
			if bo, ok := x.High.(*ssa.BinOp); ok && bo.Op == token.SUB {
				if c, ok := su.ConstInt(bo.Y); ok && c == 2 {
					if ln, ok := bo.X.(*ssa.Call); ok {
						if bi, ok := ln.Call.Value.(*ssa.Builtin); ok && bi.Name() == "len" {
							if k2, ok := groupOf(ln.Call.Args[0]); ok && k2 == k {
								hiOK = true
							}
						}
					}
				}
			}
			if !okLo || lo != 1 || !hiOK {
				return "TRIM"
			}
			return ""
		case *ssa.Call:
			cal := x.Call.StaticCallee()
			if cal != nil && cal.Pkg != nil && cal.Pkg.Pkg.Path() == "strings" && strings.HasPrefix(cal.Name(), "Trim") {
				// literal affix removal (TrimPrefix/TrimSuffix of constants) composes to a fixed cut;
				// character-set trimming (Trim, TrimLeft, TrimRight, TrimSpace, Trim*Func) also eats
				// characters of the name itself, which the pointer group admits at both ends
				var cur ssa.Value = x
				pre, suf := "", ""
				for {
					c2, ok := cur.(*ssa.Call)
					if !ok {
						break
					}
					cal2 := c2.Call.StaticCallee()
					if cal2 == nil || cal2.Pkg == nil || cal2.Pkg.Pkg.Path() != "strings" {
						break
					}
					if cal2.Name() == "TrimPrefix" || cal2.Name() == "TrimSuffix" {
						lit, okc := su.ConstString(c2.Call.Args[1])
						if !okc {
							return "pointer argument of newNode is not the optional trimmed group"
						}
						if cal2.Name() == "TrimPrefix" {
							pre = pre + lit // applied after the inner cuts: lies deeper in the text
						} else {
							suf = lit + suf
						}
						cur = c2.Call.Args[0]
						continue
					}
					if strings.HasPrefix(cal2.Name(), "Trim") {
						if k, ok := groupOf(c2.Call.Args[0]); ok {
							g.pointer = int(k)
						}
						return "TRIM"
					}
					break
				}
				k, ok := groupOf(cur)
				if !ok {
					return "pointer is not a cut of a submatch group"
				}
				g.pointer = int(k)
				// inner cuts are applied first: reverse the accumulation order
				if pre != "@" || suf != "@ " {
					return "TRIM"
				}
				return ""
			}
			if cal == nil || !p.IsRepoFunc(cal) || len(cal.Blocks) == 0 || len(x.Call.Args) != 1 || len(cal.Params) != 1 {
				return "pointer argument of newNode is not the optional trimmed group"
			}
			k, ok := groupOf(x.Call.Args[0])
			if !ok {
				return "pointer helper is not applied to a submatch group"
			}
			prm := cal.Params[0]
			inner := func(v2 ssa.Value) (int64, bool) {
				if v2 == ssa.Value(prm) {
					return k, true
				}
				return 0, false
			}
			n := 0
			for _, b := range cal.Blocks {
				if ret, ok := b.Instrs[len(b.Instrs)-1].(*ssa.Return); ok && len(ret.Results) == 1 {
					n++
					if why := analyse(ret.Results[0], inner, depth+1); why != "" {
						return why
					}
				}
			}
			if n == 0 {
				return "pointer helper never returns"
			}
			return ""
		}
		return "pointer argument of newNode is not the optional trimmed group"
	}
	outer := func(v ssa.Value) (int64, bool) {
		base, k, ok := su.ElemOf(v)
		if !ok || base != ssa.Value(sub) {
			return 0, false
		}
		return k, true
	}
	if why := analyse(nn.Call.Args[pi], outer, 0); why != "" {
		return g, why
	}
	if g.pointer == 0 {
		return g, "no pointer group found"
	}
	// level: Atoi(group) whose first result is returned as the int result
	for _, c := range su.Calls(parse) {
		if su.CalleeIs(c.Common(), "strconv", "Atoi") {
			base, k, ok := su.ElemOf(c.Common().Args[0])
			if ok && base == ssa.Value(sub) {
				g.level = int(k)
			}
		}
	}
	// a one-parameter helper that converts its parameter with strconv.Atoi (parseLevel(s))
	for _, c := range su.Calls(parse) {
		h := c.Common().StaticCallee()
		if g.level != 0 || h == nil || !p.IsRepoFunc(h) || len(h.Blocks) == 0 || len(h.Params) != 1 || len(c.Common().Args) != 1 {
			continue
		}
		conv := false
		for _, hc := range su.Calls(h) {
			if su.CalleeIs(hc.Common(), "strconv", "Atoi") && hc.Common().Args[0] == ssa.Value(h.Params[0]) {
				conv = true
			}
		}
		if base, k, ok := su.ElemOf(c.Common().Args[0]); conv && ok && base == ssa.Value(sub) {
			g.level = int(k)
		}
	}
	for _, c := range su.Calls(parse) {
		if su.CalleeIs(c.Common(), "strconv", "ParseInt") || su.CalleeIs(c.Common(), "strconv", "ParseUint") {
			base, k, ok := su.ElemOf(c.Common().Args[0])
			if ok && base == ssa.Value(sub) {
				g.level = int(k)
				if b, isK := su.ConstInt(c.Common().Args[1]); !isK || b != 10 {
					return g, "LEVELBASE"
				}
			}
		}
	}
	if g.level == 0 {
		return g, "no strconv.Atoi of a submatch group found for the level"
	}
	return g, ""
}

func c01Reader(p *load.Prog, r *oblig.Run) {
	parse := p.Func(load.PkgRoot, "parseLine")
	if parse == nil {
		r.Add("R01.a", "anchor parseLine", "-", "anchor").Unknown("parseLine not found")
		return
	}
	pat, g, sub, err := regexpUsedIn(p, parse, "FindStringSubmatch")
	if err != nil {
		r.Add("R01.a", "line pattern", "-", "pattern used by parseLine").Unknown(err.Error())
		return
	}
	pos := p.Pos(g.Pos())
	r.Extra["line_pattern"] = pat
	lg, why := resolveLineGroups(p, parse, sub)
	if why == "TRIM" {
		r.Add("R01.a", "pointer trimming", p.Pos(parse.Pos()), "trimming of the pointer group").Fail("parseLine no longer trims exactly the leading '@' and the trailing '@ ' from the pointer group ([1:len-2] or the equivalent literal prefix/suffix removal): trimming by a character set also removes '@'/space characters that belong to the name, which the pattern admits and the writer emits")
		return
	}
	if why == "LEVELBASE" {
		r.Add("R01.a", "level base", p.Pos(parse.Pos()), "the level group is read as a decimal number").Fail("parseLine converts the level group with a base other than 10 (base 0 reads a leading 0 as octal and 0x as hexadecimal): the level pattern admits leading zeros, so '010 TAG' is read as level 8 and '08 TAG' fails to convert and silently becomes level 0 - the line is attached under the wrong parent")
		return
	}
	if strings.HasPrefix(why, "TAG:") {
		r.Add("R01.a", "line tag", p.Pos(parse.Pos()), "the tag group is looked up as written").Fail("the tag of a line is rewritten before it is looked up (" + strings.TrimPrefix(why, "TAG:") + "): the writer emits tags verbatim, so a node whose tag is another spelling of a registered tag ('note', 'Date') comes back as a different tag and a different node kind")
		return
	}
	if strings.HasPrefix(why, "VALUE:") {
		r.Add("R01.a", "line value", p.Pos(parse.Pos()), "the value group reaches the node constructor unchanged").Fail("the line value is rewritten while it is read (" + strings.TrimPrefix(why, "VALUE:") + "): the writer emits values verbatim, so a value the rewrite changes does not survive encode/decode")
		return
	}
	if why != "" {
		r.Add("R01.a", "group roles", p.Pos(parse.Pos()), "roles of the capture groups").Unknown(why)
		return
	}
	r.Extra["line_groups"] = fmt.Sprintf("level=%d pointer=%d tag=%d value=%d", lg.level, lg.pointer, lg.tag, lg.value)
	// group facts
	if sub, err := relang.Group(pat, lg.level); err == nil {
		min, unb, cl, ok := relang.IsRepeatOfClass(sub)
		o := r.Add("R01.a", "level group", pos, "language of the level group")
		switch {
		case !ok:
			o.Unknown("level group is not a repetition of a character class")
		case !unb:
			o.Fail("the level group admits a bounded number of digits only: the encoder writes level 10 as '10 TAG', which this pattern cannot read back")
		case min < 1 || !cl('0') || !cl('9') || cl('a') || cl(' '):
			o.Fail("the level group is not one-or-more decimal digits")
		default:
			o.OK("one or more digits")
		}
	}
	if sub, err := relang.Group(pat, lg.tag); err == nil {
		min, unb, cl, ok := relang.IsRepeatOfClass(sub)
		o := r.Add("R01.a", "tag group", pos, "language of the tag group")
		switch {
		case !ok:
			o.Unknown("tag group is not a repetition of a character class")
		case !unb || min != 1:
			o.Fail("the tag group does not admit tags of every length >= 1")
		default:
			miss := ""
			for _, c := range "AZaz09_" {
				if !cl(c) {
					miss += string(c)
				}
			}
			if miss != "" || cl(' ') || cl('@') {
				o.Fail("the tag group's character class is not letters, digits and underscore (missing " + miss + ")")
			} else {
				o.OK("[A-Za-z0-9_]+")
			}
		}
	}
	if sub, err := relang.Group(pat, lg.pointer); err == nil {
		// parseLine cuts the cross-reference name out of this group with the fixed slice [1 : len-2]
		pre, suf, ok := relang.FixedAffixes(sub)
		o := r.Add("R01.a", "pointer group", pos, "language of the pointer group against the [1:len-2] trimming")
		switch {
		case !ok:
			o.Unknown("pointer group is not literal-prefix, name, literal-suffix")
		case pre != 1 || suf != 2:
			o.Fail(fmt.Sprintf("the pointer group has a literal prefix of %d byte(s) and a literal suffix of %d byte(s) around its variable part, but parseLine removes exactly 1 and 2: the pointer of a line the pattern accepts is cut at the wrong place", pre, suf))
		default:
			o.OK("'@' name '@ ' - the fixed slice removes exactly the delimiters")
		}
	}
	re := regexp.MustCompile(pat)
	levels := []string{"0", "9", "10", "99"}
	ptrs := []string{"", "P1", "a b", "I-1.x"}
	tags := []string{"A", "NAME", "_UID", "1", "X_9"}
	vals := []string{"", "x", "@I1@", "10 NAME x", "a  b"}
	for _, l := range levels {
		for _, pt := range ptrs {
			for _, t := range tags {
				for _, v := range vals {
					line := l + " "
					if pt != "" {
						line += "@" + pt + "@ "
					}
					line += t
					if v != "" {
						line += " " + v
					}
					o := r.Add("R01.a", "line "+line, pos, "grammar line "+line)
					m := re.FindStringSubmatch(line)
					if m == nil {
						o.Fail("the reader's pattern rejects the line " + line + " that the documented grammar (and the encoder) produce")
						continue
					}
					gotPtr := ""
					if pg := m[lg.pointer]; pg != "" {
						if len(pg) < 3 {
							o.Fail("pointer group captured " + pg)
							continue
						}
						gotPtr = pg[1 : len(pg)-2]
					}
					if m[lg.level] != l || gotPtr != pt || m[lg.tag] != t || m[lg.value] != v {
						o.Fail(fmt.Sprintf("line %q is read as level=%q pointer=%q tag=%q value=%q", line, m[lg.level], gotPtr, m[lg.tag], m[lg.value]))
						continue
					}
					o.OK("read back as written")
				}
			}
		}
	}
	// the separator between the tag and the value is optional in the reader's grammar: a tag that is followed
	// directly by a byte that is neither a word character nor a space ("1 NAME\tJohn", "2 DATE-1900", a mutated
	// separator) starts the value at that byte. A pattern that demands the space rejects such streams in strict
	// mode and, with AllowMultiLine, glues the line onto the previous value (the node is lost).
	for _, l := range []string{"0", "1", "12"} {
		for _, t := range []string{"NAME", "_X1"} {
			for _, v := range []string{"\tJohn", "-1900", "/x/", "\xe9t\xe9"} {
				line := l + " " + t + v
				o := r.Add("R01.a", fmt.Sprintf("line %q", line), pos, "tag followed directly by a non-word byte")
				m := re.FindStringSubmatch(line)
				switch {
				case m == nil:
					o.Fail(fmt.Sprintf("the reader's pattern rejects the line %q: the separator after the tag is optional in the line grammar (the value starts at the first byte that cannot belong to the tag)", line))
				case m[lg.level] != l || m[lg.tag] != t || m[lg.value] != v:
					o.Fail(fmt.Sprintf("line %q is read as level=%q tag=%q value=%q", line, m[lg.level], m[lg.tag], m[lg.value]))
				default:
					o.OK("value starts right after the tag")
				}
			}
		}
	}
}

func c01Writer(p *load.Prog, r *oblig.Run) {
	gl := p.Method(load.PkgRoot, "SimpleNode", "GEDCOMLine")
	if gl == nil {
		r.Add("R01.b", "anchor GEDCOMLine", "-", "anchor").Unknown("SimpleNode.GEDCOMLine not found")
		return
	}
	pos := p.Pos(gl.Pos())
	sn := p.ByPath[load.PkgRoot].Types.Scope().Lookup("SimpleNode")
	tagT := p.ByPath[load.PkgRoot].Types.Scope().Lookup("Tag")
	if sn == nil || tagT == nil {
		r.Add("R01.b", "anchor types", "-", "anchor").Unknown("SimpleNode/Tag types not found")
		return
	}
	snS := sn.Type().Underlying().(*types.Struct)
	tagS := tagT.Type().Underlying().(*types.Struct)
	mk := func(st *types.Struct, vals map[string]absint.Value) *absint.Struct {
		s := &absint.Struct{F: make([]absint.Value, st.NumFields())}
		for i := 0; i < st.NumFields(); i++ {
			if v, ok := vals[st.Field(i).Name()]; ok {
				s.F[i] = v
			} else {
				s.F[i] = absint.Unknown{Why: "field " + st.Field(i).Name() + " outside the model"}
			}
		}
		return s
	}
	const P, T, V = "%s.%d", "", "%v 100%% %"
	for _, indent := range []int64{-1, 0, 7, 10, 99} {
		for _, ptr := range []string{"", P} {
			for _, val := range []string{"", V} {
				node := mk(snS, map[string]absint.Value{
					"tag":     mk(tagS, map[string]absint.Value{"tag": T, "name": "", "isKnown": true, "options": int64(0), "sortValue": int64(0)}),
					"value":   val,
					"pointer": ptr,
				})
				m := &absint.Machine{Prim: absint.Chain(absint.StringLib, absint.BufferLib)}
				res, err := m.Call(gl, []absint.Value{&absint.Ptr{C: &absint.Cell{V: node}}, indent})
				key := fmt.Sprintf("indent=%d pointer=%v value=%v", indent, ptr != "", val != "")
				o := r.Add("R01.b", key, pos, "line template for "+key)
				if err != nil {
					o.Unknown("abstract evaluation of GEDCOMLine failed: " + err.Error())
					continue
				}
				got, ok := res.(string)
				if !ok {
					o.Unknown(fmt.Sprintf("GEDCOMLine folded to %v", res))
					continue
				}
				want := ""
				if indent >= 0 {
					want = fmt.Sprintf("%d ", indent)
				}
				if ptr != "" {
					want += "@" + ptr + "@ "
				}
				want += T
				if val != "" {
					want += " " + val
				}
				show := func(s string) string {
					return strings.NewReplacer(P, "<pointer>", T, "<TAG>", V, "<value>", "", "<tag name>").Replace(s)
				}
				if got == want {
					o.OK("template " + show(got))
				} else {
					o.Fail(fmt.Sprintf("the line writer emits %q where the grammar requires %q", show(got), show(want)))
				}
			}
		}
	}
}

func c01Registry(p *load.Prog, r *oblig.Run) {
	nn := p.Func(load.PkgRoot, "newNodeWithChildren")
	if nn == nil {
		r.Add("R01.c", "anchor newNodeWithChildren", "-", "anchor").Unknown("newNodeWithChildren not found")
		return
	}
	pos := p.Pos(nn.Pos())
	prm := map[string]*ssa.Parameter{}
	for _, q := range nn.Params {
		prm[q.Name()] = q
	}
	tagP, valueP, pointerP := prm["tag"], prm["value"], prm["pointer"]
	if tagP == nil || valueP == nil || pointerP == nil {
		r.Add("R01.c", "anchor parameters", pos, "anchor").Unknown("newNodeWithChildren no longer has parameters tag, value, pointer")
		return
	}
	// case tags per body block, in cascade order
	type caseT struct {
		g    *ssa.Global
		body *ssa.BasicBlock
		ord  int
	}
	var cases []caseT
	seenTag := map[*ssa.Global]int{}
	// follow the cascade from the entry block so the order is the evaluation order
	b := nn.Blocks[0]
	visited := map[*ssa.BasicBlock]bool{}
	for b != nil && !visited[b] {
		visited[b] = true
		iff, ok := b.Instrs[len(b.Instrs)-1].(*ssa.If)
		if !ok {
			break
		}
		bo, ok := iff.Cond.(*ssa.BinOp)
		if !ok || bo.Op != token.EQL {
			break
		}
		var g *ssa.Global
		if bo.X == ssa.Value(tagP) {
			g = su.GlobalLoaded(bo.Y)
		} else if bo.Y == ssa.Value(tagP) {
			g = su.GlobalLoaded(bo.X)
		}
		if g == nil {
			break
		}
		cases = append(cases, caseT{g, b.Succs[0], len(cases)})
		seenTag[g]++
		b = b.Succs[1]
	}
	if len(cases) < 20 {
		r.Add("R01.c", "cascade", pos, "tag cascade").Unknown(fmt.Sprintf("only %d 'tag == T' cases could be extracted from newNodeWithChildren", len(cases)))
		return
	}
	r.Extra["registry_cases"] = len(cases)
	for g, n := range seenTag {
		if n > 1 {
			r.Add("R01.c", "duplicate case "+g.Name(), pos, "tag listed once").Fail("tag " + g.Name() + " is tested twice in the kind cascade; the second case is dead")
		}
	}
	memo := map[*ssa.Function]*ctorSummary{}
	kindOfTag := map[*ssa.Global]*types.Named{}
	covered := map[*types.Named][]string{}
	noValue := map[string]bool{"FamilyNode": true, "IndividualNode": true}
	for _, c := range cases {
		// constructor call in the body block: the call whose result is converted to Node and jumps to the join
		var ctor *ssa.Call
		for _, ins := range c.body.Instrs {
			call, ok := ins.(*ssa.Call)
			if !ok {
				continue
			}
			callee := call.Call.StaticCallee()
			if callee == nil {
				continue
			}
			if named := load.NamedOf(call.Type()); named != nil {
				if _, isPtr := call.Type().(*types.Pointer); isPtr && named.Obj().Pkg() != nil && named.Obj().Pkg().Path() == load.PkgRoot {
					ctor = call
				}
			}
		}
		key := "case " + c.g.Name()
		if ctor == nil {
			r.Add("R01.c", key, p.Pos(c.body.Instrs[0].Pos()), "constructor for "+c.g.Name()).Unknown("no constructor call found in the case body")
			continue
		}
		named := load.NamedOf(ctor.Type())
		kindOfTag[c.g] = named
		callee := ctor.Call.StaticCallee()
		sum := simpleNodeCtorSummary(p, callee, memo, 0)
		o := r.Add("R01.c", key, p.Pos(ctor.Pos()), fmt.Sprintf("tag %s -> %s via %s", c.g.Name(), named.Obj().Name(), callee.Name()))
		if sum == nil {
			o.Unknown("cannot summarise which tag/value/pointer " + callee.Name() + " gives its SimpleNode")
			continue
		}
		resolve := func(s src) src {
			if s.kind == "param" && s.param < len(ctor.Call.Args) {
				return valueSrc(nn, ctor.Call.Args[s.param])
			}
			return s
		}
		tg, vl, pt := resolve(sum.tag), resolve(sum.value), resolve(sum.pointer)
		tagIdx, valIdx, ptrIdx := -1, -1, -1
		for i, q := range nn.Params {
			switch q {
			case tagP:
				tagIdx = i
			case valueP:
				valIdx = i
			case pointerP:
				ptrIdx = i
			}
		}
		switch {
		case tg.kind == "global" && tg.global != c.g:
			o.Fail(fmt.Sprintf("a line tagged %s is decoded into a %s, whose constructor hard-wires the tag %s: the node re-encodes with a different tag", c.g.Name(), named.Obj().Name(), tg.global.Name()))
		case tg.kind == "param" && tg.param != tagIdx:
			o.Fail("the constructor's tag is not the decoded tag")
		case tg.kind != "global" && tg.kind != "param":
			o.Unknown("tag source of the constructor is " + tg.String())
		case vl.kind == "const" && vl.konst == "" && noValue[named.Obj().Name()]:
			covered[named] = append(covered[named], c.g.Name())
			o.OK("tag matches; record kind carries no value (documented)")
		case !(vl.kind == "param" && vl.param == valIdx):
			o.Fail(fmt.Sprintf("the value given to %s is %s, not the decoded value: the value is lost or replaced on decode", named.Obj().Name(), vl))
		case !((pt.kind == "param" && pt.param == ptrIdx) || (pt.kind == "const" && pt.konst == "")):
			o.Fail(fmt.Sprintf("the pointer given to %s is %s, not the decoded pointer", named.Obj().Name(), pt))
		default:
			covered[named] = append(covered[named], c.g.Name())
			o.OK("tag, value and pointer pass through")
		}
	}
	// every concrete kind is produced
	kinds := nodeKinds(p)
	nk := 0
	for _, k := range kinds {
		n := k.Obj().Name()
		if n == "SimpleNode" || n == "simpleDocumentNode" {
			continue
		}
		nk++
		r.Check("R01.c", "kind "+n, p.Pos(k.Obj().Pos()), "kind "+n+" is produced by the decoder", len(covered[k]) > 0,
			"from "+strings.Join(covered[k], ","), "no tag is decoded into the specialised kind "+n+": a document holding such a node does not come back with the same kind")
	}
	r.Extra["node_kinds"] = nk
	// fallback + pointer store
	newSimple := p.Func(load.PkgRoot, "newSimpleNode")
	fb := su.CallsTo(nn, newSimple)
	o := r.Add("R01.c", "fallback plain node", pos, "unknown tags become plain nodes with the same tag/value/pointer")
	if len(fb) != 1 {
		o.Unknown(fmt.Sprintf("expected one fallback call of newSimpleNode, found %d", len(fb)))
	} else {
		a := fb[0].Call.Args
		if len(a) >= 3 && a[0] == ssa.Value(tagP) && a[1] == ssa.Value(valueP) && a[2] == ssa.Value(pointerP) {
			o.OK("newSimpleNode(tag, value, pointer, ...)")
		} else {
			o.Fail("the fallback for unregistered tags does not build the plain node from the decoded tag, value and pointer in that order")
		}
	}
	// pointer store covering every specialised node: a store of param pointer into field `pointer` of SimpleNode
	// in a block that is reached whenever the fallback is not taken.
	o = r.Add("R01.c", "pointer store", pos, "the decoded pointer is stored on every specialised node")
	var store *ssa.Store
	for _, bb := range nn.Blocks {
		for _, ins := range bb.Instrs {
			if st, ok := ins.(*ssa.Store); ok && st.Val == ssa.Value(pointerP) {
				if fa, ok := st.Addr.(*ssa.FieldAddr); ok && su.FieldName(fa) == "pointer" {
					store = st
				}
			}
		}
	}
	switch {
	case store == nil:
		o.Fail("no store of the decoded pointer into the specialised node: pointers on specialised kinds (e.g. '1 @N1@ NOTE') are lost on decode")
	case len(fb) == 1:
		// the store block and the fallback block must be the two arms of one branch that post-dominates the cascade
		sb, fbb := store.Block(), fb[0].Block()
		okArms := false
		if len(sb.Preds) == 1 && len(fbb.Preds) == 1 && sb.Preds[0] == fbb.Preds[0] {
			join := sb.Preds[0]
			// every case body must reach the join
			okArms = true
			for _, c := range cases {
				if !su.ReachableBlocks(c.body)[join] {
					okArms = false
				}
			}
		}
		if okArms {
			o.OK("stored in the non-fallback arm that every case reaches")
		} else {
			o.Fail("the store of the decoded pointer does not cover every specialised kind")
		}
	default:
		o.Unknown("fallback not resolved")
	}
	_ = kindOfTag
}

func c01BOM(p *load.Prog, r *oblig.Run) {
	enc := p.Method(load.PkgRoot, "Encoder", "Encode")
	render := p.Method(load.PkgRoot, "Encoder", "renderNode")
	dec := p.Method(load.PkgRoot, "Decoder", "Decode")
	bom := p.Global(load.PkgRoot, "byteOrderMark")
	if enc == nil || render == nil || dec == nil || bom == nil {
		r.Add("R01.d", "anchors", "-", "anchor").Unknown("Encoder.Encode / renderNode / Decoder.Decode / byteOrderMark not found")
		return
	}
	// find BOM write: a call X.Write(*byteOrderMark) guarded by a load of field HasBOM, in Encode or a callee it calls directly
	type bomWrite struct {
		fn    *ssa.Function
		call  ssa.CallInstruction
		guard bool
	}
	findBOMWrite := func(fn *ssa.Function) *bomWrite {
		for _, c := range su.Calls(fn) {
			cc := c.Common()
			if cc.IsInvoke() && cc.Method.Name() == "Write" && len(cc.Args) == 1 && su.GlobalLoaded(cc.Args[0]) == bom {
				bw := &bomWrite{fn: fn, call: c}
				// guard: some dominating If whose condition is a load of field HasBOM with the write on the true side
				for _, b := range fn.Blocks {
					iff, ok := b.Instrs[len(b.Instrs)-1].(*ssa.If)
					if !ok {
						continue
					}
					ld, ok := iff.Cond.(*ssa.UnOp)
					if !ok {
						continue
					}
					fa, ok := ld.X.(*ssa.FieldAddr)
					if !ok || su.FieldName(fa) != "HasBOM" {
						continue
					}
					if b.Succs[0].Dominates(c.Block()) && !b.Succs[1].Dominates(c.Block()) {
						bw.guard = true
					}
				}
				return bw
			}
		}
		return nil
	}
	o := r.Add("R01.d", "encode: BOM before nodes", p.Pos(enc.Pos()), "the BOM is written iff HasBOM and before every node")
	var bw *bomWrite
	var anchor ssa.Instruction
	if bw = findBOMWrite(enc); bw != nil {
		anchor = bw.call
	} else {
		for _, c := range su.Calls(enc) {
			if cal := c.Common().StaticCallee(); cal != nil && p.InRepo(cal) {
				if w := findBOMWrite(cal); w != nil {
					bw = w
					anchor = c
					// the helper must write on all HasBOM paths: guard checked inside
				}
			}
		}
	}
	switch {
	case bw == nil:
		o.Fail("Encode never writes the byte-order mark: a document decoded with a BOM re-encodes without it")
	case !bw.guard:
		o.Fail("the byte-order mark is not written under the document's HasBOM flag (unconditional or wrongly guarded)")
	default:
		bad := ""
		n := 0
		for _, c := range su.CallsTo(enc, render) {
			n++
			if !su.Dominates(anchor, c) {
				bad = p.Pos(c.Pos())
			}
		}
		// every return of Encode must come after the BOM step: an early exit before it drops the BOM of a document without records
		early := ""
		for _, b := range enc.Blocks {
			if ret, ok := b.Instrs[len(b.Instrs)-1].(*ssa.Return); ok && !su.Dominates(anchor, ret) {
				early = p.Pos(ret.Pos())
			}
		}
		if n == 0 {
			o.Unknown("no renderNode call in Encode")
		} else if early != "" {
			o.Fail("Encode can return at " + early + " without having passed the BOM write: a document with HasBOM set (for example one without records) is encoded without its byte-order mark")
		} else if bad != "" {
			o.Fail("a node is rendered at " + bad + " on a path that has not yet passed the BOM write")
		} else {
			o.OK("BOM write under HasBOM dominates all renderNode calls")
		}
	}
	// decode: store to HasBOM of the result of consumeOptionalBOM dominates every readLine call
	cons := p.Method(load.PkgRoot, "Decoder", "consumeOptionalBOM")
	readLine := p.Method(load.PkgRoot, "Decoder", "readLine")
	o = r.Add("R01.d", "decode: BOM flag recorded", p.Pos(dec.Pos()), "HasBOM is set from the consumed BOM before lines are read")
	if cons == nil || readLine == nil {
		o.Unknown("consumeOptionalBOM/readLine not found")
		return
	}
	var st *ssa.Store
	for _, b := range dec.Blocks {
		for _, ins := range b.Instrs {
			if s, ok := ins.(*ssa.Store); ok {
				if fa, ok := s.Addr.(*ssa.FieldAddr); ok && su.FieldName(fa) == "HasBOM" {
					if c, ok := s.Val.(*ssa.Call); ok && c.Call.StaticCallee() == cons {
						st = s
					}
				}
			}
		}
	}
	if st == nil {
		o.Fail("Decode does not store the result of consumeOptionalBOM into the document's HasBOM")
	} else {
		ok := true
		for _, c := range su.CallsTo(dec, readLine) {
			if !su.Dominates(st, c) {
				ok = false
			}
		}
		// the document whose flag is set must be the returned one
		retOK := false
		if fa, ok2 := st.Addr.(*ssa.FieldAddr); ok2 {
			for _, b := range dec.Blocks {
				if ret, ok3 := b.Instrs[len(b.Instrs)-1].(*ssa.Return); ok3 && len(ret.Results) > 0 && ret.Results[0] == fa.X {
					retOK = true
				}
			}
		}
		if ok && retOK {
			o.OK("stored on the returned document before the first readLine")
		} else {
			o.Fail("the BOM flag is not recorded on the returned document before lines are read")
		}
	}
	// consumeOptionalBOM: discards exactly len(byteOrderMark) bytes only when the peeked bytes equal the BOM
	o = r.Add("R01.d", "decode: BOM consumed only when present", p.Pos(cons.Pos()), "the BOM bytes are discarded iff present")
	var disc ssa.CallInstruction
	for _, c := range su.Calls(cons) {
		if su.CalleeIs(c.Common(), "bufio", "Discard") {
			disc = c
		}
	}
	if disc == nil {
		o.Fail("consumeOptionalBOM never discards the BOM bytes: they become part of the first line")
	} else {
		n, _ := su.ConstInt(disc.Common().Args[1])
		guarded := false
		for _, b := range cons.Blocks {
			if iff, ok := b.Instrs[len(b.Instrs)-1].(*ssa.If); ok && b.Succs[0].Dominates(disc.Block()) && !b.Succs[1].Dominates(disc.Block()) {
				_ = iff
				guarded = true
			}
		}
		if n == 3 && guarded {
			o.OK("Discard(3) under the comparison with the BOM")
		} else {
			o.Fail(fmt.Sprintf("consumeOptionalBOM discards %d bytes (guarded=%v); the UTF-8 BOM is 3 bytes and must only be dropped when present", n, guarded))
		}
	}
}

// c01RegistryInvariant: the registry is only worth something if no other code path makes a plain node for a
// registered tag and Tag.Is is exact (shared by C01, C02, C07).
func c01RegistryInvariant(p *load.Prog, r *oblig.Run) {
	// the registry is only worth something if no other code path makes a plain node for a registered tag
	if ok, why := registryInvariant(p, registryKinds(p)); ok {
		r.Add("R01.c", "registry invariant", "-", "plain nodes are only made by the registry's fallback").OK("newSimpleNode is called with a computed tag only from the fallback of the kind registry; Tag.Is is exact")
	} else {
		r.Add("R01.c", "registry invariant", "-", "plain nodes are only made by the registry's fallback").Fail("a line can be decoded into a plain node although its tag has a specialised kind: " + why + " - the decoded tree differs in node kinds from what the encoder was given (and kind-specific accessors fail on it)")
	}
}
