package props

import (
	"fmt"
	"go/token"
	"go/types"
	"math"

	"gedverif/internal/load"
	"gedverif/internal/oblig"
	"gedverif/internal/su"

	"golang.org/x/tools/go/ssa"
)

// R02.f - depth invariant of the stack of open nodes: after a line of level n
// has been handled, the stack holds exactly n+1 nodes (levels 0..n). Entries
// above the line's level would be closed nodes that a later, deeper line could
// be attached to. Decided per loop-body path with a small linear abstraction:
// X = the level parseLine returned, L = len(stack) at the top of the iteration;
// branch conditions bound d = X - L (and X itself), the stack value at the end
// of the path has a length of the form L+k, X+k or k.

type linForm struct {
	x, l int // coefficients of X and L
	c    int
	ok   bool
}

type ival struct{ lo, hi float64 }

func (i *ival) meet(lo, hi float64) {
	if lo > i.lo {
		i.lo = lo
	}
	if hi < i.hi {
		i.hi = hi
	}
}

type depthCtx struct {
	level    ssa.Value
	stackPhi *ssa.Phi
	pred     map[*ssa.BasicBlock]*ssa.BasicBlock // predecessor on the current path
}

func (d *depthCtx) canon(v ssa.Value) ssa.Value {
	for i := 0; i < 10; i++ {
		switch x := v.(type) {
		case *ssa.Phi:
			if x == d.stackPhi {
				return v
			}
			pr, ok := d.pred[x.Block()]
			if !ok {
				return v
			}
			found := false
			for j, q := range x.Block().Preds {
				if q == pr {
					v = x.Edges[j]
					found = true
					break
				}
			}
			if !found {
				return v
			}
		case *ssa.ChangeType:
			v = x.X
		case *ssa.Convert:
			v = x.X
		default:
			return v
		}
	}
	return v
}

func (d *depthCtx) lin(v ssa.Value) linForm {
	v = d.canon(v)
	if v == d.level {
		return linForm{x: 1, ok: true}
	}
	switch x := v.(type) {
	case *ssa.Const:
		if k, ok := su.ConstInt(x); ok {
			return linForm{c: int(k), ok: true}
		}
	case *ssa.Call:
		if b, ok := x.Call.Value.(*ssa.Builtin); ok && b.Name() == "len" && len(x.Call.Args) == 1 {
			return d.lenOf(x.Call.Args[0], 0)
		}
	case *ssa.BinOp:
		a, b := d.lin(x.X), d.lin(x.Y)
		if !a.ok || !b.ok {
			return linForm{}
		}
		switch x.Op {
		case token.ADD:
			return linForm{a.x + b.x, a.l + b.l, a.c + b.c, true}
		case token.SUB:
			return linForm{a.x - b.x, a.l - b.l, a.c - b.c, true}
		}
	}
	return linForm{}
}

// lenOf: the length of a slice value as a linear form.
func (d *depthCtx) lenOf(v ssa.Value, depth int) linForm {
	if depth > 8 {
		return linForm{}
	}
	v = d.canon(v)
	if v == ssa.Value(d.stackPhi) {
		return linForm{l: 1, ok: true}
	}
	switch x := v.(type) {
	case *ssa.Const:
		if x.Value == nil {
			return linForm{ok: true} // nil slice
		}
	case *ssa.Call:
		if b, ok := x.Call.Value.(*ssa.Builtin); ok && b.Name() == "append" && len(x.Call.Args) == 2 {
			a, e := d.lenOf(x.Call.Args[0], depth+1), d.lenOf(x.Call.Args[1], depth+1)
			if a.ok && e.ok {
				return linForm{a.x + e.x, a.l + e.l, a.c + e.c, true}
			}
		}
	case *ssa.Slice:
		lo := linForm{ok: true}
		if x.Low != nil {
			lo = d.lin(x.Low)
		}
		var hi linForm
		if x.High != nil {
			hi = d.lin(x.High)
		} else if pt, ok := x.X.Type().Underlying().(*types.Pointer); ok {
			if at, ok := pt.Elem().Underlying().(*types.Array); ok {
				hi = linForm{c: int(at.Len()), ok: true}
			}
		} else {
			hi = d.lenOf(x.X, depth+1)
		}
		if lo.ok && hi.ok {
			return linForm{hi.x - lo.x, hi.l - lo.l, hi.c - lo.c, true}
		}
	case *ssa.MakeSlice:
		return d.lin(x.Len)
	}
	return linForm{}
}

func c02Depth(p *load.Prog, r *oblig.Run, dec *ssa.Function, header *ssa.BasicBlock, level ssa.Value, paths [][]*ssa.BasicBlock, attachLevel func(path []*ssa.BasicBlock) (ssa.Value, bool)) {
	r.Rule("R02.f", "after a line of level n the stack of open nodes holds exactly n+1 nodes on every path (no closed node stays above the line's level)", 3)
	nodesT := p.ByPath[load.PkgRoot].Types.Scope().Lookup("Nodes")
	var stackPhi *ssa.Phi
	for _, ins := range header.Instrs {
		if ph, ok := ins.(*ssa.Phi); ok && nodesT != nil && types.Identical(ph.Type(), nodesT.Type()) {
			if stackPhi != nil {
				r.Add("R02.f", "stack", p.Pos(dec.Pos()), "anchor").Unknown("more than one Nodes-typed loop variable in Decode")
				return
			}
			stackPhi = ph
		}
	}
	if stackPhi == nil {
		r.Add("R02.f", "stack", p.Pos(dec.Pos()), "anchor").Unknown("no Nodes-typed loop variable (stack of open nodes) in Decode")
		return
	}
	// base case: before the first line no node is open - the stack enters the loop with length 0 (a stack that starts
	// with nil entries hands a nil parent to the first non-root line)
	for i, e := range stackPhi.Edges {
		pred := header.Preds[i]
		if header.Dominates(pred) {
			continue // back edge
		}
		ob := r.Add("R02.f", "initial stack", p.Pos(stackPhi.Pos()), "length of the stack of open nodes before the first line")
		if n, ok := staticSliceLen(e); !ok {
			ob.Unknown("cannot determine the length of the initial stack of open nodes")
		} else if n != 0 {
			ob.Fail(fmt.Sprintf("the stack of open nodes starts with %d (nil) entries instead of none: the indent guard and the missing-parent test see open nodes that do not exist, and a first line above level 0 is attached to a nil parent", n))
		} else {
			ob.OK("empty")
		}
	}
	// content: the only thing ever put on the stack is the node of the current line (never a copy of an entry that is
	// already there - padding the stack with copies makes later lines find the wrong parent by their level)
	{
		var parsed ssa.Value
		if parse := p.Func(load.PkgRoot, "parseLine"); parse != nil {
			for _, c := range su.CallsTo(dec, parse) {
				for _, ref := range *c.Referrers() {
					if ex, ok := ref.(*ssa.Extract); ok && ex.Index == 0 {
						parsed = ex
					}
				}
			}
		}
		isStack := func(v ssa.Value) bool { return nodesT != nil && types.Identical(v.Type(), nodesT.Type()) }
		bad := ""
		sites := 0
		for _, b := range dec.Blocks {
			for _, ins := range b.Instrs {
				switch x := ins.(type) {
				case *ssa.Call:
					bi, isB := x.Call.Value.(*ssa.Builtin)
					if !isB || bi.Name() != "append" || len(x.Call.Args) != 2 || !isStack(x.Call.Args[0]) {
						continue
					}
					elems, ok := variadicElems(x.Call.Args[1])
					if !ok {
						bad = "an append of a computed list at " + p.Pos(x.Pos())
						continue
					}
					for _, e := range elems {
						sites++
						if su.Strip(e) != parsed {
							bad = "the value appended at " + p.Pos(x.Pos())
						}
					}
				case *ssa.Store:
					ia, isIA := x.Addr.(*ssa.IndexAddr)
					if !isIA {
						continue
					}
					if isStack(ia.X) {
						sites++
						if su.Strip(x.Val) != parsed {
							bad = "the value stored at " + p.Pos(x.Pos())
						}
					}
				}
			}
		}
		ob := r.Add("R02.f", "stack content", p.Pos(stackPhi.Pos()), "values put on the stack of open nodes")
		switch {
		case parsed == nil || sites == 0:
			ob.Unknown("cannot find what Decode puts on the stack of open nodes")
		case bad != "":
			ob.Fail("something other than the node of the current line is put on the stack of open nodes (" + bad + "): the entry at a level is then not the open node of that level, and a later line at that level (or one below it) is attached to the wrong parent")
		default:
			ob.OK(fmt.Sprintf("%d store/append site(s), all of the current line's node", sites))
		}
	}
	n := 0
	for _, path := range paths {
		if path[len(path)-1] != header {
			continue
		}
		n++
		key := fmt.Sprintf("path %d", n)
		desc := pathDesc(p, path)
		ob := r.Add("R02.f", key, p.Pos(path[0].Instrs[0].Pos()), "stack depth at the end of "+desc)
		d := &depthCtx{level: level, stackPhi: stackPhi, pred: map[*ssa.BasicBlock]*ssa.BasicBlock{}}
		for i := 1; i < len(path)-1; i++ {
			d.pred[path[i]] = path[i-1]
		}
		dI := ival{math.Inf(-1), math.Inf(1)} // X - L
		xI := ival{0, math.Inf(1)}            // X (levels are parsed from \d+)
		unknownCond := false
		infeasible := false
		for i, b := range path[:len(path)-1] {
			iff, ok := b.Instrs[len(b.Instrs)-1].(*ssa.If)
			if !ok {
				continue
			}
			outcome := path[i+1] == b.Succs[0]
			cond := iff.Cond
			for {
				if u, isNot := cond.(*ssa.UnOp); isNot && u.Op == token.NOT {
					cond, outcome = u.X, !outcome
					continue
				}
				break
			}
			bo, ok := cond.(*ssa.BinOp)
			if !ok {
				continue
			}
			a, c := d.lin(bo.X), d.lin(bo.Y)
			if !a.ok || !c.ok {
				continue
			}
			f := linForm{a.x - c.x, a.l - c.l, a.c - c.c, true} // f ⋈ 0
			op := bo.Op
			if !outcome {
				switch op {
				case token.EQL:
					op = token.NEQ
				case token.NEQ:
					op = token.EQL
				case token.LSS:
					op = token.GEQ
				case token.LEQ:
					op = token.GTR
				case token.GTR:
					op = token.LEQ
				case token.GEQ:
					op = token.LSS
				}
			}
			// normalise to s*(T) + k ⋈ 0 with T = d (x=s,l=-s) or T = X (x=s,l=0)
			var tgt *ival
			s := 0
			switch {
			case f.x != 0 && f.l == -f.x && (f.x == 1 || f.x == -1):
				tgt, s = &dI, f.x
			case f.l == 0 && (f.x == 1 || f.x == -1):
				tgt, s = &xI, f.x
			case f.x == 0 && f.l == 0:
				// a test between known quantities: the path is infeasible when it takes the impossible side
				holds := map[token.Token]bool{token.EQL: f.c == 0, token.NEQ: f.c != 0, token.LSS: f.c < 0, token.LEQ: f.c <= 0, token.GTR: f.c > 0, token.GEQ: f.c >= 0}[op]
				if !holds {
					infeasible = true
				}
				continue
			default:
				unknownCond = true
				continue
			}
			k := float64(f.c)
			// s*T + k op 0
			if s == -1 {
				// -T + k op 0  <=>  T - k op' 0 with the comparison mirrored
				switch op {
				case token.LSS:
					op = token.GTR
				case token.LEQ:
					op = token.GEQ
				case token.GTR:
					op = token.LSS
				case token.GEQ:
					op = token.LEQ
				}
				k = -k
			}
			// T + k op 0  <=>  T op -k
			switch op {
			case token.EQL:
				tgt.meet(-k, -k)
			case token.LSS:
				tgt.meet(math.Inf(-1), -k-1)
			case token.LEQ:
				tgt.meet(math.Inf(-1), -k)
			case token.GTR:
				tgt.meet(-k+1, math.Inf(1))
			case token.GEQ:
				tgt.meet(-k, math.Inf(1))
			}
		}
		_ = unknownCond
		if infeasible || dI.lo > dI.hi || xI.lo > xI.hi {
			ob.OK("infeasible path (its branch tests contradict each other)")
			continue
		}
		// the stack at the end of the path
		var endStack ssa.Value
		prev := path[len(path)-2]
		for j, q := range header.Preds {
			if q == prev {
				endStack = stackPhi.Edges[j]
			}
		}
		if endStack == nil {
			ob.Unknown("cannot find the stack value carried into the next iteration")
			continue
		}
		d.pred[header] = nil
		newLen := d.lenOf(endStack, 0)
		if !newLen.ok {
			ob.Unknown(fmt.Sprintf("length of the stack value at the end of the path is not of the form L+k / X+k / k (%s)", endStack))
			continue
		}
		lvlV, ok := attachLevel(path)
		lvl := linForm{x: 1, ok: true}
		if ok {
			lvl = d.lin(lvlV)
		}
		if !lvl.ok {
			ob.Unknown("effective level of the line is not a linear form of the parsed level and the stack length")
			continue
		}
		// want newLen - (lvl + 1) == 0
		g := linForm{newLen.x - lvl.x, newLen.l - lvl.l, newLen.c - lvl.c - 1, true}
		exact := func(i ival, want float64) bool { return i.lo == want && i.hi == want }
		okInv := false
		var need string
		switch {
		case g.x == 0 && g.l == 0:
			okInv = g.c == 0
			need = fmt.Sprintf("constant offset %d", g.c)
		case g.l == -g.x && (g.x == 1 || g.x == -1):
			// g.x*d + c == 0  =>  d == -c/g.x
			want := float64(-g.c * g.x)
			okInv = exact(dI, want)
			need = fmt.Sprintf("level - len(stack) must be exactly %v on this path, but the tests on the path only give [%v, %v]", want, dI.lo, dI.hi)
		case g.l == 0 && (g.x == 1 || g.x == -1):
			want := float64(-g.c * g.x)
			okInv = exact(xI, want)
			need = fmt.Sprintf("level must be exactly %v on this path, but the tests on the path only give [%v, %v]", want, xI.lo, xI.hi)
		default:
			ob.Unknown("stack length and level are not comparable")
			continue
		}
		if okInv {
			ob.OK("len(stack) == level+1 follows from the branch tests and the stack update on the path")
		} else {
			ob.Fail("on the path " + desc + " the stack of open nodes need not have exactly level+1 entries afterwards: " + need +
				" - a closed node can stay on the stack above the line's level and a later, deeper line is then attached to it (or an open level is lost)")
		}
	}
}

// c02AttachOps (R02.g): the two attach operations the decoder relies on really
// attach: on every path through Document.AddNode and SimpleNode.AddNode the
// argument is appended to the membership field, unless the path took the "is
// nil" side of a nil test of the argument. (R02.a counts the calls; a guard
// inside the callee that skips the append - e.g. "a record with this pointer
// exists already" - drops the line all the same.)
func c02AttachOps(p *load.Prog, r *oblig.Run) {
	r.Rule("R02.g", "Document.AddNode and SimpleNode.AddNode append their argument on every path that does not find it nil", 2)
	isNil := p.Func(load.PkgRoot, "IsNil")
	for _, spec := range []struct{ typ, field string }{{"Document", "nodes"}, {"SimpleNode", "children"}} {
		fn := p.Method(load.PkgRoot, spec.typ, "AddNode")
		o := r.Add("R02.g", spec.typ+".AddNode appends", "-", "append to "+spec.typ+"."+spec.field)
		if fn == nil || len(fn.Blocks) == 0 || len(fn.Params) < 2 {
			o.Unknown(spec.typ + ".AddNode not found")
			continue
		}
		o.Pos = p.Pos(fn.Pos())
		arg := fn.Params[1]
		// blocks that perform the append-store of the argument
		appendBlocks := map[*ssa.BasicBlock]bool{}
		for _, b := range fn.Blocks {
			for _, ins := range b.Instrs {
				st, ok := ins.(*ssa.Store)
				if !ok {
					continue
				}
				fa, ok := st.Addr.(*ssa.FieldAddr)
				if !ok || su.FieldName(fa) != spec.field {
					continue
				}
				c, ok := st.Val.(*ssa.Call)
				if !ok {
					continue
				}
				if bi, isB := c.Call.Value.(*ssa.Builtin); !isB || bi.Name() != "append" || len(c.Call.Args) != 2 {
					continue
				}
				// the appended slice holds the argument
				holds := false
				if sl, ok := c.Call.Args[1].(*ssa.Slice); ok {
					if al, ok := sl.X.(*ssa.Alloc); ok {
						for _, ref := range *al.Referrers() {
							if ia, ok := ref.(*ssa.IndexAddr); ok {
								for _, r2 := range *ia.Referrers() {
									if s2, ok := r2.(*ssa.Store); ok && su.Strip(s2.Val) == ssa.Value(arg) {
										holds = true
									}
								}
							}
						}
					}
				}
				if holds {
					appendBlocks[b] = true
				}
			}
		}
		if len(appendBlocks) == 0 {
			o.Fail(spec.typ + ".AddNode no longer appends its argument to " + spec.field)
			continue
		}
		paths, capped := simplePaths(fn.Blocks[0], map[*ssa.BasicBlock]bool{}, 2000)
		if capped {
			o.Unknown("too many paths")
			continue
		}
		bad := ""
		for _, path := range paths {
			last := path[len(path)-1]
			if _, isRet := last.Instrs[len(last.Instrs)-1].(*ssa.Return); !isRet {
				continue
			}
			attached, nilSide := false, false
			for i, b := range path {
				if appendBlocks[b] {
					attached = true
				}
				if i+1 >= len(path) {
					break
				}
				iff, ok := b.Instrs[len(b.Instrs)-1].(*ssa.If)
				if !ok {
					continue
				}
				outcome := path[i+1] == b.Succs[0]
				cond := iff.Cond
				if u, isNot := cond.(*ssa.UnOp); isNot && u.Op == token.NOT {
					cond, outcome = u.X, !outcome
				}
				switch c := cond.(type) {
				case *ssa.Call:
					if c.Call.StaticCallee() == isNil && isNil != nil && len(c.Call.Args) == 1 && su.Strip(c.Call.Args[0]) == ssa.Value(arg) && outcome {
						nilSide = true
					}
				case *ssa.BinOp:
					if k, isK := c.Y.(*ssa.Const); isK && k.Value == nil && su.Strip(c.X) == ssa.Value(arg) && (c.Op == token.EQL) == outcome {
						nilSide = true
					}
				}
			}
			if !attached && !nilSide {
				bad = "a path " + pathDesc(p, path) + " returns without appending although the argument was not found nil"
			}
		}
		if bad != "" {
			o.Fail(spec.typ + ".AddNode can skip the append for a non-nil node (" + bad + "): a line the decoder parsed and handed over is dropped together with everything below it")
		} else {
			o.OK("appended on every path that did not find the argument nil")
		}
	}
}

// c02TrimOnlyEnds (R02.h): every store into a node's value made by the decoder
// itself (trimNodeValue) stores the old value passed through a standard
// end-trimming function and nothing else - a helper that also rewrites the
// inside of the value (collapsing runs of spaces, changing case) changes what
// the file said.
func c02TrimOnlyEnds(p *load.Prog, r *oblig.Run) {
	r.Rule("R02.h", "the decoder's value clean-up only removes characters at the two ends of the value", 1)
	fn := p.Method(load.PkgRoot, "Decoder", "trimNodeValue")
	o := r.Add("R02.h", "value stored by trimNodeValue", "-", "what trimNodeValue writes back")
	if fn == nil {
		o.Unknown("Decoder.trimNodeValue not found")
		return
	}
	o.Pos = p.Pos(fn.Pos())
	trims := map[string]bool{"TrimSpace": true, "Trim": true, "TrimRight": true, "TrimLeft": true, "TrimFunc": true, "TrimRightFunc": true, "TrimLeftFunc": true, "TrimSuffix": true, "TrimPrefix": true}
	n, bad := 0, ""
	for _, b := range fn.Blocks {
		for _, ins := range b.Instrs {
			st, ok := ins.(*ssa.Store)
			if !ok {
				continue
			}
			fa, ok := st.Addr.(*ssa.FieldAddr)
			if !ok || su.FieldName(fa) != "value" {
				continue
			}
			n++
			// stored value: trimX(... trimY(load of a value field) ...)
			v := st.Val
			for d := 0; d < 6; d++ {
				c, ok := v.(*ssa.Call)
				if !ok {
					break
				}
				cal := c.Call.StaticCallee()
				if cal == nil || cal.Pkg == nil || cal.Pkg.Pkg.Path() != "strings" || !trims[cal.Name()] {
					bad = "the value is passed through " + c.Call.String() + ", which is not an end-trimming function of package strings"
					break
				}
				v = c.Call.Args[0]
			}
			if bad != "" {
				continue
			}
			ld, ok := v.(*ssa.UnOp)
			if !ok {
				bad = "the stored value is not derived from the node's value by trimming only"
				continue
			}
			if f2, ok := ld.X.(*ssa.FieldAddr); !ok || su.FieldName(f2) != "value" {
				bad = "the stored value is not derived from the node's value by trimming only"
			}
		}
	}
	switch {
	case n == 0:
		o.Unknown("trimNodeValue stores no value")
	case bad != "":
		o.Fail("trimNodeValue does more than trim the ends: " + bad + " - interior characters of a value (e.g. two consecutive spaces) are not what the file said after decoding")
	default:
		o.OK("strings trimming functions applied to the node's own value")
	}
}

// staticSliceLen: the length of a slice value that is a nil constant, a
// composite literal, or a make with a constant length.
func staticSliceLen(v ssa.Value) (int64, bool) {
	switch x := v.(type) {
	case *ssa.Const:
		if x.Value == nil {
			return 0, true
		}
	case *ssa.MakeSlice:
		return su.ConstInt(x.Len)
	case *ssa.Slice:
		// a composite literal (arr[:]) or a make with constant bounds (arr[:n])
		if al, ok := x.X.(*ssa.Alloc); ok {
			if at, ok := al.Type().(*types.Pointer).Elem().Underlying().(*types.Array); ok {
				lo, hi := int64(0), at.Len()
				if x.Low != nil {
					k, isK := su.ConstInt(x.Low)
					if !isK {
						return 0, false
					}
					lo = k
				}
				if x.High != nil {
					k, isK := su.ConstInt(x.High)
					if !isK {
						return 0, false
					}
					hi = k
				}
				return hi - lo, true
			}
		}
	case *ssa.ChangeType:
		return staticSliceLen(x.X)
	}
	return 0, false
}
