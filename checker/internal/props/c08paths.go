package props

import (
	"fmt"
	"go/constant"
	"go/token"

	"gedverif/internal/load"
	"gedverif/internal/oblig"
	"gedverif/internal/su"

	"golang.org/x/tools/go/ssa"
)

// evalBoolOnPath resolves a boolean value at position `at` of a block path:
// constants, negations, and phis whose block lies on the path (the edge is
// the one the path came in by).
func evalBoolOnPath(v ssa.Value, path []*ssa.BasicBlock, at int) (val, known bool) {
	switch x := v.(type) {
	case *ssa.Const:
		if x.Value != nil && x.Value.Kind() == constant.Bool {
			return constant.BoolVal(x.Value), true
		}
	case *ssa.UnOp:
		if x.Op == token.NOT {
			b, ok := evalBoolOnPath(x.X, path, at)
			return !b, ok
		}
	case *ssa.Phi:
		for i := at; i >= 1; i-- {
			if path[i] == x.Block() {
				for j, pr := range x.Block().Preds {
					if pr == path[i-1] {
						return evalBoolOnPath(x.Edges[j], path, i-1)
					}
				}
				return false, false
			}
		}
	}
	return false, false
}

// pathConstFeasible: no branch on the path contradicts a flag whose value the
// path itself fixes (a `found` variable set on the way).
func pathConstFeasible(path []*ssa.BasicBlock) bool {
	for i := 0; i+1 < len(path); i++ {
		b := path[i]
		iff, ok := b.Instrs[len(b.Instrs)-1].(*ssa.If)
		if !ok {
			continue
		}
		v, known := evalBoolOnPath(iff.Cond, path, i)
		if !known {
			continue
		}
		if (path[i+1] == b.Succs[0]) != v && b.Succs[0] != b.Succs[1] {
			return false
		}
	}
	return true
}

// c08Accounts (R08.c): CompareNodes walks both inputs, and the walk visits
// every child: each child either continues in a matching entry or gets a new
// entry that is added to the diff.
func c08Accounts(p *load.Prog, r *oblig.Run) {
	r.Rule("R08.c", "CompareNodes walks the left and the right input on every path, and the walk gives every child of a node an entry (an existing one it continues in, or a new one that is appended)", 4)
	cn := p.Func(load.PkgRoot, "CompareNodes")
	tr := p.Method(load.PkgRoot, "NodeDiff", "traverse")
	if cn == nil || tr == nil || len(tr.Params) != 3 || len(cn.Params) != 2 {
		r.Add("R08.c", "anchors", "-", "anchor").Unknown("CompareNodes(left, right) / NodeDiff.traverse(n, isLeft) not found")
		return
	}
	// (1) CompareNodes
	paths, capped := simplePaths(cn.Blocks[0], map[*ssa.BasicBlock]bool{}, 200)
	if capped {
		r.Add("R08.c", "CompareNodes paths", p.Pos(cn.Pos()), "paths").Unknown("more than 200 paths")
		return
	}
	n := 0
	for _, path := range paths {
		last := path[len(path)-1]
		ret, ok := last.Instrs[len(last.Instrs)-1].(*ssa.Return)
		if !ok || !pathConstFeasible(path) {
			continue
		}
		n++
		sawL, sawR := false, false
		for _, b := range path {
			for _, ins := range b.Instrs {
				c, ok := ins.(*ssa.Call)
				if !ok || c.Call.StaticCallee() != tr {
					continue
				}
				side, isK := c.Call.Args[2].(*ssa.Const)
				if !isK || side.Value == nil {
					continue
				}
				if c.Call.Args[1] == ssa.Value(cn.Params[0]) && constant.BoolVal(side.Value) {
					sawL = true
				}
				if c.Call.Args[1] == ssa.Value(cn.Params[1]) && !constant.BoolVal(side.Value) {
					sawR = true
				}
			}
		}
		o := r.Add("R08.c", fmt.Sprintf("CompareNodes path %d", n), p.Pos(ret.Pos()), "path "+pathDesc(p, path))
		switch {
		case !sawL && !sawR:
			o.Fail("CompareNodes returns on the path " + pathDesc(p, path) + " without walking either input: no node below the roots is represented in the diff")
		case !sawL:
			o.Fail("CompareNodes returns on the path " + pathDesc(p, path) + " without walking the left input as the left side")
		case !sawR:
			o.Fail("CompareNodes returns on the path " + pathDesc(p, path) + " without walking the right input as the right side")
		default:
			o.OK("both inputs walked")
		}
	}
	// (2) traverse: loop over all children
	node := tr.Params[1]
	var kids ssa.Value
	for _, c := range su.Calls(tr) {
		cc := c.Common()
		if cc.IsInvoke() && cc.Method.Name() == "Nodes" && cc.Value == ssa.Value(node) {
			kids = c.Value()
		}
	}
	var loops []elementLoop
	if kids != nil {
		loops = findElementLoops(tr, kids)
	}
	if len(loops) != 1 {
		r.Add("R08.c", "children loop", p.Pos(tr.Pos()), "traverse walks n.Nodes() from the first to the last child").Fail(fmt.Sprintf("NodeDiff.traverse has %d loops over all of n.Nodes(): children are skipped or visited by a construct this rule cannot follow", len(loops)))
		return
	}
	loop := loops[0]
	r.Add("R08.c", "children loop", p.Pos(kids.Pos()), "traverse walks n.Nodes() from the first to the last child").OK("index runs over 0..len-1")
	// every path of traverse that returns reaches the children loop, except the exit for a nil node
	isNilFn := p.Func(load.PkgRoot, "IsNil")
	tpaths, tcapped := simplePaths(tr.Blocks[0], map[*ssa.BasicBlock]bool{loop.header: true}, 400)
	if tcapped {
		r.Add("R08.c", "traverse paths", p.Pos(tr.Pos()), "paths").Unknown("more than 400 paths before the children loop")
		return
	}
	tn := 0
	for _, path := range tpaths {
		last := path[len(path)-1]
		if last == loop.header || !pathConstFeasible(path) {
			continue
		}
		ret, ok := last.Instrs[len(last.Instrs)-1].(*ssa.Return)
		if !ok {
			continue
		}
		// the nil exit: the path took the true side of IsNil(n) (or n == nil)
		nilExit := false
		for i := 0; i+1 < len(path); i++ {
			iff, ok := path[i].Instrs[len(path[i].Instrs)-1].(*ssa.If)
			if !ok || path[i+1] != path[i].Succs[0] {
				continue
			}
			switch c := iff.Cond.(type) {
			case *ssa.Call:
				if isNilFn != nil && c.Call.StaticCallee() == isNilFn && len(c.Call.Args) == 1 && su.Strip(c.Call.Args[0]) == ssa.Value(node) {
					nilExit = true
				}
			case *ssa.BinOp:
				if k, isK := c.Y.(*ssa.Const); isK && k.Value == nil && c.Op == token.EQL && c.X == ssa.Value(node) {
					nilExit = true
				}
			}
		}
		if nilExit {
			continue
		}
		tn++
		r.Add("R08.c", fmt.Sprintf("traverse early return %d", tn), p.Pos(ret.Pos()), "return before the children loop").Fail("NodeDiff.traverse returns on the path " + pathDesc(p, path) + " for a node that is not nil without walking its children: the entries below are never marked for this side (or never made)")
	}
	bpaths, capped := simplePaths(loop.body, map[*ssa.BasicBlock]bool{loop.header: true}, 2000)
	if capped {
		r.Add("R08.c", "iteration paths", p.Pos(tr.Pos()), "paths").Unknown("more than 2000 paths through the loop body")
		return
	}
	k := 0
	for _, path := range bpaths {
		full := append([]*ssa.BasicBlock{loop.header}, path...)
		if !pathConstFeasible(full) {
			continue
		}
		last := path[len(path)-1]
		if last != loop.header {
			if _, isPanic := last.Instrs[len(last.Instrs)-1].(*ssa.Panic); isPanic {
				continue
			}
			k++
			r.Add("R08.c", fmt.Sprintf("iteration path %d", k), p.Pos(last.Instrs[len(last.Instrs)-1].Pos()), "exit from the children loop").Fail("NodeDiff.traverse leaves the loop over the children on the path " + pathDesc(p, path) + ": the remaining children get no entry")
			continue
		}
		k++
		visits, fresh, appended, intoParent := 0, false, false, false
		for _, b := range path[:len(path)-1] {
			for _, ins := range b.Instrs {
				switch x := ins.(type) {
				case *ssa.Call:
					if x.Call.StaticCallee() == tr && loop.elementOf(x.Call.Args[1]) && x.Call.Args[2] == ssa.Value(tr.Params[2]) {
						visits++
						if _, isNew := x.Call.Args[0].(*ssa.Alloc); isNew {
							fresh = true
						}
						if x.Call.Args[0] == ssa.Value(tr.Params[0]) {
							intoParent = true
						}
					}
				case *ssa.Store:
					if fa, ok := x.Addr.(*ssa.FieldAddr); ok && fa.X == ssa.Value(tr.Params[0]) && su.FieldName(fa) == "Children" {
						appended = true
					}
				}
			}
		}
		o := r.Add("R08.c", fmt.Sprintf("iteration path %d", k), p.Pos(path[0].Instrs[0].Pos()), "iteration path "+pathDesc(p, path))
		switch {
		case visits == 0:
			o.Fail("a child can pass through NodeDiff.traverse on the path " + pathDesc(p, path) + " without being walked into any entry (with its own side): the child and its subtree are not represented in the diff")
		case visits > 1:
			o.Fail("a child is walked into more than one entry on the path " + pathDesc(p, path) + ": it is represented twice")
		case intoParent:
			o.Fail("on the path " + pathDesc(p, path) + " the child is walked into the entry of its parent instead of an entry of its own: its children appear one level too high in the diff")
		case fresh && !appended:
			o.Fail("on the path " + pathDesc(p, path) + " a new entry is made for the child but never added to the entry's children")
		default:
			o.OK("child walked into one entry")
		}
	}
	if k == 0 {
		r.Add("R08.c", "iteration paths", p.Pos(tr.Pos()), "paths").Unknown("no feasible path through the loop body")
	}
}

// c08DeepEqual (R08.d): NodeDiff.IsDeepEqual answers for the whole subtree: it walks all of its child entries and asks
// each of them the same question (a recursive call on the element) on every path that goes on to the next child.
func c08DeepEqual(p *load.Prog, r *oblig.Run) {
	r.Rule("R08.d", "NodeDiff.IsDeepEqual asks every child entry recursively (a one-sided entry at any depth makes the answer false)", 2)
	fn := p.Method(load.PkgRoot, "NodeDiff", "IsDeepEqual")
	if fn == nil || len(fn.Params) != 1 {
		r.Add("R08.d", "anchor", "-", "anchor").Unknown("NodeDiff.IsDeepEqual not found")
		return
	}
	// the list of child entries: a load of the receiver's Children field
	var kids ssa.Value
	for _, b := range fn.Blocks {
		for _, ins := range b.Instrs {
			if ld, ok := ins.(*ssa.UnOp); ok && ld.Op == token.MUL {
				if fa, ok := ld.X.(*ssa.FieldAddr); ok && fa.X == ssa.Value(fn.Params[0]) && su.FieldName(fa) == "Children" {
					kids = ld
				}
			}
		}
	}
	var loops []elementLoop
	if kids != nil {
		loops = findElementLoops(fn, kids)
	}
	if len(loops) != 1 {
		r.Add("R08.d", "children loop", p.Pos(fn.Pos()), "IsDeepEqual walks all child entries").Fail(fmt.Sprintf("NodeDiff.IsDeepEqual has %d loops over all of its child entries", len(loops)))
		return
	}
	loop := loops[0]
	r.Add("R08.d", "children loop", p.Pos(kids.Pos()), "IsDeepEqual walks all child entries").OK("index runs over 0..len-1")
	paths, capped := simplePaths(loop.body, map[*ssa.BasicBlock]bool{loop.header: true}, 500)
	if capped {
		r.Add("R08.d", "iteration paths", p.Pos(fn.Pos()), "paths").Unknown("more than 500 paths")
		return
	}
	k := 0
	for _, path := range paths {
		if path[len(path)-1] != loop.header {
			continue // leaves with an answer
		}
		k++
		asked := false
		for _, b := range path[:len(path)-1] {
			for _, ins := range b.Instrs {
				if c, ok := ins.(*ssa.Call); ok && c.Call.StaticCallee() == fn && loop.elementOf(c.Call.Args[0]) {
					asked = true
				}
			}
		}
		r.Check("R08.d", fmt.Sprintf("iteration path %d", k), p.Pos(path[0].Instrs[0].Pos()), "iteration path "+pathDesc(p, path), asked,
			"the child entry is asked recursively", "NodeDiff.IsDeepEqual goes on to the next child on the path "+pathDesc(p, path)+" without asking the child entry IsDeepEqual itself: a one-sided entry two or more levels down is not seen and the diff of two different trees is reported as all-two-sided")
	}
	if k == 0 {
		r.Add("R08.d", "iteration paths", p.Pos(fn.Pos()), "paths").Unknown("no path continues to the next child")
	}
}
