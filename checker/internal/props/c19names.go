package props

import (
	"fmt"
	"go/token"
	"go/types"
	"sort"
	"strings"

	"gedverif/internal/load"
	"gedverif/internal/oblig"
	"gedverif/internal/su"

	"golang.org/x/tools/go/ssa"
)

// variadicElems returns the values stored into the backing array of a
// variadic argument slice (t = new [n]T; t[i] = v; t[:]).
func variadicElems(v ssa.Value) ([]ssa.Value, bool) {
	sl, ok := v.(*ssa.Slice)
	if !ok {
		return nil, false
	}
	al, ok := sl.X.(*ssa.Alloc)
	if !ok {
		return nil, false
	}
	elems := map[int64]ssa.Value{}
	for _, ref := range *al.Referrers() {
		ia, ok := ref.(*ssa.IndexAddr)
		if !ok {
			continue
		}
		ix, isK := su.ConstInt(ia.Index)
		if !isK {
			return nil, false
		}
		for _, r2 := range *ia.Referrers() {
			if st, ok := r2.(*ssa.Store); ok && st.Addr == ssa.Value(ia) {
				elems[ix] = st.Val
			}
		}
	}
	out := make([]ssa.Value, len(elems))
	for i := range out {
		e, ok := elems[int64(i)]
		if !ok {
			return nil, false
		}
		out[i] = e
	}
	return out, true
}

// nameOrigin classifies how the variable part of a page name is obtained.
// ok: the name is an injective function of a value that identifies the page
// (a key of the map that hands out unique keys, or the letter parameter);
// otherwise why names the step that can map two pages to one name.
type originOf struct{ origin, why string }

func nameOrigin(v ssa.Value, depth int) (origin string, why string) {
	return nameOriginEnv(v, depth, nil)
}

// nameOriginEnv: env gives the origin of the parameters of a helper that is being looked through.
func nameOriginEnv(v ssa.Value, depth int, env map[*ssa.Parameter]originOf) (origin string, why string) {
	if depth > 8 {
		return "", "a computation this rule cannot follow"
	}
	switch x := v.(type) {
	case *ssa.Const:
		return "constant", ""
	case *ssa.MakeInterface:
		return nameOriginEnv(x.X, depth+1, env)
	case *ssa.ChangeType:
		return nameOriginEnv(x.X, depth+1, env)
	case *ssa.Parameter:
		if o, ok := env[x]; ok {
			return o.origin, o.why
		}
		return "parameter " + x.Name(), ""
	case *ssa.Extract:
		if nx, ok := x.Tuple.(*ssa.Next); ok && x.Index == 1 {
			if rg, ok := nx.Iter.(*ssa.Range); ok {
				if _, isMap := rg.X.Type().Underlying().(*types.Map); isMap {
					return "key of the map of unique keys", ""
				}
			}
		}
		return "", "a value that is not a map key"
	case *ssa.BinOp:
		if x.Op == token.ADD {
			if _, ok := x.X.(*ssa.Const); ok {
				return nameOriginEnv(x.Y, depth+1, env)
			}
			if _, ok := x.Y.(*ssa.Const); ok {
				return nameOriginEnv(x.X, depth+1, env)
			}
		}
		return "", "a concatenation of two computed strings"
	case *ssa.Phi:
		var origins []string
		for _, e := range x.Edges {
			o, w := nameOriginEnv(e, depth+1, env)
			if w != "" {
				return "", w
			}
			origins = append(origins, o)
		}
		sort.Strings(origins)
		return strings.Join(origins, " | "), ""
	case *ssa.Call:
		cal := x.Call.StaticCallee()
		if cal == nil {
			return "", "a dynamic call"
		}
		if su.CalleeIs(&x.Call, "fmt", "Sprintf") {
			format, ok := su.ConstString(x.Call.Args[0])
			if !ok {
				return "", "fmt.Sprintf with a computed format"
			}
			elems, ok := variadicElems(x.Call.Args[1])
			if !ok {
				return "", "fmt.Sprintf with arguments this rule cannot follow"
			}
			verbs := 0
			for i := 0; i+1 < len(format); i++ {
				if format[i] == '%' {
					if format[i+1] != '%' {
						if !strings.ContainsRune("scdv", rune(format[i+1])) {
							return "", fmt.Sprintf("the verb %%%c", format[i+1])
						}
						verbs++
					}
					i++
				}
			}
			if verbs != 1 || len(elems) != 1 {
				return "", fmt.Sprintf("a format with %d variable parts", verbs)
			}
			return nameOriginEnv(elems[0], depth+1, env)
		}
		// a helper of the package itself: look through it with the origins of its arguments
		if len(cal.Blocks) > 0 && cal.Pkg != nil && cal.Pkg.Pkg.Path() == load.PkgHTML && cal.Signature.Recv() == nil && len(cal.Params) == len(x.Call.Args) {
			inner := map[*ssa.Parameter]originOf{}
			for i, prm := range cal.Params {
				o, w := nameOriginEnv(x.Call.Args[i], depth+1, env)
				inner[prm] = originOf{o, w}
			}
			var origins []string
			for _, b := range cal.Blocks {
				if ret, ok := b.Instrs[len(b.Instrs)-1].(*ssa.Return); ok && len(ret.Results) == 1 {
					o, w := nameOriginEnv(ret.Results[0], depth+1, inner)
					if w != "" {
						return "", w
					}
					origins = append(origins, o)
				}
			}
			if len(origins) > 0 {
				sort.Strings(origins)
				return strings.Join(origins, " | "), ""
			}
		}
		name := cal.Name()
		if cal.Pkg != nil {
			name = cal.Pkg.Pkg.Name() + "." + name
		}
		if recv := cal.Signature.Recv(); recv != nil {
			name = types.TypeString(recv.Type(), func(p *types.Package) string { return p.Name() }) + "." + cal.Name()
		}
		return "", "the result of " + name + ", which can give two different inputs the same output"
	}
	return "", fmt.Sprintf("a %T this rule cannot follow", v)
}

// c19Unique (R19.k): the name of a per-entity page is an injective function
// of the key that identifies the entity.
func c19Unique(p *load.Prog, r *oblig.Run) {
	r.Rule("R19.k", "within one page kind two pages never get the same name: the variable part of the name is a key of the unique-key map (or the letter itself) and only constant text is put around it", 3)
	sp := p.SSAPkg[load.PkgHTML]
	var fns []*ssa.Function
	for _, m := range sp.Members {
		if f, ok := m.(*ssa.Function); ok && strings.HasPrefix(f.Name(), "Page") && f.Signature.Results().Len() == 1 && len(f.Params) > 0 {
			if b, ok := f.Signature.Results().At(0).Type().Underlying().(*types.Basic); ok && b.Kind() == types.String {
				fns = append(fns, f)
			}
		}
	}
	sort.Slice(fns, func(i, j int) bool { return fns[i].Name() < fns[j].Name() })
	for _, f := range fns {
		var bad string
		var origins []string
		pos := p.Pos(f.Pos())
		for _, b := range f.Blocks {
			ret, ok := b.Instrs[len(b.Instrs)-1].(*ssa.Return)
			if !ok {
				continue
			}
			o, w := nameOrigin(ret.Results[0], 0)
			if w != "" {
				bad = w
				pos = p.Pos(ret.Pos())
				break
			}
			if o != "constant" {
				origins = append(origins, o)
			}
		}
		key := f.Name()
		if bad != "" {
			// name every lossy step, so that a further one added to a known one is a new finding
			var steps []string
			for _, b := range f.Blocks {
				if ret, ok := b.Instrs[len(b.Instrs)-1].(*ssa.Return); ok {
					steps = append(steps, lossySteps(ret.Results[0], map[ssa.Value]bool{}, 0)...)
				}
			}
			sort.Strings(steps)
			var uniq []string
			for i, st := range steps {
				if i == 0 || st != steps[i-1] {
					uniq = append(uniq, st)
				}
			}
			if len(uniq) > 0 {
				key += " via " + strings.Join(uniq, ", ")
			}
		}
		ob := r.Add("R19.k", key, pos, "origin of the variable part of the names "+f.Name()+" returns")
		if bad != "" {
			ob.Fail(f.Name() + " builds a page name from " + bad + ": two different pages of this kind can be given the same file name, one overwrites the other and links lead to the wrong page")
		} else {
			sort.Strings(origins)
			ob.OK("constant text around: " + strings.Join(origins, "; "))
		}
	}
}

// optionGuards: the PublishShowOptions fields whose being true is implied at ins.
func optionGuards(ins ssa.Instruction) []string {
	fn := ins.Parent()
	set := map[string]bool{}
	for _, b := range fn.Blocks {
		iff, ok := b.Instrs[len(b.Instrs)-1].(*ssa.If)
		if !ok {
			continue
		}
		ld, ok := iff.Cond.(*ssa.UnOp)
		if !ok || ld.Op != token.MUL {
			continue
		}
		fa, ok := ld.X.(*ssa.FieldAddr)
		if !ok {
			continue
		}
		owner := su.FieldOwner(fa)
		if owner == nil || owner.Obj().Name() != "PublishShowOptions" {
			continue
		}
		t := b.Succs[0]
		if len(t.Preds) == 1 && t.Dominates(ins.Block()) {
			set[su.FieldName(fa)] = true
		}
	}
	var out []string
	for k := range set {
		out = append(out, k)
	}
	sort.Strings(out)
	return out
}

// c19Tabs (R19.l): a list page is generated under exactly the option under
// which the header links to it.
func c19Tabs(p *load.Prog, r *oblig.Run) {
	r.Rule("R19.l", "each page group is generated under exactly the option under which the header shows its tab (a tab never links to a page that is not generated)", 5)
	hdr := p.Method(load.PkgHTML, "PublishHeader", "WriteHTMLTo")
	newFile := p.Func(load.PkgCore, "NewFile")
	if hdr == nil || newFile == nil {
		r.Add("R19.l", "anchors", "-", "anchor").Unknown("PublishHeader.WriteHTMLTo / core.NewFile not found")
		return
	}
	isPage := func(c ssa.CallInstruction) *ssa.Function {
		cal := c.Common().StaticCallee()
		if cal == nil || cal.Pkg == nil || cal.Pkg.Pkg.Path() != load.PkgHTML || !strings.HasPrefix(cal.Name(), "Page") || cal.Signature.Recv() != nil {
			return nil
		}
		return cal
	}
	// tabs
	type site struct {
		guards []string
		pos    string
	}
	tabs := map[string][]site{}
	for _, c := range su.Calls(hdr) {
		if pg := isPage(c); pg != nil {
			tabs[pg.Name()] = append(tabs[pg.Name()], site{optionGuards(c), p.Pos(c.Pos())})
		}
	}
	// producers: Page*() results handed to core.NewFile as the name, in methods of Publisher
	prods := map[string][]site{}
	sp := p.SSAPkg[load.PkgHTML]
	for _, m := range sp.Members {
		t, ok := m.(*ssa.Type)
		if !ok || t.Name() != "Publisher" {
			continue
		}
		ms := p.SSA.MethodSets.MethodSet(types.NewPointer(t.Type()))
		for i := 0; i < ms.Len(); i++ {
			fn := p.SSA.MethodValue(ms.At(i))
			if fn == nil {
				continue
			}
			for _, c := range su.CallsTo(fn, newFile) {
				name := c.Call.Args[0]
				if pc, ok := name.(*ssa.Call); ok {
					if pg := isPage(pc); pg != nil {
						prods[pg.Name()] = append(prods[pg.Name()], site{optionGuards(c), p.Pos(c.Pos())})
					}
				}
			}
		}
	}
	var names []string
	for n := range tabs {
		names = append(names, n)
	}
	sort.Strings(names)
	if len(names) == 0 {
		r.Add("R19.l", "tabs", p.Pos(hdr.Pos()), "tabs of the header").Unknown("the header links to no Page* function")
		return
	}
	for _, n := range names {
		o := r.Add("R19.l", n, tabs[n][0].pos, "option of the tab "+n+" against the option of its producer")
		if len(prods[n]) == 0 {
			o.Fail("the header shows a tab for " + n + " but no method of Publisher sends a file with that name")
			continue
		}
		bad := ""
		for _, tb := range tabs[n] {
			for _, pr := range prods[n] {
				if strings.Join(tb.guards, ",") != strings.Join(pr.guards, ",") || len(tb.guards) == 0 {
					bad = fmt.Sprintf("the header shows the tab %s under the options {%s} (%s) but the page is generated under {%s} (%s): with one set and the other not, every page links to a file that is not generated (or an unrequested page is published)",
						n, strings.Join(tb.guards, ","), tb.pos, strings.Join(pr.guards, ","), pr.pos)
				}
			}
		}
		if bad != "" {
			o.Fail(bad)
		} else {
			o.OK("tab and page under {" + strings.Join(tabs[n][0].guards, ",") + "}")
		}
	}
}

// lossySteps lists the calls in the derivation of a page name that can map two inputs to one output.
func lossySteps(v ssa.Value, seen map[ssa.Value]bool, depth int) []string {
	if depth > 10 || seen[v] {
		return nil
	}
	seen[v] = true
	var out []string
	switch x := v.(type) {
	case *ssa.MakeInterface:
		return lossySteps(x.X, seen, depth+1)
	case *ssa.ChangeType:
		return lossySteps(x.X, seen, depth+1)
	case *ssa.BinOp:
		return append(lossySteps(x.X, seen, depth+1), lossySteps(x.Y, seen, depth+1)...)
	case *ssa.Phi:
		for _, e := range x.Edges {
			out = append(out, lossySteps(e, seen, depth+1)...)
		}
	case *ssa.Call:
		cal := x.Call.StaticCallee()
		if cal == nil {
			return nil
		}
		args := x.Call.Args
		if su.CalleeIs(&x.Call, "fmt", "Sprintf") {
			if elems, ok := variadicElems(x.Call.Args[1]); ok {
				args = elems
			}
		} else if cal.Pkg != nil && cal.Pkg.Pkg.Path() == load.PkgHTML && len(cal.Blocks) > 0 {
			// helpers of the package are looked through
			for _, b := range cal.Blocks {
				if ret, ok := b.Instrs[len(b.Instrs)-1].(*ssa.Return); ok && len(ret.Results) == 1 {
					out = append(out, lossySteps(ret.Results[0], seen, depth+1)...)
				}
			}
		} else if !(cal.Pkg != nil && load.IsRepoPkgPath(cal.Pkg.Pkg.Path())) {
			name := cal.Name()
			if recv := cal.Signature.Recv(); recv != nil {
				name = types.TypeString(recv.Type(), func(p *types.Package) string { return p.Name() }) + "." + cal.Name()
			} else if cal.Pkg != nil {
				name = cal.Pkg.Pkg.Name() + "." + name
			}
			out = append(out, name)
		}
		for _, a := range args {
			out = append(out, lossySteps(a, seen, depth+1)...)
		}
	}
	return out
}

// c19FileNames (R19.m): the name of every file the publisher sends is the result of a Page* function - the same
// functions every link goes through, so a page is written under the name its links point to.
func c19FileNames(p *load.Prog, r *oblig.Run) {
	r.Rule("R19.m", "every published file is named by the Page* function its links use", 6)
	newFile := p.Func(load.PkgCore, "NewFile")
	if newFile == nil {
		r.Add("R19.m", "anchor", "-", "anchor").Unknown("core.NewFile not found")
		return
	}
	sp := p.SSAPkg[load.PkgHTML]
	n := 0
	for _, m := range sp.Members {
		t, ok := m.(*ssa.Type)
		if !ok || t.Name() != "Publisher" {
			continue
		}
		ms := p.SSA.MethodSets.MethodSet(types.NewPointer(t.Type()))
		for i := 0; i < ms.Len(); i++ {
			fn := p.SSA.MethodValue(ms.At(i))
			if fn == nil || len(fn.Blocks) == 0 {
				continue
			}
			for _, c := range su.CallsTo(fn, newFile) {
				n++
				key := fmt.Sprintf("file %d sent by %s", n, fn.Name())
				name := c.Call.Args[0]
				// through a local variable
				for d := 0; d < 3; d++ {
					if ph, isPhi := name.(*ssa.Phi); isPhi && len(ph.Edges) == 1 {
						name = ph.Edges[0]
						continue
					}
					break
				}
				pc, isCall := name.(*ssa.Call)
				good := false
				if isCall {
					cal := pc.Call.StaticCallee()
					good = cal != nil && cal.Pkg != nil && cal.Pkg.Pkg.Path() == load.PkgHTML && strings.HasPrefix(cal.Name(), "Page") && cal.Signature.Recv() == nil
				}
				r.Check("R19.m", key, p.Pos(c.Pos()), "origin of the file name", good, "the result of a Page* function",
					"the file sent at "+p.Pos(c.Pos())+" is not named by a Page* function ("+name.String()+"): links to the page are built with the Page* function, so when the two disagree (a key computed at another time, with another place map) the page is written under one name and linked under another")
			}
		}
	}
	if n == 0 {
		r.Add("R19.m", "files", "-", "files sent by the publisher").Unknown("no call of core.NewFile in the methods of Publisher")
	}
}
