package props

import (
	"fmt"
	"go/ast"
	"go/constant"
	"go/token"
	"go/types"
	"sort"
	"strings"

	"gedverif/internal/absint"
	"gedverif/internal/load"
	"gedverif/internal/oblig"
	"gedverif/internal/su"

	"golang.org/x/tools/go/ssa"
)

// absTime is the model of a time.Time / gedcom.Date in the C06 model: a day
// number plus "is the last nanosecond of that day" (Date.IsEndOfRange).
type absTime struct {
	Day int
	EOD bool
}

// constMapLiteral extracts a package-level `var name = map[string]T{...}` whose
// keys and values are constants.
func constMapLiteral(p *load.Prog, pkgPath, name string) (*absint.Map, token.Pos, error) {
	pk := p.ByPath[pkgPath]
	obj := pk.Types.Scope().Lookup(name)
	if obj == nil {
		return nil, token.NoPos, fmt.Errorf("variable %s not found", name)
	}
	for _, f := range pk.Syntax {
		for _, d := range f.Decls {
			gd, ok := d.(*ast.GenDecl)
			if !ok || gd.Tok != token.VAR {
				continue
			}
			for _, sp := range gd.Specs {
				vs := sp.(*ast.ValueSpec)
				for i, n := range vs.Names {
					if pk.TypesInfo.Defs[n] != obj || i >= len(vs.Values) {
						continue
					}
					cl, ok := vs.Values[i].(*ast.CompositeLit)
					if !ok {
						return nil, n.Pos(), fmt.Errorf("%s is not initialised by a composite literal", name)
					}
					m := &absint.Map{M: map[string]absint.Value{}, Zero: int64(0)}
					for _, e := range cl.Elts {
						kv, ok := e.(*ast.KeyValueExpr)
						if !ok {
							return nil, e.Pos(), fmt.Errorf("non key-value element")
						}
						ktv, vtv := pk.TypesInfo.Types[kv.Key], pk.TypesInfo.Types[kv.Value]
						if ktv.Value == nil || vtv.Value == nil || ktv.Value.Kind() != constant.String {
							return nil, e.Pos(), fmt.Errorf("non-constant entry")
						}
						k := constant.StringVal(ktv.Value)
						if _, dup := m.M[k]; dup {
							return nil, e.Pos(), fmt.Errorf("duplicate key %q", k)
						}
						iv, _ := constant.Int64Val(vtv.Value)
						m.M[k] = iv
					}
					return m, n.Pos(), nil
				}
			}
		}
	}
	return nil, token.NoPos, fmt.Errorf("declaration of %s not found", name)
}

var c06Names = []string{"Invalid", "Equal", "Inside", "InsideStart", "InsideEnd", "Outside", "OutsideStart", "OutsideEnd",
	"PartiallyBefore", "PartiallyAfter", "Before", "After", "EntirelyBefore", "EntirelyAfter"}

// C06 decides the date-range comparison model exhaustively over all weak
// orderings of the four endpoints.
func C06(p *load.Prog, r *oblig.Run) {
	defer memoKeys(p, r, "R06.h")
	c06DecisionInputs(p, r)
	r.Explanation = "Static model extraction + exhaustive finite decision. DateRange.Compare touches its four endpoints only through ordering tests " +
		"(time.Time.Equal/Before/After on day-truncated instants), so its behaviour is a finite function of the weak ordering of the endpoints. The checker abstractly " +
		"evaluates the SSA of DateRange.Compare / compareDatesForLetter (branches, constant returns, the constant map literal dateRangeCompareMatrix) over the abstract " +
		"domain day-number x end-of-day flag, for every [a,b]x[c,d] with a<=b, c<=d over 4 day values (all 26 weak orderings incl. every coincidence), both operand orders, " +
		"and decides: self-compare is Equal; never Invalid; converse pairing; result is a relation the documentation diagram allows; the three simplified verdicts partition the 13 constants; " +
		"the event-order warning tests the EntirelyBefore constant. No repository code is executed."
	r.NotDecided = "that Date.Time()/Truncate project real calendar dates order-preservingly onto days (C05's domain); ranges with month/year granularity are covered only through that assumption; backwards ranges."
	r.Assumptions = []string{
		"Date.Time() is an order-preserving projection of a date onto (day, end-of-day) and NewDateRange marks start as not end-of-range and end as end-of-range",
		"time.Time.Truncate(24h) maps an instant to the start of its UTC day; Equal/Before/After are the order on instants",
	}
	r.Rule("R06.a", "a range compared with itself (and with an equal range) is Equal", 10)
	r.Rule("R06.b", "no forward-running pair of ranges compares as Invalid (incl. missing matrix key)", 26)
	r.Rule("R06.c", "Compare(y,x) is the documented converse of Compare(x,y)", 26)
	r.Rule("R06.d", "each of the 13 non-invalid constants satisfies exactly one of IsEqual/IsPartiallyEqual/IsNotEqual; Invalid none", 14)
	r.Rule("R06.e", "incorrectEventOrderWarnings compares the result of Compare with the EntirelyBefore constant", 1)
	r.Rule("R06.f", "the result is a relation the documentation diagram allows for that ordering of endpoints", 26)
	r.Rule("R06.g", "NewDateRange normalises its ends: the start is marked not-end-of-range and the end end-of-range whatever the caller passed (the model's assumption about range ends)", 2)
	c06Normalise(p, r)
	// the projection of dates onto instants must not single out the zero time (C05's rule): 1 Jan 0001 is a valid boundary
	c05ZeroTime(p, r)

	pk := p.ByPath[load.PkgRoot]
	// constants by exported API name
	cval := map[string]int64{}
	cname := map[int64]string{}
	for _, n := range c06Names {
		o, _ := pk.Types.Scope().Lookup("DateRangeComparison" + n).(*types.Const)
		if o == nil {
			r.Add("R06.d", "const "+n, "-", "constant DateRangeComparison"+n).Unknown("exported constant not found")
			return
		}
		v, _ := constant.Int64Val(o.Val())
		cval[n] = v
		if prev, dup := cname[v]; dup {
			r.Add("R06.d", "const "+n, p.Pos(o.Pos()), "constants distinct").Fail(fmt.Sprintf("constants %s and %s share the value %d", prev, n, v))
			return
		}
		cname[v] = n
	}
	matrix, mpos, err := constMapLiteral(p, load.PkgRoot, "dateRangeCompareMatrix")
	compare := p.Method(load.PkgRoot, "DateRange", "Compare")
	if compare == nil {
		r.Add("R06.a", "anchor DateRange.Compare", "-", "anchor").Unknown("method DateRange.Compare not found")
		return
	}
	matrixGlobal := p.Global(load.PkgRoot, "dateRangeCompareMatrix")
	dateTime := p.Method(load.PkgRoot, "Date", "Time")

	newMachine := func() *absint.Machine {
		return &absint.Machine{
			Global: func(g *ssa.Global) (absint.Value, bool) {
				if g == matrixGlobal && matrix != nil {
					return matrix, true
				}
				return nil, false
			},
			Prim: func(call *ssa.CallCommon, callee *ssa.Function, args []absint.Value) (absint.Value, bool) {
				if callee == nil {
					return nil, false
				}
				if callee == dateTime && len(args) == 1 {
					if t, ok := args[0].(absTime); ok {
						return t, true
					}
					return absint.Unknown{Why: "Date.Time on a value outside the model"}, true
				}
				if callee.Pkg != nil && callee.Pkg.Pkg.Path() == "time" && callee.Signature.Recv() != nil {
					t, ok := args[0].(absTime)
					if !ok {
						return absint.Unknown{Why: "time method on a value outside the model"}, true
					}
					switch callee.Name() {
					case "Truncate":
						d, ok := args[1].(int64)
						if !ok {
							return absint.Unknown{Why: "Truncate by non-constant"}, true
						}
						const day = int64(86400000000000)
						switch {
						case d == day:
							return absTime{t.Day, false}, true
						case d < day && day%max64(d, 1) == 0:
							return t, true // finer truncation keeps the end-of-day instant distinct from midnight
						default:
							return absint.Unknown{Why: "Truncate by a duration that merges days"}, true
						}
					case "Equal", "Before", "After":
						u, ok := args[1].(absTime)
						if !ok {
							return absint.Unknown{Why: "time comparison outside the model"}, true
						}
						ka, kb := 2*t.Day+b2i(t.EOD), 2*u.Day+b2i(u.EOD)
						switch callee.Name() {
						case "Equal":
							return ka == kb, true
						case "Before":
							return ka < kb, true
						default:
							return ka > kb, true
						}
					}
					return absint.Unknown{Why: "time." + callee.Name() + " not modelled"}, true
				}
				return nil, false
			},
		}
	}
	if err != nil || matrixGlobal == nil {
		// matrix no longer a constant map literal: Compare may still be interpretable without it
		r.Note("dateRangeCompareMatrix not extractable as a constant map literal: %v", err)
	} else {
		r.Extra["matrix_entries"] = len(matrix.M)
		r.Extra["matrix_pos"] = p.Pos(mpos)
	}
	drType := compare.Signature.Recv().Type()
	st, _ := drType.Underlying().(*types.Struct)
	if st == nil || st.NumFields() < 2 {
		r.Add("R06.a", "anchor DateRange", "-", "anchor").Unknown("DateRange is not a struct with start/end")
		return
	}
	// locate the two Date-typed fields in declaration order: start, end.
	var dateFields []int
	for i := 0; i < st.NumFields(); i++ {
		if n := load.NamedOf(st.Field(i).Type()); n != nil && n.Obj().Name() == "Date" {
			dateFields = append(dateFields, i)
		}
	}
	if len(dateFields) != 2 {
		r.Add("R06.a", "anchor DateRange fields", "-", "anchor").Unknown("DateRange does not have exactly two Date fields")
		return
	}
	mkRange := func(a, b int) absint.Value {
		s := &absint.Struct{F: make([]absint.Value, st.NumFields())}
		for i := range s.F {
			s.F[i] = absint.Unknown{Why: "field outside the model"}
		}
		s.F[dateFields[0]] = absTime{a, false}
		s.F[dateFields[1]] = absTime{b, true}
		return s
	}
	evalCompare := func(a, b, c, d int) (int64, error) {
		m := newMachine()
		v, err := m.Call(compare, []absint.Value{mkRange(a, b), mkRange(c, d)})
		if err != nil {
			return 0, err
		}
		iv, ok := v.(int64)
		if !ok {
			return 0, fmt.Errorf("Compare returned %v", v)
		}
		return iv, nil
	}
	conv := map[string]string{"Equal": "Equal", "Inside": "Outside", "InsideStart": "OutsideStart", "InsideEnd": "OutsideEnd",
		"Outside": "Inside", "OutsideStart": "InsideStart", "OutsideEnd": "InsideEnd", "PartiallyBefore": "PartiallyAfter", "PartiallyAfter": "PartiallyBefore",
		"Before": "After", "After": "Before", "EntirelyBefore": "EntirelyAfter", "EntirelyAfter": "EntirelyBefore"}
	allowed := func(a, b, c, d int) []string {
		var s []string
		add := func(cond bool, n string) {
			if cond {
				s = append(s, n)
			}
		}
		add(a == c && b == d, "Equal")
		add(c < a && b < d, "Inside")
		add(a == c && b < d, "InsideStart")
		add(c < a && b == d, "InsideEnd")
		add(a < c && d < b, "Outside")
		add(a == c && d < b, "OutsideStart")
		add(a < c && b == d, "OutsideEnd")
		add(a < c && c < b && b < d, "PartiallyBefore")
		add(c < a && a < d && d < b, "PartiallyAfter")
		add(a < c && b == c, "Before")
		add(a == d && d < b, "After")
		add(b < c, "EntirelyBefore")
		add(d < a, "EntirelyAfter")
		return s
	}
	// enumerate orderings
	type caseT struct{ a, b, c, d int }
	seen := map[string]caseT{}
	var order []string
	for a := 0; a < 4; a++ {
		for b := a; b < 4; b++ {
			for c := 0; c < 4; c++ {
				for d := c; d < 4; d++ {
					k := orderingKey(a, b, c, d)
					if _, ok := seen[k]; !ok {
						seen[k] = caseT{a, b, c, d}
						order = append(order, k)
					}
				}
			}
		}
	}
	sort.Strings(order)
	r.Extra["orderings"] = len(order)
	r.Extra["exhaustive"] = true
	pos := p.Pos(compare.Pos())
	for _, k := range order {
		cs := seen[k]
		res, err := evalCompare(cs.a, cs.b, cs.c, cs.d)
		if err != nil {
			r.Add("R06.b", "ordering "+k, pos, "Compare on ordering "+k).Unknown("model evaluation failed: " + err.Error())
			continue
		}
		rn, okName := cname[res]
		if !okName {
			rn = fmt.Sprintf("value(%d)", res)
		}
		r.Check("R06.b", "ordering "+k, pos, "x=[a,b] compared with y=[c,d], "+k, okName && rn != "Invalid",
			"result "+rn, "Compare returns "+rn+" for forward ranges with "+k)
		al := allowed(cs.a, cs.b, cs.c, cs.d)
		r.Check("R06.f", "ordering "+k, pos, "documented relation for "+k, contains(al, rn),
			"result "+rn+" is in the allowed set "+strings.Join(al, "|"),
			fmt.Sprintf("Compare returns %s for %s; the documentation diagram allows only %s", rn, k, strings.Join(al, "|")))
		if cs.a == cs.c && cs.b == cs.d {
			r.Check("R06.a", "ordering "+k, pos, "self-compare "+k, rn == "Equal", "Equal", "a range compared with an equal range returns "+rn+" ("+k+")")
		}
		rev, err := evalCompare(cs.c, cs.d, cs.a, cs.b)
		if err != nil {
			r.Add("R06.c", "ordering "+k, pos, "converse on "+k).Unknown("model evaluation failed: " + err.Error())
			continue
		}
		revn := cname[rev]
		r.Check("R06.c", "ordering "+k, pos, "converse for "+k, conv[rn] != "" && conv[rn] == revn,
			fmt.Sprintf("%s / %s", rn, revn),
			fmt.Sprintf("Compare(x,y)=%s but Compare(y,x)=%s (expected %s) for %s", rn, revn, conv[rn], k))
	}
	// a few more self-compares beyond canonical orderings to reach floor of R06.a
	for _, cs := range []caseT{{0, 0, 0, 0}, {1, 1, 1, 1}, {0, 1, 0, 1}, {0, 3, 0, 3}, {2, 3, 2, 3}, {3, 3, 3, 3}, {1, 2, 1, 2}, {0, 2, 0, 2}} {
		res, err := evalCompare(cs.a, cs.b, cs.c, cs.d)
		key := fmt.Sprintf("self [%d,%d]", cs.a, cs.b)
		if err != nil {
			r.Add("R06.a", key, pos, key).Unknown(err.Error())
			continue
		}
		r.Check("R06.a", key, pos, "self-compare of "+key, cname[res] == "Equal", "Equal", "self-compare returns "+cname[res])
	}

	// R06.d verdict partition
	verdicts := []string{"IsEqual", "IsPartiallyEqual", "IsNotEqual"}
	vf := map[string]*ssa.Function{}
	for _, v := range verdicts {
		vf[v] = p.Method(load.PkgRoot, "DateRangeComparison", v)
	}
	for _, n := range c06Names {
		var yes []string
		bad := ""
		for _, v := range verdicts {
			if vf[v] == nil {
				bad = "method " + v + " not found"
				break
			}
			m := newMachine()
			res, err := m.Call(vf[v], []absint.Value{cval[n]})
			if err != nil {
				bad = err.Error()
				break
			}
			if b, ok := res.(bool); ok && b {
				yes = append(yes, v)
			}
		}
		o := r.Add("R06.d", "const "+n, "-", "simplified verdict of "+n)
		switch {
		case bad != "":
			o.Unknown(bad)
		case n == "Invalid" && len(yes) == 0:
			o.OK("no verdict for Invalid")
		case n != "Invalid" && len(yes) == 1:
			want := "IsPartiallyEqual"
			switch n {
			case "Equal":
				want = "IsEqual"
			case "Before", "After", "EntirelyBefore", "EntirelyAfter":
				want = "IsNotEqual"
			}
			if yes[0] == want {
				o.OK(yes[0])
			} else {
				o.Fail(fmt.Sprintf("%s answers %s; the documentation table lists it under %s", n, yes[0], want))
			}
		default:
			o.Fail(fmt.Sprintf("%s satisfies %d simplified verdicts %v (want exactly one; none for Invalid)", n, len(yes), yes))
		}
	}

	// R06.e consumer
	cons := p.Method(load.PkgRoot, "IndividualNode", "incorrectEventOrderWarnings")
	found := 0
	if cons != nil {
		for _, b := range cons.Blocks {
			for _, ins := range b.Instrs {
				bo, ok := ins.(*ssa.BinOp)
				if !ok || (bo.Op != token.EQL && bo.Op != token.NEQ) {
					continue
				}
				for _, pair := range [][2]ssa.Value{{bo.X, bo.Y}, {bo.Y, bo.X}} {
					call, ok := pair[0].(*ssa.Call)
					cst, ok2 := pair[1].(*ssa.Const)
					if !ok || !ok2 || call.Call.StaticCallee() != compare {
						continue
					}
					found++
					v, _ := constant.Int64Val(cst.Value)
					// the warning is built on the side of the test on which the result IS EntirelyBefore (== taken, or != not taken)
					sideOK := false
					for _, r2 := range *bo.Referrers() {
						iff, isIf := r2.(*ssa.If)
						if !isIf {
							continue
						}
						eqSide := iff.Block().Succs[0]
						if bo.Op == token.NEQ {
							eqSide = iff.Block().Succs[1]
						}
						for _, wc := range su.Calls(cons) {
							if cal := wc.Common().StaticCallee(); cal != nil && strings.Contains(cal.Name(), "EventOrderWarning") && (eqSide == wc.Block() || eqSide.Dominates(wc.Block())) && len(eqSide.Preds) == 1 {
								sideOK = true
							}
						}
					}
					r.Check("R06.e", "compare-result test in incorrectEventOrderWarnings", p.Pos(bo.Pos()),
						"constant the event-order warning tests", sideOK && v == cval["EntirelyBefore"],
						"the warning is built where the result == EntirelyBefore", fmt.Sprintf("event-order warning tests %s %s and builds the warning on the wrong side (or with another constant) instead of where the result == EntirelyBefore", bo.Op, cname[v]))
				}
			}
		}
	}
	if found == 0 && cons != nil {
		// the test may sit in a boolean helper (datedEntirelyBefore(later, earlier)): facts on every path to the warning
		env := &descEnv{p: p, params: map[*ssa.Parameter]string{}}
		want := fmt.Sprintf("%d", cval["EntirelyBefore"])
		for _, wc := range su.Calls(cons) {
			cal := wc.Common().StaticCallee()
			if cal == nil || !strings.Contains(cal.Name(), "EventOrderWarning") {
				continue
			}
			found++
			okFact := env.holdsAny(wc.Block(), func(f cfact) bool {
				return f.val && strings.Contains(f.atom, "DateRange.Compare(") && (strings.HasPrefix(f.atom, want+"==") || strings.HasSuffix(f.atom, "=="+want))
			})
			r.Check("R06.e", "compare-result test in incorrectEventOrderWarnings", p.Pos(wc.Pos()),
				"constant the event-order warning tests", okFact,
				"the warning is built only where a Compare result == EntirelyBefore was established (through a helper predicate)", "no path fact 'Compare(...) == EntirelyBefore' holds where the event-order warning is built")
		}
	}
	if found == 0 {
		r.Add("R06.e", "compare-result test in incorrectEventOrderWarnings", "-", "consumer test").Unknown("no comparison of a DateRange.Compare result with a constant found in incorrectEventOrderWarnings")
	}
}

func orderingKey(a, b, c, d int) string {
	// canonical weak ordering of the four endpoints
	vals := []struct {
		n string
		v int
	}{{"a", a}, {"b", b}, {"c", c}, {"d", d}}
	sort.SliceStable(vals, func(i, j int) bool {
		if vals[i].v != vals[j].v {
			return vals[i].v < vals[j].v
		}
		return vals[i].n < vals[j].n
	})
	s := vals[0].n
	for i := 1; i < 4; i++ {
		if vals[i].v == vals[i-1].v {
			s += "=" + vals[i].n
		} else {
			s += "<" + vals[i].n
		}
	}
	return s
}

func contains(s []string, x string) bool {
	for _, y := range s {
		if y == x {
			return true
		}
	}
	return false
}

func b2i(b bool) int {
	if b {
		return 1
	}
	return 0
}

func max64(a, b int64) int64 {
	if a > b {
		return a
	}
	return b
}

// c06Normalise abstractly evaluates NewDateRange on two dates whose
// IsEndOfRange flags are the wrong way round and requires the result to have
// them the right way round.
func c06Normalise(p *load.Prog, r *oblig.Run) {
	nd := p.Func(load.PkgRoot, "NewDateRange")
	dateObj := p.ByPath[load.PkgRoot].Types.Scope().Lookup("Date")
	if nd == nil || dateObj == nil {
		r.Add("R06.g", "NewDateRange", "-", "anchor").Unknown("NewDateRange / Date not found")
		return
	}
	c06Operands(p, r, nd)
	ds, _ := dateObj.Type().Underlying().(*types.Struct)
	flag := -1
	for i := 0; ds != nil && i < ds.NumFields(); i++ {
		if ds.Field(i).Name() == "IsEndOfRange" {
			flag = i
		}
	}
	if flag < 0 {
		r.Add("R06.g", "NewDateRange", p.Pos(nd.Pos()), "anchor").Unknown("Date has no IsEndOfRange field")
		return
	}
	mk := func(v bool) *absint.Struct {
		s := &absint.Struct{F: make([]absint.Value, ds.NumFields())}
		for i := range s.F {
			s.F[i] = absint.Unknown{Why: "field outside the model"}
		}
		s.F[flag] = v
		return s
	}
	m := &absint.Machine{}
	res, err := m.Call(nd, []absint.Value{mk(true), mk(false)})
	rs, ok := res.(*absint.Struct)
	if err != nil || !ok {
		r.Add("R06.g", "NewDateRange", p.Pos(nd.Pos()), "normalisation of the range ends").Unknown(fmt.Sprintf("cannot evaluate NewDateRange abstractly: %v", err))
		return
	}
	want := []bool{false, true}
	names := []string{"start", "end"}
	n := 0
	for i, f := range rs.F {
		d, ok := f.(*absint.Struct)
		if !ok || n >= 2 {
			continue
		}
		got, isB := d.F[flag].(bool)
		r.Check("R06.g", names[n]+" flag", p.Pos(nd.Pos()), "IsEndOfRange of the range's "+names[n], isB && got == want[n],
			fmt.Sprintf("forced to %v", want[n]),
			fmt.Sprintf("NewDateRange leaves the %s date's IsEndOfRange as the caller passed it: a range built from plain Date values with month or year granularity then ends (or starts) on the wrong day of its period, and compares wrongly", names[n]))
		n++
		_ = i
	}
	if n != 2 {
		r.Add("R06.g", "NewDateRange", p.Pos(nd.Pos()), "normalisation").Unknown("result of NewDateRange does not hold two dates")
	}

}

// c06Operands: the range keeps its operands where the caller put them.
func c06Operands(p *load.Prog, r *oblig.Run, nd *ssa.Function) {
	// the range keeps its operands where the caller put them: what is stored as start (end) is the start (end) parameter
	for idx, side := range []string{"start", "end"} {
		o := r.Add("R06.g", side+" operand", p.Pos(nd.Pos()), "which operand becomes the range's "+side)
		bad, found := "", false
		for _, b := range nd.Blocks {
			for _, ins := range b.Instrs {
				st, ok := ins.(*ssa.Store)
				if !ok {
					continue
				}
				fa, ok := st.Addr.(*ssa.FieldAddr)
				if !ok || su.FieldName(fa) != side {
					continue
				}
				if ow := su.FieldOwner(fa); ow == nil || ow.Obj().Name() != "DateRange" {
					continue
				}
				found = true
				// the stored value: a load of the local copy of parameter idx, whose whole-value stores are that parameter only
				ld, ok := st.Val.(*ssa.UnOp)
				var al *ssa.Alloc
				if ok {
					al, _ = ld.X.(*ssa.Alloc)
				}
				if al == nil {
					if prm, isP := st.Val.(*ssa.Parameter); isP && idx < len(nd.Params) && nd.Params[idx] == prm {
						continue
					}
					bad = "is not the " + side + " parameter (" + st.Val.String() + ")"
					continue
				}
				for _, ref := range *al.Referrers() {
					if s2, ok := ref.(*ssa.Store); ok && s2.Addr == ssa.Value(al) {
						if prm, isP := s2.Val.(*ssa.Parameter); !isP || idx >= len(nd.Params) || nd.Params[idx] != prm {
							bad = "can be a value other than the " + side + " parameter (assigned at " + p.Pos(s2.Pos()) + ")"
						}
					}
				}
			}
		}
		switch {
		case !found:
			o.Unknown("no store into DateRange." + side + " in NewDateRange")
		case bad != "":
			o.Fail("the " + side + " of the new range " + bad + ": NewDateRange re-orders or replaces its operands (a comparison of partial dates by their mid-point years exchanges the ends of forward-running ranges of mixed precision, together with their constraints)")
		default:
			o.OK("the " + side + " parameter")
		}
	}
}
