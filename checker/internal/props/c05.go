package props

import (
	"fmt"
	"go/constant"
	"go/token"
	"go/types"
	"strings"

	"gedverif/internal/load"
	"gedverif/internal/oblig"
	"gedverif/internal/su"

	"golang.org/x/tools/go/ssa"
)

// C05 - structural clauses only. The property is calendar arithmetic over 3.6
// million days; what has a shape in the code is (a) which calendar text
// Date.Time builds for each combination of known components, (b) which unit
// the end-of-range roll-forward adds and that exactly one nanosecond is taken
// off afterwards, (c) that the before/after/minimum/maximum comparisons compare
// Years() of the right ends in the right direction.

// fieldOfRecv: v is a load of field <name> of the (spilled) receiver/parameter #idx.
func fieldOfParamName(v ssa.Value) (int, string, bool) {
	ld, ok := v.(*ssa.UnOp)
	if !ok || ld.Op != token.MUL {
		if f, isF := v.(*ssa.Field); isF {
			if prm, isP := f.X.(*ssa.Parameter); isP {
				for i, q := range prm.Parent().Params {
					if q == prm {
						st := prm.Type().Underlying().(*types.Struct)
						return i, st.Field(f.Field).Name(), true
					}
				}
			}
		}
		return 0, "", false
	}
	fa, ok := ld.X.(*ssa.FieldAddr)
	if !ok {
		return 0, "", false
	}
	prm, _ := fieldOfParam(v)
	if prm == nil {
		return 0, "", false
	}
	for i, q := range prm.Parent().Params {
		if q == prm {
			return i, su.FieldName(fa), true
		}
	}
	return 0, "", false
}

func C05(p *load.Prog, r *oblig.Run) {
	defer memoKeys(p, r, "R05.e")
	r.Explanation = "Structural clauses only (E6 path rules + shape rules). R05.a/b: every feasible path through Date.Time is enumerated with the facts its branch tests establish about Day, Month, Year, IsEndOfRange and whether the text could be parsed (the parser's ok flag, or a zero-time test); " +
		"the calendar text built on the path must be the documented one for exactly that combination of known components (full date: day month year; month and year: day 1 of the month; year only: 1 January; nothing otherwise) and the roll-forward applied " +
		"to an end-of-range date must add exactly one unit of the finest known component (AddDate(0,0,1) / (0,1,0) / (1,0,0)) followed by minus one nanosecond, and nothing for a start bound or a text that is not a date. " +
		"R05.c: IsBefore/IsAfter compare Years() of the receiver and the argument with < and >, DateRange.IsBefore/IsAfter compare the two starts / the two ends, DateNodes.Minimum/Maximum compare StartDate/EndDate Years with < and >."
	r.NotDecided = "everything numerical: that time.Parse/AddDate give the calendar's true period for all 3,652,059 days, leap years, strict monotonicity of Years() from each day to the next, containment of the fractional year in its period. These are value universals over the calendar; enumerating the days would be execution, not static analysis."
	r.Assumptions = []string{"time.Time.AddDate, Add and time.Parse behave as documented", "branch tests on date components are comparisons with zero"}
	r.Rule("R05.a", "Date.Time builds the calendar text of the first day of the period for exactly the known components", 3)
	r.Rule("R05.b", "an end-of-range bound is rolled forward by exactly one unit of its finest known component and then reduced by one nanosecond; other bounds are not adjusted", 4)
	r.Rule("R05.c", "before/after/minimum/maximum compare Years() of the right ends in the right direction", 6)
	c05ZeroTime(p, r)
	c05LeapRule(p, r)
	tm := p.Method(load.PkgRoot, "Date", "Time")
	if tm == nil || len(tm.Blocks) == 0 {
		r.Add("R05.a", "anchor", "-", "anchor").Unknown("Date.Time not found")
		return
	}
	paths, capped := simplePaths(tm.Blocks[0], map[*ssa.BasicBlock]bool{}, 5000)
	if capped {
		r.Add("R05.a", "paths", p.Pos(tm.Pos()), "paths").Unknown("more than 5000 paths through Date.Time")
		return
	}
	seenA, seenB := map[string]bool{}, map[string]bool{}
	// collectFacts: what the branch tests on a path establish about the date's components
	type pathInfo struct {
		facts       map[string]string
		pred        map[*ssa.BasicBlock]*ssa.BasicBlock
		infeasible  bool
		unknown     string
		zeroByValue bool
	}
	collectFacts := func(path []*ssa.BasicBlock) pathInfo {
		facts := map[string]string{} // Day/Month/Year -> "0" | "!0"; IsEndOfRange -> "t"|"f"; zerotime -> "t"|"f"
		pred := map[*ssa.BasicBlock]*ssa.BasicBlock{}
		for i := 1; i < len(path); i++ {
			pred[path[i]] = path[i-1]
		}
		infeasible, unknown := false, ""
		zeroByValue := false // "not a date" is recognised by the parsed time being the zero time
		set := func(k, v string) {
			if old, ok := facts[k]; ok && old != v {
				infeasible = true
			}
			facts[k] = v
		}
		for i, b := range path[:len(path)-1] {
			iff, ok := b.Instrs[len(b.Instrs)-1].(*ssa.If)
			if !ok {
				continue
			}
			outcome := path[i+1] == b.Succs[0]
			cond := iff.Cond
			for k := 0; k < 10; k++ {
				if u, isNot := cond.(*ssa.UnOp); isNot && u.Op == token.NOT {
					cond, outcome = u.X, !outcome
					continue
				}
				if ph, isPhi := cond.(*ssa.Phi); isPhi {
					// a && b: the value on this path is the edge the path came in on
					pr := pred[ph.Block()]
					moved := false
					for j, q := range ph.Block().Preds {
						if q == pr {
							cond, moved = ph.Edges[j], true
						}
					}
					if moved {
						continue
					}
				}
				break
			}
			if kc, isK := cond.(*ssa.Const); isK && kc.Value != nil && kc.Value.Kind() == constant.Bool {
				if constant.BoolVal(kc.Value) != outcome {
					infeasible = true
				}
				continue
			}
			switch c := cond.(type) {
			case *ssa.BinOp:
				idx, name, ok := fieldOfParamName(c.X)
				k, isK := su.ConstInt(c.Y)
				if !ok || idx != 0 || !isK || k != 0 || (c.Op != token.NEQ && c.Op != token.EQL) {
					unknown = "a branch test that is not `component != 0` (" + c.String() + ")"
					continue
				}
				if (c.Op == token.NEQ) == outcome {
					set(name, "!0")
				} else {
					set(name, "0")
				}
			case *ssa.UnOp:
				if idx, name, ok := fieldOfParamName(c); ok && idx == 0 {
					if outcome {
						set(name, "t")
					} else {
						set(name, "f")
					}
				} else {
					unknown = "a branch on " + c.String()
				}
			case *ssa.Call:
				if cal := c.Call.StaticCallee(); cal != nil && cal.Name() == "IsZero" {
					zeroByValue = true
					if outcome {
						set("zerotime", "t")
					} else {
						set("zerotime", "f")
					}
				} else {
					unknown = "a branch on " + c.String()
				}
			case *ssa.Extract:
				// the "could parse" flag returned next to the parsed time
				if c2, isCall := c.Tuple.(*ssa.Call); isCall && c.Index == 1 && c2.Call.StaticCallee() != nil && c2.Call.Signature().Results().Len() == 2 {
					if outcome {
						set("zerotime", "f")
					} else {
						set("zerotime", "t")
					}
				} else {
					unknown = "a branch on " + c.String()
				}
			default:
				unknown = fmt.Sprintf("a branch on %T", cond)
			}
		}
		return pathInfo{facts, pred, infeasible, unknown, zeroByValue}
	}
	// describeText: the calendar text as a constant or a constant format over named components
	describeText := func(arg ssa.Value) string {
		text := "?"
		switch x := arg.(type) {
		case *ssa.Const:
			if x.Value != nil && x.Value.Kind() == constant.String {
				text = fmt.Sprintf("%q", constant.StringVal(x.Value))
			}
		case *ssa.Call:
			if isPkgFunc(x.Call.StaticCallee(), "fmt", "Sprintf") {
				f, _ := su.ConstString(x.Call.Args[0])
				var fs []string
				if sl, ok := x.Call.Args[1].(*ssa.Slice); ok {
					if al, ok := sl.X.(*ssa.Alloc); ok {
						elems := map[int64]string{}
						for _, ref := range *al.Referrers() {
							ia, ok := ref.(*ssa.IndexAddr)
							if !ok {
								continue
							}
							ix, _ := su.ConstInt(ia.Index)
							for _, r2 := range *ia.Referrers() {
								if st, ok := r2.(*ssa.Store); ok {
									if _, name, ok := fieldOfParamName(su.Strip(st.Val)); ok {
										elems[ix] = name
									} else {
										elems[ix] = "?"
									}
								}
							}
						}
						for i := int64(0); i < int64(len(elems)); i++ {
							fs = append(fs, elems[i])
						}
					}
				}
				text = fmt.Sprintf("%q %% (%s)", f, strings.Join(fs, ","))
			}
		}
		return text
	}
	for _, path := range paths {
		last := path[len(path)-1]
		ret, ok := last.Instrs[len(last.Instrs)-1].(*ssa.Return)
		if !ok {
			continue
		}
		pi := collectFacts(path)
		facts, pred, infeasible, unknown, zeroByValue := pi.facts, pi.pred, pi.infeasible, pi.unknown, pi.zeroByValue
		if infeasible {
			continue
		}
		canon := func(v ssa.Value) ssa.Value {
			for i := 0; i < 10; i++ {
				ph, ok := v.(*ssa.Phi)
				if !ok {
					return v
				}
				pr := pred[ph.Block()]
				found := false
				for j, q := range ph.Block().Preds {
					if q == pr {
						v = ph.Edges[j]
						found = true
					}
				}
				if !found {
					return v
				}
			}
			return v
		}
		// the result chain back to the parsed time
		var ops []string
		cur := canon(ret.Results[0])
		var parsed *ssa.Call
		for i := 0; i < 10; i++ {
			if ex, isEx := cur.(*ssa.Extract); isEx && ex.Index == 0 {
				if c0, isCall := ex.Tuple.(*ssa.Call); isCall {
					cur = c0 // (time, ok) := parse(...)
				}
			}
			c, ok := cur.(*ssa.Call)
			if !ok {
				break
			}
			cal := c.Call.StaticCallee()
			if cal == nil {
				break
			}
			switch cal.Name() {
			case "AddDate":
				var as []string
				for _, a := range c.Call.Args[1:] {
					if k, ok := su.ConstInt(a); ok {
						as = append(as, fmt.Sprint(k))
					} else {
						as = append(as, "?")
					}
				}
				ops = append([]string{"AddDate(" + strings.Join(as, ",") + ")"}, ops...)
				cur = canon(c.Call.Args[0])
				continue
			case "Add":
				a := "?"
				if k, ok := su.ConstInt(c.Call.Args[1]); ok {
					a = fmt.Sprint(k)
				}
				ops = append([]string{"Add(" + a + "ns)"}, ops...)
				cur = canon(c.Call.Args[0])
				continue
			}
			parsed = c
			break
		}
		zeroReturn := false
		if parsed == nil {
			unknown = "the returned time is not derived from one parse call through AddDate/Add"
			// the zero time handed out as such (time.Time{})
			switch z := cur.(type) {
			case *ssa.Const:
				zeroReturn = z.Value == nil
			case *ssa.UnOp:
				if al, isAl := z.X.(*ssa.Alloc); isAl && z.Op == token.MUL {
					stores := 0
					for _, ref := range *al.Referrers() {
						if st, isSt := ref.(*ssa.Store); isSt && st.Addr == ssa.Value(al) {
							stores++
						}
					}
					zeroReturn = stores == 0
				}
			}
		}
		// the text handed to the parser: built in Date.Time itself, or by a helper that is handed the date
		type combo struct {
			facts map[string]string
			text  string
		}
		var combos []combo
		if parsed != nil {
			arg := canon(parsed.Call.Args[len(parsed.Call.Args)-1])
			helper := (*ssa.Function)(nil)
			if hc, isCall := arg.(*ssa.Call); isCall {
				if h := hc.Call.StaticCallee(); h != nil && p.IsRepoFunc(h) && len(h.Blocks) > 0 && len(h.Params) == 1 && len(hc.Call.Args) == 1 {
					helper = h
				}
			}
			if helper == nil {
				combos = append(combos, combo{nil, describeText(arg)})
			} else {
				hp, hcapped := simplePaths(helper.Blocks[0], map[*ssa.BasicBlock]bool{}, 2000)
				if hcapped {
					unknown = "more than 2000 paths through " + load.FuncName(helper)
				}
				for _, hpath := range hp {
					hl := hpath[len(hpath)-1]
					hret, ok := hl.Instrs[len(hl.Instrs)-1].(*ssa.Return)
					if !ok || len(hret.Results) != 1 {
						continue
					}
					hi := collectFacts(hpath)
					if hi.infeasible {
						continue
					}
					if hi.unknown != "" {
						unknown = hi.unknown
					}
					rv := hret.Results[0]
					for k := 0; k < 10; k++ {
						ph, isPhi := rv.(*ssa.Phi)
						if !isPhi {
							break
						}
						moved := false
						for j, q := range ph.Block().Preds {
							if q == hi.pred[ph.Block()] {
								rv, moved = ph.Edges[j], true
							}
						}
						if !moved {
							break
						}
					}
					combos = append(combos, combo{hi.facts, describeText(rv)})
				}
			}
		} else {
			combos = append(combos, combo{nil, "?"})
		}
		baseFacts := facts
		for _, cb := range combos {
			facts := map[string]string{}
			for k, v := range baseFacts {
				facts[k] = v
			}
			conflict := false
			for k, v := range cb.facts {
				if old, ok := facts[k]; ok && old != v {
					conflict = true
				}
				facts[k] = v
			}
			if conflict {
				continue
			}
			text := cb.text
			get := func(k string) string {
				if v, ok := facts[k]; ok {
					return v
				}
				return "?"
			}
			D, M, Y := get("Day"), get("Month"), get("Year")
			// R05.a: expected text - the documented cascade evaluated in three-valued logic on the path's facts
			tri := func(vs ...string) string { // conjunction of "component is known"
				res := "t"
				for _, v := range vs {
					switch v {
					case "0":
						return "f"
					case "?":
						res = "?"
					}
				}
				return res
			}
			wantText, det := "", true
			switch {
			case tri(D, M, Y) == "t":
				wantText = `"%d %d %04d" % (Day,Month,Year)`
			case tri(D, M, Y) == "?":
				det = false
			case tri(M, Y) == "t":
				wantText = `"1 %d %04d" % (Month,Year)`
			case tri(M, Y) == "?":
				det = false
			case tri(Y) == "t":
				wantText = `"1 1 %04d" % (Year)`
			case tri(Y) == "?":
				det = false
			default:
				wantText = `""`
			}
			ka := fmt.Sprintf("Day%s Month%s Year%s", D, M, Y)
			if !seenA[ka+"|"+text] {
				seenA[ka+"|"+text] = true
				o := r.Add("R05.a", "calendar text for "+ka, p.Pos(tm.Pos()), "text parsed by Date.Time when "+ka)
				switch {
				case unknown != "":
					o.Unknown(unknown)
				case !det:
					o.Fail("a path through Date.Time chooses the calendar text " + text + " without having tested the components that decide it (facts on the path: " + ka + ")")
				case text != wantText:
					o.Fail(fmt.Sprintf("with %s Date.Time parses %s; the first day of the period is %s", ka, text, wantText))
				default:
					o.OK(text)
				}
			}
			// R05.b: expected adjustment
			E, Z := get("IsEndOfRange"), get("zerotime")
			want := "?"
			switch {
			case E == "f" || Z == "t":
				want = ""
			case E == "?" || Z == "?":
			case D == "!0":
				want = "AddDate(0,0,1) Add(-1ns)"
			case D == "?":
			case M == "!0":
				want = "AddDate(0,1,0) Add(-1ns)"
			case M == "?":
			case Y == "!0":
				want = "AddDate(1,0,0) Add(-1ns)"
			case Y == "?":
			default:
				want = "Add(-1ns)" // a parsed, non-zero time without any component cannot occur; the code only takes the nanosecond off
			}
			got := strings.Join(ops, " ")
			kb := fmt.Sprintf("IsEndOfRange=%s zero-time=%s Day%s Month%s Year%s", E, Z, D, M, Y)
			if !seenB[kb+"|"+got] {
				seenB[kb+"|"+got] = true
				o := r.Add("R05.b", "adjustment for "+kb, p.Pos(tm.Pos()), "end-of-range adjustment when "+kb)
				switch {
				case zeroReturn && Z == "f" && Y != "0":
					o.Fail("on a path on which the text WAS parsed as a calendar date (" + kb + ") Date.Time returns the zero time instead of the bound: the period of a valid date ends (or starts) at year 1 - its end lies before its start")
				case unknown != "" && want != "?" && got != want:
					// the component tests on the path already fix the adjustment; a further test the rule cannot read only narrows the path
					o.Fail(fmt.Sprintf("when %s (and under %s) the bound is adjusted by [%s]; the last nanosecond of the period needs [%s] for every date with these components", kb, unknown, got, want))
				case unknown != "":
					o.Unknown(unknown)
				case zeroByValue && E == "t" && Z == "t" && Y != "0":
					o.Fail("an end-of-range bound is left unadjusted whenever the parsed time IsZero(): 1 Jan 0001 00:00 UTC - the start of the valid dates '1 Jan 0001', 'Jan 0001' and '0001' - is Go's zero time, so the end of those three periods equals their start (the parser's own success flag must decide, not the value)")
				case want == "?":
					o.Fail("a path through Date.Time applies [" + got + "] without having tested what decides the adjustment (facts on the path: " + kb + ")")
				case got != want:
					o.Fail(fmt.Sprintf("when %s the bound is adjusted by [%s]; the last nanosecond of the period needs [%s]", kb, got, want))
				default:
					o.OK("[" + got + "]")
				}
			}
		}
	}
	c05Order(p, r)
}

// yearsOf: v is X.Years() (method of Date); returns a description of X.
func yearsOf(v ssa.Value) (string, bool) {
	c, ok := v.(*ssa.Call)
	if !ok {
		return "", false
	}
	cal := c.Call.StaticCallee()
	if cal == nil || cal.Name() != "Years" || len(c.Call.Args) != 1 {
		return "", false
	}
	return describeDateExpr(c.Call.Args[0], 0), true
}

func describeDateExpr(v ssa.Value, d int) string {
	if d > 6 {
		return "?"
	}
	switch x := v.(type) {
	case *ssa.Parameter:
		for i, q := range x.Parent().Params {
			if q == x {
				return fmt.Sprintf("p%d", i)
			}
		}
	case *ssa.UnOp:
		if x.Op == token.MUL {
			if fa, ok := x.X.(*ssa.FieldAddr); ok {
				return describeDateExpr(fa.X, d+1) + "." + su.FieldName(fa)
			}
			if al, ok := x.X.(*ssa.Alloc); ok {
				for _, ref := range *al.Referrers() {
					if st, ok := ref.(*ssa.Store); ok && st.Addr == ssa.Value(al) {
						return describeDateExpr(st.Val, d+1)
					}
				}
			}
			if ia, ok := x.X.(*ssa.IndexAddr); ok {
				return describeDateExpr(ia.X, d+1) + "[i]"
			}
		}
	case *ssa.Alloc:
		for _, ref := range *x.Referrers() {
			if st, ok := ref.(*ssa.Store); ok && st.Addr == ssa.Value(x) {
				return describeDateExpr(st.Val, d+1)
			}
		}
	case *ssa.Field:
		st := x.X.Type().Underlying().(*types.Struct)
		return describeDateExpr(x.X, d+1) + "." + st.Field(x.Field).Name()
	case *ssa.Call:
		if cal := x.Call.StaticCallee(); cal != nil && len(x.Call.Args) >= 1 {
			return cal.Name() + "(" + describeDateExpr(x.Call.Args[0], d+1) + ")"
		}
	case *ssa.Extract:
		return fmt.Sprintf("%s#%d", describeDateExpr(x.Tuple, d+1), x.Index)
	case *ssa.Phi:
		return "phi"
	}
	return "?"
}

func c05Order(p *load.Prog, r *oblig.Run) {
	// canonical relation computed by a function whose single result is  Years(A) op Years(B)  or the answer of another
	// such function: always written  Years(X) < Years(Y)  (a > b is b < a; a call is replaced by what the callee computes)
	var cmpShape func(fn *ssa.Function, depth int) string
	cmpShape = func(fn *ssa.Function, depth int) string {
		if fn == nil {
			return "missing"
		}
		if depth > 3 {
			return "?"
		}
		var shapes []string
		for _, b := range fn.Blocks {
			ret, ok := b.Instrs[len(b.Instrs)-1].(*ssa.Return)
			if !ok || len(ret.Results) != 1 {
				continue
			}
			switch x := ret.Results[0].(type) {
			case *ssa.BinOp:
				a, ok1 := yearsOf(x.X)
				c, ok2 := yearsOf(x.Y)
				if ok1 && ok2 {
					switch x.Op {
					case token.LSS:
						shapes = append(shapes, fmt.Sprintf("Years(%s) < Years(%s)", a, c))
					case token.GTR:
						shapes = append(shapes, fmt.Sprintf("Years(%s) < Years(%s)", c, a))
					default:
						shapes = append(shapes, fmt.Sprintf("Years(%s) %s Years(%s)", a, x.Op, c))
					}
					continue
				}
			case *ssa.Call:
				if cal := x.Call.StaticCallee(); cal != nil && len(x.Call.Args) == 2 && p.IsRepoFunc(cal) {
					inner := cmpShape(cal, depth+1)
					a0, a1 := describeDateExpr(x.Call.Args[0], 0), describeDateExpr(x.Call.Args[1], 0)
					inner = strings.NewReplacer("p0", "\x00", "p1", "\x01").Replace(inner)
					inner = strings.NewReplacer("\x00", a0, "\x01", a1).Replace(inner)
					shapes = append(shapes, inner)
					continue
				}
			}
			shapes = append(shapes, "?")
		}
		return strings.Join(shapes, " | ")
	}
	check := func(key string, fn *ssa.Function, want, bad string) {
		pos := "-"
		if fn != nil {
			pos = p.Pos(fn.Pos())
		}
		got := cmpShape(fn, 0)
		r.Check("R05.c", key, pos, "comparison performed by "+key, got == want, got, fmt.Sprintf("%s computes %s instead of %s: %s", key, got, want, bad))
	}
	check("Date.IsBefore", p.Method(load.PkgRoot, "Date", "IsBefore"), "Years(p0) < Years(p1)", "before/after no longer agree with calendar order")
	check("Date.IsAfter", p.Method(load.PkgRoot, "Date", "IsAfter"), "Years(p1) < Years(p0)", "before/after no longer agree with calendar order")
	check("DateRange.IsBefore", p.Method(load.PkgRoot, "DateRange", "IsBefore"), "Years(p0.start) < Years(p1.start)", "ranges are ordered by something other than their two starts")
	check("DateRange.IsAfter", p.Method(load.PkgRoot, "DateRange", "IsAfter"), "Years(p1.end) < Years(p0.end)", "ranges are ordered by something other than their two ends")
	// Minimum / Maximum: the replacing comparison inside the loop
	for _, mm := range []struct {
		name, acc string
		op        token.Token
	}{{"Minimum", "StartDate", token.LSS}, {"Maximum", "EndDate", token.GTR}} {
		fn := p.Method(load.PkgRoot, "DateNodes", mm.name)
		o := r.Add("R05.c", "DateNodes."+mm.name, "-", "comparison that replaces the current "+strings.ToLower(mm.name))
		if fn == nil {
			o.Unknown("not found")
			continue
		}
		o.Pos = p.Pos(fn.Pos())
		found, bad := 0, ""
		for _, b := range fn.Blocks {
			for _, ins := range b.Instrs {
				bo, ok := ins.(*ssa.BinOp)
				if !ok {
					continue
				}
				a, ok1 := yearsOf(bo.X)
				c, ok2 := yearsOf(bo.Y)
				if !ok1 || !ok2 {
					continue
				}
				found++
				wantA, wantC := mm.acc+"(p0[i])", mm.acc+"(phi)"
				if bo.Op != mm.op || a != wantA || c != wantC {
					bad = fmt.Sprintf("Years(%s) %s Years(%s)", a, bo.Op, c)
				}
			}
		}
		if found == 0 {
			// cached form: Years(acc(element)) op key, where key is a loop variable holding the current candidate's
			// value. The key must be replaced exactly when the candidate is.
			var elemPhi *ssa.Phi // loop variable of the result type
			for _, h := range loopHeaders(fn) {
				for _, ins := range h.Instrs {
					if ph, ok := ins.(*ssa.Phi); ok && types.Identical(ph.Type(), fn.Signature.Results().At(0).Type()) {
						elemPhi = ph
					}
				}
			}
			for _, b := range fn.Blocks {
				for _, ins := range b.Instrs {
					bo, ok := ins.(*ssa.BinOp)
					if !ok {
						continue
					}
					a, ok1 := yearsOf(bo.X)
					keyPhi, ok2 := bo.Y.(*ssa.Phi)
					if !ok1 || !ok2 || elemPhi == nil || keyPhi.Block() != elemPhi.Block() {
						continue
					}
					found++
					if bo.Op != mm.op || a != mm.acc+"(p0[i])" {
						bad = fmt.Sprintf("Years(%s) %s cached key", a, bo.Op)
						continue
					}
					// back-edge values of the two loop variables must change together
					for i, pr := range elemPhi.Block().Preds {
						if !elemPhi.Block().Dominates(pr) {
							continue
						}
						ev, kv := elemPhi.Edges[i], keyPhi.Edges[i]
						ep, isEP := ev.(*ssa.Phi)
						kp, isKP := kv.(*ssa.Phi)
						switch {
						case isEP && isKP && ep.Block() == kp.Block():
							for j := range ep.Edges {
								if (ep.Edges[j] == ssa.Value(elemPhi)) != (kp.Edges[j] == ssa.Value(keyPhi)) {
									bad = "the cached key and the candidate are not replaced on the same paths"
								}
							}
						case ev == ssa.Value(elemPhi) && kv == ssa.Value(keyPhi):
						default:
							bad = "the cached key is replaced on paths on which the candidate is kept (or the reverse)"
						}
					}
				}
			}
		}
		switch {
		case found == 0:
			o.Unknown("no comparison of two Years() values found")
		case bad != "":
			o.Fail(fmt.Sprintf("DateNodes.%s: %s; the candidate must be replaced exactly when Years(%s(element)) %s Years(%s(current)) (a key that follows the previous element instead of the current candidate compares each date with its predecessor)", mm.name, bad, mm.acc, mm.op, mm.acc))
		default:
			o.OK(fmt.Sprintf("Years(%s(element)) %s Years(%s(current))", mm.acc, mm.op, mm.acc))
		}
	}
}
