package props

import (
	"fmt"
	"go/token"
	"go/types"
	"sort"
	"strings"

	"gedverif/internal/load"
	"gedverif/internal/oblig"
	"gedverif/internal/su"

	"golang.org/x/tools/go/ssa"
)

// c15Errors (R15.e): inside the evaluation functions of package q the error of a
// nested Evaluate is returned to the caller - never dropped, never turned into
// "try the next element". The depth cut-off of recursive variables (R15.r) and
// every "returns a value or an error" clause rely on errors travelling upwards.
func c15Errors(p *load.Prog, r *oblig.Run) {
	r.Rule("R15.e", "the error of a nested Evaluate ends the enclosing Evaluate with an error on every path", 12)
	errT := types.Universe.Lookup("error").Type()
	var fns []*ssa.Function
	for _, fn := range p.Repo {
		if fn.Name() == "Evaluate" && pkgPathOf(fn) == load.PkgQ && fn.Synthetic == "" && len(fn.Blocks) > 0 {
			fns = append(fns, fn)
		}
	}
	sort.Slice(fns, func(i, j int) bool { return fns[i].String() < fns[j].String() })
	for _, fn := range fns {
		ord := 0
		for _, c := range su.Calls(fn) {
			cc := c.Common()
			name := ""
			if cc.IsInvoke() {
				name = cc.Method.Name()
			} else if cal := cc.StaticCallee(); cal != nil && pkgPathOf(cal) == load.PkgQ {
				name = cal.Name()
			}
			if name != "Evaluate" {
				continue
			}
			val, ok := c.(ssa.Value)
			if !ok {
				continue // go/defer
			}
			tup, ok := val.Type().(*types.Tuple)
			if !ok || tup.Len() == 0 || !types.Identical(tup.At(tup.Len()-1).Type(), errT) {
				continue
			}
			ord++
			key := fmt.Sprintf("nested Evaluate #%d in %s", ord, load.FuncName(fn))
			o := r.Add("R15.e", key, p.Pos(c.Pos()), "error result of a nested Evaluate")
			var errV ssa.Value
			for _, ref := range *val.Referrers() {
				if ex, ok := ref.(*ssa.Extract); ok && ex.Index == tup.Len()-1 {
					errV = ex
				}
			}
			if errV == nil {
				o.Fail("the error of the nested Evaluate is discarded")
				continue
			}
			// returned directly?
			direct := false
			var errSides []*ssa.BasicBlock
			for _, ref := range *errV.Referrers() {
				switch x := ref.(type) {
				case *ssa.Return:
					direct = true
				case *ssa.Store:
					// named result spilled to a local (functions with defer): stored, then loaded by the return
					if al, ok := x.Addr.(*ssa.Alloc); ok && x.Val == errV {
						for _, r2 := range *al.Referrers() {
							if ld, ok := r2.(*ssa.UnOp); ok {
								for _, r3 := range *ld.Referrers() {
									if _, ok := r3.(*ssa.Return); ok {
										direct = true
									}
								}
							}
						}
					}
				case *ssa.BinOp:
					k, isK := x.Y.(*ssa.Const)
					if !isK || k.Value != nil || (x.Op != token.NEQ && x.Op != token.EQL) {
						continue
					}
					for _, r2 := range *x.Referrers() {
						if iff, ok := r2.(*ssa.If); ok {
							if x.Op == token.NEQ {
								errSides = append(errSides, iff.Block().Succs[0])
							} else {
								errSides = append(errSides, iff.Block().Succs[1])
							}
						}
					}
				}
			}
			if direct && len(errSides) == 0 {
				o.OK("returned as is")
				continue
			}
			if len(errSides) == 0 {
				o.Fail("the error of the nested Evaluate is never tested or returned")
				continue
			}
			bad := ""
			for _, es := range errSides {
				// every path from the error side must end in a return with a non-nil error, without going round again
				reach := su.ReachableBlocks(es)
				if reach[c.Block()] && es != c.Block() {
					bad = "after a failed nested Evaluate the function goes on (the loop continues with the next element): the error is swallowed"
					break
				}
				sawRet := false
				for b := range reach {
					ret, ok := b.Instrs[len(b.Instrs)-1].(*ssa.Return)
					if !ok {
						if _, isPanic := b.Instrs[len(b.Instrs)-1].(*ssa.Panic); isPanic {
							continue
						}
						continue
					}
					sawRet = true
					last := ret.Results[len(ret.Results)-1]
					if k, isK := last.(*ssa.Const); isK && k.Value == nil {
						bad = "after a failed nested Evaluate the function can return without an error (" + p.Pos(ret.Pos()) + ")"
					}
				}
				if !sawRet && bad == "" {
					bad = "the error side of the test never returns"
				}
			}
			// ... and the error is looked at before anything else is evaluated: another nested Evaluate that can run
			// after this one must lie behind the nil side of this one's error test
			if bad == "" {
				// nil-side edges of the tests of this error: (test block, successor index)
				type edge struct {
					from *ssa.BasicBlock
					idx  int
				}
				var nilEdges []edge
				for _, ref := range *errV.Referrers() {
					if x, ok := ref.(*ssa.BinOp); ok {
						for _, r2 := range *x.Referrers() {
							if iff, ok := r2.(*ssa.If); ok {
								if x.Op == token.NEQ {
									nilEdges = append(nilEdges, edge{iff.Block(), 1})
								} else if x.Op == token.EQL {
									nilEdges = append(nilEdges, edge{iff.Block(), 0})
								}
							}
						}
					}
				}
				reach := su.ReachableBlocks(c.Block())
				for _, c2 := range su.Calls(fn) {
					if c2 == c {
						continue
					}
					cc2 := c2.Common()
					n2 := ""
					if cc2.IsInvoke() {
						n2 = cc2.Method.Name()
					} else if cal := cc2.StaticCallee(); cal != nil && pkgPathOf(cal) == load.PkgQ {
						n2 = cal.Name()
					}
					if n2 != "Evaluate" {
						continue
					}
					after := false
					if c2.Block() == c.Block() {
						for _, ins := range c.Block().Instrs {
							if ins == c.(ssa.Instruction) {
								after = true
							} else if ins == c2.(ssa.Instruction) {
								break
							}
						}
						if !after {
							continue // c2 precedes c in the same block
						}
					} else if !reach[c2.Block()] {
						continue
					}
					// every path from this call to c2 must take the nil side of the test: c2 is not reachable when the
					// nil-side successors (entered only through that edge) are blocked
					behind := false
					if !(c2.Block() == c.Block() && after) {
						if len(nilEdges) > 0 {
							seen := map[*ssa.BasicBlock]bool{}
							found := false
							var walk func(b *ssa.BasicBlock)
							walk = func(b *ssa.BasicBlock) {
								for k, sx := range b.Succs {
									blocked := false
									for _, e := range nilEdges {
										if e.from == b && e.idx == k {
											blocked = true
										}
									}
									if blocked || seen[sx] {
										continue
									}
									seen[sx] = true
									if sx == c2.Block() {
										found = true
									}
									walk(sx)
								}
							}
							walk(c.Block())
							behind = !found
						}
					}
					if !behind {
						bad = "the nested Evaluate at " + p.Pos(c2.Pos()) + " can run before the error of this one is looked at: an error no longer cuts the evaluation short (with a variable defined in terms of itself on both sides of an operator the depth limit is then reached on every branch of a binary tree - evaluation never finishes)"
					}
				}
			}
			if bad != "" {
				o.Fail(bad)
			} else {
				o.OK("the error side returns an error, and nothing else is evaluated before the error is looked at")
			}
		}
	}
}

// c15NilResults (R15.f): the formatters run outside the recover of the query
// engine, and a query result (or an element of one) can be a typed nil pointer
// (.Birth of an individual without a birth). Before a formatter calls a method
// on a result through an interface it asserted from interface{}, the value must
// have passed gedcom.IsNil on every path.
func c15NilResults(p *load.Prog, r *oblig.Run) {
	r.Rule("R15.f", "a formatter calls interface methods on a query result only after gedcom.IsNil ruled out a (typed) nil", 2)
	isNil := p.Func(load.PkgRoot, "IsNil")
	if isNil == nil {
		r.Add("R15.f", "anchor", "-", "anchor").Unknown("gedcom.IsNil not found")
		return
	}
	// scope: functions of package q reachable (inside q) from the Write methods of the formatters
	scope := map[*ssa.Function]bool{}
	var work []*ssa.Function
	for _, fn := range p.Repo {
		if pkgPathOf(fn) == load.PkgQ && fn.Name() == "Write" && fn.Signature.Recv() != nil && fn.Synthetic == "" {
			if n := load.NamedOf(fn.Signature.Recv().Type()); n != nil && strings.HasSuffix(n.Obj().Name(), "Formatter") {
				scope[fn] = true
				work = append(work, fn)
			}
		}
	}
	for len(work) > 0 {
		fn := work[len(work)-1]
		work = work[:len(work)-1]
		for _, c := range su.Calls(fn) {
			if cal := c.Common().StaticCallee(); cal != nil && pkgPathOf(cal) == load.PkgQ && len(cal.Blocks) > 0 && !scope[cal] {
				scope[cal] = true
				work = append(work, cal)
			}
		}
	}
	var fns []*ssa.Function
	for f := range scope {
		fns = append(fns, f)
	}
	sort.Slice(fns, func(i, j int) bool { return fns[i].String() < fns[j].String() })
	for _, fn := range fns {
		// IsNil guards of this function: value -> blocks dominated by the false edge
		type guard struct {
			v   ssa.Value
			blk *ssa.BasicBlock
		}
		var guards []guard
		for _, b := range fn.Blocks {
			iff, ok := b.Instrs[len(b.Instrs)-1].(*ssa.If)
			if !ok {
				continue
			}
			cond := iff.Cond
			neg := false
			if u, isNot := cond.(*ssa.UnOp); isNot && u.Op == token.NOT {
				cond, neg = u.X, true
			}
			c, ok := cond.(*ssa.Call)
			if !ok || c.Call.StaticCallee() != isNil || len(c.Call.Args) != 1 {
				continue
			}
			safe := b.Succs[1]
			if neg {
				safe = b.Succs[0]
			}
			if len(safe.Preds) == 1 {
				guards = append(guards, guard{su.Strip(c.Call.Args[0]), safe})
			}
		}
		ord := 0
		for _, b := range fn.Blocks {
			for _, ins := range b.Instrs {
				ta, ok := ins.(*ssa.TypeAssert)
				if !ok {
					continue
				}
				src, isIface := ta.X.Type().Underlying().(*types.Interface)
				dst, isIface2 := ta.AssertedType.Underlying().(*types.Interface)
				if !isIface || !isIface2 || src.NumMethods() != 0 || dst.NumMethods() == 0 {
					continue
				}
				// invokes on the asserted value
				var vals []ssa.Value
				if ta.CommaOk {
					for _, ref := range *ta.Referrers() {
						if ex, ok := ref.(*ssa.Extract); ok && ex.Index == 0 {
							vals = append(vals, ex)
						}
					}
				} else {
					vals = append(vals, ta)
				}
				for _, v := range vals {
					for _, ref := range *v.Referrers() {
						c, ok := ref.(ssa.CallInstruction)
						if !ok || !c.Common().IsInvoke() || c.Common().Value != v {
							continue
						}
						ord++
						key := fmt.Sprintf("%s on a result in %s #%d", c.Common().Method.Name(), load.FuncName(fn), ord)
						o := r.Add("R15.f", key, p.Pos(c.Pos()), "interface call on a query result outside the engine's recover")
						okG := false
						for _, g := range guards {
							if (g.v == su.Strip(ta.X) || g.v == v) && (g.blk == c.Block() || g.blk.Dominates(c.Block())) {
								okG = true
							}
						}
						if okG {
							o.OK("after gedcom.IsNil ruled out nil")
						} else {
							o.Fail("." + c.Common().Method.Name() + "() is called on a query result that was only asserted to " + types.TypeString(ta.AssertedType, nil) + ": a typed nil pointer (the .Birth/.Death/.Baptism of an individual that has none, or a nil element of a list) passes the assertion and the method dereferences it - a panic outside the recover of Engine.Evaluate")
						}
					}
				}
			}
		}
	}
}

// c15Work (R15.g): an Evaluate method evaluates each of its argument
// statements at most once on its own (unchanged) input. Evaluating the same
// child twice on the same input doubles the work at every nesting level: a
// query nested n deep then needs 2^n evaluations and, for all practical
// purposes, never returns.
func c15Work(p *load.Prog, r *oblig.Run) {
	r.Rule("R15.g", "an Evaluate method evaluates each argument statement at most once on its unchanged input (nested queries take time linear, not exponential, in their depth)", 10)
	var fns []*ssa.Function
	for _, fn := range p.Repo {
		if fn.Name() == "Evaluate" && pkgPathOf(fn) == load.PkgQ && fn.Synthetic == "" && len(fn.Blocks) > 0 {
			fns = append(fns, fn)
		}
	}
	sort.Slice(fns, func(i, j int) bool { return fns[i].String() < fns[j].String() })
	type childEval struct {
		call   ssa.CallInstruction
		lo, hi int64 // indexes of args it can denote; hi < 0: unbounded
	}
	for _, fn := range fns {
		var input, args *ssa.Parameter
		for _, prm := range fn.Params {
			switch prm.Name() {
			case "input":
				input = prm
			case "args":
				args = prm
			}
		}
		if input == nil || args == nil {
			continue
		}
		// element loops over args or over args[k:]
		type loopOf struct {
			l  elementLoop
			lo int64
		}
		var loops []loopOf
		for _, l := range findElementLoops(fn, args) {
			loops = append(loops, loopOf{l, 0})
		}
		for _, b := range fn.Blocks {
			for _, ins := range b.Instrs {
				sl, ok := ins.(*ssa.Slice)
				if !ok || sl.X != ssa.Value(args) || sl.High != nil {
					continue
				}
				lo := int64(0)
				if sl.Low != nil {
					k, isK := su.ConstInt(sl.Low)
					if !isK {
						continue
					}
					lo = k
				}
				for _, l := range findElementLoops(fn, sl) {
					loops = append(loops, loopOf{l, lo})
				}
			}
		}
		var evals []childEval
		undecided := ""
		for _, c := range su.Calls(fn) {
			cc := c.Common()
			name := ""
			if cc.IsInvoke() {
				name = cc.Method.Name()
			} else if cal := cc.StaticCallee(); cal != nil && pkgPathOf(cal) == load.PkgQ {
				name = cal.Name()
			}
			if name != "Evaluate" {
				continue
			}
			// the input operand: the argument of the type of `input`
			var recv ssa.Value
			var in ssa.Value
			if cc.IsInvoke() {
				recv = cc.Value
				if len(cc.Args) >= 2 {
					in = cc.Args[1]
				}
			} else if len(cc.Args) >= 3 {
				recv = cc.Args[0]
				in = cc.Args[2]
			}
			if in != ssa.Value(input) || recv == nil {
				continue
			}
			ld, ok := su.Strip(recv).(*ssa.UnOp)
			if !ok {
				continue // not an element of args (a field of the receiver, a variable's statement)
			}
			ia, ok := ld.X.(*ssa.IndexAddr)
			if !ok {
				continue
			}
			if ia.X == ssa.Value(args) {
				if k, isK := su.ConstInt(ia.Index); isK {
					evals = append(evals, childEval{c, k, k})
					continue
				}
			}
			found := false
			for _, lp := range loops {
				if lp.l.elementOf(recv) {
					evals = append(evals, childEval{c, lp.lo, -1})
					found = true
				}
			}
			if !found && (ia.X == ssa.Value(args)) {
				undecided = "an argument statement is selected by an index this rule cannot follow at " + p.Pos(c.Pos())
			}
		}
		o := r.Add("R15.g", load.FuncName(fn), p.Pos(fn.Pos()), "argument statements evaluated on the unchanged input")
		if undecided != "" {
			o.Unknown(undecided)
			continue
		}
		bad := ""
		for i := 0; i < len(evals) && bad == ""; i++ {
			for j := i + 1; j < len(evals); j++ {
				a, b := evals[i], evals[j]
				overlap := (a.hi < 0 || b.lo <= a.hi) && (b.hi < 0 || a.lo <= b.hi)
				if !overlap {
					continue
				}
				ra, rb := su.ReachableBlocks(a.call.Block()), su.ReachableBlocks(b.call.Block())
				if a.call.Block() == b.call.Block() || ra[b.call.Block()] || rb[a.call.Block()] {
					idx := a.lo
					if b.lo > idx {
						idx = b.lo
					}
					bad = fmt.Sprintf("argument %d is evaluated on the same input both at %s and at %s: every level of nesting doubles the work, so a query nested n deep takes 2^n evaluations and effectively never returns", idx, p.Pos(a.call.Pos()), p.Pos(b.call.Pos()))
					break
				}
			}
		}
		if bad != "" {
			o.Fail(bad)
		} else {
			o.OK(fmt.Sprintf("%d evaluation site(s), pairwise distinct arguments", len(evals)))
		}
	}
}
