package props

import (
	"fmt"
	"go/token"
	"go/types"
	"regexp"
	"sort"
	"strings"

	"gedverif/internal/cg"
	"gedverif/internal/e2"
	"gedverif/internal/e4"
	"gedverif/internal/load"
	"gedverif/internal/oblig"
	"gedverif/internal/su"

	"golang.org/x/tools/go/ssa"
)

// C19: publishing yields a closed, confined, deterministic set of files.
func C19(p *load.Prog, r *oblig.Run) {
	r.Explanation = "Several structural clauses. R19.a (E2 taint, file-name alphabet): no text read from a node reaches the name of a published file (core.NewFile / File.Name / os.Create) without a replacement that removes everything outside a safe alphabet (no '/', '\\\\', '.', NUL). " +
		"R19.b (constant formats): the name languages of the Page* functions are pairwise disjoint. R19.c (value origin): PageIndividuals is only called with letters that stem from the index-letter functions, the index-letter list or a constant. " +
		"R19.d: no package-level variable of html is mutated after initialisation except a cache keyed by the document. R19.e (E4 Q-race): stores made from the publish workers, the file producer goroutine and the diff page's pipeline to shared state are synchronised. " +
		"R19.f (error discipline): on the publish path the error of FileWriter.WriteFile, Component.WriteHTMLTo, Close is propagated, stored into the returned error or panicked with, never dropped, and a failed write ends the worker loop."
	r.NotDecided = "link closure in general (every href resolves to a generated page), byte-identical output across runs (unordered map iteration), hangs of the producer goroutine after a writer failure."
	r.Assumptions = append(e4Assumptions(), "E2 assumptions as for C18")
	g := cg.New(p, false)
	c19Confinement(p, r, g)
	c19Names(p, r)
	c19Letters(p, r)
	c19Globals(p, r)
	c19Races(p, r, g)
	c19Errors(p, r, g)
}

func c19Confinement(p *load.Prog, r *oblig.Run, g *cg.Graph) {
	r.Rule("R19.a", "no file text reaches a published file's name without a safe-alphabet replacement", 3)
	newFile := p.Func(load.PkgCore, "NewFile")
	cfg := e2.Config{
		SourceCell: func(cell string) (string, bool) { l, ok := fileTextCells[cell]; return l + " (" + cell + ")", ok },
		Sanitizer: func(site ssa.CallInstruction, callee *ssa.Function) bool {
			return safeReplace(site, callee, "/\\.\x00<>:\"|?*")
		},
		SinkArg: func(site ssa.CallInstruction, callee *ssa.Function, inScope bool) []int {
			switch {
			case callee == newFile && newFile != nil:
				return []int{0}
			case isPkgFunc(callee, "os", "Create", "OpenFile", "WriteFile", "Mkdir", "MkdirAll"):
				return []int{0}
			}
			return nil
		},
	}
	a := e2.New(p, g, cfg)
	var effs []*e2.Effect
	for _, e := range a.Closed {
		if e.Kind == "sink" || (e.Kind == "write" && a.Raw[e.Cell] && !e2.Transparent(e.Cell)) {
			effs = append(effs, e)
		}
	}
	// File.Name stores other than through NewFile
	sort.Slice(effs, func(i, j int) bool { return effKey(p, effs[i]) < effKey(p, effs[j]) })
	for _, e := range effs {
		site, where := frontier(e)
		o := r.Add("R19.a", effKey(p, e), p.Pos(site.Pos()), "text that becomes (part of) a file name at "+where)
		tainted := a.TaintedDeps(e.Deps)
		if len(tainted) == 0 || !a.Primary(e.Deps) {
			o.OK("no unsanitised file text among its dependencies")
			continue
		}
		wit := []string{"file text reaching it: " + strings.Join(tainted, "; ")}
		for i := len(e.Via) - 1; i >= 0; i-- {
			wit = append(wit, "  via call at "+p.Pos(e.Via[i].Pos())+" in "+load.FuncName(e.Via[i].Parent()))
		}
		if e.Kind == "write" {
			wit = append(wit, a.RawChain(e.Cell)...)
		}
		o.Fail("text taken from the GEDCOM file becomes part of a published file's name without being reduced to a safe alphabet: a pointer or name such as '../x' or 'a/b' names a file outside the output directory ("+where+")", wit...)
	}
}

// pageName describes the language of one page-name producer.
type pageName struct {
	fn   string
	pos  token.Pos
	re   string // regular expression of the produced names
	desc string
}

func c19Names(p *load.Prog, r *oblig.Run) {
	r.Rule("R19.b", "the file-name languages of the page kinds are pairwise disjoint", 10)
	var names []pageName
	sp := p.SSAPkg[load.PkgHTML]
	var fns []*ssa.Function
	for _, m := range sp.Members {
		if f, ok := m.(*ssa.Function); ok && strings.HasPrefix(f.Name(), "Page") && f.Signature.Results().Len() == 1 {
			if b, ok := f.Signature.Results().At(0).Type().Underlying().(*types.Basic); ok && b.Kind() == types.String {
				fns = append(fns, f)
			}
		}
	}
	sort.Slice(fns, func(i, j int) bool { return fns[i].Name() < fns[j].Name() })
	for _, f := range fns {
		for _, b := range f.Blocks {
			ret, ok := b.Instrs[len(b.Instrs)-1].(*ssa.Return)
			if !ok {
				continue
			}
			v := ret.Results[0]
			if s, ok := su.ConstString(v); ok {
				if s == "#" {
					continue // the inert link, not a file
				}
				names = append(names, pageName{f.Name(), ret.Pos(), "^" + regexp.QuoteMeta(s) + "$", fmt.Sprintf("%q", s)})
				continue
			}
			if c, ok := v.(*ssa.Call); ok && su.CalleeIs(&c.Call, "fmt", "Sprintf") {
				if format, ok := su.ConstString(c.Call.Args[0]); ok {
					re := "^"
					for i := 0; i < len(format); i++ {
						if format[i] == '%' && i+1 < len(format) {
							switch format[i+1] {
							case 's':
								re += `[a-zA-Z_0-9-]+`
							case 'c':
								re += `.`
							case 'd':
								re += `[0-9]+`
							default:
								re += `.*`
							}
							i++
							continue
						}
						re += regexp.QuoteMeta(string(format[i]))
					}
					names = append(names, pageName{f.Name(), ret.Pos(), re + "$", fmt.Sprintf("format %q", format)})
					continue
				}
			}
			names = append(names, pageName{f.Name(), ret.Pos(), "^.*$", "a computed string"})
		}
	}
	r.Extra["page_name_producers"] = len(names)
	// pairwise: witness strings built from each side's literals
	sample := func(n pageName) []string {
		// strings of the language: substitute holes by fragments
		var out []string
		frags := []string{"x", "a", "places", "families", "sources", "statistics", "surnames", "individuals-symbol", "individuals-a", "1", "s"}
		re := regexp.MustCompile(n.re)
		base := strings.TrimSuffix(strings.TrimPrefix(n.re, "^"), "$")
		for _, f := range frags {
			s := base
			s = strings.ReplaceAll(s, `[a-zA-Z_0-9-]+`, f)
			s = strings.ReplaceAll(s, `[0-9]+`, "1")
			s = strings.ReplaceAll(s, `.*`, f)
			// single-character holes
			if strings.Contains(s, `.`) {
				s2 := ""
				for i := 0; i < len(s); i++ {
					if s[i] == '\\' && i+1 < len(s) {
						s2 += string(s[i+1])
						i++
					} else if s[i] == '.' {
						s2 += f[:1]
					} else {
						s2 += string(s[i])
					}
				}
				s = s2
			}
			if re.MatchString(s) {
				out = append(out, s)
			}
		}
		return out
	}
	for i := 0; i < len(names); i++ {
		for j := i + 1; j < len(names); j++ {
			a, b := names[i], names[j]
			if a.fn == b.fn {
				continue
			}
			ra, rb := regexp.MustCompile(a.re), regexp.MustCompile(b.re)
			witness := ""
			for _, s := range append(sample(a), sample(b)...) {
				if ra.MatchString(s) && rb.MatchString(s) {
					witness = s
					break
				}
			}
			key := fmt.Sprintf("%s vs %s", a.fn, b.fn)
			o := r.Add("R19.b", key, p.Pos(a.pos), fmt.Sprintf("names of %s (%s) and %s (%s)", a.fn, a.desc, b.fn, b.desc))
			if witness == "" {
				o.OK("no common name found among the languages' literal-derived members")
			} else {
				o.Fail(fmt.Sprintf("%s and %s can both produce the file name %q: two different pages would be written to the same file", a.fn, b.fn, witness))
			}
		}
	}
}

// c19Letters: origin of the letter passed to PageIndividuals.
func c19Letters(p *load.Prog, r *oblig.Run) {
	r.Rule("R19.c", "PageIndividuals is called only with letters from the index-letter functions, the index-letter list or a constant", 3)
	pi := p.Func(load.PkgHTML, "PageIndividuals")
	if pi == nil {
		r.Add("R19.c", "anchor", "-", "PageIndividuals").Unknown("PageIndividuals not found")
		return
	}
	allowedFns := map[string]bool{"getIndexLetter": true, "getSurnameIndexLetter": true, "GetIndexLetters": true}
	var allowed func(v ssa.Value, in *ssa.Function, depth int, seen map[ssa.Value]bool) (bool, string)
	allowed = func(v ssa.Value, in *ssa.Function, depth int, seen map[ssa.Value]bool) (bool, string) {
		if depth > 200 {
			return false, "origin too deep to trace"
		}
		if seen[v] {
			return true, ""
		}
		seen[v] = true
		switch x := v.(type) {
		case *ssa.Const:
			return true, ""
		case *ssa.Call:
			if cal := x.Call.StaticCallee(); cal != nil && allowedFns[cal.Name()] && cal.Pkg != nil && cal.Pkg.Pkg.Path() == load.PkgHTML {
				return true, ""
			}
			return false, "result of " + x.Call.Value.Name()
		case *ssa.Phi:
			for _, e := range x.Edges {
				if ok, why := allowed(e, in, depth+1, seen); !ok {
					return false, why
				}
			}
			return true, ""
		case *ssa.UnOp:
			if x.Op == token.MUL {
				switch ad := x.X.(type) {
				case *ssa.IndexAddr:
					return allowed(ad.X, in, depth+1, seen)
				case *ssa.FieldAddr:
					// a field holding letters: every store into a field of that name in package html must be allowed
					name := su.FieldName(ad)
					for _, fn := range p.Repo {
						if fn.Pkg == nil || fn.Pkg.Pkg.Path() != load.PkgHTML {
							continue
						}
						for _, b := range fn.Blocks {
							for _, ins := range b.Instrs {
								if st, ok := ins.(*ssa.Store); ok {
									if fa, ok := st.Addr.(*ssa.FieldAddr); ok && su.FieldName(fa) == name && types.Identical(fa.Type(), ad.Type()) {
										if ok, why := allowed(st.Val, fn, depth+1, seen); !ok {
											return false, why + " (stored into field " + name + " in " + load.FuncName(fn) + ")"
										}
									}
								}
							}
						}
					}
					return true, ""
				}
			}
			return false, "computed value " + x.String()
		case *ssa.Parameter:
			idx := -1
			for i, q := range in.Params {
				if q == x {
					idx = i
				}
			}
			n := 0
			for _, fn := range p.Repo {
				for _, c := range su.Calls(fn) {
					if c.Common().StaticCallee() == in && idx < len(c.Common().Args) {
						n++
						if ok, why := allowed(c.Common().Args[idx], fn, depth+1, seen); !ok {
							return false, why + " (passed by " + load.FuncName(fn) + ")"
						}
					}
				}
			}
			if n == 0 {
				return true, "" // exported entry: callers outside the repository choose the letter
			}
			return true, ""
		case *ssa.Extract:
			return allowed(x.Tuple, in, depth+1, seen)
		case *ssa.Next:
			return allowed(x.Iter, in, depth+1, seen)
		case *ssa.Range:
			return allowed(x.X, in, depth+1, seen)
		case *ssa.Slice:
			return allowed(x.X, in, depth+1, seen)
		case *ssa.ChangeType:
			return allowed(x.X, in, depth+1, seen)
		}
		return false, fmt.Sprintf("value %s (%T)", v.String(), v)
	}
	for _, fn := range p.Repo {
		for _, c := range su.Calls(fn) {
			if c.Common().StaticCallee() != pi {
				continue
			}
			o := r.Add("R19.c", "call in "+load.FuncName(fn), p.Pos(c.Pos()), "letter passed to PageIndividuals")
			if ok, why := allowed(c.Common().Args[0], fn, 0, map[ssa.Value]bool{}); ok {
				o.OK("letter stems from the index-letter functions / list / a constant")
			} else {
				o.Fail("the page name is built from a letter that does not stem from the index-letter logic (" + why + "): for surnames that do not start with a-z the link points to a page that is never generated")
			}
		}
	}
}

// c19Globals: package-level variables of html mutated after initialisation.
func c19Globals(p *load.Prog, r *oblig.Run) {
	r.Rule("R19.d", "no process-wide state in the publisher: package variables of html are not mutated after initialisation (a cache keyed by *Document excepted)", 1)
	sp := p.SSAPkg[load.PkgHTML]
	var globals []*ssa.Global
	for _, m := range sp.Members {
		if gl, ok := m.(*ssa.Global); ok {
			globals = append(globals, gl)
		}
	}
	sort.Slice(globals, func(i, j int) bool { return globals[i].Name() < globals[j].Name() })
	docType := p.ByPath[load.PkgRoot].Types.Scope().Lookup("Document")
	for _, gl := range globals {
		if strings.HasPrefix(gl.Name(), "init$") {
			continue
		}
		o := r.Add("R19.d", "var "+gl.Name(), p.Pos(gl.Pos()), "package variable html."+gl.Name())
		bad := ""
		for _, fn := range p.Repo {
			if fn.Name() == "init" {
				continue
			}
			for _, b := range fn.Blocks {
				for _, ins := range b.Instrs {
					switch x := ins.(type) {
					case *ssa.Store:
						if x.Addr == ssa.Value(gl) {
							bad = "assigned in " + load.FuncName(fn) + " at " + p.Pos(x.Pos())
						}
					case ssa.CallInstruction:
						cc := x.Common()
						cal := cc.StaticCallee()
						if cal == nil || len(cc.Args) == 0 {
							continue
						}
						// receiver is the variable (address or loaded pointer)
						recv := cc.Args[0]
						isVar := recv == ssa.Value(gl) || su.GlobalLoaded(recv) == gl
						if !isVar {
							continue
						}
						if cal.Pkg != nil && cal.Pkg.Pkg.Path() == "sync" && (cal.Name() == "Store" || cal.Name() == "LoadOrStore") {
							// keyed by the document?
							if mi, ok := cc.Args[1].(*ssa.MakeInterface); ok && docType != nil && (types.Identical(mi.X.Type(), types.NewPointer(docType.Type())) || structKeyHoldsDocument(mi.X, docType.Type())) {
								continue
							}
							bad = "sync.Map entry stored under a key that is not the document in " + load.FuncName(fn) + " at " + p.Pos(x.Pos())
						} else if mutatingName(cal.Name()) {
							bad = "mutated through " + cal.Name() + " in " + load.FuncName(fn) + " at " + p.Pos(x.Pos())
						}
					case *ssa.MapUpdate:
						if su.GlobalLoaded(x.Map) == gl {
							bad = "map entry set in " + load.FuncName(fn) + " at " + p.Pos(x.Pos())
						}
					}
				}
			}
		}
		if bad == "" {
			o.OK("not mutated after initialisation (or a per-document cache)")
		} else {
			o.Fail("package variable html." + gl.Name() + " is process-wide state that publishing changes (" + bad + "): publishing document B after document A in one process depends on A")
		}
	}
}

func mutatingName(n string) bool {
	switch n {
	case "Add", "Store", "Delete", "Set", "Append", "Push", "Reset", "Clear", "LoadOrStore":
		return true
	}
	return strings.HasPrefix(n, "Set") || strings.HasPrefix(n, "Add")
}

func c19Races(p *load.Prog, r *oblig.Run, g *cg.Graph) {
	r.Rule("R19.e", "no unsynchronised store to shared state from the publish workers, the file producer goroutine or the diff page's workers", 3)
	table := loadRaceTable()
	for _, root := range []*ssa.Function{p.Method(load.PkgHTML, "Publisher", "Publish"), p.Method(load.PkgHTML, "DiffPage", "WriteHTMLTo")} {
		if root == nil {
			continue
		}
		a := e4.New(p, g, root)
		a.MarkGo = true
		a.Budget = 40000000
		a.Run(nil)
		name := strings.TrimPrefix(load.FuncName(root), "(*html.")
		name = strings.Replace(name, ").", ".", 1)
		if a.Over {
			r.Add("R19.e", "analysis of "+name, p.Pos(root.Pos()), "budget").Unknown("analysis budget exceeded")
			continue
		}
		r.Extra["race_contexts_"+name] = a.Contexts()
		raceObligations(p, r, "R19.e", a, table, name)
	}
}

// c19Errors: error discipline on the publish path.
func c19Errors(p *load.Prog, r *oblig.Run, g *cg.Graph) {
	c19LetterRange(p, r)
	c19More(p, r)
	c19Unique(p, r)
	c19Tabs(p, r)
	c19CacheKeys(p, r)
	c19FileNames(p, r)
	c19Truncate(p, r)
	c19FreshMaps(p, r)
	c19WriterError(p, r)
	r.Rule("R19.f", "a failing file writer is reported: write errors on the publish path are propagated, stored into the returned error, or panicked with - never dropped; the worker loop ends on the first error", 4)
	var roots []cg.Target
	for _, n := range []string{"Publish"} {
		if f := p.Method(load.PkgHTML, "Publisher", n); f != nil {
			roots = append(roots, cg.Target{Fn: f})
		}
	}
	if f := p.Method(load.PkgCore, "DirectoryFileWriter", "WriteFile"); f != nil {
		roots = append(roots, cg.Target{Fn: f})
	}
	reach := g.ReachFrom(roots, cg.Options{})
	interesting := func(c ssa.CallInstruction) string {
		cc := c.Common()
		if cc.IsInvoke() {
			switch cc.Method.Name() {
			case "WriteFile":
				return "FileWriter.WriteFile"
			case "Close":
				return "Close"
			case "Flush":
				return "Flush"
			}
			return ""
		}
		cal := cc.StaticCallee()
		if cal == nil {
			return ""
		}
		if cal.Pkg != nil && cal.Pkg.Pkg.Path() == "os" && cal.Name() == "Close" {
			return "os.File.Close"
		}
		// a buffered writer reports the failed write of its last chunk only when it is flushed
		if cal.Pkg != nil && cal.Pkg.Pkg.Path() == "bufio" && cal.Name() == "Flush" {
			return "bufio.Writer.Flush"
		}
		return ""
	}
	var fns []*ssa.Function
	for f := range reach.Funcs {
		if f.Synthetic == "" {
			fns = append(fns, f)
		}
	}
	sort.Slice(fns, func(i, j int) bool { return fns[i].String() < fns[j].String() })
	wf := p.Method(load.PkgCore, "DirectoryFileWriter", "WriteFile")
	for _, fn := range fns {
		inWriter := fn == wf
		for _, c := range su.Calls(fn) {
			what := interesting(c)
			if what == "" && inWriter && c.Common().IsInvoke() && c.Common().Method.Name() == "WriteHTMLTo" {
				what = "Component.WriteHTMLTo"
			}
			if what == "" {
				continue
			}
			if _, isDefer := c.(*ssa.Defer); isDefer {
				continue
			}
			val, ok := c.(ssa.Value)
			if !ok {
				continue
			}
			key := fmt.Sprintf("%s in %s", what, load.FuncName(fn))
			o := r.Add("R19.f", key, p.Pos(c.Pos()), "error result of "+what)
			// the error component of the result
			var errV ssa.Value
			if tup, isTup := val.Type().(*types.Tuple); isTup {
				for _, ref := range *val.Referrers() {
					if ex, ok := ref.(*ssa.Extract); ok && ex.Index == tup.Len()-1 {
						errV = ex
					}
				}
			} else {
				errV = val
			}
			if errV == nil || errV.Referrers() == nil || len(*errV.Referrers()) == 0 {
				// the close of a file whose write already failed is the accepted idiom
				if what == "os.File.Close" || what == "Close" {
					if onErrorPath(c) {
						o.OK("close on the error path of the write (its error would hide the first one)")
						continue
					}
				}
				o.Fail("the error returned by " + what + " is dropped: a failing writer is not reported and publishing succeeds silently")
				continue
			}
			used := false
			for _, ref := range *errV.Referrers() {
				switch ref.(type) {
				case *ssa.Return, *ssa.Store, *ssa.If, *ssa.BinOp, *ssa.Panic, *ssa.Phi, *ssa.MakeInterface, *ssa.Call:
					used = true
				}
			}
			if w := laterOverwrite(p, fn, errV); used && w != "" {
				o.Fail("the error returned by " + what + " is recorded in a variable that " + w + " assigns again without looking at it: the recorded failure is replaced (by nil when that later step succeeds) and publishing succeeds silently")
			} else if used {
				o.OK("checked / propagated")
			} else {
				o.Fail("the error returned by " + what + " is never checked")
			}
		}
	}
	// worker loop leaves on error: in the worker closure of Publish the block that stores the error leads out of the range loop
	pub := p.Method(load.PkgHTML, "Publisher", "Publish")
	if pub != nil {
		o := r.Add("R19.f", "worker loop of Publisher.Publish", p.Pos(pub.Pos()), "the worker stops at the first failed file and Publish returns the error")
		ok := false
		overwrite := ""
		// leavesLoop: in fn, the non-nil side of the test on v's error does not lead back to the call that produced v
		errSides := func(v ssa.Value) []*ssa.BasicBlock {
			var out []*ssa.BasicBlock
			for _, ref := range *v.Referrers() {
				bo, isBo := ref.(*ssa.BinOp)
				if !isBo || (bo.Op != token.NEQ && bo.Op != token.EQL) {
					continue
				}
				for _, r2 := range *bo.Referrers() {
					iff, isIf := r2.(*ssa.If)
					if !isIf {
						continue
					}
					if bo.Op == token.EQL {
						out = append(out, iff.Block().Succs[1])
					} else {
						out = append(out, iff.Block().Succs[0])
					}
				}
			}
			return out
		}
		storeGuard := func(v ssa.Value, sides []*ssa.BasicBlock) {
			// the shared result is only ever overwritten with a failure
			for _, r3 := range *v.Referrers() {
				if st, isSt := r3.(*ssa.Store); isSt && st.Val == v {
					guarded := false
					for _, es := range sides {
						if len(es.Preds) == 1 && es.Dominates(st.Block()) {
							guarded = true
						}
					}
					if !guarded {
						overwrite = p.Pos(st.Pos())
					}
				}
			}
		}
		for _, an := range pub.AnonFuncs {
			for _, c := range su.Calls(an) {
				v, isVal := c.(ssa.Value)
				if !isVal {
					continue
				}
				if c.Common().IsInvoke() && c.Common().Method.Name() == "WriteFile" {
					// the loop is in the worker closure itself
					sides := errSides(v)
					for _, es := range sides {
						if !su.ReachableBlocks(es)[c.Block()] {
							ok = true
						}
					}
					storeGuard(v, sides)
					continue
				}
				// the loop is in a helper the worker calls: the helper must leave its loop with the error, and the
				// worker must record the helper's error
				h := c.Common().StaticCallee()
				if h == nil || pkgPathOf(h) != load.PkgHTML || len(h.Blocks) == 0 {
					continue
				}
				for _, hc := range su.Calls(h) {
					hv, isVal := hc.(ssa.Value)
					if !isVal || !hc.Common().IsInvoke() || hc.Common().Method.Name() != "WriteFile" {
						continue
					}
					leaves := false
					for _, es := range errSides(hv) {
						if su.ReachableBlocks(es)[hc.Block()] {
							continue
						}
						// ... and returns that error
						for b := range su.ReachableBlocks(es) {
							if ret, isRet := b.Instrs[len(b.Instrs)-1].(*ssa.Return); isRet && len(ret.Results) > 0 && ret.Results[len(ret.Results)-1] == hv {
								leaves = true
							}
						}
						if ret, isRet := es.Instrs[len(es.Instrs)-1].(*ssa.Return); isRet && len(ret.Results) > 0 && ret.Results[len(ret.Results)-1] == hv {
							leaves = true
						}
					}
					sides := errSides(v)
					if leaves && len(sides) > 0 {
						ok = true
					}
					storeGuard(v, sides)
				}
			}
		}
		// the captured err is a named result of Publish
		if overwrite != "" {
			o.Fail("the result of WriteFile is stored into the shared error at " + overwrite + " whether or not it is an error: a worker that writes its next file successfully overwrites the failure another worker recorded, and Publish returns nil although a file was not written")
		} else if ok {
			o.OK("the error branch leaves the loop; the error is the named result")
		} else {
			o.Fail("after a failed WriteFile the worker keeps taking files (or the error never leaves the worker): publishing does not stop at the first failure")
		}
	}
}

// laterOverwrite: errV is stored into a variable (a named result or a local that
// closures share) and another assignment to that variable - later in the
// function, or in a closure the function defers - is not guarded by a test
// that the variable (or errV) is nil. Returns a description of that assignment.
func laterOverwrite(p *load.Prog, fn *ssa.Function, errV ssa.Value) string {
	if errV.Referrers() == nil {
		return ""
	}
	for _, ref := range *errV.Referrers() {
		s0, ok := ref.(*ssa.Store)
		if !ok || s0.Val != errV {
			continue
		}
		al, ok := s0.Addr.(*ssa.Alloc)
		if !ok {
			continue
		}
		guarded := func(st *ssa.Store, addr ssa.Value) bool {
			g := st.Parent()
			for _, b := range g.Blocks {
				iff, ok := b.Instrs[len(b.Instrs)-1].(*ssa.If)
				if !ok {
					continue
				}
				bo, ok := iff.Cond.(*ssa.BinOp)
				if !ok || (bo.Op != token.EQL && bo.Op != token.NEQ) {
					continue
				}
				if k, isK := bo.Y.(*ssa.Const); !isK || k.Value != nil {
					continue
				}
				isVar := bo.X == errV
				if ld, ok := bo.X.(*ssa.UnOp); ok && ld.Op == token.MUL && ld.X == addr {
					isVar = true
				}
				if !isVar {
					continue
				}
				side := b.Succs[0] // == nil : true side
				if bo.Op == token.NEQ {
					side = b.Succs[1]
				}
				if len(side.Preds) == 1 && side.Dominates(st.Block()) {
					return true
				}
			}
			return false
		}
		after := su.ReachableBlocks(s0.Block())
		for _, r2 := range *al.Referrers() {
			switch x := r2.(type) {
			case *ssa.Store:
				if x == s0 || x.Addr != ssa.Value(al) {
					continue
				}
				later := false
				if x.Block() == s0.Block() {
					later = su.Dominates(s0, x) || after[s0.Block()]
				} else {
					later = after[x.Block()]
				}
				if later && !guarded(x, al) {
					return "the assignment at " + p.Pos(x.Pos())
				}
			case *ssa.MakeClosure:
				// only closures the function defers run after the store for certain
				deferred := false
				for _, r3 := range *x.Referrers() {
					if d, ok := r3.(*ssa.Defer); ok && d.Call.Value == ssa.Value(x) {
						deferred = true
					}
				}
				if !deferred {
					continue
				}
				anon := x.Fn.(*ssa.Function)
				for i, bnd := range x.Bindings {
					if bnd != ssa.Value(al) {
						continue
					}
					fv := anon.FreeVars[i]
					for _, b := range anon.Blocks {
						for _, ins := range b.Instrs {
							if st, ok := ins.(*ssa.Store); ok && st.Addr == ssa.Value(fv) && !guarded(st, fv) {
								return "the deferred function at " + p.Pos(st.Pos())
							}
						}
					}
				}
			}
		}
	}
	return ""
}

// onErrorPath: the call is only reached when an earlier error test failed
// (dominated by the true edge of an `err != nil`).
func onErrorPath(c ssa.CallInstruction) bool {
	fn := c.Parent()
	for _, b := range fn.Blocks {
		iff, ok := b.Instrs[len(b.Instrs)-1].(*ssa.If)
		if !ok {
			continue
		}
		bo, ok := iff.Cond.(*ssa.BinOp)
		if !ok || bo.Op != token.NEQ {
			continue
		}
		if k, isK := bo.Y.(*ssa.Const); !isK || k.Value != nil {
			continue
		}
		if len(b.Succs[0].Preds) == 1 && b.Succs[0].Dominates(c.Block()) {
			return true
		}
	}
	return false
}

// structKeyHoldsDocument: the key is a struct value one of whose fields is the *Document (a comparable composite
// key such as {document, visibility} is still a per-document key).
func structKeyHoldsDocument(v ssa.Value, doc types.Type) bool {
	ld, ok := v.(*ssa.UnOp)
	if !ok || ld.Op != token.MUL {
		return false
	}
	al, ok := ld.X.(*ssa.Alloc)
	if !ok {
		return false
	}
	st, ok := al.Type().(*types.Pointer).Elem().Underlying().(*types.Struct)
	if !ok {
		return false
	}
	for _, ref := range *al.Referrers() {
		fa, ok := ref.(*ssa.FieldAddr)
		if !ok || !types.Identical(st.Field(fa.Field).Type(), types.NewPointer(doc)) {
			continue
		}
		for _, r2 := range *fa.Referrers() {
			if s2, ok := r2.(*ssa.Store); ok && s2.Addr == ssa.Value(fa) {
				if _, isK := s2.Val.(*ssa.Const); !isK {
					return true
				}
			}
		}
	}
	return false
}
