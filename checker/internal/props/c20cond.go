package props

import (
	"fmt"
	"go/constant"
	"go/token"
	"go/types"
	"sort"
	"strings"

	"gedverif/internal/load"
	"gedverif/internal/oblig"
	"gedverif/internal/su"

	"golang.org/x/tools/go/ssa"
)

// R20.m / R20.n: the trigger condition of every warning.
//
// For every construction site of a warning the *facts that hold on every path
// that reaches the site* are computed from the control-flow graph: each branch
// condition is decomposed into atoms over value descriptors (resolved callees
// applied to parameters, range elements, results of calls - no identifier
// spelling), comparisons are normalised (a>b == b<a, a>=b == !(a<b)), boolean
// helpers of the library are looked into, and an atom "holds at the site" when
// cutting every branch edge that asserts it disconnects the site from the
// function entry. R20.m demands the documented condition of the warning among
// those facts, stated over the *arguments the warning is built with* (the child
// whose birth was compared is the child the warning names). R20.n demands that
// no other fact than the documented condition and the reviewed auxiliary tests
// (validity, nil, error, accuracy, duplicate suppression) stands in front of
// the site, i.e. nothing else can suppress the warning.

type cfact struct {
	atom string
	val  bool
}

func (f cfact) String() string {
	if f.val {
		return f.atom
	}
	return "!(" + f.atom + ")"
}

type descEnv struct {
	p        *load.Prog
	params   map[*ssa.Parameter]string
	noInline bool // do not look into boolean helpers
}

func shortFn(fn *ssa.Function) string {
	if fn == nil {
		return "?"
	}
	if recv := fn.Signature.Recv(); recv != nil {
		if n := load.NamedOf(recv.Type()); n != nil {
			return n.Obj().Name() + "." + fn.Name()
		}
	}
	return fn.Name()
}

// desc: a spelling-independent descriptor of the value.
func (e *descEnv) desc(v ssa.Value, depth int) string {
	if depth > 12 {
		return "?"
	}
	switch x := v.(type) {
	case *ssa.Parameter:
		if s, ok := e.params[x]; ok {
			return s
		}
		for i, pp := range x.Parent().Params {
			if pp == x {
				return fmt.Sprintf("p%d", i)
			}
		}
		return "p?"
	case *ssa.Const:
		if x.Value == nil {
			return "nil"
		}
		if x.Value.Kind() == constant.Float || x.Value.Kind() == constant.Int {
			f, _ := constant.Float64Val(constant.ToFloat(x.Value))
			return fmt.Sprintf("%g", f)
		}
		return x.Value.ExactString()
	case *ssa.Call:
		if bi, ok := x.Call.Value.(*ssa.Builtin); ok {
			var as []string
			for _, a := range x.Call.Args {
				as = append(as, e.desc(a, depth+1))
			}
			return bi.Name() + "(" + strings.Join(as, ",") + ")"
		}
		var as []string
		name := "?"
		if x.Call.IsInvoke() {
			name = "invoke." + x.Call.Method.Name()
			as = append(as, e.desc(x.Call.Value, depth+1))
		} else if cal := x.Call.StaticCallee(); cal != nil {
			name = shortFn(cal)
		} else {
			return "?call"
		}
		for _, a := range x.Call.Args {
			as = append(as, e.desc(a, depth+1))
		}
		return name + "(" + strings.Join(as, ",") + ")"
	case *ssa.Extract:
		return e.desc(x.Tuple, depth+1) + fmt.Sprintf("#%d", x.Index)
	case *ssa.Field:
		st, _ := x.X.Type().Underlying().(*types.Struct)
		if st != nil {
			return e.desc(x.X, depth+1) + "." + st.Field(x.Field).Name()
		}
		return "?"
	case *ssa.FieldAddr:
		return e.desc(x.X, depth+1) + "." + su.FieldName(x)
	case *ssa.IndexAddr:
		return "elem(" + e.desc(x.X, depth+1) + ")"
	case *ssa.Index:
		return "elem(" + e.desc(x.X, depth+1) + ")"
	case *ssa.Alloc:
		// a local that is stored once (a by-value parameter or result spilled to memory)
		var st ssa.Value
		n := 0
		for _, ref := range *x.Referrers() {
			if s, ok := ref.(*ssa.Store); ok && s.Addr == ssa.Value(x) {
				st = s.Val
				n++
			}
		}
		if n == 1 {
			return e.desc(st, depth+1)
		}
		return "?local"
	case *ssa.UnOp:
		switch x.Op {
		case token.MUL:
			if g, ok := x.X.(*ssa.Global); ok {
				return g.Name()
			}
			return e.desc(x.X, depth+1)
		case token.NOT:
			return "!" + e.desc(x.X, depth+1)
		case token.SUB:
			return "-" + e.desc(x.X, depth+1)
		}
		return "?"
	case *ssa.ChangeType:
		return e.desc(x.X, depth+1)
	case *ssa.Convert:
		return e.desc(x.X, depth+1)
	case *ssa.MakeInterface:
		return e.desc(x.X, depth+1)
	case *ssa.ChangeInterface:
		return e.desc(x.X, depth+1)
	case *ssa.TypeAssert:
		return e.desc(x.X, depth+1)
	case *ssa.Slice:
		if x.Low == nil && x.High == nil {
			return e.desc(x.X, depth+1)
		}
		return "?slice"
	case *ssa.BinOp:
		return "(" + e.desc(x.X, depth+1) + x.Op.String() + e.desc(x.Y, depth+1) + ")"
	case *ssa.Global:
		return x.Name()
	case *ssa.Phi:
		return "?phi:" + x.Name()
	case *ssa.Lookup:
		return "lookup(" + e.desc(x.X, depth+1) + "," + e.desc(x.Index, depth+1) + ")"
	case *ssa.MakeMap:
		return "makemap:" + x.Name() + "(" + x.Type().String() + ")"
	case *ssa.MakeChan:
		return "makechan:" + x.Name() + "(" + x.Type().String() + ")"
	case *ssa.FreeVar:
		// the captured variable of the enclosing function
		if par := x.Parent().Parent(); par != nil {
			for _, b := range par.Blocks {
				for _, ins := range b.Instrs {
					if mc, ok := ins.(*ssa.MakeClosure); ok && mc.Fn == x.Parent() {
						for j, fv := range x.Parent().FreeVars {
							if fv == x {
								return "^" + e.desc(mc.Bindings[j], depth+1)
							}
						}
					}
				}
			}
		}
		return "?freevar"
	}
	return "?"
}

// atoms of a condition being `want`.
func (e *descEnv) condFacts(c ssa.Value, want bool, depth int) []cfact {
	if depth > 6 {
		return nil
	}
	switch x := c.(type) {
	case *ssa.UnOp:
		if x.Op == token.NOT {
			return e.condFacts(x.X, !want, depth+1)
		}
	case *ssa.BinOp:
		a, b := e.desc(x.X, 0), e.desc(x.Y, 0)
		switch x.Op {
		case token.LSS:
			return []cfact{{a + "<" + b, want}}
		case token.GTR:
			return []cfact{{b + "<" + a, want}}
		case token.LEQ:
			return []cfact{{b + "<" + a, !want}}
		case token.GEQ:
			return []cfact{{a + "<" + b, !want}}
		case token.EQL, token.NEQ:
			if b < a {
				a, b = b, a
			}
			if x.Op == token.NEQ {
				want = !want
			}
			return []cfact{{a + "==" + b, want}}
		}
	case *ssa.Call:
		fs := []cfact{{e.desc(x, 0), want}}
		// look into boolean helpers of the library
		if cal := x.Call.StaticCallee(); cal != nil && len(cal.Blocks) > 0 && e.p.InRepo(cal) && depth < 3 && !e.noInline {
			if rs := cal.Signature.Results(); rs.Len() == 1 && types.Identical(rs.At(0).Type().Underlying(), types.Typ[types.Bool]) {
				sub := &descEnv{p: e.p, params: map[*ssa.Parameter]string{}}
				for i, pp := range cal.Params {
					if i < len(x.Call.Args) {
						sub.params[pp] = e.desc(x.Call.Args[i], 0)
					}
				}
				fs = append(fs, sub.returnFacts(cal, want, depth+1)...)
			}
		}
		return fs
	case *ssa.Phi:
		// a && b / a || b materialised: the edges that can carry `want`
		var acc map[cfact]bool
		first := true
		for i, ed := range x.Edges {
			if k, ok := ed.(*ssa.Const); ok && k.Value != nil && k.Value.Kind() == constant.Bool && constant.BoolVal(k.Value) != want {
				continue
			}
			pred := x.Block().Preds[i]
			cur := map[cfact]bool{}
			for _, f := range e.blockFacts(pred, depth+1) {
				cur[f] = true
			}
			if iff, ok := pred.Instrs[len(pred.Instrs)-1].(*ssa.If); ok {
				for _, f := range e.condFacts(iff.Cond, pred.Succs[0] == x.Block(), depth+1) {
					cur[f] = true
				}
			}
			if _, isK := ed.(*ssa.Const); !isK {
				for _, f := range e.condFacts(ed, want, depth+1) {
					cur[f] = true
				}
			}
			if first {
				acc, first = cur, false
			} else {
				for f := range acc {
					if !cur[f] {
						delete(acc, f)
					}
				}
			}
		}
		var out []cfact
		for f := range acc {
			out = append(out, f)
		}
		return out
	}
	if _, isK := c.(*ssa.Const); isK {
		return nil
	}
	// any other boolean value (a field, a map lookup, a parameter): the value itself is the atom
	return []cfact{{e.desc(c, 0), want}}
}

// blockFacts: facts established by the dominating branches of the block.
func (e *descEnv) blockFacts(b *ssa.BasicBlock, depth int) []cfact {
	var out []cfact
	for d := b.Idom(); d != nil; d = d.Idom() {
		iff, ok := d.Instrs[len(d.Instrs)-1].(*ssa.If)
		if !ok {
			continue
		}
		for s := 0; s < 2; s++ {
			sx := d.Succs[s]
			if len(sx.Preds) == 1 && (sx == b || sx.Dominates(b)) {
				out = append(out, e.condFacts(iff.Cond, s == 0, depth)...)
			}
		}
	}
	return out
}

type blockCond struct {
	cond ssa.Value
	want bool
}

// blockConds: the branch conditions (with outcome) that dominate the block.
func blockConds(b *ssa.BasicBlock) []blockCond {
	var out []blockCond
	for d := b.Idom(); d != nil; d = d.Idom() {
		iff, ok := d.Instrs[len(d.Instrs)-1].(*ssa.If)
		if !ok {
			continue
		}
		for s := 0; s < 2; s++ {
			sx := d.Succs[s]
			if len(sx.Preds) == 1 && (sx == b || sx.Dominates(b)) {
				out = append(out, blockCond{iff.Cond, s == 0})
			}
		}
	}
	return out
}

// helperFacts: the condition is (the negation of) a call of a boolean helper of
// the library; what the helper establishes when the condition has the outcome.
func (e *descEnv) helperFacts(c ssa.Value, want bool) []cfact {
	for {
		u, ok := c.(*ssa.UnOp)
		if !ok || u.Op != token.NOT {
			break
		}
		c, want = u.X, !want
	}
	call, ok := c.(*ssa.Call)
	if !ok {
		return nil
	}
	cal := call.Call.StaticCallee()
	if cal == nil || len(cal.Blocks) == 0 || !e.p.InRepo(cal) {
		return nil
	}
	sub := &descEnv{p: e.p, params: map[*ssa.Parameter]string{}, noInline: true}
	for i, pp := range cal.Params {
		if i < len(call.Call.Args) {
			sub.params[pp] = e.desc(call.Call.Args[i], 0)
		}
	}
	return sub.returnFacts(cal, want, 1)
}

// returnFacts: what is known when the boolean function returned `want`.
func (e *descEnv) returnFacts(fn *ssa.Function, want bool, depth int) []cfact {
	var acc map[cfact]bool
	first := true
	for _, b := range fn.Blocks {
		ret, ok := b.Instrs[len(b.Instrs)-1].(*ssa.Return)
		if !ok || len(ret.Results) != 1 {
			continue
		}
		cur := map[cfact]bool{}
		if k, isK := ret.Results[0].(*ssa.Const); isK {
			if k.Value == nil || constant.BoolVal(k.Value) != want {
				continue
			}
		} else {
			for _, f := range e.condFacts(ret.Results[0], want, depth) {
				cur[f] = true
			}
		}
		for _, f := range e.blockFacts(b, depth) {
			cur[f] = true
		}
		if first {
			acc, first = cur, false
		} else {
			for f := range acc {
				if !cur[f] {
					delete(acc, f)
				}
			}
		}
	}
	var out []cfact
	for f := range acc {
		out = append(out, f)
	}
	return out
}

// holdsAny: on every path from the entry to the block one of the facts
// accepted by `match` was asserted by a branch (edge cut).
func (e *descEnv) holdsAny(b *ssa.BasicBlock, match func(cfact) bool) bool {
	fn := b.Parent()
	type edge struct{ from, to *ssa.BasicBlock }
	cut := map[edge]bool{}
	for _, d := range fn.Blocks {
		iff, ok := d.Instrs[len(d.Instrs)-1].(*ssa.If)
		if !ok {
			continue
		}
		for s := 0; s < 2; s++ {
			for _, f := range e.condFacts(iff.Cond, s == 0, 0) {
				if match(f) {
					cut[edge{d, d.Succs[s]}] = true
				}
			}
		}
	}
	if len(cut) == 0 {
		return false
	}
	seen := map[*ssa.BasicBlock]bool{fn.Blocks[0]: true}
	work := []*ssa.BasicBlock{fn.Blocks[0]}
	for len(work) > 0 {
		x := work[len(work)-1]
		work = work[:len(work)-1]
		if x == b {
			return false
		}
		for _, s := range x.Succs {
			if cut[edge{x, s}] || seen[s] {
				continue
			}
			seen[s] = true
			work = append(work, s)
		}
	}
	return true
}

func c20Conditions(p *load.Prog, r *oblig.Run) {
	r.Rule("R20.m", "every warning is built only on paths on which its documented condition was established, over the people/dates the warning is built with", 12)
	r.Rule("R20.n", "no test other than the documented condition and the reviewed auxiliary tests (validity, nil, error, accuracy, duplicates) stands in front of a warning site", 9)

	type req struct {
		what string
		ok   func(f cfact, a []string) bool
	}
	eq := func(atom string, val bool) func(cfact, []string) bool {
		return func(f cfact, _ []string) bool { return f.atom == atom && f.val == val }
	}
	_ = eq
	birthOf := func(d string) []string {
		return []string{"IndividualNode.Birth(" + d + ")#0", "IndividualNode.Birth(ChildNode.Individual(" + d + "))#0",
			"IndividualNode.Birth(HusbandNode.Individual(" + d + "))#0", "IndividualNode.Birth(WifeNode.Individual(" + d + "))#0"}
	}
	twoDays := fmt.Sprintf("%g", float64(2*24*3600)*1e9)
	nineMonths := fmt.Sprintf("%g", float64(274*24*3600)*1e9)
	subOf := func(a []string, i int) []string {
		var out []string
		for _, x := range birthOf(a[0]) {
			for _, y := range birthOf(a[1]) {
				out = append(out, fmt.Sprintf("DateNode.Sub(%s,%s)#%d.Duration", x, y, i))
			}
		}
		return out
	}
	entirelyBefore := "DateRangeComparisonEntirelyBefore"
	if pk := p.ByPath[load.PkgRoot]; pk != nil {
		if k, ok := pk.Types.Scope().Lookup("DateRangeComparisonEntirelyBefore").(*types.Const); ok {
			f, _ := constant.Float64Val(constant.ToFloat(k.Val()))
			entirelyBefore = fmt.Sprintf("%g", f)
		}
	}
	table := map[string][]req{
		"NewChildBornBeforeParentWarning": {{"the birth of the child the warning names is before the birth of the parent it names", func(f cfact, a []string) bool {
			if !f.val {
				return false
			}
			for _, c := range birthOf(a[1]) {
				for _, pa := range birthOf(a[0]) {
					if f.atom == "DateNode.IsBefore("+c+","+pa+")" {
						return true
					}
				}
			}
			return false
		}},
			{"the birth date of the named child is a parsed date (an unparsable date is the zero time, which is before everything)", func(f cfact, a []string) bool {
				for _, c := range birthOf(a[1]) {
					if f.val && f.atom == "DateNode.IsValid("+c+")" {
						return true
					}
				}
				return false
			}},
			{"the birth date of the named parent is a parsed date", func(f cfact, a []string) bool {
				for _, c := range birthOf(a[0]) {
					if f.val && f.atom == "DateNode.IsValid("+c+")" {
						return true
					}
				}
				return false
			}},
		},
		"NewSiblingsBornTooCloseWarning": {
			{"the distance between the two named births could be computed (both dates parsed: no error from Sub)", func(f cfact, a []string) bool {
				for _, x := range birthOf(a[0]) {
					for _, y := range birthOf(a[1]) {
						if f.val && f.atom == "DateNode.Sub("+x+","+y+")#2==nil" {
							return true
						}
					}
				}
				return false
			}},
			{"the smallest distance between the two named births is not under two days", func(f cfact, a []string) bool {
				for _, s := range subOf(a, 0) {
					if f.atom == s+"<"+twoDays && !f.val {
						return true
					}
				}
				return false
			}},
			{"the smallest or the largest distance between the two named births is under nine months (274 days)", func(f cfact, a []string) bool {
				for i := 0; i < 2; i++ {
					for _, s := range subOf(a, i) {
						if f.atom == s+"<"+nineMonths && f.val {
							return true
						}
					}
				}
				return false
			}},
		},
		"NewIndividualTooOldWarning": {{"the largest possible age of the named individual, the age the warning prints, is above DefaultMaxLivingAge (100)", func(f cfact, a []string) bool {
			return f.val && f.atom == "100<"+a[1] && a[1] == "Age.Years(IndividualNode.Age("+a[0]+")#1)"
		}}},
		"NewUnparsableDateWarning": {{"the named date is not valid", func(f cfact, a []string) bool {
			return !f.val && f.atom == "DateNode.IsValid("+a[0]+")"
		}}},
		"NewMultipleSexesWarning": {{"more than one SEX node of the named individual, the list the warning is given", func(f cfact, a []string) bool {
			return f.val && f.atom == "1<len("+a[1]+")" && strings.HasPrefix(a[1], "castNodesWithTag("+a[0]+",TagSex")
		}}},
		"NewInverseSpousesWarning": {
			{"the husband the warning names is female", func(f cfact, a []string) bool {
				return f.val && f.atom == "SexNode.IsFemale(IndividualNode.Sex("+a[1]+"))" && a[1] == "HusbandNode.Individual(FamilyNode.Husband("+a[0]+"))"
			}},
			{"the wife the warning names is male", func(f cfact, a []string) bool {
				return f.val && f.atom == "SexNode.IsMale(IndividualNode.Sex("+a[2]+"))" && a[2] == "WifeNode.Individual(FamilyNode.Wife("+a[0]+"))"
			}},
		},
		"NewIncorrectEventOrderWarning": {{"the later-group event's range compared with the earlier-group event's range is 'entirely before', over the two ranges the warning is given", func(f cfact, a []string) bool {
			cmp := "DateRange.Compare(" + a[1] + "," + a[3] + ")"
			x, y := cmp, entirelyBefore
			return f.val && (f.atom == x+"=="+y || f.atom == y+"=="+x) && a[1] != a[3]
		}},
			{"the date of the later-group event is a parsed date", func(f cfact, a []string) bool {
				return f.val && "DateNode.DateRange("+strings.TrimSuffix(strings.TrimPrefix(f.atom, "DateNode.IsValid("), ")")+")" == a[1]
			}},
			{"the date of the earlier-group event is a parsed date", func(f cfact, a []string) bool {
				return f.val && "DateNode.DateRange("+strings.TrimSuffix(strings.TrimPrefix(f.atom, "DateNode.IsValid("), ")")+")" == a[3]
			}},
		},
		"NewMarriedOutOfRangeWarning": {{"the age the warning prints is under DefaultMinMarriageAge (16) and known for 'young', above DefaultMaxMarriageAge (100) for 'old'", func(f cfact, a []string) bool {
			switch a[3] {
			case `"young"`:
				return f.val && f.atom == a[2]+"<16"
			case `"old"`:
				return f.val && f.atom == "100<"+a[2]
			}
			return false
		}}},
	}
	// reviewed auxiliary tests
	aux := func(f cfact) string {
		at := f.atom
		switch {
		case strings.Contains(at, "==nil") || strings.HasPrefix(at, "nil=="):
			return "nil test"
		case strings.HasPrefix(at, "DateNode.IsValid(") || strings.HasPrefix(at, "DateRange.IsValid(") || strings.HasPrefix(at, "Date.IsValid("):
			return "validity of a date"
		case strings.HasPrefix(at, "IndividualNodePairs.Has("):
			return "duplicate suppression"
		case strings.HasPrefix(at, "IndividualNode.Is("):
			return "a child is not compared with itself"
		case strings.HasSuffix(at, ".IsKnown"):
			return "age known"
		case strings.Contains(at, "DateRange.Duration(") && strings.HasSuffix(at, ".Duration<"+nineMonths) && f.val:
			return "accuracy of a birth date (range shorter than nine months)"
		case strings.HasPrefix(at, "(") && strings.Contains(at, "<len(") || strings.Contains(at, "<len(") && !strings.HasPrefix(at, "1<"):
			return "loop bound"
		}
		return ""
	}

	var fns []*ssa.Function
	for _, fn := range p.Repo {
		if pkgPathOf(fn) == load.PkgRoot && len(fn.Blocks) > 0 {
			fns = append(fns, fn)
		}
	}
	sort.Slice(fns, func(i, j int) bool { return fns[i].Pos() < fns[j].Pos() })
	seenCtor := map[string]int{}
	for _, fn := range fns {
		if strings.HasPrefix(fn.Name(), "New") && strings.HasSuffix(fn.Name(), "Warning") {
			continue
		}
		ord := map[string]int{}
		for _, c := range su.Calls(fn) {
			cal := c.Common().StaticCallee()
			if cal == nil || pkgPathOf(cal) != load.PkgRoot {
				continue
			}
			reqs, ok := table[cal.Name()]
			if !ok {
				continue
			}
			seenCtor[cal.Name()]++
			env := &descEnv{p: p, params: map[*ssa.Parameter]string{}}
			var args []string
			for _, a := range c.Common().Args {
				args = append(args, env.desc(a, 0))
			}
			ord[cal.Name()]++
			key := fmt.Sprintf("%s in %s #%d", strings.TrimPrefix(cal.Name(), "New"), shortFn(fn), ord[cal.Name()])
			pos := p.Pos(c.Pos())
			blk := c.Block()
			// R20.m
			for i, rq := range reqs {
				o := r.Add("R20.m", fmt.Sprintf("%s condition %d", key, i+1), pos, "trigger condition of "+cal.Name())
				rq := rq
				if env.holdsAny(blk, func(f cfact) bool { return rq.ok(f, args) }) {
					o.OK("on every path to the site: " + rq.what)
				} else {
					var have []string
					for _, f := range env.blockFacts(blk, 0) {
						have = append(have, f.String())
					}
					sort.Strings(have)
					o.Fail("a path reaches the construction of "+strings.TrimPrefix(cal.Name(), "New")+" on which this was not established: "+rq.what+
						" - the warning is reported when the recorded facts do not warrant it (or names other people/dates than the ones that were compared)",
						"arguments: "+strings.Join(args, " ; "), "facts on every path: "+strings.Join(have, " ; "))
				}
			}
			// R20.n
			o := r.Add("R20.n", key, pos, "tests in front of "+cal.Name())
			var extra, auxs []string
			flat := &descEnv{p: p, params: map[*ssa.Parameter]string{}, noInline: true}
			isReq := func(f cfact) bool {
				for _, rq := range reqs {
					if rq.ok(f, args) {
						return true
					}
				}
				return false
			}
			explained := func(f cfact) bool {
				if isReq(f) {
					return true
				}
				if why := aux(f); why != "" {
					auxs = append(auxs, why)
					return true
				}
				return false
			}
			for _, bc := range blockConds(blk) {
				for _, f := range flat.condFacts(bc.cond, bc.want, 0) {
					if explained(f) {
						continue
					}
					// a boolean helper of the library: everything it establishes must be explained
					inner := flat.helperFacts(bc.cond, bc.want)
					okInner := false
					for _, g := range inner {
						if a := aux(g); isReq(g) || (a != "" && a != "nil test" && a != "loop bound") {
							okInner = true // the helper is (part of) the documented condition or a validity test
						}
					}
					for _, g := range inner {
						if !explained(g) {
							okInner = false
						}
					}
					if !okInner {
						extra = append(extra, f.String())
					}
				}
			}
			sort.Strings(extra)
			if len(extra) == 0 {
				o.OK(fmt.Sprintf("%d auxiliary test(s): %s", len(auxs), strings.Join(uniqStrings(auxs), ", ")))
			} else {
				o.Fail("the warning "+strings.TrimPrefix(cal.Name(), "New")+" is additionally conditional on a test that is not part of its documented condition: "+strings.Join(extra, " ; ")+
					" - records that satisfy the condition are not reported", "arguments: "+strings.Join(args, " ; "))
			}
		}
	}
	for name := range table {
		if seenCtor[name] == 0 {
			r.Add("R20.m", "site of "+name, "-", "construction site").Unknown("no construction site of " + name + " found in the library package")
		}
	}
	c20MarriagePairs(p, r)
}

func uniqStrings(s []string) []string {
	sort.Strings(s)
	var out []string
	for i, x := range s {
		if i == 0 || s[i-1] != x {
			out = append(out, x)
		}
	}
	return out
}

// c20MarriagePairs: the age handed to the marriage-age helper is the named
// spouse's own age at the marriage (R20.m, interprocedural part).
func c20MarriagePairs(p *load.Prog, r *oblig.Run) {
	ctor := p.Func(load.PkgRoot, "NewMarriedOutOfRangeWarning")
	if ctor == nil {
		return
	}
	for _, fn := range p.Repo {
		if pkgPathOf(fn) != load.PkgRoot || len(fn.Blocks) == 0 {
			continue
		}
		sites := su.CallsTo(fn, ctor)
		if len(sites) == 0 {
			continue
		}
		// which parameters give the spouse (arg 1) and the years (arg 2)?
		env := &descEnv{p: p, params: map[*ssa.Parameter]string{}}
		for _, pp := range fn.Params {
			env.params[pp] = "<" + pp.Name() + ">"
		}
		var spouseP, ageP *ssa.Parameter
		direct := false
		for _, s := range sites {
			sp := su.Strip(s.Call.Args[1])
			if pp, ok := sp.(*ssa.Parameter); ok {
				spouseP = pp
			} else {
				direct = true
			}
			for _, pp := range fn.Params {
				if strings.Contains(env.desc(s.Call.Args[2], 0), "<"+pp.Name()+">") && pp != spouseP {
					if _, isAge := pp.Type().Underlying().(*types.Struct); isAge {
						ageP = pp
					}
				}
			}
		}
		if direct || spouseP == nil || ageP == nil {
			// the warning is built where the age is computed: the condition rule sees both
			o := r.Add("R20.m", "age and spouse of MarriedOutOfRange in "+shortFn(fn), p.Pos(fn.Pos()), "pairing of age and spouse")
			e2 := &descEnv{p: p, params: map[*ssa.Parameter]string{}}
			bad := ""
			for _, s := range sites {
				sp, yr := e2.desc(s.Call.Args[1], 0), e2.desc(s.Call.Args[2], 0)
				if !strings.HasPrefix(yr, "Age.Years(IndividualNode.AgeAt("+sp+",") {
					bad = "the age " + yr + " is not the age of the named spouse " + sp + " at the marriage"
				}
			}
			if bad != "" {
				o.Fail(bad)
			} else {
				o.OK("the printed age is AgeAt(marriage) of the named spouse")
			}
			continue
		}
		si, ai := -1, -1
		for i, pp := range fn.Params {
			if pp == spouseP {
				si = i
			}
			if pp == ageP {
				ai = i
			}
		}
		n := 0
		for _, caller := range p.Repo {
			for k, s := range su.CallsTo(caller, fn) {
				n++
				e2 := &descEnv{p: p, params: map[*ssa.Parameter]string{}}
				sp, ag := e2.desc(s.Call.Args[si], 0), e2.desc(s.Call.Args[ai], 0)
				o := r.Add("R20.m", fmt.Sprintf("age and spouse handed to %s in %s #%d", shortFn(fn), shortFn(caller), k+1), p.Pos(s.Pos()), "pairing of age and spouse")
				if strings.HasPrefix(ag, "IndividualNode.AgeAt("+sp+",") && strings.HasSuffix(ag, "#1") && marriageEvent(p, caller, strings.TrimSuffix(strings.TrimPrefix(ag, "IndividualNode.AgeAt("+sp+","), ")#1"), 0) {
					o.OK("the age is the largest age of that spouse at a marriage event of the family")
				} else {
					o.Fail("the age handed to the marriage-age test ("+ag+") is not the largest AgeAt(marriage) of the spouse the warning will name ("+sp+")")
				}
			}
		}
		if n == 0 {
			r.Add("R20.m", "callers of "+shortFn(fn), p.Pos(fn.Pos()), "pairing of age and spouse").Unknown("no static caller of the marriage-age helper")
		}
	}
}

// marriageEvent: the event descriptor is an element of the family's MARR nodes,
// directly or as a parameter that every caller fills with one.
func marriageEvent(p *load.Prog, fn *ssa.Function, d string, depth int) bool {
	if strings.Contains(d, "NodesWithTag(") && strings.Contains(d, "TagMarriage") {
		return true
	}
	if depth > 2 || !strings.HasPrefix(d, "p") {
		return false
	}
	idx := -1
	fmt.Sscanf(d, "p%d", &idx)
	if idx < 0 || fmt.Sprintf("p%d", idx) != d {
		return false
	}
	n := 0
	for _, caller := range p.Repo {
		for _, s := range su.CallsTo(caller, fn) {
			n++
			e := &descEnv{p: p, params: map[*ssa.Parameter]string{}}
			if idx >= len(s.Call.Args) || !marriageEvent(p, caller, e.desc(s.Call.Args[idx], 0), depth+1) {
				return false
			}
		}
	}
	return n > 0
}
