package props

import (
	"fmt"
	"go/token"
	"go/types"
	"sort"
	"strings"

	"gedverif/internal/cg"
	"gedverif/internal/e4"
	"gedverif/internal/load"
	"gedverif/internal/oblig"
	"gedverif/internal/su"

	"golang.org/x/tools/go/ssa"
)

// concurrentRegion: the functions (with their contexts) that run inside a
// goroutine started somewhere below root.
func concurrentRegion(g *cg.Graph, root *ssa.Function) map[*ssa.Function]bool {
	all := g.ReachFrom([]cg.Target{{Fn: root}}, cg.Options{})
	var entries []cg.Target
	var keys []string
	for k := range all.Nodes {
		keys = append(keys, k)
	}
	sort.Strings(keys)
	for _, k := range keys {
		for _, e := range g.Out(all.Nodes[k]) {
			if e.Go {
				entries = append(entries, e.Callee)
			}
		}
	}
	return g.ReachFrom(entries, cg.Options{}).Funcs
}

// lockConsistency (R11.b): a field whose stores inside the concurrent regions are
// protected by a mutex must also be read under a mutex there - otherwise the read
// races with the protected write.
func lockConsistency(p *load.Prog, r *oblig.Run, rule string, a *e4.Analysis, g *cg.Graph, root *ssa.Function) {
	protected := map[string]bool{}
	for _, w := range a.SortedWrites() {
		if w.InGo && w.Locked && w.Class != "captured" && !strings.HasPrefix(w.Field, "var ") && !strings.Contains(w.Field, "elements of") {
			protected[w.Field] = true
		}
	}
	region := concurrentRegion(g, root)
	var fns []*ssa.Function
	for f := range region {
		fns = append(fns, f)
	}
	sort.Slice(fns, func(i, j int) bool { return fns[i].String() < fns[j].String() })
	ord := map[string]int{}
	for _, fn := range fns {
		for _, b := range fn.Blocks {
			for _, ins := range b.Instrs {
				ld, ok := ins.(*ssa.UnOp)
				if !ok || ld.Op != token.MUL {
					continue
				}
				fa, ok := ld.X.(*ssa.FieldAddr)
				if !ok {
					continue
				}
				o := su.FieldOwner(fa)
				if o == nil {
					continue
				}
				field := o.Obj().Name() + "." + su.FieldName(fa)
				if !protected[field] {
					continue
				}
				key := fmt.Sprintf("read %s in %s", field, load.FuncName(fn))
				ord[key]++
				if ord[key] > 1 {
					key = fmt.Sprintf("%s #%d", key, ord[key])
				}
				ob := r.Add(rule, key, p.Pos(ld.Pos()), "read of a mutex-protected field inside a concurrent region")
				if e4.LockedAt(ld) {
					ob.OK("between Lock and Unlock of a mutex")
				} else {
					ob.Fail(fmt.Sprintf("%s is written under a mutex by the concurrent workers but read here without holding it: the read races with those writes (and a value computed from it can be stale)", field))
				}
			}
		}
	}
}

// accessPath: a structural name for "the same individual" (SSA value, or a
// constant index / field path from one).
func accessPath(v ssa.Value) string {
	v = su.Strip(v)
	if ld, ok := v.(*ssa.UnOp); ok && ld.Op == token.MUL {
		switch ad := ld.X.(type) {
		case *ssa.IndexAddr:
			if k, isK := ad.Index.(*ssa.Const); isK {
				if i, ok := su.ConstInt(k); ok {
					return fmt.Sprintf("%s[%d]", accessPath(ad.X), i)
				}
			}
		case *ssa.FieldAddr:
			return accessPath(ad.X) + "." + su.FieldName(ad)
		}
	}
	return fmt.Sprintf("v:%p", v)
}

// sentSides (R11.d): the two "already sent" maps are each keyed by the pointers of
// one side of the comparison. Every key site (Load, Store, LoadOrStore, Delete)
// of such a map, in a function that also builds comparisons, must use an
// individual of the side the map stands for; the side of a map is the side used
// by its Store sites.
func sentSides(p *load.Prog, r *oblig.Run, rule, ruleE string, region map[*ssa.Function]bool) {
	cmpT := p.ByPath[load.PkgRoot].Types.Scope().Lookup("IndividualComparison")
	optT := p.ByPath[load.PkgRoot].Types.Scope().Lookup("IndividualNodesCompareOptions")
	if cmpT == nil || optT == nil {
		r.Add(rule, "anchors", "-", "anchor").Unknown("IndividualComparison / IndividualNodesCompareOptions not found")
		return
	}
	type site struct {
		fn    *ssa.Function
		call  ssa.CallInstruction
		field string
		op    string
		side  string
	}
	var sites []site
	var fns []*ssa.Function
	for f := range region {
		fns = append(fns, f)
	}
	sort.Slice(fns, func(i, j int) bool { return fns[i].String() < fns[j].String() })
	for _, fn := range fns {
		// sides of the individuals of this function: what is stored into Left / Right of a comparison
		side := map[string]string{}
		for _, b := range fn.Blocks {
			for _, ins := range b.Instrs {
				st, ok := ins.(*ssa.Store)
				if !ok {
					continue
				}
				fa, ok := st.Addr.(*ssa.FieldAddr)
				if !ok {
					continue
				}
				o := su.FieldOwner(fa)
				if o == nil || o.Obj() != cmpT {
					continue
				}
				switch su.FieldName(fa) {
				case "Left":
					side[accessPath(st.Val)] = "left"
				case "Right":
					side[accessPath(st.Val)] = "right"
				}
			}
		}
		for _, c := range su.Calls(fn) {
			cc := c.Common()
			cal := cc.StaticCallee()
			if cal == nil || cal.Pkg == nil || cal.Pkg.Pkg.Path() != "sync" || cal.Signature.Recv() == nil || len(cc.Args) < 2 {
				continue
			}
			switch cal.Name() {
			case "Load", "Store", "LoadOrStore", "Delete", "LoadAndDelete":
			default:
				continue
			}
			ld, ok := cc.Args[0].(*ssa.UnOp)
			if !ok {
				continue
			}
			fa, ok := ld.X.(*ssa.FieldAddr)
			if !ok {
				continue
			}
			o := su.FieldOwner(fa)
			if o == nil || o.Obj() != optT {
				continue
			}
			// key: X.Pointer() of an individual
			s := "unknown"
			if kc, ok := su.Strip(cc.Args[1]).(*ssa.Call); ok && len(kc.Call.Args) >= 1 {
				if k := kc.Call.StaticCallee(); k != nil && k.Name() == "Pointer" {
					recv := kc.Call.Args[0]
					// promoted through embedded structs (IndividualNode.simpleDocumentNode.SimpleNode)
					for {
						l2, ok := recv.(*ssa.UnOp)
						if !ok || l2.Op != token.MUL {
							break
						}
						f2, ok := l2.X.(*ssa.FieldAddr)
						if !ok {
							break
						}
						st, ok := f2.X.Type().Underlying().(*types.Pointer).Elem().Underlying().(*types.Struct)
						if !ok || !st.Field(f2.Field).Embedded() {
							break
						}
						recv = f2.X
					}
					if sd, ok := side[accessPath(recv)]; ok {
						s = sd
					}
				}
			}
			sites = append(sites, site{fn, c, su.FieldName(fa), cal.Name(), s})
		}
	}
	// the side each map stands for: unanimous side of its Store sites with a known side
	mapSide := map[string]string{}
	for _, s := range sites {
		if s.op != "Store" && s.op != "LoadOrStore" {
			continue
		}
		if s.side == "unknown" {
			continue
		}
		if cur, ok := mapSide[s.field]; ok && cur != s.side {
			mapSide[s.field] = "mixed"
		} else if !ok {
			mapSide[s.field] = s.side
		}
	}
	// R11.e: a function that tests one already-sent map before it sends and then marks both, tests both
	// (check-then-act must cover every map it acts on)
	type fnMaps struct{ loads, stores map[string]bool }
	per := map[*ssa.Function]*fnMaps{}
	var order []*ssa.Function
	for _, s := range sites {
		fm := per[s.fn]
		if fm == nil {
			fm = &fnMaps{map[string]bool{}, map[string]bool{}}
			per[s.fn] = fm
			order = append(order, s.fn)
		}
		if s.op == "Load" {
			fm.loads[s.field] = true
		} else {
			fm.stores[s.field] = true
		}
	}
	for _, fn := range order {
		fm := per[fn]
		if len(fm.loads) == 0 || len(fm.stores) == 0 {
			continue // marks without testing (first stage) or tests without marking (last stage)
		}
		ob := r.Add(ruleE, "already-sent tests in "+load.FuncName(fn), p.Pos(fn.Pos()), "check-then-act on the already-sent maps")
		var missing []string
		for f := range fm.stores {
			if !fm.loads[f] {
				missing = append(missing, "options."+f)
			}
		}
		sort.Strings(missing)
		if len(missing) > 0 {
			ob.Fail("the function tests an already-sent map before it sends a comparison and marks " + strings.Join(missing, ", ") + " afterwards, but never tests " + strings.Join(missing, ", ") + ": an individual of that side that was already handed out is handed out again (merged into two results)")
		} else {
			ob.OK("every map it marks is tested first")
		}
	}
	ord := map[string]int{}
	for _, s := range sites {
		key := fmt.Sprintf("%s of options.%s in %s", s.op, s.field, load.FuncName(s.fn))
		ord[key]++
		if ord[key] > 1 {
			key = fmt.Sprintf("%s #%d", key, ord[key])
		}
		ob := r.Add(rule, key, p.Pos(s.call.Pos()), "key site of an already-sent map")
		ms := mapSide[s.field]
		switch {
		case ms == "" || ms == "mixed":
			ob.Fail(fmt.Sprintf("the Store sites of options.%s do not agree on one side of the comparison (%q): an individual of the other side is marked or looked up in the wrong map", s.field, ms))
		case s.side == "unknown":
			ob.OK("the individual is not one that this function puts into a comparison (nothing to cross-check)")
		case s.side != ms:
			ob.Fail(fmt.Sprintf("options.%s records %s-hand individuals (its Store sites), but here it is keyed by the pointer of the individual that goes into the %s side of the comparison: the already-sent test looks in the wrong map, so an individual can be handed out twice", s.field, ms, strings.Title(s.side)))
		default:
			ob.OK(fmt.Sprintf("keyed by the %s-hand individual, like the map's Store sites", ms))
		}
	}
}

// workerCount (R11.f): util.WorkerPool(n, fn) starts exactly n goroutines - the
// job producers stride over their list by the same n and rely on every residue
// class having a worker. The go statement sits in a counting loop whose bound
// is the parameter itself (not a value derived from it, such as a minimum with
// GOMAXPROCS).
func workerCount(p *load.Prog, r *oblig.Run, rule string) {
	wp := p.Func(load.PkgUtil, "WorkerPool")
	o := r.Add(rule, "number of workers started by util.WorkerPool", "-", "bound of the loop that starts the workers")
	if wp == nil || len(wp.Params) == 0 {
		o.Unknown("util.WorkerPool not found")
		return
	}
	o.Pos = p.Pos(wp.Pos())
	var goBlk *ssa.BasicBlock
	for _, b := range wp.Blocks {
		for _, ins := range b.Instrs {
			if _, ok := ins.(*ssa.Go); ok {
				goBlk = b
			}
		}
	}
	if goBlk == nil {
		o.Unknown("WorkerPool has no go statement")
		return
	}
	resolve := func(v ssa.Value) ssa.Value {
		for i := 0; i < 6; i++ {
			switch x := v.(type) {
			case *ssa.Convert:
				v = x.X
			case *ssa.ChangeType:
				v = x.X
			case *ssa.UnOp:
				al, ok := x.X.(*ssa.Alloc)
				if !ok {
					return v
				}
				var st *ssa.Store
				n := 0
				for _, ref := range *al.Referrers() {
					if s2, ok := ref.(*ssa.Store); ok && s2.Addr == ssa.Value(al) {
						st = s2
						n++
					}
				}
				if n != 1 {
					return v
				}
				v = st.Val
			default:
				return v
			}
		}
		return v
	}
	found, bad := false, ""
	for _, h := range loopHeaders(wp) {
		if !(h == goBlk || (h.Dominates(goBlk) && su.ReachableBlocks(goBlk)[h])) {
			continue
		}
		iff, ok := h.Instrs[len(h.Instrs)-1].(*ssa.If)
		if !ok {
			continue
		}
		bo, ok := iff.Cond.(*ssa.BinOp)
		if !ok || bo.Op != token.LSS {
			continue
		}
		found = true
		bound := resolve(bo.Y)
		if bound != ssa.Value(wp.Params[0]) {
			bad = "the loop that starts the workers runs to " + bo.Y.String() + ", which is not the requested count itself"
		}
		// starts at 0 and counts by 1
		if ph, ok := bo.X.(*ssa.Phi); ok {
			for _, e := range ph.Edges {
				if k, isK := su.ConstInt(e); isK && k != 0 {
					bad = "the worker loop does not start at 0"
				}
			}
		}
	}
	// the number a worker hands to the body is its own: received as an argument of the go statement, not read from a
	// loop variable that the spawning loop keeps incrementing (one variable for all iterations in this module's Go version)
	for _, b := range wp.Blocks {
		for _, ins := range b.Instrs {
			gs, ok := ins.(*ssa.Go)
			if !ok {
				continue
			}
			mc, _ := gs.Call.Value.(*ssa.MakeClosure)
			var body *ssa.Function
			if mc != nil {
				body, _ = mc.Fn.(*ssa.Function)
			} else if f2, isFn := gs.Call.Value.(*ssa.Function); isFn {
				body = f2
			}
			if body == nil {
				continue
			}
			for _, c := range su.Calls(body) {
				if c.Common().StaticCallee() != nil || c.Common().IsInvoke() || len(c.Common().Args) != 1 {
					continue
				}
				arg := c.Common().Args[0]
				ld, isLoad := arg.(*ssa.UnOp)
				if !isLoad || ld.Op != token.MUL {
					continue
				}
				fv, isFV := ld.X.(*ssa.FreeVar)
				if !isFV || mc == nil {
					continue
				}
				for j, f3 := range body.FreeVars {
					if f3 != fv {
						continue
					}
					al, isAl := mc.Bindings[j].(*ssa.Alloc)
					if !isAl {
						continue
					}
					stores := 0
					for _, ref := range *al.Referrers() {
						if st, ok := ref.(*ssa.Store); ok && st.Addr == ssa.Value(al) {
							stores++
						}
					}
					if stores > 1 {
						bad = "the worker goroutine reads its number from the loop variable " + al.Comment + " it shares with the spawning loop (captured by reference, incremented by the loop) instead of receiving it as an argument"
						found = true
					}
				}
			}
		}
	}
	switch {
	case !found:
		o.Unknown("the go statement is not inside a counting loop `i < n`")
	case bad != "":
		o.Fail(bad + ": the job producers stride over their list by the requested count starting at their own number, so individuals whose index modulo that count has no worker of that number are never examined for unique-identifier or pointer matches, and those of a number several workers share are paired (and merged) several times")
	default:
		o.OK("one goroutine for each i in 0..n-1, n the parameter")
	}
}

// nothingAfterClose (R11.g): a pipeline stage's goroutine touches nothing after
// closing the channel the stage returned. Closing it is what lets the consumer
// (in the end Compare itself, whose deferred clean-up closes and clears the
// notifier) go on; anything the goroutine does afterwards runs concurrently
// with that.
func nothingAfterClose(p *load.Prog, r *oblig.Run, rule string, fns []*ssa.Function) {
	for _, fn := range fns {
		if fn == nil {
			continue
		}
		// the channel the stage returns
		var ret *ssa.MakeChan
		for _, b := range fn.Blocks {
			if rt, ok := b.Instrs[len(b.Instrs)-1].(*ssa.Return); ok && len(rt.Results) == 1 {
				v := rt.Results[0]
				if ld, ok := v.(*ssa.UnOp); ok {
					if al, ok := ld.X.(*ssa.Alloc); ok {
						for _, ref := range *al.Referrers() {
							if st, ok := ref.(*ssa.Store); ok && st.Addr == ssa.Value(al) {
								v = st.Val
							}
						}
					}
				}
				if mk, ok := v.(*ssa.MakeChan); ok {
					ret = mk
				}
			}
		}
		if ret == nil {
			continue
		}
		o := r.Add(rule, "after closing the channel returned by "+load.FuncName(fn), p.Pos(ret.Pos()), "what the stage's goroutine does after closing its output")
		bad := ""
		nClose := 0
		var bodies []*ssa.Function
		bodies = append(bodies, fn.AnonFuncs...)
		for _, an := range fn.AnonFuncs {
			bodies = append(bodies, an.AnonFuncs...)
		}
		for _, g := range bodies {
			for _, b := range g.Blocks {
				for i, ins := range b.Instrs {
					c, ok := ins.(*ssa.Call)
					if !ok {
						continue
					}
					bi, ok := c.Call.Value.(*ssa.Builtin)
					if !ok || bi.Name() != "close" || !sameChannel(c.Call.Args[0], ret, g) {
						continue
					}
					nClose++
					// everything after the close, on every path
					var after []ssa.Instruction
					after = append(after, b.Instrs[i+1:]...)
					for rb := range su.ReachableBlocks(b) {
						if rb != b {
							after = append(after, rb.Instrs...)
						}
					}
					for _, a := range after {
						switch a.(type) {
						case *ssa.Return, *ssa.Jump, *ssa.RunDefers, *ssa.If, *ssa.Phi:
							continue
						}
						bad = "after close at " + p.Pos(c.Pos()) + " the goroutine still executes " + a.String() + " (" + p.Pos(a.Pos()) + ")"
					}
				}
			}
		}
		switch {
		case nClose == 0:
			o.OK("not closed in a goroutine body of this stage (R11.c decides that it is closed)")
		case bad != "":
			o.Fail(bad + ": the consumer is released by the close, so this runs concurrently with whatever follows - in the end with Compare's clean-up, which closes and clears the notifier")
		default:
			o.OK("the close is the last thing the goroutine does")
		}
	}
}

// listSides (R11.h): the Left of every comparison the pipeline builds is an
// individual of the left list (Compare's receiver) and the Right one of the
// right list (its argument). Sides are propagated from Compare through the
// static calls, closures, indexing, ranging and lookups on a list; a variable
// that can hold either list has no side.
func listSides(p *load.Prog, r *oblig.Run, rule string, root *ssa.Function, region map[*ssa.Function]bool) {
	cmpT := p.ByPath[load.PkgRoot].Types.Scope().Lookup("IndividualComparison")
	if cmpT == nil || len(root.Params) < 2 {
		r.Add(rule, "anchors", "-", "anchor").Unknown("IndividualComparison / Compare parameters not found")
		return
	}
	memo := map[ssa.Value]string{}
	var side func(v ssa.Value, d int) string
	join := func(a, b string) string {
		switch {
		case a == "":
			return b
		case b == "" || a == b:
			return a
		}
		return "mixed"
	}
	side = func(v ssa.Value, d int) string {
		if s, ok := memo[v]; ok {
			return s
		}
		if d > 14 {
			return "?"
		}
		memo[v] = "" // cycles (loop phis) contribute nothing
		res := "?"
		switch x := v.(type) {
		case *ssa.Parameter:
			fn := x.Parent()
			if fn == root {
				if x == root.Params[0] {
					res = "left"
				} else if x == root.Params[1] {
					res = "right"
				}
				break
			}
			idx := -1
			for i, q := range fn.Params {
				if q == x {
					idx = i
				}
			}
			res = ""
			n := 0
			for caller := range region {
				for _, c := range su.Calls(caller) {
					if c.Common().StaticCallee() == fn && idx < len(c.Common().Args) {
						n++
						res = join(res, side(c.Common().Args[idx], d+1))
					}
				}
			}
			for _, c := range su.Calls(root) {
				if c.Common().StaticCallee() == fn && idx < len(c.Common().Args) {
					n++
					res = join(res, side(c.Common().Args[idx], d+1))
				}
			}
			if n == 0 {
				res = "?"
			}
		case *ssa.FreeVar:
			fn := x.Parent()
			res = "?"
			if par := fn.Parent(); par != nil {
				for _, b := range par.Blocks {
					for _, ins := range b.Instrs {
						if mc, ok := ins.(*ssa.MakeClosure); ok && mc.Fn == fn {
							for j, fv := range fn.FreeVars {
								if fv == x {
									res = side(mc.Bindings[j], d+1)
								}
							}
						}
					}
				}
			}
		case *ssa.Alloc:
			res = ""
			for _, ref := range *x.Referrers() {
				if st, ok := ref.(*ssa.Store); ok && st.Addr == ssa.Value(x) {
					res = join(res, side(st.Val, d+1))
				}
			}
			if res == "" {
				res = "?"
			}
		case *ssa.UnOp:
			switch ad := x.X.(type) {
			case *ssa.IndexAddr:
				res = side(ad.X, d+1)
			default:
				res = side(x.X, d+1)
			}
		case *ssa.Phi:
			res = ""
			for _, e := range x.Edges {
				res = join(res, side(e, d+1))
			}
			if res == "" {
				res = "?"
			}
		case *ssa.Extract:
			res = side(x.Tuple, d+1)
		case *ssa.Next:
			res = side(x.Iter, d+1)
		case *ssa.Range:
			res = side(x.X, d+1)
		case *ssa.Index:
			res = side(x.X, d+1)
		case *ssa.Slice:
			res = side(x.X, d+1)
		case *ssa.ChangeType:
			res = side(x.X, d+1)
		case *ssa.Call:
			// a lookup on a list (right.ByPointer(..), right.ByUniqueIdentifiers(..)) yields individuals of that list
			if cal := x.Call.StaticCallee(); cal != nil && cal.Signature.Recv() != nil && len(x.Call.Args) > 0 {
				if n := load.NamedOf(cal.Signature.Recv().Type()); n != nil && n.Obj().Name() == "IndividualNodes" {
					res = side(x.Call.Args[0], d+1)
				}
			}
		case *ssa.Field:
			res = side(x.X, d+1)
		case *ssa.FieldAddr:
			// j.Left / j.Right of a comparison received from a channel keep their names' sides
			if ow := su.FieldOwner(x); ow != nil && ow.Obj() == cmpT {
				switch su.FieldName(x) {
				case "Left":
					res = "left"
				case "Right":
					res = "right"
				}
			}
		}
		memo[v] = res
		return res
	}
	var fns []*ssa.Function
	for f := range region {
		fns = append(fns, f)
	}
	sort.Slice(fns, func(i, j int) bool { return fns[i].String() < fns[j].String() })
	ord := map[string]int{}
	for _, fn := range fns {
		for _, b := range fn.Blocks {
			for _, ins := range b.Instrs {
				st, ok := ins.(*ssa.Store)
				if !ok {
					continue
				}
				fa, ok := st.Addr.(*ssa.FieldAddr)
				if !ok {
					continue
				}
				ow := su.FieldOwner(fa)
				if ow == nil || ow.Obj() != cmpT {
					continue
				}
				want := map[string]string{"Left": "left", "Right": "right"}[su.FieldName(fa)]
				if want == "" {
					continue
				}
				key := fmt.Sprintf("%s of a comparison built in %s", su.FieldName(fa), load.FuncName(fn))
				ord[key]++
				if ord[key] > 1 {
					key = fmt.Sprintf("%s #%d", key, ord[key])
				}
				o := r.Add(rule, key, p.Pos(st.Pos()), "which list the individual comes from")
				got := side(st.Val, 0)
				switch got {
				case want:
					o.OK("an individual of the " + want + " list")
				case "?":
					o.OK("origin not traced to either list (nothing to cross-check)")
				default:
					o.Fail(fmt.Sprintf("the %s of a comparison can be an individual of the %s list: the result is not a matching between the left and the right individuals (left individuals are missing as Left, or appear as Right)", su.FieldName(fa), map[string]string{"left": "left", "right": "right", "mixed": "left or right (a variable that holds either)"}[got]))
				}
			}
		}
	}
}

// strideMatchesWorkers (R11.j): a job producer that hands util.WorkerPool n
// workers and lets worker w start at index w must advance by that same n -
// with a smaller step the workers' index sets overlap (the same individual is
// sent several times), with a larger one some indices have no worker.
func strideMatchesWorkers(p *load.Prog, r *oblig.Run, rule string, region map[*ssa.Function]bool) {
	wp := p.Func(load.PkgUtil, "WorkerPool")
	if wp == nil {
		r.Add(rule, "anchor", "-", "anchor").Unknown("util.WorkerPool not found")
		return
	}
	cell := func(v ssa.Value, in *ssa.Function) ssa.Value {
		// the variable a value is loaded from: an Alloc of the enclosing function (directly or as a captured variable)
		ld, ok := v.(*ssa.UnOp)
		if !ok || ld.Op != token.MUL {
			return v
		}
		switch x := ld.X.(type) {
		case *ssa.Alloc:
			return x
		case *ssa.FreeVar:
			if par := in.Parent(); par != nil {
				for _, b := range par.Blocks {
					for _, ins := range b.Instrs {
						if mc, ok := ins.(*ssa.MakeClosure); ok && mc.Fn == in {
							for j, fv := range in.FreeVars {
								if fv == x {
									return mc.Bindings[j]
								}
							}
						}
					}
				}
			}
		}
		return v
	}
	var fns []*ssa.Function
	for f := range region {
		fns = append(fns, f)
	}
	for _, f := range p.Repo {
		if pkgPathOf(f) == load.PkgRoot && !region[f] {
			fns = append(fns, f)
		}
	}
	sort.Slice(fns, func(i, j int) bool { return fns[i].String() < fns[j].String() })
	seenFn := map[*ssa.Function]bool{}
	for _, fn := range fns {
		if seenFn[fn] {
			continue
		}
		seenFn[fn] = true
		for _, c := range su.CallsTo(fn, wp) {
			if len(c.Call.Args) != 2 {
				continue
			}
			mc, ok := c.Call.Args[1].(*ssa.MakeClosure)
			if !ok {
				continue
			}
			body := mc.Fn.(*ssa.Function)
			if len(body.Params) != 1 {
				continue
			}
			nCell := cell(c.Call.Args[0], fn)
			for _, h := range loopHeaders(body) {
				for _, ins := range h.Instrs {
					ph, ok := ins.(*ssa.Phi)
					if !ok {
						continue
					}
					// starts at the worker number?
					starts := false
					var back ssa.Value
					for i, pr := range h.Preds {
						if h.Dominates(pr) {
							back = ph.Edges[i]
						} else if ph.Edges[i] == ssa.Value(body.Params[0]) {
							starts = true
						}
					}
					if !starts || back == nil {
						// a loop whose start is computed from the worker number (block partition and the like): decide by
						// enumeration whether the workers' index sets cover the list exactly once
						if back != nil && dependsOnValue(ph.Edges, body.Params[0], h) {
							o := r.Add(rule, "partition of the worker loop in "+load.FuncName(body), p.Pos(h.Instrs[len(h.Instrs)-1].Pos()), "index sets of the workers")
							why, decided := partitionCovers(fn, body, h, ph, nCell, cell)
							switch {
							case !decided:
								o.Unknown("cannot establish that the workers' index sets cover the list exactly once: " + why)
							case why != "":
								o.Fail(why)
							default:
								o.OK("for every list length 0..12 and 1..5 workers the workers' index sets partition the list")
							}
						}
						continue
					}
					o := r.Add(rule, "stride of the worker loop in "+load.FuncName(body), p.Pos(h.Instrs[len(h.Instrs)-1].Pos()), "step of a loop that starts at the worker number")
					bo, ok := back.(*ssa.BinOp)
					if !ok || bo.Op != token.ADD || bo.X != ssa.Value(ph) {
						o.Unknown("the loop variable is not advanced by an addition")
						continue
					}
					if cell(bo.Y, body) == nCell && nCell != nil {
						o.OK("advances by the number of workers handed to WorkerPool")
					} else {
						o.Fail("worker w starts at index w but the loop advances by " + bo.Y.String() + ", not by the number of workers handed to WorkerPool: the workers' index sets overlap or leave gaps - the same individual is compared and sent by several workers (duplicated in the merge) or never examined")
					}
				}
			}
		}
	}
}

// dependsOnValue: some entry edge of the loop variable is computed from v.
func dependsOnValue(edges []ssa.Value, v ssa.Value, h *ssa.BasicBlock) bool {
	seen := map[ssa.Value]bool{}
	var walk func(x ssa.Value) bool
	walk = func(x ssa.Value) bool {
		if x == v {
			return true
		}
		if seen[x] {
			return false
		}
		seen[x] = true
		switch y := x.(type) {
		case *ssa.BinOp:
			return walk(y.X) || walk(y.Y)
		case *ssa.Convert:
			return walk(y.X)
		}
		return false
	}
	for i, e := range edges {
		if h.Dominates(h.Preds[i]) {
			continue
		}
		if walk(e) {
			return true
		}
	}
	return false
}

// partitionCovers decides, by evaluating the loop's start, bound and step expressions (integer expressions over the
// worker number w, the number of workers n and the length L of the indexed list) for L = 0..12 and n = 1..5, whether
// the union over w = 0..n-1 of the visited indexes is exactly 0..L-1 with no index visited twice. decided=false when
// an expression has another leaf. why != "" names the smallest counter-example.
func partitionCovers(parent, body *ssa.Function, h *ssa.BasicBlock, ph *ssa.Phi, nCell ssa.Value, cell func(ssa.Value, *ssa.Function) ssa.Value) (why string, decided bool) {
	var initV, backV ssa.Value
	for i, pr := range h.Preds {
		if h.Dominates(pr) {
			backV = ph.Edges[i]
		} else {
			initV = ph.Edges[i]
		}
	}
	iff, ok := h.Instrs[len(h.Instrs)-1].(*ssa.If)
	if !ok || initV == nil || backV == nil {
		return "the loop has no test at its head", false
	}
	cmp, ok := iff.Cond.(*ssa.BinOp)
	if !ok || cmp.X != ssa.Value(ph) || (cmp.Op != token.LSS && cmp.Op != token.LEQ) {
		return "the loop test is not index < bound", false
	}
	step, ok := backV.(*ssa.BinOp)
	if !ok || step.Op != token.ADD || step.X != ssa.Value(ph) {
		return "the loop variable is not advanced by an addition", false
	}
	// the list: the slice indexed by the loop variable
	var list ssa.Value
	for _, b := range body.Blocks {
		for _, ins := range b.Instrs {
			if ia, ok := ins.(*ssa.IndexAddr); ok && ia.Index == ssa.Value(ph) {
				c := cell(ia.X, body)
				if list != nil && list != c {
					return "the loop variable indexes two different lists", false
				}
				list = c
			}
		}
	}
	if list == nil {
		return "the loop variable indexes no list", false
	}
	type env struct{ w, n, l int64 }
	var eval func(v ssa.Value, in *ssa.Function, e env, depth int) (int64, bool)
	eval = func(v ssa.Value, in *ssa.Function, e env, depth int) (int64, bool) {
		if depth > 12 {
			return 0, false
		}
		if k, isK := su.ConstInt(v); isK {
			return k, true
		}
		if in == body && v == ssa.Value(body.Params[0]) {
			return e.w, true
		}
		if c := cell(v, in); c == nCell && nCell != nil {
			return e.n, true
		}
		switch x := v.(type) {
		case *ssa.BinOp:
			a, ok1 := eval(x.X, in, e, depth+1)
			b, ok2 := eval(x.Y, in, e, depth+1)
			if !ok1 || !ok2 {
				return 0, false
			}
			switch x.Op {
			case token.ADD:
				return a + b, true
			case token.SUB:
				return a - b, true
			case token.MUL:
				return a * b, true
			case token.QUO:
				if b == 0 {
					return 0, false
				}
				return a / b, true
			case token.REM:
				if b == 0 {
					return 0, false
				}
				return a % b, true
			}
			return 0, false
		case *ssa.Call:
			if of, isLen := lenArg(x); isLen {
				if cell(of, in) == list {
					return e.l, true
				}
			}
			return 0, false
		case *ssa.UnOp:
			if x.Op != token.MUL {
				return 0, false
			}
			// a captured variable or a local of the parent with a single assignment
			c := cell(v, in)
			al, ok := c.(*ssa.Alloc)
			if !ok {
				return 0, false
			}
			var val ssa.Value
			n := 0
			for _, ref := range *al.Referrers() {
				if st, ok := ref.(*ssa.Store); ok && st.Addr == ssa.Value(al) {
					val = st.Val
					n++
				}
			}
			if n != 1 {
				return 0, false
			}
			return eval(val, al.Parent(), e, depth+1)
		case *ssa.FreeVar:
			// captured by value: the binding in the parent
			c := cell(&ssa.UnOp{Op: token.MUL, X: x}, in)
			if c == nil || c == ssa.Value(x) {
				return 0, false
			}
			return eval(c, parent, e, depth+1)
		}
		return 0, false
	}
	for l := int64(0); l <= 12; l++ {
		for n := int64(1); n <= 5; n++ {
			count := make([]int, l)
			for w := int64(0); w < n; w++ {
				e := env{w, n, l}
				i0, ok1 := eval(initV, body, e, 0)
				bd, ok2 := eval(cmp.Y, body, e, 0)
				st, ok3 := eval(step.Y, body, e, 0)
				if !ok1 || !ok2 || !ok3 {
					return "the loop's start, bound or step is not an integer expression over the worker number, the number of workers and the list length", false
				}
				if st <= 0 {
					if (cmp.Op == token.LSS && i0 < bd) || (cmp.Op == token.LEQ && i0 <= bd) {
						return fmt.Sprintf("with %d individuals and %d workers worker %d never advances (step %d)", l, n, w, st), true
					}
					continue
				}
				for i := i0; (cmp.Op == token.LSS && i < bd) || (cmp.Op == token.LEQ && i <= bd); i += st {
					if i < 0 || i >= l {
						return fmt.Sprintf("with %d individuals and %d workers worker %d indexes position %d, outside the list", l, n, w, i), true
					}
					count[i]++
				}
			}
			for i, c := range count {
				if c == 0 {
					return fmt.Sprintf("with %d individuals and %d workers no worker examines position %d: that individual is never compared (its match is missing from the result)", l, n, i), true
				}
				if c > 1 {
					return fmt.Sprintf("with %d individuals and %d workers position %d is examined by %d workers: the same individual is compared and sent more than once", l, n, i, c), true
				}
			}
		}
	}
	return "", true
}

// producerOrder (R11.k): in createJobs the job producers run one after the
// other. A producer that sends comparisons without consulting the already-sent
// maps must not run after a producer that marks individuals as sent: it would
// send a second comparison for a person that was already matched, and that
// person ends up twice in the result.
func producerOrder(p *load.Prog, r *oblig.Run, rule string) {
	cj := p.Func(load.PkgRoot, "createJobs")
	if cj == nil {
		r.Add(rule, "anchor", "-", "anchor").Unknown("createJobs not found")
		return
	}
	type summary struct{ tests, marks, sends bool }
	sentField := func(v ssa.Value) bool {
		if ld, isLoad := v.(*ssa.UnOp); isLoad && ld.Op == token.MUL {
			v = ld.X // the maps are pointer fields
		}
		fa, ok := v.(*ssa.FieldAddr)
		if !ok {
			return false
		}
		n := su.FieldName(fa)
		return n == "sentA" || n == "sentB"
	}
	var summarize func(fn *ssa.Function, s *summary, depth int)
	summarize = func(fn *ssa.Function, s *summary, depth int) {
		if fn == nil || depth > 3 {
			return
		}
		for _, b := range fn.Blocks {
			for _, ins := range b.Instrs {
				switch x := ins.(type) {
				case *ssa.Send:
					s.sends = true
				case ssa.CallInstruction:
					cc := x.Common()
					if len(cc.Args) > 0 && sentField(cc.Args[0]) {
						if su.CalleeIs(cc, "sync", "Load") {
							s.tests = true
						}
						if su.CalleeIs(cc, "sync", "Store") || su.CalleeIs(cc, "sync", "LoadOrStore") {
							s.marks = true
						}
					}
				}
			}
		}
		for _, an := range fn.AnonFuncs {
			summarize(an, s, depth+1)
		}
		// helpers of the library the producer hands its work to (sendPointerJob(...))
		for _, c := range su.Calls(fn) {
			if cal := c.Common().StaticCallee(); cal != nil && cal != fn && pkgPathOf(cal) == load.PkgRoot && len(cal.Blocks) > 0 && cal.Signature.Recv() == nil {
				takesOptions := false
				for _, a := range c.Common().Args {
					if n := load.NamedOf(a.Type()); n != nil && n.Obj().Name() == "IndividualNodesCompareOptions" {
						takesOptions = true
					}
				}
				if takesOptions {
					summarize(cal, s, depth+1)
				}
			}
		}
	}
	type prod struct {
		call *ssa.Call
		fn   *ssa.Function
		s    summary
	}
	var prods []prod
	scan := func(fn *ssa.Function) {
		for _, c := range su.Calls(fn) {
			cv, ok := c.(*ssa.Call)
			if !ok {
				continue
			}
			cal := cv.Call.StaticCallee()
			if cal == nil || pkgPathOf(cal) != load.PkgRoot || len(cal.Blocks) == 0 {
				continue
			}
			takesJobs := false
			for _, a := range cv.Call.Args {
				if ch, isCh := a.Type().Underlying().(*types.Chan); isCh {
					if n := load.NamedOf(ch.Elem()); n != nil && n.Obj().Name() == "IndividualComparison" {
						takesJobs = true
					}
				}
			}
			if !takesJobs {
				continue
			}
			var s summary
			summarize(cal, &s, 0)
			if s.sends {
				prods = append(prods, prod{cv, cal, s})
			}
		}
	}
	scan(cj)
	for _, an := range cj.AnonFuncs {
		scan(an)
	}
	// producers called from a body that runs as several goroutines at once (a worker-pool function or a go statement
	// nested inside the producer goroutine): the pass that consults the already-sent maps can run while another pass
	// is still marking them
	{
		var nested []prod
		saved := prods
		prods = nil
		for _, an := range cj.AnonFuncs {
			for _, an2 := range an.AnonFuncs {
				scan(an2)
			}
		}
		nested, prods = prods, saved
		marks, tests := false, false
		for _, pr := range nested {
			marks = marks || pr.s.marks
			tests = tests || pr.s.tests
		}
		if len(nested) >= 2 && marks && tests {
			r.Add(rule, "producers run side by side", p.Pos(nested[0].call.Pos()), "job producers inside a concurrently running body").Fail("the job producers " + nested[0].fn.Name() + " and " + nested[1].fn.Name() + " are called from a function that runs as several goroutines at once: the producer that consults the already-sent maps can reach an individual before the other producer has marked it, so one person is sent as a certain match twice and appears in two results")
			return
		}
	}
	if len(prods) < 2 {
		// the producer body is a named function createJobs starts (go sendJobs(...))
		for _, c := range su.Calls(cj) {
			if h := c.Common().StaticCallee(); h != nil && pkgPathOf(h) == load.PkgRoot && len(h.Blocks) > 0 {
				if _, isGo := c.(*ssa.Go); isGo {
					scan(h)
				}
			}
		}
	}
	if len(prods) < 2 {
		r.Add(rule, "producers of createJobs", p.Pos(cj.Pos()), "job producers called by createJobs").Unknown(fmt.Sprintf("expected at least two job producers in createJobs, found %d", len(prods)))
		return
	}
	anyMarks, anyTests := false, false
	for _, pr := range prods {
		anyMarks = anyMarks || pr.s.marks
		anyTests = anyTests || pr.s.tests
	}
	if !anyMarks || !anyTests {
		r.Add(rule, "already-sent maps", p.Pos(cj.Pos()), "use of the already-sent maps by the producers").Unknown("no producer marks and no producer consults the already-sent maps: the rule cannot see how duplicates are prevented")
		return
	}
	for _, later := range prods {
		o := r.Add(rule, "producer "+later.fn.Name(), p.Pos(later.call.Pos()), "what ran before "+later.fn.Name())
		bad := ""
		for _, earlier := range prods {
			if earlier.call == later.call || earlier.call.Parent() != later.call.Parent() || !su.Dominates(earlier.call, later.call) {
				continue
			}
			if earlier.s.marks && !later.s.tests {
				bad = fmt.Sprintf("%s sends comparisons without consulting the already-sent maps but runs after %s, which marks the individuals it matched: a person matched by the earlier producer is matched again by the later one and appears twice in the merge result", later.fn.Name(), earlier.fn.Name())
			}
		}
		if bad != "" {
			o.Fail(bad)
		} else {
			o.OK("no producer that marks individuals runs before it, or it consults the already-sent maps")
		}
	}
}

// listLookups (R11.l): R11.h assumes that a lookup on a list of individuals
// (ByPointer, ByUniqueIdentifier(s), ...) answers with individuals of that
// list. Here every method of IndividualNodes that returns an individual or a
// list of individuals and is called in the matching pipeline is checked: each
// returned value is nil, an element of the receiver, the answer of another
// checked lookup on the receiver, or a list appended from those.
func listLookups(p *load.Prog, r *oblig.Run, rule string, root *ssa.Function, region map[*ssa.Function]bool) {
	isIndiv := func(t types.Type) bool {
		if pt, ok := t.(*types.Pointer); ok {
			if n := load.NamedOf(pt.Elem()); n != nil && n.Obj().Name() == "IndividualNode" {
				return true
			}
		}
		if n := load.NamedOf(t); n != nil && n.Obj().Name() == "IndividualNodes" {
			return true
		}
		return false
	}
	isLookup := func(fn *ssa.Function) bool {
		if fn == nil || fn.Signature.Recv() == nil || len(fn.Blocks) == 0 || fn.Signature.Results().Len() != 1 {
			return false
		}
		n := load.NamedOf(fn.Signature.Recv().Type())
		return n != nil && n.Obj().Name() == "IndividualNodes" && isIndiv(fn.Signature.Results().At(0).Type()) && fn != root
	}
	called := map[*ssa.Function]bool{}
	scan := func(fn *ssa.Function) {
		for _, c := range su.Calls(fn) {
			if cal := c.Common().StaticCallee(); isLookup(cal) && cal.Name() != "Merge" {
				called[cal] = true
			}
		}
	}
	scan(root)
	for fn := range region {
		scan(fn)
	}
	// lookups that call lookups
	for changed := true; changed; {
		changed = false
		for fn := range called {
			for _, sub := range append([]*ssa.Function{fn}, fn.AnonFuncs...) {
				for _, c := range su.Calls(sub) {
					if cal := c.Common().StaticCallee(); isLookup(cal) && !called[cal] && cal.Name() != "Merge" {
						called[cal] = true
						changed = true
					}
				}
			}
		}
	}
	var fns []*ssa.Function
	for fn := range called {
		fns = append(fns, fn)
	}
	sort.Slice(fns, func(i, j int) bool { return fns[i].Pos() < fns[j].Pos() })
	for _, fn := range fns {
		o := r.Add(rule, "answers of "+load.FuncName(fn), p.Pos(fn.Pos()), "a lookup on a list answers with individuals of that list")
		recv := fn.Params[0]
		bad := ""
		seen := map[ssa.Value]bool{}
		var fromRecv func(v ssa.Value, d int) bool
		// the receiver itself (a list) or a value copied from it
		var isRecvList func(v ssa.Value, d int) bool
		isRecvList = func(v ssa.Value, d int) bool {
			if d > 8 {
				return false
			}
			switch x := v.(type) {
			case *ssa.Parameter:
				return x == recv
			case *ssa.FreeVar:
				par := x.Parent().Parent()
				if par == nil {
					return false
				}
				for _, b := range par.Blocks {
					for _, ins := range b.Instrs {
						if mc, ok := ins.(*ssa.MakeClosure); ok && mc.Fn == x.Parent() {
							for j, fv := range x.Parent().FreeVars {
								if fv == x {
									return isRecvList(mc.Bindings[j], d+1)
								}
							}
						}
					}
				}
				return false
			case *ssa.Alloc:
				n, ok := 0, true
				for _, ref := range *x.Referrers() {
					if st, isSt := ref.(*ssa.Store); isSt && st.Addr == ssa.Value(x) {
						n++
						ok = ok && isRecvList(st.Val, d+1)
					}
				}
				return n > 0 && ok
			case *ssa.UnOp:
				if x.Op == token.MUL {
					return isRecvList(x.X, d+1)
				}
			case *ssa.Slice:
				return isRecvList(x.X, d+1)
			case *ssa.ChangeType:
				return isRecvList(x.X, d+1)
			}
			return false
		}
		// every store into the memory cell (a named result, possibly captured by a closure)
		cellStores := func(cell ssa.Value) []ssa.Value {
			var out []ssa.Value
			var walk func(c ssa.Value, owner *ssa.Function)
			walk = func(c ssa.Value, owner *ssa.Function) {
				if c.Referrers() == nil {
					return
				}
				for _, ref := range *c.Referrers() {
					switch y := ref.(type) {
					case *ssa.Store:
						if y.Addr == c {
							out = append(out, y.Val)
						}
					case *ssa.MakeClosure:
						for j, b := range y.Bindings {
							if b == c {
								walk(y.Fn.(*ssa.Function).FreeVars[j], y.Fn.(*ssa.Function))
							}
						}
					}
				}
			}
			walk(cell, fn)
			return out
		}
		fromRecv = func(v ssa.Value, d int) bool {
			if d > 12 {
				return false
			}
			if seen[v] {
				return true
			}
			seen[v] = true
			switch x := v.(type) {
			case *ssa.Const:
				return x.Value == nil
			case *ssa.Phi:
				for _, e := range x.Edges {
					if !fromRecv(e, d+1) {
						return false
					}
				}
				return true
			case *ssa.Extract:
				// value of a range over the receiver
				if nx, ok := x.Tuple.(*ssa.Next); ok && x.Index == 2 {
					if rg, ok := nx.Iter.(*ssa.Range); ok {
						return isRecvList(rg.X, 0)
					}
				}
				return false
			case *ssa.UnOp:
				if x.Op != token.MUL {
					return false
				}
				switch ad := x.X.(type) {
				case *ssa.IndexAddr:
					return isRecvList(ad.X, 0)
				case *ssa.Alloc, *ssa.FreeVar:
					cell := ssa.Value(ad)
					if fv, ok := ad.(*ssa.FreeVar); ok {
						// find the captured cell in the enclosing function
						if par := fv.Parent().Parent(); par != nil {
							for _, b := range par.Blocks {
								for _, ins := range b.Instrs {
									if mc, ok := ins.(*ssa.MakeClosure); ok && mc.Fn == fv.Parent() {
										for j, f2 := range fv.Parent().FreeVars {
											if f2 == fv {
												cell = mc.Bindings[j]
											}
										}
									}
								}
							}
						}
					}
					sts := cellStores(cell)
					for _, s := range sts {
						if !fromRecv(s, d+1) {
							return false
						}
					}
					return true // an unassigned named result is nil
				}
				return false
			case *ssa.Index:
				return isRecvList(x.X, 0)
			case *ssa.Slice:
				return fromRecv(x.X, d+1) || isRecvList(x.X, 0)
			case *ssa.ChangeType:
				return fromRecv(x.X, d+1)
			case *ssa.Alloc:
				// the variadic array of an append: its element stores
				ok := true
				n := 0
				for _, ref := range *x.Referrers() {
					if ia, isIA := ref.(*ssa.IndexAddr); isIA {
						for _, r2 := range *ia.Referrers() {
							if st, isSt := r2.(*ssa.Store); isSt && st.Addr == ssa.Value(ia) {
								n++
								ok = ok && fromRecv(st.Val, d+1)
							}
						}
					}
				}
				return n > 0 && ok
			case *ssa.Call:
				if bi, isB := x.Call.Value.(*ssa.Builtin); isB && bi.Name() == "append" {
					for _, a := range x.Call.Args {
						if !fromRecv(a, d+1) {
							return false
						}
					}
					return true
				}
				if cal := x.Call.StaticCallee(); isLookup(cal) && called[cal] && len(x.Call.Args) > 0 && isRecvList(x.Call.Args[0], 0) {
					return true // checked as its own obligation
				}
				return false
			}
			return false
		}
		n := 0
		for _, b := range fn.Blocks {
			ret, ok := b.Instrs[len(b.Instrs)-1].(*ssa.Return)
			if !ok || len(ret.Results) != 1 {
				continue
			}
			n++
			if !fromRecv(ret.Results[0], 0) {
				bad = "the value returned at " + p.Pos(ret.Pos()) + " is not (only) made of elements of the list the lookup was called on"
			}
		}
		switch {
		case n == 0:
			o.Unknown("no return found")
		case bad != "":
			o.Fail(bad + ": the pipeline pairs an individual of one list with an individual that was never handed to Compare (a comparison whose Right is not in the right list)")
		default:
			o.OK(fmt.Sprintf("%d return(s): nil, elements of the receiver, or answers of checked lookups on the receiver", n))
		}
	}
	if len(fns) == 0 {
		r.Add(rule, "lookups", "-", "list lookups used by the pipeline").Unknown("the pipeline calls no lookup on a list of individuals")
	}
}

// winnerSends (R11.m): the selection stage emits a one-to-one matching. Every send on the channel that
// calculateWinners returns is reached only on paths that established (facts on every path, edge cut):
//   - for a comparison taken from the results: it is a certain match, or its weighted similarity is not below the
//     configured minimum AND neither its Left nor its Right individual is marked as already matched;
//   - for a one-sided comparison made for a left-over individual: that individual is not marked;
// and after a two-sided comparison was sent both its individuals are marked in the same block.
func winnerSends(p *load.Prog, r *oblig.Run, rule string) {
	r.Rule(rule, "calculateWinners sends a pair only if it is certain or (not below the minimum and both sides still unmatched), marks both sides after sending, and sends a left-over individual only if unmarked", 3)
	cw := p.Method(load.PkgRoot, "IndividualNodesCompareOptions", "calculateWinners")
	if cw == nil {
		r.Add(rule, "anchor", "-", "anchor").Unknown("calculateWinners not found")
		return
	}
	n := 0
	for _, fn := range append([]*ssa.Function{cw}, allAnon(cw)...) {
		env := &descEnv{p: p, params: map[*ssa.Parameter]string{}, noInline: true}
		for _, b := range fn.Blocks {
			for idx, ins := range b.Instrs {
				snd, ok := ins.(*ssa.Send)
				if !ok {
					continue
				}
				n++
				o := r.Add(rule, fmt.Sprintf("send #%d in %s", n, load.FuncName(fn)), p.Pos(snd.Pos()), "condition of a send on the winners channel")
				v := snd.X
				// a comparison built here for one individual?
				if al, isAl := v.(*ssa.Alloc); isAl {
					var who []string
					for _, ref := range *al.Referrers() {
						if fa, ok := ref.(*ssa.FieldAddr); ok {
							for _, r2 := range *fa.Referrers() {
								if st, ok := r2.(*ssa.Store); ok && st.Addr == ssa.Value(fa) {
									who = append(who, env.desc(st.Val, 0))
								}
							}
						}
					}
					if len(who) != 1 {
						o.Fail("a comparison built in calculateWinners holds " + fmt.Sprint(len(who)) + " individuals: left-over individuals are reported one-sided")
						continue
					}
					x := who[0]
					if env.holdsAny(b, func(f cfact) bool {
						return (strings.HasPrefix(f.atom, "lookup(") && strings.HasSuffix(f.atom, ","+x+")") && !f.val) ||
							(strings.HasPrefix(f.atom, "lookup(") && strings.Contains(f.atom, ","+x+")==true") && !f.val)
					}) {
						o.OK("the left-over individual is sent only when it is not marked as matched")
					} else {
						o.Fail("a one-sided comparison for " + x + " is sent on a path that did not find that individual unmarked: an individual that already has a partner is reported a second time (the result is not a one-to-one matching)")
					}
					continue
				}
				// marks after the send (in this block)
				marked := map[string]bool{}
				markMap := map[string]string{}
				for _, later := range b.Instrs[idx+1:] {
					if mu, ok := later.(*ssa.MapUpdate); ok {
						if k, isK := mu.Value.(*ssa.Const); isK && k.Value != nil && k.Value.ExactString() == "true" {
							marked[env.desc(mu.Key, 0)] = true
							markMap[env.desc(mu.Key, 0)] = env.desc(mu.Map, 0)
						}
					}
				}
				d := env.desc(v, 0)
				if !marked[d+".Left"] || !marked[d+".Right"] {
					o.Fail("after a pair was sent its two individuals are not both marked as matched in the same step: a later pair can use one of them again (not one-to-one), or it is reported once more as a left-over")
					continue
				}
				sendD := d
				var mapAlias func(string) string
				mapAlias = func(m string) string { return m }
				markMapOf := func(side string) string { return mapAlias(markMap[sendD+"."+side]) }
				decide := func(e2 *descEnv, blk *ssa.BasicBlock, d string) []string {
					certain := e2.holdsAny(blk, func(f cfact) bool { return f.val && f.atom == d+".certainMatch" })
					if certain {
						return nil
					}
					notBelow := e2.holdsAny(blk, func(f cfact) bool {
						return !f.val && strings.HasPrefix(f.atom, "SurroundingSimilarity.WeightedSimilarity("+d+".Similarity)<") && strings.HasSuffix(f.atom, ".MinimumWeightedSimilarity")
					})
					free := func(side string) bool {
						// the map that is asked must be the map in which this side is marked after the send
						mm := markMapOf(side)
						return e2.holdsAny(blk, func(f cfact) bool {
							if f.val {
								return false
							}
							for _, form := range []string{"lookup(" + mm + "," + d + "." + side + ")", "lookup(" + mm + "," + d + "." + side + ")==true", "true==lookup(" + mm + "," + d + "." + side + ")"} {
								if f.atom == form {
									return true
								}
							}
							return false
						})
					}
					var why []string
					if !notBelow {
						why = append(why, "its weighted similarity was not compared with MinimumWeightedSimilarity")
					}
					if !free("Left") {
						why = append(why, "its Left individual was not found unmatched")
					}
					if !free("Right") {
						why = append(why, "its Right individual was not found unmatched")
					}
					return why
				}
				var why []string
				where := ""
				if prm, isPrm := v.(*ssa.Parameter); isPrm {
					// a send-and-mark helper: the condition is established where the helper is called
					pi := -1
					for i, q := range fn.Params {
						if q == prm {
							pi = i
						}
					}
					calls := 0
					for _, caller := range append([]*ssa.Function{cw}, allAnon(cw)...) {
						for _, cs := range su.Calls(caller) {
							if cs.Common().StaticCallee() != fn || pi >= len(cs.Common().Args) {
								continue
							}
							calls++
							e2 := &descEnv{p: p, params: map[*ssa.Parameter]string{}, noInline: true}
							mapAlias = func(m string) string { return strings.TrimPrefix(m, "^") }
							if w := decide(e2, cs.Block(), e2.desc(cs.Common().Args[pi], 0)); len(w) > 0 {
								why, where = w, " (call at "+p.Pos(cs.Pos())+")"
							}
						}
					}
					if calls == 0 {
						o.Unknown("the send helper has no static call site")
						continue
					}
				} else {
					why = decide(env, b, d)
				}
				if len(why) > 0 {
					o.Fail("a comparison is sent as a winner on a path on which it is neither a certain match nor accepted (" + strings.Join(why, "; ") + ")" + where + ": pairs below the configured minimum are matched, or an individual gets two partners")
				} else {
					o.OK("certain, or not below the minimum with both sides unmatched; both sides marked after the send")
				}
			}
		}
	}
	if n == 0 {
		r.Add(rule, "sends", p.Pos(cw.Pos()), "anchor").Unknown("calculateWinners sends nothing")
	}
}

// flagLast (R11.n): a lazily filled cache of a node is published by its flag. In every function of the library
// package that sets a boolean field of an object to true and also fills other fields of that same object, no such
// fill can happen after the flag was set: otherwise a reader that sees the flag (another worker of Compare or of
// the publisher - the fills themselves are unsynchronised, see R11.a/R19.e) takes the still-empty value for the
// cached one (a zero date range scores 0 against an identical date; a nil husband is "no husband").
func flagLast(p *load.Prog, r *oblig.Run, rule string) {
	r.Rule(rule, "a lazily filled cache sets its 'filled' flag only after the cached value was stored (no fill of the same object after the flag)", 3)
	n := 0
	for _, fn := range p.Repo {
		if pkgPathOf(fn) != load.PkgRoot {
			continue
		}
		env := &descEnv{p: p, params: map[*ssa.Parameter]string{}}
		type st struct {
			ins   *ssa.Store
			base  string
			field string
			flag  bool
		}
		var stores []st
		for _, b := range fn.Blocks {
			for _, ins := range b.Instrs {
				s, ok := ins.(*ssa.Store)
				if !ok {
					continue
				}
				fa, ok := s.Addr.(*ssa.FieldAddr)
				if !ok {
					continue
				}
				if _, isAl := fa.X.(*ssa.Alloc); isAl {
					continue // a literal under construction
				}
				isFlag := false
				if k, isK := s.Val.(*ssa.Const); isK && k.Value != nil && k.Value.ExactString() == "true" {
					isFlag = true
				}
				stores = append(stores, st{s, env.desc(fa.X, 0), su.FieldName(fa), isFlag})
			}
		}
		for _, f := range stores {
			if !f.flag {
				continue
			}
			var fills []st
			for _, v := range stores {
				if !v.flag && v.base == f.base && v.field != f.field {
					fills = append(fills, v)
				}
			}
			if len(fills) == 0 {
				continue
			}
			n++
			o := r.Add(rule, fmt.Sprintf("flag %s in %s", f.field, load.FuncName(fn)), p.Pos(f.ins.Pos()), "order of the flag and the cached value")
			bad := ""
			for _, v := range fills {
				after := false
				if v.ins.Block() == f.ins.Block() {
					after = su.Dominates(f.ins, v.ins) && f.ins != v.ins
				} else {
					for _, sx := range f.ins.Block().Succs {
						if su.ReachableBlocks(sx)[v.ins.Block()] {
							after = true
						}
					}
				}
				if after {
					bad = "the field " + v.field + " is stored at " + p.Pos(v.ins.Pos()) + " after the flag " + f.field + " was set"
				}
			}
			if bad != "" {
				o.Fail(bad + ": between the two stores another goroutine that finds the flag set returns the still-empty cached value (identical dates score 0, a family has no husband) - the result depends on the schedule")
			} else {
				o.OK("the flag is the last store to the object")
			}
		}
	}
	if n == 0 {
		r.Add(rule, "flagged caches", "-", "anchor").Unknown("no flagged lazy cache found in the library package")
	}
}
