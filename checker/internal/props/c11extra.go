package props

import (
	"fmt"
	"go/token"
	"go/types"
	"sort"
	"strings"

	"gedverif/internal/cg"
	"gedverif/internal/e4"
	"gedverif/internal/load"
	"gedverif/internal/oblig"
	"gedverif/internal/su"

	"golang.org/x/tools/go/ssa"
)

// concurrentRegion: the functions (with their contexts) that run inside a
// goroutine started somewhere below root.
func concurrentRegion(g *cg.Graph, root *ssa.Function) map[*ssa.Function]bool {
	all := g.ReachFrom([]cg.Target{{Fn: root}}, cg.Options{})
	var entries []cg.Target
	var keys []string
	for k := range all.Nodes {
		keys = append(keys, k)
	}
	sort.Strings(keys)
	for _, k := range keys {
		for _, e := range g.Out(all.Nodes[k]) {
			if e.Go {
				entries = append(entries, e.Callee)
			}
		}
	}
	return g.ReachFrom(entries, cg.Options{}).Funcs
}

// lockConsistency (R11.b): a field whose stores inside the concurrent regions are
// protected by a mutex must also be read under a mutex there - otherwise the read
// races with the protected write.
func lockConsistency(p *load.Prog, r *oblig.Run, rule string, a *e4.Analysis, g *cg.Graph, root *ssa.Function) {
	protected := map[string]bool{}
	for _, w := range a.SortedWrites() {
		if w.InGo && w.Locked && w.Class != "captured" && !strings.HasPrefix(w.Field, "var ") && !strings.Contains(w.Field, "elements of") {
			protected[w.Field] = true
		}
	}
	region := concurrentRegion(g, root)
	var fns []*ssa.Function
	for f := range region {
		fns = append(fns, f)
	}
	sort.Slice(fns, func(i, j int) bool { return fns[i].String() < fns[j].String() })
	ord := map[string]int{}
	for _, fn := range fns {
		for _, b := range fn.Blocks {
			for _, ins := range b.Instrs {
				ld, ok := ins.(*ssa.UnOp)
				if !ok || ld.Op != token.MUL {
					continue
				}
				fa, ok := ld.X.(*ssa.FieldAddr)
				if !ok {
					continue
				}
				o := su.FieldOwner(fa)
				if o == nil {
					continue
				}
				field := o.Obj().Name() + "." + su.FieldName(fa)
				if !protected[field] {
					continue
				}
				key := fmt.Sprintf("read %s in %s", field, load.FuncName(fn))
				ord[key]++
				if ord[key] > 1 {
					key = fmt.Sprintf("%s #%d", key, ord[key])
				}
				ob := r.Add(rule, key, p.Pos(ld.Pos()), "read of a mutex-protected field inside a concurrent region")
				if e4.LockedAt(ld) {
					ob.OK("between Lock and Unlock of a mutex")
				} else {
					ob.Fail(fmt.Sprintf("%s is written under a mutex by the concurrent workers but read here without holding it: the read races with those writes (and a value computed from it can be stale)", field))
				}
			}
		}
	}
}

// accessPath: a structural name for "the same individual" (SSA value, or a
// constant index / field path from one).
func accessPath(v ssa.Value) string {
	v = su.Strip(v)
	if ld, ok := v.(*ssa.UnOp); ok && ld.Op == token.MUL {
		switch ad := ld.X.(type) {
		case *ssa.IndexAddr:
			if k, isK := ad.Index.(*ssa.Const); isK {
				if i, ok := su.ConstInt(k); ok {
					return fmt.Sprintf("%s[%d]", accessPath(ad.X), i)
				}
			}
		case *ssa.FieldAddr:
			return accessPath(ad.X) + "." + su.FieldName(ad)
		}
	}
	return fmt.Sprintf("v:%p", v)
}

// sentSides (R11.d): the two "already sent" maps are each keyed by the pointers of
// one side of the comparison. Every key site (Load, Store, LoadOrStore, Delete)
// of such a map, in a function that also builds comparisons, must use an
// individual of the side the map stands for; the side of a map is the side used
// by its Store sites.
func sentSides(p *load.Prog, r *oblig.Run, rule, ruleE string, region map[*ssa.Function]bool) {
	cmpT := p.ByPath[load.PkgRoot].Types.Scope().Lookup("IndividualComparison")
	optT := p.ByPath[load.PkgRoot].Types.Scope().Lookup("IndividualNodesCompareOptions")
	if cmpT == nil || optT == nil {
		r.Add(rule, "anchors", "-", "anchor").Unknown("IndividualComparison / IndividualNodesCompareOptions not found")
		return
	}
	type site struct {
		fn    *ssa.Function
		call  ssa.CallInstruction
		field string
		op    string
		side  string
	}
	var sites []site
	var fns []*ssa.Function
	for f := range region {
		fns = append(fns, f)
	}
	sort.Slice(fns, func(i, j int) bool { return fns[i].String() < fns[j].String() })
	for _, fn := range fns {
		// sides of the individuals of this function: what is stored into Left / Right of a comparison
		side := map[string]string{}
		for _, b := range fn.Blocks {
			for _, ins := range b.Instrs {
				st, ok := ins.(*ssa.Store)
				if !ok {
					continue
				}
				fa, ok := st.Addr.(*ssa.FieldAddr)
				if !ok {
					continue
				}
				o := su.FieldOwner(fa)
				if o == nil || o.Obj() != cmpT {
					continue
				}
				switch su.FieldName(fa) {
				case "Left":
					side[accessPath(st.Val)] = "left"
				case "Right":
					side[accessPath(st.Val)] = "right"
				}
			}
		}
		for _, c := range su.Calls(fn) {
			cc := c.Common()
			cal := cc.StaticCallee()
			if cal == nil || cal.Pkg == nil || cal.Pkg.Pkg.Path() != "sync" || cal.Signature.Recv() == nil || len(cc.Args) < 2 {
				continue
			}
			switch cal.Name() {
			case "Load", "Store", "LoadOrStore", "Delete", "LoadAndDelete":
			default:
				continue
			}
			ld, ok := cc.Args[0].(*ssa.UnOp)
			if !ok {
				continue
			}
			fa, ok := ld.X.(*ssa.FieldAddr)
			if !ok {
				continue
			}
			o := su.FieldOwner(fa)
			if o == nil || o.Obj() != optT {
				continue
			}
			// key: X.Pointer() of an individual
			s := "unknown"
			if kc, ok := su.Strip(cc.Args[1]).(*ssa.Call); ok && len(kc.Call.Args) >= 1 {
				if k := kc.Call.StaticCallee(); k != nil && k.Name() == "Pointer" {
					recv := kc.Call.Args[0]
					// promoted through embedded structs (IndividualNode.simpleDocumentNode.SimpleNode)
					for {
						l2, ok := recv.(*ssa.UnOp)
						if !ok || l2.Op != token.MUL {
							break
						}
						f2, ok := l2.X.(*ssa.FieldAddr)
						if !ok {
							break
						}
						st, ok := f2.X.Type().Underlying().(*types.Pointer).Elem().Underlying().(*types.Struct)
						if !ok || !st.Field(f2.Field).Embedded() {
							break
						}
						recv = f2.X
					}
					if sd, ok := side[accessPath(recv)]; ok {
						s = sd
					}
				}
			}
			sites = append(sites, site{fn, c, su.FieldName(fa), cal.Name(), s})
		}
	}
	// the side each map stands for: unanimous side of its Store sites with a known side
	mapSide := map[string]string{}
	for _, s := range sites {
		if s.op != "Store" && s.op != "LoadOrStore" {
			continue
		}
		if s.side == "unknown" {
			continue
		}
		if cur, ok := mapSide[s.field]; ok && cur != s.side {
			mapSide[s.field] = "mixed"
		} else if !ok {
			mapSide[s.field] = s.side
		}
	}
	// R11.e: a function that tests one already-sent map before it sends and then marks both, tests both
	// (check-then-act must cover every map it acts on)
	type fnMaps struct{ loads, stores map[string]bool }
	per := map[*ssa.Function]*fnMaps{}
	var order []*ssa.Function
	for _, s := range sites {
		fm := per[s.fn]
		if fm == nil {
			fm = &fnMaps{map[string]bool{}, map[string]bool{}}
			per[s.fn] = fm
			order = append(order, s.fn)
		}
		if s.op == "Load" {
			fm.loads[s.field] = true
		} else {
			fm.stores[s.field] = true
		}
	}
	for _, fn := range order {
		fm := per[fn]
		if len(fm.loads) == 0 || len(fm.stores) == 0 {
			continue // marks without testing (first stage) or tests without marking (last stage)
		}
		ob := r.Add(ruleE, "already-sent tests in "+load.FuncName(fn), p.Pos(fn.Pos()), "check-then-act on the already-sent maps")
		var missing []string
		for f := range fm.stores {
			if !fm.loads[f] {
				missing = append(missing, "options."+f)
			}
		}
		sort.Strings(missing)
		if len(missing) > 0 {
			ob.Fail("the function tests an already-sent map before it sends a comparison and marks " + strings.Join(missing, ", ") + " afterwards, but never tests " + strings.Join(missing, ", ") + ": an individual of that side that was already handed out is handed out again (merged into two results)")
		} else {
			ob.OK("every map it marks is tested first")
		}
	}
	ord := map[string]int{}
	for _, s := range sites {
		key := fmt.Sprintf("%s of options.%s in %s", s.op, s.field, load.FuncName(s.fn))
		ord[key]++
		if ord[key] > 1 {
			key = fmt.Sprintf("%s #%d", key, ord[key])
		}
		ob := r.Add(rule, key, p.Pos(s.call.Pos()), "key site of an already-sent map")
		ms := mapSide[s.field]
		switch {
		case ms == "" || ms == "mixed":
			ob.Fail(fmt.Sprintf("the Store sites of options.%s do not agree on one side of the comparison (%q): an individual of the other side is marked or looked up in the wrong map", s.field, ms))
		case s.side == "unknown":
			ob.OK("the individual is not one that this function puts into a comparison (nothing to cross-check)")
		case s.side != ms:
			ob.Fail(fmt.Sprintf("options.%s records %s-hand individuals (its Store sites), but here it is keyed by the pointer of the individual that goes into the %s side of the comparison: the already-sent test looks in the wrong map, so an individual can be handed out twice", s.field, ms, strings.Title(s.side)))
		default:
			ob.OK(fmt.Sprintf("keyed by the %s-hand individual, like the map's Store sites", ms))
		}
	}
}
