package props

import (
	"fmt"
	"go/constant"
	"go/token"
	"math"

	"gedverif/internal/load"
	"gedverif/internal/oblig"
	"gedverif/internal/su"

	"golang.org/x/tools/go/ssa"
)

// R19.g - closedness of the letter pages: the letter a surname is filed under
// (getSurnameIndexLetter, used for links) is always one of the letters the
// publisher can generate a list page for (GetIndexLetters: the symbol letter
// and one contiguous range of runes). Decided per return path of
// getSurnameIndexLetter with interval facts about the returned byte.
func c19LetterRange(p *load.Prog, r *oblig.Run) {
	r.Rule("R19.g", "the list-page letter of a surname is always a letter GetIndexLetters can emit (the symbol letter or the emitted rune range)", 2)
	letter := p.Func(load.PkgHTML, "getSurnameIndexLetter")
	emit := p.Func(load.PkgHTML, "GetIndexLetters")
	if letter == nil || emit == nil {
		r.Add("R19.g", "anchors", "-", "anchor").Unknown("getSurnameIndexLetter / GetIndexLetters not found")
		return
	}
	constRune := func(v ssa.Value) (int64, bool) {
		k, ok := v.(*ssa.Const)
		if !ok || k.Value == nil && false {
			return 0, false
		}
		return su.ConstInt(k)
	}
	// emitted set: constants appended/compared in GetIndexLetters: a counting loop phi [c0, i+1] with test i <= c1 (or < c1)
	lo, hi := int64(0), int64(-1)
	var symbols []int64
	for _, b := range emit.Blocks {
		for _, ins := range b.Instrs {
			ph, ok := ins.(*ssa.Phi)
			if !ok || len(ph.Edges) != 2 {
				continue
			}
			c0, ok0 := constRune(ph.Edges[0])
			if !ok0 {
				continue
			}
			inc, ok := ph.Edges[1].(*ssa.BinOp)
			if !ok || inc.Op != token.ADD || inc.X != ssa.Value(ph) {
				continue
			}
			if one, ok := constRune(inc.Y); !ok || one != 1 {
				continue
			}
			for _, ref := range *ph.Referrers() {
				bo, ok := ref.(*ssa.BinOp)
				if !ok || bo.X != ssa.Value(ph) {
					continue
				}
				c1, ok1 := constRune(bo.Y)
				if !ok1 {
					continue
				}
				switch bo.Op {
				case token.LEQ:
					lo, hi = c0, c1
				case token.LSS:
					lo, hi = c0, c1-1
				}
			}
		}
	}
	// the symbol letter: a rune constant used as a map key test / in a composite slice in GetIndexLetters
	for _, b := range emit.Blocks {
		for _, ins := range b.Instrs {
			if lk, ok := ins.(*ssa.Lookup); ok {
				if c, ok := constRune(lk.Index); ok {
					symbols = append(symbols, c)
				}
			}
		}
	}
	// ... or a range over a constant string of letters (for _, r := range "abc...z")
	var alphabet map[int64]bool
	if hi < lo {
		for _, b := range emit.Blocks {
			for _, ins := range b.Instrs {
				rg, ok := ins.(*ssa.Range)
				if !ok {
					continue
				}
				if cs, ok := su.ConstString(rg.X); ok && cs != "" {
					alphabet = map[int64]bool{}
					for _, ch := range cs {
						alphabet[int64(ch)] = true
					}
				}
			}
		}
	}
	o0 := r.Add("R19.g", "letters emitted by GetIndexLetters", p.Pos(emit.Pos()), "emitted letter set")
	if alphabet != nil && len(symbols) > 0 {
		// the contiguous hull of the alphabet must be entirely in it for the interval test below
		first := true
		for c := range alphabet {
			if first || c < lo {
				lo = c
			}
			if first || c > hi {
				hi = c
			}
			first = false
		}
		for c := lo; c <= hi; c++ {
			if !alphabet[c] {
				o0.Unknown("the letters GetIndexLetters ranges over are not one contiguous range")
				return
			}
		}
	}
	if hi < lo || len(symbols) == 0 {
		o0.Unknown("cannot read the emitted letter set (a counting loop over a rune range and a symbol-letter lookup) from GetIndexLetters")
		return
	}
	o0.OK(fmt.Sprintf("symbol letter(s) %v and the range %q..%q", symbols, rune(lo), rune(hi)))
	inSet := func(c int64) bool {
		if c >= lo && c <= hi {
			return true
		}
		for _, s := range symbols {
			if s == c {
				return true
			}
		}
		return false
	}
	// structural identity of "the same byte": index expression on the same string value with the same constant index
	same := func(a, b ssa.Value) bool {
		if a == b {
			return true
		}
		parts := func(v ssa.Value) (ssa.Value, ssa.Value, bool) {
			switch x := v.(type) {
			case *ssa.Lookup:
				return x.X, x.Index, true
			case *ssa.Index:
				return x.X, x.Index, true
			}
			return nil, nil, false
		}
		ax, ai, ok1 := parts(a)
		bx, bi, ok2 := parts(b)
		if ok1 && ok2 && ax == bx {
			ia, oka := constRune(ai)
			ib, okb := constRune(bi)
			return oka && okb && ia == ib
		}
		return false
	}
	strip := func(v ssa.Value) ssa.Value {
		for {
			switch x := v.(type) {
			case *ssa.Convert:
				v = x.X
			case *ssa.ChangeType:
				v = x.X
			default:
				return v
			}
		}
	}
	paths, capped := simplePaths(letter.Blocks[0], map[*ssa.BasicBlock]bool{}, 2000)
	if capped {
		r.Add("R19.g", "paths of getSurnameIndexLetter", p.Pos(letter.Pos()), "paths").Unknown("more than 2000 paths")
		return
	}
	ri := 0
	for _, b := range letter.Blocks {
		ret, ok := b.Instrs[len(b.Instrs)-1].(*ssa.Return)
		if !ok || len(ret.Results) != 1 {
			continue
		}
		ri++
		o := r.Add("R19.g", fmt.Sprintf("letter returned #%d", ri), p.Pos(ret.Pos()), "return of getSurnameIndexLetter")
		bad := ""
		n := 0
		for _, path := range paths {
			if path[len(path)-1] != b || !feasible(path) {
				continue
			}
			n++
			val := ret.Results[0]
			if ph, isPhi := val.(*ssa.Phi); isPhi && ph.Block() == b && len(path) >= 2 {
				for i, q := range b.Preds {
					if q == path[len(path)-2] {
						val = ph.Edges[i]
					}
				}
			}
			if c, ok := constRune(val); ok {
				if _, isK := val.(*ssa.Const); isK {
					if !inSet(c) {
						bad = fmt.Sprintf("returns the constant %q, which GetIndexLetters never emits", rune(c))
					}
					continue
				}
			}
			target := strip(val)
			iv := ival{math.Inf(-1), math.Inf(1)}
			for i, blk := range path[:len(path)-1] {
				iff, ok := blk.Instrs[len(blk.Instrs)-1].(*ssa.If)
				if !ok {
					continue
				}
				outcome := path[i+1] == blk.Succs[0]
				bo, ok := iff.Cond.(*ssa.BinOp)
				if !ok {
					continue
				}
				x, y, op := bo.X, bo.Y, bo.Op
				if _, isK := x.(*ssa.Const); isK {
					x, y = y, x
					op = map[token.Token]token.Token{token.LSS: token.GTR, token.GTR: token.LSS, token.LEQ: token.GEQ, token.GEQ: token.LEQ, token.EQL: token.EQL, token.NEQ: token.NEQ}[op]
				}
				kc, isK := y.(*ssa.Const)
				if !isK || kc.Value == nil || kc.Value.Kind() != constant.Int || !same(strip(x), target) {
					continue
				}
				k, _ := constant.Int64Val(kc.Value)
				if !outcome {
					op = map[token.Token]token.Token{token.LSS: token.GEQ, token.GEQ: token.LSS, token.GTR: token.LEQ, token.LEQ: token.GTR, token.EQL: token.NEQ, token.NEQ: token.EQL}[op]
				}
				switch op {
				case token.LSS:
					iv.meet(math.Inf(-1), float64(k-1))
				case token.LEQ:
					iv.meet(math.Inf(-1), float64(k))
				case token.GTR:
					iv.meet(float64(k+1), math.Inf(1))
				case token.GEQ:
					iv.meet(float64(k), math.Inf(1))
				case token.EQL:
					iv.meet(float64(k), float64(k))
				}
			}
			if iv.lo > iv.hi {
				continue // infeasible
			}
			if !(iv.lo >= float64(lo) && iv.hi <= float64(hi)) {
				bad = fmt.Sprintf("on a path the returned letter is only known to lie in [%v, %v], not inside %q..%q: a surname starting with such a character is linked to a list page individuals-<letter>.html that the publisher never generates", iv.lo, iv.hi, rune(lo), rune(hi))
			}
		}
		switch {
		case n == 0:
			o.OK("unreachable")
		case bad != "":
			o.Fail(bad)
		default:
			o.OK(fmt.Sprintf("%d path(s): symbol letter or a byte tested into the emitted range", n))
		}
	}
	_ = load.PkgHTML
}
