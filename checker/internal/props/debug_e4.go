package props

import (
	"fmt"
	"sort"
	"strings"

	"gedverif/internal/cg"
	"gedverif/internal/e4"
	"gedverif/internal/load"
)

// effects:<pkg>:<func>
func init() {
	debugHooks["effects"] = func(p *load.Prog, parts []string) {
		fn := lookupFunc(p, parts[1], parts[2])
		if fn == nil {
			fmt.Println("not found")
			return
		}
		g := cg.New(p, false)
		a := e4.New(p, g, fn)
		a.MarkGo = true
		if len(parts) > 4 {
			a.Watch = map[string]bool{parts[4]: true}
		}
		a.Run(nil)
		for _, w := range a.Watched {
			var ts, as []string
			for _, o := range w.Val.List() {
				ts = append(ts, a.Describe(o))
			}
			for _, o := range w.Addr.List() {
				as = append(as, a.Describe(o))
			}
			fmt.Printf("WATCH %s at %s\n   val: %s\n   addr: %s\n   stack: %s\n", w.Field, p.Pos(w.Instr.Pos()), strings.Join(ts, "; "), strings.Join(as, "; "), strings.Join(w.Stack, " > "))
		}
		fmt.Printf("over budget: %v; unknowns: %d\n", a.Over, len(a.Unknowns))
		for _, w := range a.SortedWrites() {
			var ts []string
			for _, o := range w.Target.List() {
				ts = append(ts, a.Describe(o))
			}
			sort.Strings(ts)
			fmt.Printf("%s %-10s %-40s go=%v in %s\n    targets: %s\n    stack: %s\n", p.Pos(w.Instr.Pos()), w.Class, w.Field, w.InGo, load.FuncName(w.Fn), strings.Join(ts, "; "), strings.Join(w.Stack, " > "))
		}
		if len(parts) > 3 {
			fmt.Println(a.DumpHeap(parts[3]))
		}
		for i, r := range a.RootRet {
			var ts []string
			for _, o := range a.StructClosure(r).List() {
				ts = append(ts, a.Describe(o))
			}
			sort.Strings(ts)
			fmt.Printf("result %d (structural closure): %s\n", i, strings.Join(ts, "; "))
		}
	}
}
